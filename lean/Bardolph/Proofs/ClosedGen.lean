import Bardolph.Proofs.Closed
/-!
The code generator produces closed code (`C06`, `gen_closed`): every statement of a
well-scoped script compiles to a `ClosedAt` piece.
-/
set_option linter.unusedSimpArgs false
set_option linter.unusedVariables false

namespace Bardolph
namespace Closed
open Gen Wf

/-! ## well-scoped scripts -/

mutual
  /-- every call names a known routine -/
  def wsExpr (K : List String) : Expr → Bool
    | .lit _ => true
    | .var _ => true
    | .reg _ => true
    | .call f _ as => K.contains f && wsArgs K as
    | .un _ e => wsExpr K e
    | .bin _ a b => wsExpr K a && wsExpr K b
    | .paren e => wsExpr K e
  def wsRv (K : List String) : Rv → Bool
    | .lit _ => true
    | .var _ => true
    | .reg _ => true
    | .expr e => wsExpr K e
    | .call f _ as => K.contains f && wsArgs K as
  def wsArgs (K : List String) : Args → Bool
    | .nil => true
    | .cons a r => wsRv K a && wsArgs K r
end

def wsORv (K : List String) : Option Rv → Bool
  | none => true
  | some v => wsRv K v

def wsRange (K : List String) (r : Range) : Bool := wsRv K r.first && wsORv K r.last

def wsORange (K : List String) : Option Range → Bool
  | none => true
  | some r => wsRange K r

def wsWith (K : List String) : Option WithClause → Bool
  | none => true
  | some (.fromTo _ a b) => wsRv K a && wsRv K b
  | some (.cycle _ s) => wsORv K s

def wsIterItem (K : List String) : IterItem → Bool
  | .light n => wsRv K n
  | .group n => wsRv K n
  | .location n => wsRv K n
  | .all => true

def wsHdr (K : List String) : LoopHdr → Bool
  | .forever => true
  | .count n => wsRv K n
  | .while_ c => wsRv K c
  | .range _ a b => wsRv K a && wsRv K b
  | .interp n _ a b => wsRv K n && wsRv K a && wsRv K b
  | .cycle n _ s => wsRv K n && wsORv K s
  | .all _ w => wsWith K w
  | .groups _ w => wsWith K w
  | .locations _ w => wsWith K w
  | .iter items _ w => items.all (wsIterItem K) && wsWith K w

mutual
  /-- `K`: the routine names a call may use; `inR`: inside a routine body; `inLoop`: inside a
  loop body of the current routine / main code / matrix block; `inMat`: inside a matrix block -/
  def wsStmt (K : List String) (inR inLoop inMat : Bool) : Stmt → Bool
    | .setReg _ v => wsRv K v
    | .units _ => true
    | .actAll _ => true
    | .setDefault _ => true
    | .action _ _ ops => wsOperands K inR inMat ops
    | .get v => wsRv K v
    | .wait => true
    | .timeAt _ => true
    | .assign _ v => wsRv K v
    | .defMacro _ _ => true
    | .defRoutine _ _ body => !inR && wsBlock K true false false body
    | .call f _ as => K.contains f && wsArgs K as
    | .ret v => inR && wsORv K v
    | .ite c t e =>
      wsRv K c && wsBlock K inR inLoop inMat t &&
        (match e with
         | some b => wsBlock K inR inLoop inMat b
         | none => true)
    | .repeat_ h body => wsHdr K h && wsBlock K inR true inMat body
    | .brk => inLoop
    | .print v => wsRv K v
    | .println v => wsORv K v
    | .printf _ as => wsArgs K as
    | .stage rows cols _ => wsORange K rows && wsORange K cols
  def wsBlock (K : List String) (inR inLoop inMat : Bool) : Block → Bool
    | .nil => true
    | .cons s rest => wsStmt K inR inLoop inMat s && wsBlock K inR inLoop inMat rest
  def wsOperand (K : List String) (inR inMat : Bool) : Operand_ → Bool
    | .light _ => true
    | .group _ => true
    | .location _ => true
    | .zone _ r => wsRange K r
    | .matrixInline _ rows cols _ => !inMat && wsORange K rows && wsORange K cols
    | .matrixBlock _ body => !inMat && wsBlock K inR false true body
  def wsOperands (K : List String) (inR inMat : Bool) : Operands → Bool
    | .nil => true
    | .cons o rest => wsOperand K inR inMat o && wsOperands K inR inMat rest
end

variable {inR il : Bool} {K : List String}

/-! ## the two control shapes of the generator -/

theorem closed_genIf_none {cond t : Code} {a : Abs} {sb : St}
    (hc : ClosedB inR il K cond (none, a) sb) (ht : ClosedB inR il K t (none, a) sb) :
    ClosedB inR il K (genIf cond t none) (none, a) sb := by
  simp only [genIf, List.append_assoc]
  exact closed_jump1 hc ht (by decide) (by omega)

theorem closed_genIf_some {cond t e : Code} {a : Abs} {sb : St}
    (hc : ClosedB inR il K cond (none, a) sb) (ht : ClosedB inR il K t (none, a) sb)
    (he : ClosedB inR il K e (none, a) sb) :
    ClosedB inR il K (genIf cond t (some e)) (none, a) sb := by
  simp only [genIf, List.append_assoc]
  exact closed_jump2 hc ht he (by decide) (by decide) (by unfold Bound2; omega)
    (by unfold Bound2; omega)

/-- `assembleLoop` is `LOOP; W; END_LOOP` with the `break` markers of the closed piece `W`
patched -/
theorem assembleLoop_shape {pre test bodyPre post : List Instr} {body : Code} {a : Abs}
    (hpre : ClosedB inR true K (ins pre) (none, loopA a) (none, loopA a))
    (htest : ClosedB inR true K (ins test) (none, loopA a) (none, loopA a))
    (hbp : ClosedB inR true K (ins bodyPre) (none, loopA a) (none, loopA a))
    (hbody : ClosedB inR true K body (none, loopA a) (none, loopA a))
    (hpost : ClosedB inR true K (ins post) (none, loopA a) (none, loopA a)) :
    ∃ (o1 o2 : Int) (W : Code),
      W = (ins pre ++ ins test) ++ ([G.i (.jump .ifFalse o1)] ++
        ((ins bodyPre ++ body ++ ins post) ++ ([G.i (.jump .always o2)] ++ []))) ∧
      ClosedB inR true K W (none, loopA a) (none, loopA a) ∧
      assembleLoop pre test bodyPre body post =
        patchBreaks ([G.i .loop] ++ W) 0 (W.length + 1) ++ [G.i .endLoop] := by
  have hinner := (hbp.append hbody).append hpost
  have hL := hpre.append htest
  generalize hI : ins bodyPre ++ body ++ ins post = inner at hinner
  have hW := closed_jump2 (c1 := .ifFalse) (c2 := .always) (o1 := (inner.length : Int) + 2)
    (o2 := -((test.length : Int) + 1 + inner.length)) hL hinner (ClosedB.nil _ _)
    (by decide) (by decide)
    (by unfold Bound2; simp only [List.length_append, length_ins, List.length_nil]; omega)
    (by
      left
      have e : ((((ins pre ++ ins test).length : Nat) : Int) + 1 + (inner.length : Int) +
          -((test.length : Int) + 1 + inner.length)) = ((ins pre).length : Nat) := by
        simp only [List.length_append, length_ins]; omega
      rw [e]
      refine ⟨by omega, by simp only [List.length_append, length_ins]; omega, ?_⟩
      rw [Int.toNat_natCast, run_append_left _ (Nat.le_refl _), hpre.fin])
  refine ⟨_, _, _, rfl, hW, ?_⟩
  subst hI
  simp only [assembleLoop, ins_append, ins_cons, ins_nil, List.append_assoc, List.length_append,
    length_ins, List.length_cons, List.length_nil, List.singleton_append, List.cons_append,
    List.nil_append, List.append_nil]
  have h1 : ∀ (p t x : Nat), ((p + 1 : Nat) : Int) - ((p + 1 + t + 1 + x : Nat) : Int) =
      -((t : Int) + 1 + (x : Nat)) := by intros; omega
  have h2 : ∀ p t b c d : Nat, p + 1 + t + 1 + (b + (c + d)) + 1 =
      p + (t + (b + (c + (d + (0 + 1))) + 1)) + 1 := by intros; omega
  rw [h1, h2]

theorem closed_assembleLoop {pre test bodyPre post : List Instr} {body : Code} {a : Abs}
    {sb' : St} {il' : Bool}
    (hpre : ClosedB inR true K (ins pre) (none, loopA a) (none, loopA a))
    (htest : ClosedB inR true K (ins test) (none, loopA a) (none, loopA a))
    (hbp : ClosedB inR true K (ins bodyPre) (none, loopA a) (none, loopA a))
    (hbody : ClosedB inR true K body (none, loopA a) (none, loopA a))
    (hpost : ClosedB inR true K (ins post) (none, loopA a) (none, loopA a)) :
    ClosedB inR il' K (assembleLoop pre test bodyPre body post) (none, a) sb' := by
  obtain ⟨o1, o2, W, -, hW, e⟩ := assembleLoop_shape hpre htest hbp hbody hpost
  rw [e]
  exact closed_loop hW

/-! ## expressions, rvalues, calls: straight-line code -/

def pendA (a : Abs) : Abs := { a with frames := .pend :: a.frames }

theorem goes1 (x : Instr) (h : (plainI x && !isJump x) = true) (a : Abs) :
    Goes inR K [x] (none, a) (none, a) :=
  Goes.plain (by simp only [List.all_cons, h, List.all_nil, Bool.and_self]) a

theorem plain_pushLit (v : Val) : (plainI (pushLit v) && !isJump (pushLit v)) = true := by
  rfl

theorem goes_ctx (a : Abs) : Goes inR K [.ctx] (none, a) (none, pendA a) :=
  Goes.single (by simp [trU, isRoutine, transfer, pendA]) rfl rfl

theorem goes_param (p : String) (src : Src) (a : Abs) :
    Goes inR K [.param p src] (none, pendA a) (none, pendA a) :=
  Goes.single (by simp [trU, isRoutine, transfer, pendA]) rfl rfl

theorem goes_jsr {f : String} (hf : K.contains f = true) (a : Abs) :
    Goes inR K [.jsr f, .endCtx] (none, pendA a) (none, a) := by
  have h1 : trU inR K (none, pendA a) (.jsr f) = some (none, a) := by
    cases a
    have hf' : f ∈ K := List.contains_iff_mem.mp hf
    simp [trU, isRoutine, transfer, pendA, hf']
  have h2 : trU inR K (none, a) .endCtx = some (none, a) := by
    simp [trU, isRoutine, transfer]
  refine ⟨?_, ?_, ?_⟩
  · simp [scanOk, jsrOk, h1, h2]
  · simp [run_cons_succ, h1, h2]
  · intro x hx
    simp only [List.mem_cons, List.mem_nil_iff, or_false] at hx
    rcases hx with rfl | rfl <;> rfl

theorem goes_call_of {f : String} {ps : List String} {as : Args} (hf : K.contains f = true)
    (hp : ∀ a, Goes inR K (genParams ps as) (none, pendA a) (none, pendA a)) (a : Abs) :
    Goes inR K (genCall f ps as) (none, a) (none, a) := by
  rw [genCall]
  exact ((goes_ctx a).append (hp a)).append (goes_jsr hf a)

mutual
  theorem goes_expr : ∀ (e : Expr), wsExpr K e = true →
      ∀ a, Goes inR K (genExpr e) (none, a) (none, a)
    | .lit v, _, a => by rw [genExpr]; exact goes1 _ (plain_pushLit v) a
    | .var n, _, a => by rw [genExpr]; exact goes1 _ rfl a
    | .reg r, _, a => by rw [genExpr]; exact goes1 _ rfl a
    | .call f ps as, h, a => by
      rw [genExpr]
      simp only [wsExpr, Bool.and_eq_true] at h
      exact (goes_call_of h.1 (goes_params ps as h.2) a).append (goes1 _ rfl a)
    | .un minus e, h, a => by
      rw [genExpr]
      simp only [wsExpr] at h
      refine (goes_expr e h a).append ?_
      cases minus
      · exact Goes.nil _
      · exact Goes.plain rfl a
    | .bin op x y, h, a => by
      rw [genExpr]
      simp only [wsExpr, Bool.and_eq_true] at h
      exact ((goes_expr x h.1 a).append (goes_expr y h.2 a)).append (goes1 _ rfl a)
    | .paren e, h, a => by
      rw [genExpr]
      simp only [wsExpr] at h
      exact goes_expr e h a
  theorem goes_rv : ∀ (v : Rv), wsRv K v = true →
      ∀ (d : Dest) a, Goes inR K (genRv v d) (none, a) (none, a)
    | .lit v, _, .to d, a => by rw [genRv]; exact goes1 _ rfl a
    | .lit v, _, .push, a => by rw [genRv]; exact goes1 _ (plain_pushLit v) a
    | .var n, _, .to d, a => by rw [genRv]; exact goes1 _ rfl a
    | .var n, _, .push, a => by rw [genRv]; exact goes1 _ rfl a
    | .reg r, _, .to d, a => by
      rw [genRv]
      split
      · exact Goes.nil _
      · exact goes1 _ rfl a
    | .reg r, _, .push, a => by rw [genRv]; exact goes1 _ rfl a
    | .expr e, h, .to d, a => by
      rw [genRv]
      simp only [wsRv] at h
      exact (goes_expr e h a).append (goes1 _ rfl a)
    | .expr e, h, .push, a => by
      rw [genRv]
      simp only [wsRv] at h
      exact goes_expr e h a
    | .call f ps as, h, .to d, a => by
      rw [genRv]
      simp only [wsRv, Bool.and_eq_true] at h
      refine (goes_call_of h.1 (goes_params ps as h.2) a).append ?_
      split
      · exact Goes.nil _
      · exact goes1 _ rfl a
    | .call f ps as, h, .push, a => by
      rw [genRv]
      simp only [wsRv, Bool.and_eq_true] at h
      exact (goes_call_of h.1 (goes_params ps as h.2) a).append (goes1 _ rfl a)
  theorem goes_params : ∀ (ps : List String) (as : Args), wsArgs K as = true →
      ∀ a, Goes inR K (genParams ps as) (none, pendA a) (none, pendA a)
    | ps, .nil, _, a => by
      have : genParams ps .nil = [] := by cases ps <;> simp [genParams]
      rw [this]; exact Goes.nil _
    | [], .cons v rest, _, a => by
      have : genParams [] (.cons v rest) = [] := by simp [genParams]
      rw [this]; exact Goes.nil _
    | p :: ps, .cons v rest, h, a => by
      rw [genParams]
      simp only [wsArgs, Bool.and_eq_true] at h
      exact ((goes_rv v h.1 (.to result) (pendA a)).append (goes_param p _ a)).append
        (goes_params ps rest h.2 a)
end

theorem goes_call {f : String} {ps : List String} {as : Args} (hf : K.contains f = true)
    (h : wsArgs K as = true) (a : Abs) :
    Goes inR K (genCall f ps as) (none, a) (none, a) :=
  goes_call_of hf (goes_params ps as h) a

theorem goes_orv {v : Option Rv} (h : wsORv K v = true) (d : Dst) (a : Abs) :
    Goes inR K (match v with
      | some rv => genRv rv (.to d)
      | none => [.moveq .none d]) (none, a) (none, a) := by
  cases v with
  | none => exact goes1 _ rfl a
  | some rv => exact goes_rv rv h _ a


/-! ## instruction lists that are closed in every state -/

/-- closed from every abstract state, whatever the loop / break context -/
def CI (inR : Bool) (K : List String) (xs : List Instr) : Prop :=
  ∀ (a : Abs) (il : Bool) (sb : St), ClosedB inR il K (ins xs) (none, a) sb

theorem CI.nil : CI inR K [] := fun a il sb => ClosedB.nil _ _

theorem CI.append {xs ys : List Instr} (h1 : CI inR K xs) (h2 : CI inR K ys) :
    CI inR K (xs ++ ys) := fun a il sb => by
  rw [ins_append]; exact (h1 a il sb).append (h2 a il sb)

theorem CI.of_goes {xs : List Instr} (h : ∀ a, Goes inR K xs (none, a) (none, a)) : CI inR K xs :=
  fun a il sb => (h a).closed sb

theorem CI.of_flat {xs : List Instr} (h : flatB xs = true) : CI inR K xs :=
  fun a il sb => closed_flat h a sb

theorem CI.flatten {xss : List (List Instr)} (h : ∀ xs ∈ xss, CI inR K xs) :
    CI inR K xss.flatten := by
  induction xss with
  | nil => exact CI.nil
  | cons xs xss ih =>
    rw [List.flatten_cons]
    exact (h xs (by simp)).append (ih fun ys hy => h ys (by simp [hy]))

theorem ci_rv {v : Rv} (h : wsRv K v = true) (d : Dest) : CI inR K (genRv v d) :=
  CI.of_goes fun a => goes_rv v h d a

theorem ci_one (x : Instr) (h : (plainI x && !isJump x) = true) : CI inR K [x] :=
  CI.of_goes fun a => goes1 x h a

theorem ci_calcCounter : CI inR K calcCounter := CI.of_flat (by decide)
theorem ci_calcIncr : CI inR K calcIncr := CI.of_flat (by decide)
theorem ci_counterTest : CI inR K counterTest := CI.of_flat (by decide)
theorem ci_incCounter : CI inR K incCounter := CI.of_flat (by decide)

theorem ci_loopPost (idx : Option String) : CI inR K (loopPost idx) :=
  CI.of_flat (by cases idx <;> rfl)

theorem ci_indexVarRange {v : String} {x y : Rv} (hx : wsRv K x = true) (hy : wsRv K y = true)
    (isWith : Bool) : CI inR K (indexVarRange v x y isWith) := by
  unfold indexVarRange
  refine (((ci_rv hx _).append (ci_rv hy _)).append (ci_one _ rfl)).append ?_
  cases isWith
  · exact ci_calcIncr
  · exact ci_calcCounter

theorem ci_cycleVarRange {v : String} {start : Option Rv} (h : wsORv K start = true) :
    CI inR K (cycleVarRange v start) := by
  unfold cycleVarRange
  simp only [List.append_assoc]
  refine CI.append ?_ (CI.append (ci_one _ rfl) (CI.of_flat (by decide)))
  cases start with
  | none => exact ci_one _ rfl
  | some s => exact ci_rv h _

theorem ci_withClause {w : Option WithClause} (h : wsWith K w = true) :
    CI inR K (withClause w) := by
  cases w with
  | none => exact CI.nil
  | some w =>
    cases w with
    | fromTo v x y =>
      simp only [wsWith, Bool.and_eq_true] at h
      exact ci_indexVarRange h.1 h.2 false
    | cycle v s => exact ci_cycleVarRange h

theorem ci_iterLights : CI inR K iterLights := CI.of_flat (by decide)
theorem ci_iterSets (o : Operand) : CI inR K (iterSets o) := CI.of_flat (by cases o <;> decide)
theorem ci_iterMembers (o : Operand) : CI inR K (iterMembers o) :=
  CI.of_flat (by cases o <;> decide)

theorem ci_iterItem {it : IterItem} (h : wsIterItem K it = true) : CI inR K (iterItem it) := by
  cases it with
  | light n => exact ((ci_rv h _).append (ci_one _ rfl)).append ci_incCounter
  | group n => exact (ci_rv h _).append (ci_iterMembers _)
  | location n => exact (ci_rv h _).append (ci_iterMembers _)
  | all => exact ci_iterLights

theorem ci_iterItems {items : List IterItem} (h : items.all (wsIterItem K) = true) :
    CI inR K (iterItems items) := by
  unfold iterItems
  apply CI.flatten
  intro xs hx
  obtain ⟨it, hit, rfl⟩ := List.mem_map.mp hx
  exact ci_iterItem (List.all_eq_true.mp h it (List.mem_reverse.mp hit))

/-! ## loops -/

/-- every loop form is `assembleLoop` around instruction lists that are closed in every state -/
theorem genLoop_parts {h : LoopHdr} (hh : wsHdr K h = true) :
    ∃ pre test bp post, (∀ body, genLoop h body = assembleLoop pre test bp body post) ∧
      (∀ inR, CI inR K pre) ∧ (∀ inR, CI inR K test) ∧ (∀ inR, CI inR K bp) ∧
      (∀ inR, CI inR K post) := by
  cases h with
  | forever =>
    exact ⟨_, _, _, _, fun body => by rw [genLoop], fun _ => CI.nil, fun _ => ci_one _ rfl,
      fun _ => CI.nil, fun _ => CI.nil⟩
  | while_ c =>
    exact ⟨_, _, _, _, fun body => by rw [genLoop], fun _ => CI.nil, fun _ => ci_rv hh _,
      fun _ => CI.nil, fun _ => CI.nil⟩
  | count n =>
    exact ⟨_, _, _, _, fun body => by rw [genLoop], fun _ => ci_rv hh _, fun _ => ci_counterTest,
      fun _ => CI.nil, fun _ => ci_loopPost _⟩
  | range v x y =>
    simp only [wsHdr, Bool.and_eq_true] at hh
    exact ⟨_, _, _, _, fun body => by rw [genLoop], fun _ => ci_indexVarRange hh.1 hh.2 true,
      fun _ => ci_counterTest, fun _ => CI.nil, fun _ => ci_loopPost _⟩
  | interp n v x y =>
    simp only [wsHdr, Bool.and_eq_true] at hh
    exact ⟨_, _, _, _, fun body => by rw [genLoop],
      fun _ => (ci_rv hh.1.1 _).append (ci_indexVarRange hh.1.2 hh.2 false),
      fun _ => ci_counterTest, fun _ => CI.nil, fun _ => ci_loopPost _⟩
  | cycle n v start =>
    simp only [wsHdr, Bool.and_eq_true] at hh
    exact ⟨_, _, _, _, fun body => by rw [genLoop],
      fun _ => (ci_rv hh.1 _).append (ci_cycleVarRange hh.2),
      fun _ => ci_counterTest, fun _ => CI.nil, fun _ => ci_loopPost _⟩
  | all lv w =>
    exact ⟨_, _, _, _, fun body => by rw [genLoop],
      fun _ => ((ci_one _ rfl).append ci_iterLights).append (ci_withClause hh),
      fun _ => ci_counterTest, fun _ => ci_one _ rfl, fun _ => ci_loopPost _⟩
  | groups lv w =>
    exact ⟨_, _, _, _, fun body => by rw [genLoop],
      fun _ => ((ci_one _ rfl).append (ci_iterSets _)).append (ci_withClause hh),
      fun _ => ci_counterTest, fun _ => ci_one _ rfl, fun _ => ci_loopPost _⟩
  | locations lv w =>
    exact ⟨_, _, _, _, fun body => by rw [genLoop],
      fun _ => ((ci_one _ rfl).append (ci_iterSets _)).append (ci_withClause hh),
      fun _ => ci_counterTest, fun _ => ci_one _ rfl, fun _ => ci_loopPost _⟩
  | iter items lv w =>
    simp only [wsHdr, Bool.and_eq_true] at hh
    exact ⟨_, _, _, _, fun body => by rw [genLoop],
      fun _ => ((ci_one _ rfl).append (ci_iterItems hh.1)).append (ci_withClause hh.2),
      fun _ => ci_counterTest, fun _ => ci_one _ rfl, fun _ => ci_loopPost _⟩

theorem closed_genLoop {h : LoopHdr} {body : Code} {a : Abs} {sb' : St} {il' : Bool}
    (hh : wsHdr K h = true)
    (hbody : ClosedB inR true K body (none, loopA a) (none, loopA a)) :
    ClosedB inR il' K (genLoop h body) (none, a) sb' := by
  obtain ⟨pre, test, bp, post, e, h1, h2, h3, h4⟩ := genLoop_parts hh
  rw [e]
  exact closed_assembleLoop (h1 inR _ _ _) (h2 inR _ _ _) (h3 inR _ _ _) hbody (h4 inR _ _ _)

/-! ## statements -/

/-- the abstract states a statement can start in: no call under construction, matrix flag as
the scope says -/
def Entry (inMat : Bool) (a : Abs) : Prop :=
  a.frames.contains Kind.pend = false ∧ a.inMatrix = inMat

theorem Entry.loop {m : Bool} {a : Abs} (h : Entry m a) : Entry m (loopA a) := by
  obtain ⟨h1, h2⟩ := h
  refine ⟨?_, h2⟩
  simp only [loopA, List.contains_cons] at h1 ⊢
  simpa using h1

theorem Entry.mat {a : Abs} (h : Entry false a) : Entry true (matA a) := ⟨h.1, rfl⟩

theorem Entry.empty : Entry false Abs.empty := ⟨rfl, rfl⟩

theorem ClosedB.weaken {c : Code} {s sb sb' : St} (h : ClosedB inR false K c s sb) :
    ClosedB inR il K c s sb' :=
  ⟨h.ok, h.fin, h.jumps, fun k hk => by have := (h.brks k hk).1; cases this⟩

theorem ci_range {r : Range} (h : wsRange K r = true) (first last : Reg) :
    CI inR K (genRange first last r) := by
  unfold genRange
  simp only [wsRange, Bool.and_eq_true] at h
  refine (ci_rv h.1 _).append ?_
  cases hl : r.last with
  | none => exact ci_one _ rfl
  | some l =>
    rw [hl] at h
    exact ci_rv h.2 _

theorem ci_orange {r : Option Range} (h : wsORange K r = true) (first last : Reg) :
    CI inR K (match (generalizing := false) r with
      | some x => genRange first last x
      | none => []) := by
  cases r with
  | none => exact CI.nil
  | some x => exact ci_range h _ _

theorem ci_matrixRanges {rows cols : Option Range} (hr : wsORange K rows = true)
    (hc : wsORange K cols = true) (cf : Bool) : CI inR K (genMatrixRanges rows cols cf) := by
  unfold genMatrixRanges
  have h1 := ci_orange (inR := inR) hr .firstRow .lastRow
  have h2 := ci_orange (inR := inR) hc .firstColumn .lastColumn
  refine (((ci_one _ rfl).append ?_).append ?_).append ?_
  · split
    · exact h2.append h1
    · exact h1.append h2
  · split
    · exact CI.of_flat (by decide)
    · exact CI.nil
  · split
    · exact CI.of_flat (by decide)
    · exact CI.nil

theorem ci_outArgs : ∀ (as : Args), wsArgs K as = true → CI inR K (genOutArgs as)
  | .nil, _ => by rw [genOutArgs]; exact CI.nil
  | .cons v rest, h => by
    rw [genOutArgs]
    simp only [wsArgs, Bool.and_eq_true] at h
    exact ((ci_rv h.1 _).append (ci_one _ rfl)).append (ci_outArgs rest h.2)

theorem plain_genName (n : NameSpec) : (plainI (genName n) && !isJump (genName n)) = true := by
  cases n <;> rfl

theorem plain_opcodeOf (k : ActKind) : (plainI (opcodeOf k) && !isJump (opcodeOf k)) = true := by
  cases k <;> rfl

theorem ci_actPre (k : ActKind) : CI inR K (match k with
    | .on => [.moveq (.bool true) (.reg .power)]
    | .off => [.moveq (.bool false) (.reg .power)]
    | .set => []) := by
  cases k
  · exact CI.nil
  · exact ci_one _ rfl
  · exact ci_one _ rfl

theorem closed_matrix_operand {W : Code} {a : Abs} {sb : St} {x y : Instr}
    (hx : (plainI x && !isJump x) = true) (hy : (plainI y && !isJump y) = true)
    (ha : a.inMatrix = false) (hW : ClosedB inR il K W (none, matA a) sb) :
    ClosedB inR il K (G.i x :: G.i .matrix :: (W ++ [G.i .endMatrix, G.i y])) (none, a) sb := by
  have h1 : ClosedB inR il K (ins [x]) (none, a) sb := ci_one x hx _ _ _
  have h2 : ClosedB inR il K (ins [y]) (none, a) sb := ci_one y hy _ _ _
  have := (h1.append (closed_matrix ha hW)).append h2
  simpa [List.append_assoc] using this

mutual
  theorem closed_stmt : ∀ (s : Stmt) (inR inLoop inMat : Bool),
      wsStmt K inR inLoop inMat s = true → ∀ a, Entry inMat a →
      ClosedB inR inLoop K (genStmt s) (none, a) (none, a)
    | .setReg r v, inR, inLoop, inMat, h, a, _ => by
      rw [genStmt]; exact ci_rv h _ _ _ _
    | .units m, inR, inLoop, inMat, h, a, _ => by
      rw [genStmt]; exact ci_one _ rfl _ _ _
    | .actAll k, inR, inLoop, inMat, h, a, _ => by
      cases k <;> (rw [genStmt]; exact CI.of_flat (by decide) _ _ _)
    | .setDefault w, inR, inLoop, inMat, h, a, _ => by
      cases w <;> (rw [genStmt]; exact CI.of_flat (by decide) _ _ _)
    | .action k w ops, inR, inLoop, inMat, h, a, he => by
      simp only [wsStmt] at h
      have hw : CI inR K (if w = true then [Instr.wait] else []) := by
        cases w
        · exact CI.nil
        · exact ci_one _ rfl
      cases k
      · rw [genStmt]
        exact ((CI.nil _ _ _).append (hw _ _ _)).append
          (closed_operands _ ops inR inMat h a he inLoop _)
      · rw [genStmt]
        exact ((ci_one _ rfl _ _ _).append (hw _ _ _)).append
          (closed_operands _ ops inR inMat h a he inLoop _)
      · rw [genStmt]
        exact ((ci_one _ rfl _ _ _).append (hw _ _ _)).append
          (closed_operands _ ops inR inMat h a he inLoop _)
    | .get name, inR, inLoop, inMat, h, a, _ => by
      rw [genStmt]
      simp only [wsStmt] at h
      exact ((ci_rv h _).append (CI.of_flat (by decide))) _ _ _
    | .wait, inR, inLoop, inMat, h, a, _ => by
      rw [genStmt]; exact ci_one _ rfl _ _ _
    | .timeAt ps, inR, inLoop, inMat, h, a, _ => by
      cases ps with
      | nil => rw [genStmt]; exact CI.nil _ _ _
      | cons p rest =>
        rw [genStmt]
        refine CI.of_goes (fun a => Goes.plain ?_ a) _ _ _
        simp [List.all_map, plainI, isJump]
    | .assign n v, inR, inLoop, inMat, h, a, _ => by
      rw [genStmt]; exact ci_rv h _ _ _ _
    | .defMacro n v, inR, inLoop, inMat, h, a, _ => by
      rw [genStmt]; exact ci_one _ rfl _ _ _
    | .defRoutine n ps body, inR, inLoop, inMat, h, a, _ => by
      rw [genStmt]
      simp only [wsStmt, Bool.and_eq_true, Bool.not_eq_true'] at h
      obtain ⟨hR, hb⟩ := h
      rw [hR]
      have := closed_routine (il := inLoop) (a := a) (sb := (none, a)) n
        (closed_block body true false false hb Abs.empty Entry.empty)
      simpa [List.append_assoc] using this
    | .call f ps as, inR, inLoop, inMat, h, a, _ => by
      rw [genStmt]
      simp only [wsStmt, Bool.and_eq_true] at h
      exact CI.of_goes (fun a => goes_call h.1 h.2 a) _ _ _
    | .ret v, inR, inLoop, inMat, h, a, he => by
      simp only [wsStmt, Bool.and_eq_true] at h
      obtain ⟨hR, hv⟩ := h
      rw [hR]
      have hp : ¬ Kind.pend ∈ a.frames := by
        intro hm
        have := List.contains_iff_mem.mpr hm
        rw [he.1] at this
        cases this
      have hr : Goes true K [.ret] (none, a) (none, a) := by
        refine Goes.single ?_ rfl rfl
        simp [trU, isRoutine, transfer, hp]
      cases v with
      | none => rw [genStmt]; exact Goes.closed ((goes1 _ rfl a).append hr) _
      | some rv => rw [genStmt]; exact Goes.closed ((goes_rv rv hv _ a).append hr) _
    | .ite c t none, inR, inLoop, inMat, h, a, he => by
      simp only [wsStmt, Bool.and_eq_true] at h
      obtain ⟨⟨hc, ht⟩, hel⟩ := h
      rw [genStmt]
      exact closed_genIf_none (ci_rv hc _ _ _ _) (closed_block t _ _ _ ht a he)
    | .ite c t (some b), inR, inLoop, inMat, h, a, he => by
      simp only [wsStmt, Bool.and_eq_true] at h
      obtain ⟨⟨hc, ht⟩, hel⟩ := h
      rw [genStmt]
      exact closed_genIf_some (ci_rv hc _ _ _ _) (closed_block t _ _ _ ht a he)
        (closed_block b _ _ _ hel a he)
    | .repeat_ hd body, inR, inLoop, inMat, h, a, he => by
      rw [genStmt]
      simp only [wsStmt, Bool.and_eq_true] at h
      exact closed_genLoop h.1 (closed_block body _ _ _ h.2 (loopA a) he.loop)
    | .brk, inR, inLoop, inMat, h, a, _ => by
      rw [genStmt]
      simp only [wsStmt] at h
      rw [h]
      exact closed_brk a
    | .print v, inR, inLoop, inMat, h, a, _ => by
      rw [genStmt]
      simp only [wsStmt] at h
      exact ((ci_rv h _).append (CI.of_flat (by decide))) _ _ _
    | .println v, inR, inLoop, inMat, h, a, _ => by
      simp only [wsStmt] at h
      cases v with
      | none => rw [genStmt]; exact (CI.append CI.nil (ci_one _ rfl)) _ _ _
      | some rv =>
        rw [genStmt]
        exact (((ci_rv h _).append (CI.of_flat (by decide))).append (ci_one _ rfl)) _ _ _
    | .printf fmt as, inR, inLoop, inMat, h, a, _ => by
      rw [genStmt]
      simp only [wsStmt] at h
      exact ((ci_outArgs as h).append (ci_one _ rfl)) _ _ _
    | .stage rows cols cf, inR, inLoop, inMat, h, a, _ => by
      rw [genStmt]
      simp only [wsStmt, Bool.and_eq_true] at h
      exact ((ci_matrixRanges h.1 h.2 cf).append (ci_one _ rfl)) _ _ _
  theorem closed_block : ∀ (b : Block) (inR inLoop inMat : Bool),
      wsBlock K inR inLoop inMat b = true → ∀ a, Entry inMat a →
      ClosedB inR inLoop K (genBlock b) (none, a) (none, a)
    | .nil, inR, inLoop, inMat, h, a, _ => by
      rw [genBlock]; exact ClosedB.nil _ _
    | .cons s rest, inR, inLoop, inMat, h, a, he => by
      rw [genBlock]
      simp only [wsBlock, Bool.and_eq_true] at h
      exact (closed_stmt s _ _ _ h.1 a he).append (closed_block rest _ _ _ h.2 a he)
  theorem closed_operand : ∀ (o : Operand_) (inR inMat : Bool),
      wsOperand K inR inMat o = true → ∀ a, Entry inMat a → ∀ (il : Bool) (sb : St),
      ClosedB inR il K (genOperand o) (none, a) sb
    | .light n, inR, inMat, h, a, _, il, sb => by
      rw [genOperand]
      exact ((ci_one _ (plain_genName n)).append (ci_one _ rfl)) _ _ _
    | .group n, inR, inMat, h, a, _, il, sb => by
      rw [genOperand]
      exact ((ci_one _ (plain_genName n)).append (ci_one _ rfl)) _ _ _
    | .location n, inR, inMat, h, a, _, il, sb => by
      rw [genOperand]
      exact ((ci_one _ (plain_genName n)).append (ci_one _ rfl)) _ _ _
    | .zone n r, inR, inMat, h, a, _, il, sb => by
      rw [genOperand]
      simp only [wsOperand] at h
      exact (((ci_one _ (plain_genName n)).append (ci_range h _ _)).append (ci_one _ rfl)) _ _ _
    | .matrixInline n rows cols cf, inR, inMat, h, a, he, il, sb => by
      rw [genOperand]
      simp only [wsOperand, Bool.and_eq_true, Bool.not_eq_true'] at h
      obtain ⟨⟨hM, hr⟩, hc⟩ := h
      rw [hM] at he
      have hW : ClosedB inR il K (ins (genMatrixRanges rows cols cf ++ [.color])) (none, matA a) sb :=
        ((ci_matrixRanges hr hc cf).append (ci_one _ rfl)) _ _ _
      have := closed_matrix_operand (x := genName n)
        (y := .moveq (.operand .matrixLight) (.reg .operand)) (plain_genName n) rfl he.2 hW
      simpa [List.append_assoc] using this
    | .matrixBlock n body, inR, inMat, h, a, he, il, sb => by
      rw [genOperand]
      simp only [wsOperand, Bool.and_eq_true, Bool.not_eq_true'] at h
      obtain ⟨hM, hb⟩ := h
      rw [hM] at he
      have hW : ClosedB inR il K (genBlock body) (none, matA a) sb :=
        (closed_block body inR false true hb (matA a) he.mat).weaken
      have h1 := closed_matrix_operand (x := genName n) (y := genName n) (plain_genName n)
        (plain_genName n) he.2 hW
      have h2 : ClosedB inR il K (ins [Instr.moveq (.operand .matrixLight) (.reg .operand)]) (none, a) sb :=
        ci_one _ rfl _ _ _
      have := h1.append h2
      simpa [List.append_assoc] using this
  theorem closed_operands (k : ActKind) : ∀ (ops : Operands) (inR inMat : Bool),
      wsOperands K inR inMat ops = true → ∀ a, Entry inMat a → ∀ (il : Bool) (sb : St),
      ClosedB inR il K (genOperands k ops) (none, a) sb
    | .nil, inR, inMat, h, a, _, il, sb => by
      rw [genOperands]; exact ClosedB.nil _ _
    | .cons o rest, inR, inMat, h, a, he, il, sb => by
      rw [genOperands]
      simp only [wsOperands, Bool.and_eq_true] at h
      exact ((closed_operand o _ _ h.1 a he il sb).append (ci_one _ (plain_opcodeOf k) _ _ _)).append
        (closed_operands k rest _ _ h.2 a he il sb)
end

end Closed
end Bardolph
