import Bardolph.Proofs.JobControlAspects
/-!
Helper lemmas for C08, layer 3: the inductive invariant of the job-control transition system
for the code as it stands (`Variant.fixed`).
-/
set_option linter.unusedSimpArgs false
set_option linter.unusedVariables false
namespace Bardolph.JC

structure Inv (s : State) : Prop where
  noPinned : ∀ t, pinnedPc (s.thr t).pc = false
  clientKind : ∀ n, jobOnly (s.thr (.client n)).pc = false
  fresh : ∀ a, s.next ≤ a → (s.thr (.job a)).pc = .unborn
  loc : ∀ t, Loc s (s.thr t).pc
  selfName : ∀ a b k, (s.thr (.job a)).pc = .name2 b k → k.isBgdone = true → b = a
  kindQ : ∀ a, qOnly (s.thr (.job a)).pc = true → (s.info a).bg = false
  kindB : ∀ a, bOnly (s.thr (.job a)).pc = true → (s.info a).bg = true
  activeInfo : ∀ a, s.active = some a → a < s.next ∧ (s.info a).bg = false
  queueInfo : ∀ a ∈ s.queue, a < s.next ∧ (s.info a).bg = false ∧ (s.thr (.job a)).pc = .unborn
  queueNodup : s.queue.Nodup
  bgInfo : ∀ a ∈ s.bg, a < s.next ∧ (s.info a).bg = true
  bgNodup : s.bg.Nodup
  liveActive : ∀ a, liveQ (s.thr (.job a)).pc = true → (s.info a).bg = false → s.active = some a
  liveBg : ∀ a, liveB (s.thr (.job a)).pc = true → (s.info a).bg = true → a ∈ s.bg
  activeWitness : ∀ a, s.active = some a →
    liveQ (s.thr (.job a)).pc = true ∨ ∃ t, starter a (s.thr t).pc = true
  bgWitness : ∀ a ∈ s.bg, liveB (s.thr (.job a)).pc = true ∨ ∃ t, bstarter a (s.thr t).pc = true
  oblig : s.active = none → s.queue ≠ [] → ∃ t, obligated (s.thr t).pc = true
  spec : specRun Spec.init s.events = some ⟨s.queue, s.active⟩
  noErr : s.errs = []

theorem Inv.init (progs : Nat → List Op) : Inv (init progs) := by
  constructor <;> intros <;>
    first
    | (rename_i t; cases t <;> simp [JC.init, pinnedPc, Loc]; done)
    | simp_all [JC.init, jobOnly, liveQ, liveB, qOnly, bOnly, specRun, Spec.init]

/-! ### shape of a step -/

theorem apply_benign (s : State) (t : Tid) (e : Eff) (h : e.shared = false) :
    (apply s t e).queue = s.queue ∧ (apply s t e).active = s.active ∧ (apply s t e).bg = s.bg ∧
    (apply s t e).info = s.info ∧ (apply s t e).next = s.next ∧ (apply s t e).thr = s.thr := by
  cases e <;> simp_all [apply, Eff.shared] <;> split <;> simp

/-- a step either is one of the ten shared-state writes or leaves the shared state alone -/
inductive StepCase (s : State) (t : Tid) : State → Prop
  | shared {p p' e} : (s.thr t).pc = p → SharedShape s t p p' e →
      StepCase s t (apply (setPc s t p' false) t e)
  | benign {p' e pop} (c : Choice) : act .fixed s t c (s.thr t).pc = ⟨p', e, pop⟩ →
      e.shared = false → StepCase s t (apply (setPc s t p' pop) t e)

theorem step_case {s : State} (t : Tid) (c : Choice) (hnp : pinnedPc (s.thr t).pc = false) :
    StepCase s t (step .fixed s t c) := by
  unfold JC.step
  by_cases hs : (act .fixed s t c (s.thr t).pc).eff.shared = true
  · have sh := act_shared_shape s t c _ hnp hs
    have hpop : (act .fixed s t c (s.thr t).pc).popTodo = false := by
      cases hp : (act .fixed s t c (s.thr t).pc).popTodo
      · rfl
      · have := act_popTodo _ _ _ _ _ hp
        rw [this] at hs
        simp [act] at hs
        split at hs <;> simp [Eff.shared] at hs
    simp only [hpop]
    exact StepCase.shared rfl sh
  · exact StepCase.benign c rfl (by simpa using hs)

theorem exclusive {s : State} (hl : LockInv s) {t u : Tid} (ht : 0 < (s.thr t).pc.crit)
    (hu : 0 < (s.thr u).pc.crit) : t = u := by
  have h1 := hl.crit t
  have h2 := hl.crit u
  by_cases e1 : s.owner = some t
  · by_cases e2 : s.owner = some u
    · rw [e1] at e2; exact Option.some.inj e2
    · simp [e2] at h2; omega
  · simp [e1] at h1; omega

theorem SharedShape.crit_pos {s t p p' e} (sh : SharedShape s t p p' e) : 0 < p.crit := by
  cases sh <;> simp [Pc.crit, ExK.crit_pos, NameK.crit]


/-- the program counters after a step -/
theorem step_pc (v : Variant) (s : State) (t : Tid) (c : Choice) (u : Tid) :
    ((step v s t c).thr u).pc =
      match (act v s t c (s.thr t).pc).eff with
      | .mkThread b => if u = .job b then .created else if u = t then (act v s t c (s.thr t).pc).pc else (s.thr u).pc
      | .startThread b => if u = .job b then .boot else if u = t then (act v s t c (s.thr t).pc).pc else (s.thr u).pc
      | _ => if u = t then (act v s t c (s.thr t).pc).pc else (s.thr u).pc := by
  unfold JC.step
  generalize act v s t c (s.thr t).pc = a
  obtain ⟨p', e, pop⟩ := a
  cases e <;> simp [apply, setPc, setJobPc] <;> (repeat' split) <;> simp_all



theorem step_noPinned {s : State} (h : Inv s) (t : Tid) (c : Choice) (u : Tid) :
    pinnedPc ((step .fixed s t c).thr u).pc = false := by
  rw [step_pc]
  have hp := act_not_pinned s t c _ (h.noPinned t)
  have hu := h.noPinned u
  split <;> (repeat' split) <;> simp_all [pinnedPc]

theorem step_clientKind {s : State} (h : Inv s) (t : Tid) (c : Choice) (n : Nat) :
    jobOnly ((step .fixed s t c).thr (.client n)).pc = false := by
  rw [step_pc]
  have hu := h.clientKind n
  have hb := act_jobOnly_back .fixed s t c (s.thr t).pc
  split <;> (repeat' split) <;> simp_all [jobOnly, liveQ, liveB]
  all_goals
    rename_i ht
    subst ht
    cases hj : jobOnly (act .fixed s (.client n) c (s.thr (.client n)).pc).pc
    · simpa [jobOnly] using hj
    · have := hb hj; simp [jobOnly] at this; simp_all



theorem benign_view (s : State) (t : Tid) (p' : Pc) (pop : Bool) (e : Eff)
    (hb : e.shared = false) :
    (apply (setPc s t p' pop) t e).queue = s.queue ∧
    (apply (setPc s t p' pop) t e).active = s.active ∧
    (apply (setPc s t p' pop) t e).bg = s.bg ∧
    (apply (setPc s t p' pop) t e).info = s.info ∧
    (apply (setPc s t p' pop) t e).next = s.next ∧
    ((apply (setPc s t p' pop) t e).thr t).pc = p' ∧
    ∀ u, u ≠ t → (apply (setPc s t p' pop) t e).thr u = s.thr u := by
  obtain ⟨hq, hac, hbg, hi, hn, hthr⟩ := apply_benign (setPc s t p' pop) t e hb
  refine ⟨hq, hac, hbg, hi, hn, by rw [hthr]; simp [setPc], fun u hu => by rw [hthr]; simp [setPc, hu]⟩

theorem step_fresh {s : State} (h : Inv s) (t : Tid) (c : Choice) (a : Nat) :
    (step .fixed s t c).next ≤ a → ((step .fixed s t c).thr (.job a)).pc = .unborn := by
  have hloc := h.loc t
  have hcase := step_case t c (h.noPinned t)
  generalize step .fixed s t c = s' at hcase ⊢
  rcases hcase with ⟨hp, sh⟩ | ⟨c', hact, hb⟩
  · rw [hp] at hloc
    have hfr := h.fresh a
    have hne : (s.thr (.job a)).pc = .unborn → Tid.job a ≠ t := by
      rintro hold rfl; rw [hold] at hp; cases sh <;> cases hp
    rcases sh with ⟨bk, l⟩ | ⟨l⟩ | ⟨bk, b⟩ | ⟨k, hqne⟩ | ⟨b, rfl⟩ | _ | ⟨b⟩ | ⟨b, hbin⟩ |
        ⟨b, k, hun⟩ | ⟨b, k, hcr⟩
    case pop =>
      cases hq : s.queue <;> simp [apply, setPc, setJobPc, hq] <;> intro ha <;>
        simp [hne (hfr ha), hfr ha]
    case mk =>
      simp [apply, setPc, setJobPc]
      intro ha
      have hb : b < s.next := by
        cases k <;> simp [Loc] at hloc
        · exact (h.activeInfo b hloc.1).1
        · exact hloc.1
      have : a ≠ b := by omega
      simp [this, hne (hfr ha), hfr ha]
    case start =>
      simp [apply, setPc, setJobPc]
      intro ha
      have : a ≠ b := by rintro rfl; rw [hfr ha] at hcr; cases hcr
      simp [this, hne (hfr ha), hfr ha]
    all_goals
      simp [apply, setPc, setJobPc]
      intro ha
      have hold := hfr (by omega)
      have hn' := hne hold
      simp_all
  · obtain ⟨hq, hac, hbg, hi, hn, hpc, hthr⟩ := benign_view s t _ _ _ hb
    rw [hn]
    intro ha
    have hold := h.fresh a ha
    by_cases e : Tid.job a = t
    · subst e
      rw [hold, act_unborn] at hact
      simp at hact
      rw [hpc]; exact hact.1.symm
    · rw [hthr _ e]; exact hold


theorem Loc_stable {s s' : State} (p : Pc) (hq : s'.queue = s.queue) (ha : s'.active = s.active)
    (hb : s'.bg = s.bg) (hi : s'.info = s.info) (hn : s'.next = s.next)
    (hu : ∀ a, (s.thr (.job a)).pc = .unborn → (s'.thr (.job a)).pc = .unborn)
    (hc : ∀ a, (s.thr (.job a)).pc = .created → (s'.thr (.job a)).pc = .created) :
    Loc s p → Loc s' p := by
  cases p <;> simp only [Loc, hq, ha, hb, hi, hn] <;> (try exact id) <;>
    (try (rename_i k; cases k <;> simp only [Loc, hq, ha, hb, hi, hn])) <;>
    (try exact id) <;>
    first
    | (rintro ⟨h1, h2, h3, h4⟩; exact ⟨h1, h2, h3, hu _ h4⟩)
    | (rintro ⟨h1, h2, h3, h4⟩; exact ⟨h1, h2, h3, hc _ h4⟩)
    | (rintro ⟨h1, h2, h3⟩; exact ⟨h1, h2, hu _ h3⟩)
    | (rintro ⟨h1, h2⟩; exact ⟨h1, hc _ h2⟩)
    | (rintro ⟨a, h1, h2, h3⟩; exact ⟨a, h1, h2, hu _ h3⟩)

theorem step_loc {s : State} (h : Inv s) (hl : LockInv s) (t : Tid) (c : Choice) (u : Tid) :
    Loc (step .fixed s t c) ((step .fixed s t c).thr u).pc := by
  have hloc := h.loc t
  have hcase := step_case t c (h.noPinned t)
  generalize step .fixed s t c = s' at hcase ⊢
  rcases hcase with ⟨hp, sh⟩ | @⟨p', e, pop, c', hact, hb⟩
  · rw [hp] at hloc
    have hcrit := sh.crit_pos
    by_cases hu : u = t
    · subst hu
      have hne : ∀ a, (s.thr (.job a)).pc = .unborn → Tid.job a ≠ u := by
        rintro a hold rfl; rw [hold] at hp; cases sh <;> cases hp
      rcases sh with ⟨bk, l⟩ | ⟨l⟩ | ⟨bk, b⟩ | ⟨k, hqne⟩ | ⟨b, rfl⟩ | _ | ⟨b⟩ | ⟨b, hbin⟩ |
          ⟨b, k, hun⟩ | ⟨b, k, hcr⟩
      case allocQ =>
        have hf := h.fresh s.next (Nat.le_refl _)
        have hnq : s.next ∉ s.queue := fun hm => Nat.lt_irrefl _ (h.queueInfo _ hm).1
        simp [apply, setPc, setJobPc, Loc, hne _ hf, hf, hnq]
      case allocB =>
        have hf := h.fresh s.next (Nat.le_refl _)
        have hnq : s.next ∉ s.bg := fun hm => Nat.lt_irrefl _ (h.bgInfo _ hm).1
        simp [apply, setPc, setJobPc, Loc, hne _ hf, hf, hnq]
      case pop =>
        cases hq : s.queue with
        | nil => exact absurd hq hqne
        | cons a rest =>
          have hun := (h.queueInfo a (by simp [hq])).2.2
          have hnd := h.queueNodup
          rw [hq] at hnd
          simp [apply, setPc, setJobPc, Loc, hq, hne _ hun, hun, (List.nodup_cons.mp hnd).1]
      case bgAdd =>
        simp [Loc] at hloc
        simp [apply, setPc, setJobPc, Loc, hloc, hne _ hloc.2.2.2]
      case mk =>
        have hnb : u ≠ .job b := (hne b hun).symm
        cases k <;> simp [Loc] at hloc <;> simp [apply, setPc, setJobPc, Loc, hloc, hnb]
      case start =>
        have hnb : u ≠ .job b := by rintro rfl; rw [hcr] at hp; cases hp
        simp [apply, setPc, setJobPc, Loc, hnb]
      all_goals simp [apply, setPc, setJobPc, Loc]
    · have hu0 : (s.thr u).pc.crit = 0 := by
        cases hz : (s.thr u).pc.crit
        · rfl
        · have := exclusive hl (t := u) (u := t) (by omega) (by rw [hp]; exact hcrit)
          exact absurd this hu
      apply Loc_of_crit_zero
      rcases sh with ⟨bk, l⟩ | ⟨l⟩ | ⟨bk, b⟩ | ⟨k, hqne⟩ | ⟨b, rfl⟩ | _ | ⟨b⟩ | ⟨b, hbin⟩ |
          ⟨b, k, hun⟩ | ⟨b, k, hcr⟩
      case pop => cases hq : s.queue <;> simp [apply, setPc, setJobPc, hq, hu, hu0]
      case mk =>
        by_cases hj : u = .job b
        · subst hj; simp [apply, setPc, setJobPc, Pc.crit]
        · simp [apply, setPc, setJobPc, hj, hu, hu0]
      case start =>
        by_cases hj : u = .job b
        · subst hj; simp [apply, setPc, setJobPc, Pc.crit]
        · simp [apply, setPc, setJobPc, hj, hu, hu0]
      all_goals simp [apply, setPc, setJobPc, hu, hu0]
  · obtain ⟨hq, hac, hbg, hi, hn, hpc, hthr⟩ := benign_view s t p' pop e hb
    have hun : ∀ a, (s.thr (.job a)).pc = .unborn → ((apply (setPc s t p' pop) t e).thr (.job a)).pc = .unborn := by
      intro a ha
      by_cases e : Tid.job a = t
      · subst e; rw [ha, act_unborn] at hact; simp at hact; rw [hpc]; exact hact.1.symm
      · rw [hthr _ e]; exact ha
    have hcr : ∀ a, (s.thr (.job a)).pc = .created → ((apply (setPc s t p' pop) t e).thr (.job a)).pc = .created := by
      intro a ha
      by_cases e : Tid.job a = t
      · subst e; rw [ha, act_created] at hact; simp at hact; rw [hpc]; exact hact.1.symm
      · rw [hthr _ e]; exact ha
    apply Loc_stable _ hq hac hbg hi hn hun hcr
    by_cases hu : u = t
    · subst hu
      rw [hpc]
      have := act_loc s u c' _ hloc (by rw [hact]; exact hb)
      rw [hact] at this
      exact this
    · rw [hthr _ hu]; exact h.loc u


theorem step_next_ge (v : Variant) (s : State) (t : Tid) (c : Choice) :
    s.next ≤ (step v s t c).next := by
  unfold JC.step
  generalize act v s t c (s.thr t).pc = a
  obtain ⟨p', e, pop⟩ := a
  cases e <;> simp [apply, setPc, setJobPc] <;> (repeat' split) <;> simp

theorem step_info_of_lt (v : Variant) (s : State) (t : Tid) (c : Choice) (a : Nat)
    (ha : a < s.next) : (step v s t c).info a = s.info a := by
  unfold JC.step
  generalize act v s t c (s.thr t).pc = x
  obtain ⟨p', e, pop⟩ := x
  cases e <;> simp [apply, setPc, setJobPc] <;> (repeat' split) <;> (try simp) <;> omega

theorem Inv.lt_next {s : State} (h : Inv s) {a : Nat} (hne : (s.thr (.job a)).pc ≠ .unborn) :
    a < s.next := by
  by_cases hlt : a < s.next
  · exact hlt
  · exact absurd (h.fresh a (by omega)) hne

/-- the pc of an arbitrary thread after a step, as a disjunction -/
theorem step_pc_cases (s : State) (t : Tid) (c : Choice) (u : Tid) :
    ((step .fixed s t c).thr u).pc = (s.thr u).pc ∨
    (u = t ∧ ((step .fixed s t c).thr u).pc = (act .fixed s t c (s.thr t).pc).pc) ∨
    (∃ a, u = .job a ∧ (act .fixed s t c (s.thr t).pc).eff = .mkThread a ∧
      ((step .fixed s t c).thr u).pc = .created) ∨
    (∃ a, u = .job a ∧ (act .fixed s t c (s.thr t).pc).eff = .startThread a ∧
      ((step .fixed s t c).thr u).pc = .boot) := by
  rw [step_pc]
  split
  · rename_i b hb
    by_cases e : u = .job b
    · subst e; simp [hb]
    · by_cases et : u = t
      · subst et; simp [e]
      · simp [e, et]
  · rename_i b hb
    by_cases e : u = .job b
    · subst e; simp [hb]
    · by_cases et : u = t
      · subst et; simp [e]
      · simp [e, et]
  · by_cases et : u = t
    · subst et; simp
    · simp [et]

theorem step_selfName {s : State} (h : Inv s) (t : Tid) (c : Choice) (a b : Nat) (k : NameK) :
    ((step .fixed s t c).thr (.job a)).pc = .name2 b k → k.isBgdone = true → b = a := by
  intro hpc hk
  rcases step_pc_cases s t c (.job a) with e | ⟨e1, e2⟩ | ⟨a', _, _, e⟩ | ⟨a', _, _, e⟩
  · rw [e] at hpc; exact h.selfName a b k hpc hk
  · rw [e2] at hpc
    rcases act_name2_bgdone .fixed s t c _ b k hpc hk with ⟨_, ht⟩ | hp
    · rw [← e1] at ht; cases ht; rfl
    · rw [← e1] at hp; exact h.selfName a b k hp hk
  · rw [e] at hpc; cases hpc
  · rw [e] at hpc; cases hpc

theorem step_kindQ {s : State} (h : Inv s) (t : Tid) (c : Choice) (a : Nat) :
    qOnly ((step .fixed s t c).thr (.job a)).pc = true → ((step .fixed s t c).info a).bg = false := by
  intro hq
  rcases step_pc_cases s t c (.job a) with e | ⟨e1, e2⟩ | ⟨a', _, _, e⟩ | ⟨a', _, _, e⟩
  · rw [e] at hq
    have hlt : a < s.next := h.lt_next (by intro hu; rw [hu] at hq; simp [qOnly] at hq)
    rw [step_info_of_lt _ _ _ _ _ hlt]; exact h.kindQ a hq
  · rw [e2] at hq
    rcases act_qOnly_back .fixed s t c _ hq with hp | ⟨hp, a', ht, hbg⟩
    · rw [← e1] at hp
      have hlt : a < s.next := h.lt_next (by intro hu; rw [hu] at hp; simp [qOnly] at hp)
      rw [step_info_of_lt _ _ _ _ _ hlt]; exact h.kindQ a hp
    · rw [← e1] at ht hp; cases ht
      have hlt : a < s.next := h.lt_next (by rw [hp]; simp)
      rw [step_info_of_lt _ _ _ _ _ hlt]; exact hbg
  · rw [e] at hq; simp [qOnly] at hq
  · rw [e] at hq; simp [qOnly] at hq

theorem step_kindB {s : State} (h : Inv s) (t : Tid) (c : Choice) (a : Nat) :
    bOnly ((step .fixed s t c).thr (.job a)).pc = true → ((step .fixed s t c).info a).bg = true := by
  intro hq
  rcases step_pc_cases s t c (.job a) with e | ⟨e1, e2⟩ | ⟨a', _, _, e⟩ | ⟨a', _, _, e⟩
  · rw [e] at hq
    have hlt : a < s.next := h.lt_next (by intro hu; rw [hu] at hq; simp [bOnly] at hq)
    rw [step_info_of_lt _ _ _ _ _ hlt]; exact h.kindB a hq
  · rw [e2] at hq
    rcases act_bOnly_back .fixed s t c _ hq with hp | ⟨hp, a', ht, hbg⟩
    · rw [← e1] at hp
      have hlt : a < s.next := h.lt_next (by intro hu; rw [hu] at hp; simp [bOnly] at hp)
      rw [step_info_of_lt _ _ _ _ _ hlt]; exact h.kindB a hp
    · rw [← e1] at ht hp; cases ht
      have hlt : a < s.next := h.lt_next (by rw [hp]; simp)
      rw [step_info_of_lt _ _ _ _ _ hlt]; exact hbg
  · rw [e] at hq; simp [bOnly] at hq
  · rw [e] at hq; simp [bOnly] at hq


theorem step_activeInfo {s : State} (h : Inv s) (t : Tid) (c : Choice) (a : Nat) :
    (step .fixed s t c).active = some a →
      a < (step .fixed s t c).next ∧ ((step .fixed s t c).info a).bg = false := by
  have hge := step_next_ge .fixed s t c
  have hinfo := step_info_of_lt .fixed s t c a
  have hcase := step_case t c (h.noPinned t)
  generalize step .fixed s t c = s' at hcase hge hinfo ⊢
  have key : s.active = some a ∨ a ∈ s.queue → a < s'.next ∧ (s'.info a).bg = false := by
    rintro (ha | ha)
    · have := h.activeInfo a ha
      exact ⟨by omega, by rw [hinfo this.1]; exact this.2⟩
    · have := h.queueInfo a ha
      exact ⟨by omega, by rw [hinfo this.1]; exact this.2.1⟩
  rcases hcase with ⟨hp, sh⟩ | @⟨p', e, pop, c', hact, hb⟩
  · rcases sh with ⟨bk, l⟩ | ⟨l⟩ | ⟨bk, b⟩ | ⟨k, hqne⟩ | ⟨b, rfl⟩ | _ | ⟨b⟩ | ⟨b, hbin⟩ |
        ⟨b, k, hun⟩ | ⟨b, k, hcr⟩
    case pop =>
      cases hq : s.queue with
      | nil => exact absurd hq hqne
      | cons x rest =>
        simp [apply, setPc, setJobPc, hq] at key ⊢
        rintro rfl
        exact key (Or.inr (by simp [hq]))
    case actNone => simp [apply, setPc, setJobPc]
    all_goals
      simp [apply, setPc, setJobPc] at key ⊢
      intro ha
      exact key (Or.inl ha)
  · obtain ⟨hq, hac, hbg, hi, hn, hpc, hthr⟩ := benign_view s t p' pop e hb
    rw [hac]; intro ha; exact key (Or.inl ha)

theorem step_queueInfo {s : State} (h : Inv s) (t : Tid) (c : Choice) (a : Nat) :
    a ∈ (step .fixed s t c).queue →
      a < (step .fixed s t c).next ∧ ((step .fixed s t c).info a).bg = false ∧
        ((step .fixed s t c).thr (.job a)).pc = .unborn := by
  have hloc := h.loc t
  have hge := step_next_ge .fixed s t c
  have hinfo := step_info_of_lt .fixed s t c a
  have hcase := step_case t c (h.noPinned t)
  generalize step .fixed s t c = s' at hcase hge hinfo ⊢
  rcases hcase with ⟨hp, sh⟩ | @⟨p', e, pop, c', hact, hb⟩
  · rw [hp] at hloc
    have hne : ∀ a, (s.thr (.job a)).pc = .unborn → Tid.job a ≠ t := by
      rintro a hold rfl; rw [hold] at hp; cases sh <;> cases hp
    have old : a ∈ s.queue → a < s.next ∧ (s.info a).bg = false ∧ (s.thr (.job a)).pc = .unborn ∧
        Tid.job a ≠ t := fun ha => by
      have := h.queueInfo a ha; exact ⟨this.1, this.2.1, this.2.2, hne a this.2.2⟩
    rcases sh with ⟨bk, l⟩ | ⟨l⟩ | ⟨bk, b⟩ | ⟨k, hqne⟩ | ⟨b, rfl⟩ | _ | ⟨b⟩ | ⟨b, hbin⟩ |
        ⟨b, k, hun⟩ | ⟨b, k, hcr⟩
    case allocQ =>
      simp [apply, setPc, setJobPc] at hinfo ⊢
      intro ha; obtain ⟨h1, h2, h3, h4⟩ := old ha
      have : a ≠ s.next := by omega
      simp [this, h2, h3, h4]; omega
    case allocB =>
      simp [apply, setPc, setJobPc] at hinfo ⊢
      intro ha; obtain ⟨h1, h2, h3, h4⟩ := old ha
      have : a ≠ s.next := by omega
      simp [this, h2, h3, h4]; omega
    case enq =>
      simp [Loc] at hloc
      have hb4 := hne b hloc.2.2.2
      cases bk <;> simp [apply, setPc, setJobPc] <;> rintro (ha | ha)
      all_goals first
        | (subst ha; simp [hloc, hb4])
        | (obtain ⟨h1, h2, h3, h4⟩ := old ha; simp [h1, h2, h3, h4])
    case pop =>
      cases hq : s.queue with
      | nil => exact absurd hq hqne
      | cons x rest =>
        simp [apply, setPc, setJobPc, hq]
        intro ha; obtain ⟨h1, h2, h3, h4⟩ := old (by simp [hq, ha]); simp [h1, h2, h3, h4]
    case clear => simp [apply, setPc, setJobPc]
    case mk =>
      simp [apply, setPc, setJobPc]
      intro ha; obtain ⟨h1, h2, h3, h4⟩ := old ha
      have : a ≠ b := by
        rintro rfl
        cases k <;> simp [Loc] at hloc
        · exact hloc.2.1 ha
        · rw [hloc.2.1] at h2; cases h2
      simp [this, h1, h2, h3, h4]
    case start =>
      simp [apply, setPc, setJobPc]
      intro ha; obtain ⟨h1, h2, h3, h4⟩ := old ha
      have : a ≠ b := by rintro rfl; rw [h3] at hcr; cases hcr
      simp [this, h1, h2, h3, h4]
    all_goals
      simp [apply, setPc, setJobPc]
      intro ha; obtain ⟨h1, h2, h3, h4⟩ := old ha
      simp at h4
      simp [h1, h2, h3, h4]
  · obtain ⟨hq, hac, hbg, hi, hn, hpc, hthr⟩ := benign_view s t p' pop e hb
    rw [hq, hn, hi]; intro ha
    obtain ⟨h1, h2, h3⟩ := h.queueInfo a ha
    refine ⟨h1, h2, ?_⟩
    by_cases et : Tid.job a = t
    · subst et; rw [h3, act_unborn] at hact; simp at hact; rw [hpc]; exact hact.1.symm
    · rw [hthr _ et]; exact h3

theorem step_queueNodup {s : State} (h : Inv s) (t : Tid) (c : Choice) :
    (step .fixed s t c).queue.Nodup := by
  have hloc := h.loc t
  have hnd := h.queueNodup
  have hcase := step_case t c (h.noPinned t)
  generalize step .fixed s t c = s' at hcase ⊢
  rcases hcase with ⟨hp, sh⟩ | @⟨p', e, pop, c', hact, hb⟩
  · rw [hp] at hloc
    rcases sh with ⟨bk, l⟩ | ⟨l⟩ | ⟨bk, b⟩ | ⟨k, hqne⟩ | ⟨b, rfl⟩ | _ | ⟨b⟩ | ⟨b, hbin⟩ |
        ⟨b, k, hun⟩ | ⟨b, k, hcr⟩
    case enq =>
      simp [Loc] at hloc
      cases bk <;> simp [apply, setPc, setJobPc, hnd, hloc, List.nodup_append]
      rintro a ha rfl; exact hloc.2.2.1 ha
    case pop =>
      cases hq : s.queue with
      | nil => exact absurd hq hqne
      | cons x rest =>
        rw [hq] at hnd
        simp [apply, setPc, setJobPc, hq, (List.nodup_cons.mp hnd).2]
    all_goals simp [apply, setPc, setJobPc, hnd]
  · obtain ⟨hq, hac, hbg, hi, hn, hpc, hthr⟩ := benign_view s t p' pop e hb
    rw [hq]; exact hnd

theorem step_bgInfo {s : State} (h : Inv s) (t : Tid) (c : Choice) (a : Nat) :
    a ∈ (step .fixed s t c).bg →
      a < (step .fixed s t c).next ∧ ((step .fixed s t c).info a).bg = true := by
  have hloc := h.loc t
  have hge := step_next_ge .fixed s t c
  have hinfo := step_info_of_lt .fixed s t c a
  have hcase := step_case t c (h.noPinned t)
  generalize step .fixed s t c = s' at hcase hge hinfo ⊢
  have key : a ∈ s.bg → a < s'.next ∧ (s'.info a).bg = true := fun ha => by
    have := h.bgInfo a ha
    exact ⟨by omega, by rw [hinfo this.1]; exact this.2⟩
  rcases hcase with ⟨hp, sh⟩ | @⟨p', e, pop, c', hact, hb⟩
  · rw [hp] at hloc
    rcases sh with ⟨bk, l⟩ | ⟨l⟩ | ⟨bk, b⟩ | ⟨k, hqne⟩ | ⟨b, rfl⟩ | _ | ⟨b⟩ | ⟨b, hbin⟩ |
        ⟨b, k, hun⟩ | ⟨b, k, hcr⟩
    case pop => cases hq : s.queue <;> simp [apply, setPc, setJobPc, hq] at key ⊢ <;> exact key
    case bgAdd =>
      simp [Loc] at hloc
      simp [apply, setPc, setJobPc] at key ⊢
      rintro (ha | rfl)
      · exact key ha
      · exact ⟨hloc.1, hloc.2.1⟩
    case bgDel =>
      simp [apply, setPc, setJobPc] at key ⊢
      intro ha; exact key (List.mem_of_mem_erase ha)
    all_goals
      simp [apply, setPc, setJobPc] at key ⊢
      exact key
  · obtain ⟨hq, hac, hbg, hi, hn, hpc, hthr⟩ := benign_view s t p' pop e hb
    rw [hbg]; exact key

theorem step_bgNodup {s : State} (h : Inv s) (t : Tid) (c : Choice) :
    (step .fixed s t c).bg.Nodup := by
  have hloc := h.loc t
  have hnd := h.bgNodup
  have hcase := step_case t c (h.noPinned t)
  generalize step .fixed s t c = s' at hcase ⊢
  rcases hcase with ⟨hp, sh⟩ | @⟨p', e, pop, c', hact, hb⟩
  · rw [hp] at hloc
    rcases sh with ⟨bk, l⟩ | ⟨l⟩ | ⟨bk, b⟩ | ⟨k, hqne⟩ | ⟨b, rfl⟩ | _ | ⟨b⟩ | ⟨b, hbin⟩ |
        ⟨b, k, hun⟩ | ⟨b, k, hcr⟩
    case pop => cases hq : s.queue <;> simp [apply, setPc, setJobPc, hq, hnd]
    case bgAdd =>
      simp [Loc] at hloc
      simp [apply, setPc, setJobPc, hnd, hloc, List.nodup_append]
      rintro a ha rfl; exact hloc.2.2.1 ha
    case bgDel => simp [apply, setPc, setJobPc]; exact hnd.erase _
    all_goals simp [apply, setPc, setJobPc, hnd]
  · obtain ⟨hq, hac, hbg, hi, hn, hpc, hthr⟩ := benign_view s t p' pop e hb
    rw [hbg]; exact hnd


theorem step_liveActive {s : State} (h : Inv s) (t : Tid) (c : Choice) (a : Nat) :
    liveQ ((step .fixed s t c).thr (.job a)).pc = true → ((step .fixed s t c).info a).bg = false →
      (step .fixed s t c).active = some a := by
  have hloc := h.loc t
  have hinfo := step_info_of_lt .fixed s t c a
  have hcase := step_case t c (h.noPinned t)
  generalize step .fixed s t c = s' at hcase hinfo ⊢
  have old : liveQ (s.thr (.job a)).pc = true → (s'.info a).bg = false → s.active = some a := by
    intro hl hb
    have hlt : a < s.next := h.lt_next (by intro hu; rw [hu] at hl; simp [liveQ] at hl)
    rw [hinfo hlt] at hb
    exact h.liveActive a hl hb
  rcases hcase with ⟨hp, sh⟩ | @⟨p', e, pop, c', hact, hb⟩
  · rw [hp] at hloc
    by_cases et : Tid.job a = t
    · subst et
      rcases sh with ⟨bk, l⟩ | ⟨l⟩ | ⟨bk, b⟩ | ⟨k, hqne⟩ | ⟨b, hb⟩ | _ | ⟨b⟩ | ⟨b, hbin⟩ |
          ⟨b, k, hun⟩ | ⟨b, k, hcr⟩
      case pop => cases hq : s.queue <;> simp [apply, setPc, setJobPc, hq, liveQ]
      case mk =>
        have : a ≠ b := by rintro rfl; rw [hun] at hp; cases hp
        simp [apply, setPc, setJobPc, liveQ, this]
      case start =>
        have : a ≠ b := by rintro rfl; rw [hcr] at hp; cases hp
        simp [apply, setPc, setJobPc, liveQ, this]
      all_goals simp [apply, setPc, setJobPc, liveQ]
    · rcases sh with ⟨bk, l⟩ | ⟨l⟩ | ⟨bk, b⟩ | ⟨k, hqne⟩ | ⟨b, hb⟩ | _ | ⟨b⟩ | ⟨b, hbin⟩ |
          ⟨b, k, hun⟩ | ⟨b, k, hcr⟩
      case pop =>
        simp [Loc] at hloc
        cases hq : s.queue <;> simp [apply, setPc, setJobPc, hq, et] at old ⊢ <;>
          intro h1 h2 <;> have := old h1 h2 <;> simp [hloc] at this
      case actNone =>
        subst hb
        have hbq := h.liveActive b (by rw [hp]; rfl) (h.kindQ b (by rw [hp]; rfl))
        simp [apply, setPc, setJobPc, et] at old ⊢
        intro h1
        cases hbga : (s.info a).bg
        · have := old h1 hbga; rw [hbq] at this; cases this; exact absurd rfl et
        · rfl
      case mk =>
        by_cases e : a = b
        · subst e; simp [apply, setPc, setJobPc, liveQ]
        · simp [apply, setPc, setJobPc, e, et] at old ⊢; exact old
      case start =>
        by_cases e : a = b
        · subst e
          cases k <;> simp [Loc] at hloc <;> simp [apply, setPc, setJobPc, hloc]
        · simp [apply, setPc, setJobPc, e, et] at old ⊢; exact old
      all_goals
        simp [apply, setPc, setJobPc, et] at old ⊢
        exact old
  · obtain ⟨hq, hac, hbg, hi, hn, hpc, hthr⟩ := benign_view s t p' pop e hb
    rw [hac]
    by_cases et : Tid.job a = t
    · subst et
      rw [hpc]
      intro hl
      have := act_liveQ_back .fixed s (.job a) c' _ (by rw [hact]; exact hl)
      exact old this
    · rw [hthr _ et]; exact old

theorem step_liveBg {s : State} (h : Inv s) (t : Tid) (c : Choice) (a : Nat) :
    liveB ((step .fixed s t c).thr (.job a)).pc = true → ((step .fixed s t c).info a).bg = true →
      a ∈ (step .fixed s t c).bg := by
  have hloc := h.loc t
  have hinfo := step_info_of_lt .fixed s t c a
  have hcase := step_case t c (h.noPinned t)
  generalize step .fixed s t c = s' at hcase hinfo ⊢
  have old : liveB (s.thr (.job a)).pc = true → (s'.info a).bg = true → a ∈ s.bg := by
    intro hl hb
    have hlt : a < s.next := h.lt_next (by intro hu; rw [hu] at hl; simp [liveB] at hl)
    rw [hinfo hlt] at hb
    exact h.liveBg a hl hb
  rcases hcase with ⟨hp, sh⟩ | @⟨p', e, pop, c', hact, hb⟩
  · rw [hp] at hloc
    by_cases et : Tid.job a = t
    · subst et
      rcases sh with ⟨bk, l⟩ | ⟨l⟩ | ⟨bk, b⟩ | ⟨k, hqne⟩ | ⟨b, hb⟩ | _ | ⟨b⟩ | ⟨b, hbin⟩ |
          ⟨b, k, hun⟩ | ⟨b, k, hcr⟩
      case pop => cases hq : s.queue <;> simp [apply, setPc, setJobPc, hq, liveB]
      case mk =>
        have : a ≠ b := by rintro rfl; rw [hun] at hp; cases hp
        simp [apply, setPc, setJobPc, liveB, this]
      case start =>
        have : a ≠ b := by rintro rfl; rw [hcr] at hp; cases hp
        simp [apply, setPc, setJobPc, liveB, this]
      all_goals simp [apply, setPc, setJobPc, liveB]
    · rcases sh with ⟨bk, l⟩ | ⟨l⟩ | ⟨bk, b⟩ | ⟨k, hqne⟩ | ⟨b, hb⟩ | _ | ⟨b⟩ | ⟨b, hbin⟩ |
          ⟨b, k, hun⟩ | ⟨b, k, hcr⟩
      case pop =>
        cases hq : s.queue <;> simp [apply, setPc, setJobPc, hq, et] at old ⊢ <;> exact old
      case bgAdd =>
        simp [apply, setPc, setJobPc, et] at old ⊢
        intro h1 h2; exact Or.inl (old h1 h2)
      case bgDel =>
        have hab : a ≠ b := by
          rintro rfl
          cases t with
          | client n => have := h.clientKind n; rw [hp] at this; simp [jobOnly, liveB, NameK.isBgdone] at this
          | job x =>
            have := h.selfName x a .bgdone hp rfl
            exact et (by rw [this])
        simp [apply, setPc, setJobPc, et] at old ⊢
        intro h1 h2
        exact (List.mem_erase_of_ne hab).mpr (old h1 h2)
      case mk =>
        by_cases e : a = b
        · subst e; simp [apply, setPc, setJobPc, liveB]
        · simp [apply, setPc, setJobPc, e, et] at old ⊢; exact old
      case start =>
        by_cases e : a = b
        · subst e
          cases k <;> simp [Loc] at hloc
          · have := (h.activeInfo a hloc.1).2
            simp [apply, setPc, setJobPc, this]
          · simp [apply, setPc, setJobPc, hloc]
        · simp [apply, setPc, setJobPc, e, et] at old ⊢; exact old
      all_goals
        simp [apply, setPc, setJobPc, et] at old ⊢
        exact old
  · obtain ⟨hq, hac, hbg, hi, hn, hpc, hthr⟩ := benign_view s t p' pop e hb
    rw [hbg]
    by_cases et : Tid.job a = t
    · subst et
      rw [hpc]
      intro hl
      have := act_liveB_back .fixed s (.job a) c' _ (by rw [hact]; exact hl)
      exact old this
    · rw [hthr _ et]; exact old


theorem shared_pc_self {s : State} {t : Tid} {p p' : Pc} {e : Eff} (sh : SharedShape s t p p' e)
    (hp : (s.thr t).pc = p) : ((apply (setPc s t p' false) t e).thr t).pc = p' := by
  rcases sh with ⟨bk, l⟩ | ⟨l⟩ | ⟨bk, b⟩ | ⟨k, hqne⟩ | ⟨b, hb⟩ | _ | ⟨b⟩ | ⟨b, hbin⟩ |
      ⟨b, k, hun⟩ | ⟨b, k, hcr⟩
  case pop => cases hq : s.queue <;> simp [apply, setPc, setJobPc, hq]
  case mk =>
    have : t ≠ .job b := by rintro rfl; rw [hun] at hp; cases hp
    simp [apply, setPc, setJobPc, this]
  case start =>
    have : t ≠ .job b := by rintro rfl; rw [hcr] at hp; cases hp
    simp [apply, setPc, setJobPc, this]
  all_goals simp [apply, setPc, setJobPc]

theorem shared_pc_other {s : State} {t : Tid} {p p' : Pc} {e : Eff} (sh : SharedShape s t p p' e)
    (u : Tid) (hu : u ≠ t) :
    ((apply (setPc s t p' false) t e).thr u).pc = (s.thr u).pc ∨
    (∃ b, u = .job b ∧ e = .mkThread b ∧ (s.thr u).pc = .unborn ∧
      ((apply (setPc s t p' false) t e).thr u).pc = .created) ∨
    (∃ b, u = .job b ∧ e = .startThread b ∧ (s.thr u).pc = .created ∧
      ((apply (setPc s t p' false) t e).thr u).pc = .boot) := by
  rcases sh with ⟨bk, l⟩ | ⟨l⟩ | ⟨bk, b⟩ | ⟨k, hqne⟩ | ⟨b, hb⟩ | _ | ⟨b⟩ | ⟨b, hbin⟩ |
      ⟨b, k, hun⟩ | ⟨b, k, hcr⟩
  case pop => cases hq : s.queue <;> simp [apply, setPc, setJobPc, hq, hu]
  case mk =>
    by_cases e : u = .job b
    · subst e; simp [apply, setPc, setJobPc, hun]
    · simp [apply, setPc, setJobPc, e, hu]
  case start =>
    by_cases e : u = .job b
    · subst e; simp [apply, setPc, setJobPc, hcr]
    · simp [apply, setPc, setJobPc, e, hu]
  all_goals simp [apply, setPc, setJobPc, hu]

/-- `active` after one of the ten shared writes -/
theorem shared_active {s : State} {t : Tid} {p p' : Pc} {e : Eff} (sh : SharedShape s t p p' e) :
    (apply (setPc s t p' false) t e).active =
      match e with
      | .pop => s.queue.head?
      | .actNone _ => none
      | _ => s.active := by
  rcases sh with ⟨bk, l⟩ | ⟨l⟩ | ⟨bk, b⟩ | ⟨k, hqne⟩ | ⟨b, hb⟩ | _ | ⟨b⟩ | ⟨b, hbin⟩ |
      ⟨b, k, hun⟩ | ⟨b, k, hcr⟩
  case pop =>
    cases hq : s.queue with
    | nil => exact absurd hq hqne
    | cons x r => simp [apply, setPc, setJobPc, hq]
  all_goals simp [apply, setPc, setJobPc]

theorem shared_queue {s : State} {t : Tid} {p p' : Pc} {e : Eff} (sh : SharedShape s t p p' e) :
    (apply (setPc s t p' false) t e).queue =
      match e with
      | .pop => s.queue.tail
      | .clear => []
      | .enq bk a => if bk then s.queue ++ [a] else a :: s.queue
      | _ => s.queue := by
  rcases sh with ⟨bk, l⟩ | ⟨l⟩ | ⟨bk, b⟩ | ⟨k, hqne⟩ | ⟨b, hb⟩ | _ | ⟨b⟩ | ⟨b, hbin⟩ |
      ⟨b, k, hun⟩ | ⟨b, k, hcr⟩
  case pop => cases hq : s.queue <;> simp [apply, setPc, setJobPc, hq]
  all_goals simp [apply, setPc, setJobPc]

theorem shared_bg {s : State} {t : Tid} {p p' : Pc} {e : Eff} (sh : SharedShape s t p p' e) :
    (apply (setPc s t p' false) t e).bg =
      match e with
      | .bgAdd a => s.bg ++ [a]
      | .bgDel a => s.bg.erase a
      | _ => s.bg := by
  rcases sh with ⟨bk, l⟩ | ⟨l⟩ | ⟨bk, b⟩ | ⟨k, hqne⟩ | ⟨b, hb⟩ | _ | ⟨b⟩ | ⟨b, hbin⟩ |
      ⟨b, k, hun⟩ | ⟨b, k, hcr⟩
  case pop => cases hq : s.queue <;> simp [apply, setPc, setJobPc, hq]
  all_goals simp [apply, setPc, setJobPc]

theorem SharedShape.not_liveQ {s t p p' e} (sh : SharedShape s t p p' e) :
    liveQ p = true → ∃ a, e = .actNone a := by
  cases sh <;> simp [liveQ, NameK.isBgdone]

theorem SharedShape.not_liveB {s t p p' e} (sh : SharedShape s t p p' e) :
    liveB p = true → ∃ a, e = .bgDel a := by
  cases sh <;> simp [liveB, NameK.isBgdone]

theorem SharedShape.not_obligated {s t p p' e} (sh : SharedShape s t p p' e) :
    obligated p = true → e = .pop := by
  cases sh <;> simp [obligated]

theorem step_activeWitness {s : State} (h : Inv s) (t : Tid) (c : Choice) (a : Nat) :
    (step .fixed s t c).active = some a →
      liveQ ((step .fixed s t c).thr (.job a)).pc = true ∨
        ∃ u, starter a ((step .fixed s t c).thr u).pc = true := by
  have hloc := h.loc t
  have hcase := step_case t c (h.noPinned t)
  generalize step .fixed s t c = s' at hcase ⊢
  rcases hcase with @⟨p, p', e, hp, sh⟩ | @⟨p', e, pop, c', hact, hb⟩
  · have hself := shared_pc_self sh hp
    have hother := shared_pc_other sh
    have hactive := shared_active sh
    intro ha
    rw [hactive] at ha
    -- first the two effects that change `active`
    by_cases hpop : e = .pop
    · subst hpop
      cases sh
      exact Or.inr ⟨t, by rw [hself]; rfl⟩
    by_cases hnone : ∃ b, e = .actNone b
    · obtain ⟨b, rfl⟩ := hnone; simp at ha
    have ha' : s.active = some a := by
      cases e <;> simp_all
    rcases h.activeWitness a ha' with hl | ⟨u, hu⟩
    · have hne : Tid.job a ≠ t := by
        rintro rfl
        rw [hp] at hl
        exact hnone (sh.not_liveQ hl)
      rcases hother _ hne with e1 | ⟨b, _, _, e1, _⟩ | ⟨b, _, _, e1, _⟩
      · exact Or.inl (by rw [e1]; exact hl)
      · rw [e1] at hl; simp [liveQ] at hl
      · rw [e1] at hl; simp [liveQ] at hl
    · by_cases hut : u = t
      · subst hut
        rw [hp] at hu
        rw [hp] at hloc
        rcases sh with ⟨bk, l⟩ | ⟨l⟩ | ⟨bk, b⟩ | ⟨k, hqne⟩ | ⟨b, hb⟩ | _ | ⟨b⟩ | ⟨b, hbin⟩ |
            ⟨b, k, hun⟩ | ⟨b, k, hcr⟩
        case mk => exact Or.inr ⟨u, by rw [hself]; simpa [starter] using hu⟩
        case start =>
          simp [starter] at hu
          obtain ⟨_, rfl⟩ := hu
          have hne : Tid.job b ≠ u := by rintro rfl; rw [hcr] at hp; cases hp
          left
          simp [apply, setPc, setJobPc, liveQ]
        all_goals simp [starter] at hu
      · rcases hother _ hut with e1 | ⟨b, _, _, e1, _⟩ | ⟨b, _, _, e1, _⟩
        · exact Or.inr ⟨u, by rw [e1]; exact hu⟩
        · rw [e1] at hu; simp [starter] at hu
        · rw [e1] at hu; simp [starter] at hu
  · obtain ⟨hq, hac, hbg, hi, hn, hpc, hthr⟩ := benign_view s t p' pop e hb
    rw [hac]; intro ha
    rcases h.activeWitness a ha with hl | ⟨u, hu⟩
    · by_cases et : Tid.job a = t
      · subst et
        rcases act_liveQ_fwd .fixed s a c' _ hl (h.activeInfo a ha).2 with h1 | h1
        · rw [hact] at h1; exact Or.inl (by rw [hpc]; exact h1)
        · rw [hact] at h1; simp at h1; subst h1; simp [Eff.shared] at hb
      · exact Or.inl (by rw [hthr _ et]; exact hl)
    · by_cases hut : u = t
      · subst hut
        rcases act_starter_fwd .fixed s u a c' _ hu ha with h1 | h1
        · rw [hact] at h1; exact Or.inr ⟨u, by rw [hpc]; exact h1⟩
        · rw [hact] at h1; simp at h1; subst h1; simp [Eff.shared] at hb
      · exact Or.inr ⟨u, by rw [hthr _ hut]; exact hu⟩

theorem step_bgWitness {s : State} (h : Inv s) (t : Tid) (c : Choice) (a : Nat) :
    a ∈ (step .fixed s t c).bg →
      liveB ((step .fixed s t c).thr (.job a)).pc = true ∨
        ∃ u, bstarter a ((step .fixed s t c).thr u).pc = true := by
  have hloc := h.loc t
  have hcase := step_case t c (h.noPinned t)
  generalize step .fixed s t c = s' at hcase ⊢
  rcases hcase with @⟨p, p', e, hp, sh⟩ | @⟨p', e, pop, c', hact, hb⟩
  · have hself := shared_pc_self sh hp
    have hother := shared_pc_other sh
    have hbg := shared_bg sh
    intro ha
    rw [hbg] at ha
    -- the new member
    by_cases hadd : e = .bgAdd a
    · subst hadd
      cases sh
      exact Or.inr ⟨t, by rw [hself]; simp [bstarter]⟩
    -- everybody else was a member before
    have ha' : a ∈ s.bg ∧ e ≠ .bgDel a := by
      cases e <;> simp_all
      · rename_i b; rcases ha with ha | rfl
        · exact ha
        · exact absurd rfl hadd
      · rename_i b
        have := (h.bgNodup.mem_erase_iff).mp ha
        exact ⟨this.2, fun e => this.1 e.symm⟩
    rcases h.bgWitness a ha'.1 with hl | ⟨u, hu⟩
    · have hne : Tid.job a ≠ t := by
        rintro rfl
        rw [hp] at hl
        obtain ⟨b, rfl⟩ := sh.not_liveB hl
        cases sh
        have := h.selfName a b .bgdone hp rfl
        subst this
        exact ha'.2 rfl
      rcases hother _ hne with e1 | ⟨b, _, _, e1, _⟩ | ⟨b, _, _, e1, _⟩
      · exact Or.inl (by rw [e1]; exact hl)
      · rw [e1] at hl; simp [liveB] at hl
      · rw [e1] at hl; simp [liveB] at hl
    · by_cases hut : u = t
      · subst hut
        rw [hp] at hu
        rcases sh with ⟨bk, l⟩ | ⟨l⟩ | ⟨bk, b⟩ | ⟨k, hqne⟩ | ⟨b, hb⟩ | _ | ⟨b⟩ | ⟨b, hbin⟩ |
            ⟨b, k, hun⟩ | ⟨b, k, hcr⟩
        case mk => exact Or.inr ⟨u, by rw [hself]; simpa [bstarter] using hu⟩
        case start =>
          simp [bstarter] at hu
          obtain ⟨_, rfl⟩ := hu
          left
          simp [apply, setPc, setJobPc, liveB]
        all_goals simp [bstarter] at hu
      · rcases hother _ hut with e1 | ⟨b, _, _, e1, _⟩ | ⟨b, _, _, e1, _⟩
        · exact Or.inr ⟨u, by rw [e1]; exact hu⟩
        · rw [e1] at hu; simp [bstarter] at hu
        · rw [e1] at hu; simp [bstarter] at hu
  · obtain ⟨hq, hac, hbg, hi, hn, hpc, hthr⟩ := benign_view s t p' pop e hb
    rw [hbg]; intro ha
    rcases h.bgWitness a ha with hl | ⟨u, hu⟩
    · by_cases et : Tid.job a = t
      · subst et
        rcases act_liveB_fwd .fixed s a c' _ hl (h.bgInfo a ha).2
            (fun b k hpk hk => h.selfName a b k hpk hk) with h1 | h1
        · rw [hact] at h1; exact Or.inl (by rw [hpc]; exact h1)
        · rw [hact] at h1; simp at h1; subst h1; simp [Eff.shared] at hb
      · exact Or.inl (by rw [hthr _ et]; exact hl)
    · by_cases hut : u = t
      · subst hut
        rcases act_bstarter_fwd .fixed s u a c' _ hu with h1 | h1
        · rw [hact] at h1; exact Or.inr ⟨u, by rw [hpc]; exact h1⟩
        · rw [hact] at h1; simp at h1; subst h1; simp [Eff.shared] at hb
      · exact Or.inr ⟨u, by rw [hthr _ hut]; exact hu⟩

theorem step_oblig {s : State} (h : Inv s) (t : Tid) (c : Choice) :
    (step .fixed s t c).active = none → (step .fixed s t c).queue ≠ [] →
      ∃ u, obligated ((step .fixed s t c).thr u).pc = true := by
  have hcase := step_case t c (h.noPinned t)
  generalize step .fixed s t c = s' at hcase ⊢
  rcases hcase with @⟨p, p', e, hp, sh⟩ | @⟨p', e, pop, c', hact, hb⟩
  · have hself := shared_pc_self sh hp
    have hother := shared_pc_other sh
    have hactive := shared_active sh
    have hqueue := shared_queue sh
    intro ha hq
    rw [hactive] at ha
    rw [hqueue] at hq
    by_cases h1 : ∃ bk b, e = .enq bk b
    · obtain ⟨bk, b, rfl⟩ := h1; cases sh; exact ⟨t, by rw [hself]; rfl⟩
    by_cases h2 : ∃ b, e = .actNone b
    · obtain ⟨b, rfl⟩ := h2; cases sh; exact ⟨t, by rw [hself]; rfl⟩
    by_cases h3 : e = .pop
    · subst h3
      cases sh
      rename_i k hqne
      cases hq' : s.queue with
      | nil => exact absurd hq' hqne
      | cons x r => simp [hq'] at ha
    by_cases h4 : e = .clear
    · subst h4; simp at hq
    have ha' : s.active = none := by cases e <;> simp_all
    have hq' : s.queue ≠ [] := by cases e <;> simp_all
    obtain ⟨u, hu⟩ := h.oblig ha' hq'
    have hut : u ≠ t := by
      rintro rfl; rw [hp] at hu; exact h3 (sh.not_obligated hu)
    rcases hother _ hut with e1 | ⟨b, _, _, e1, _⟩ | ⟨b, _, _, e1, _⟩
    · exact ⟨u, by rw [e1]; exact hu⟩
    · rw [e1] at hu; simp [obligated] at hu
    · rw [e1] at hu; simp [obligated] at hu
  · obtain ⟨hq, hac, hbg, hi, hn, hpc, hthr⟩ := benign_view s t p' pop e hb
    rw [hac, hq]; intro ha hqne
    obtain ⟨u, hu⟩ := h.oblig ha hqne
    by_cases hut : u = t
    · subst hut
      rcases act_obligated_fwd .fixed s u c' _ hu with h1 | h1 | h1
      · rw [hact] at h1; exact ⟨u, by rw [hpc]; exact h1⟩
      · rw [hact] at h1; simp at h1; subst h1; simp [Eff.shared] at hb
      · exact absurd ⟨ha, hqne⟩ h1
    · exact ⟨u, by rw [hthr _ hut]; exact hu⟩


theorem specRun_append (s : Spec) (es es' : List Event) :
    specRun s (es ++ es') = (specRun s es).bind (specRun · es') := by
  induction es generalizing s with
  | nil => simp [specRun]
  | cons e es ih =>
    simp only [List.cons_append, specRun]
    cases specStep s e <;> simp [ih]

theorem specRun_plain (s : Spec) (es : List Event) (h : ∀ e ∈ es, e.plain = true) :
    specRun s es = some s := by
  induction es with
  | nil => rfl
  | cons e es ih =>
    have he := h e (by simp)
    have : specStep s e = some s := by cases e <;> simp [Event.plain] at he <;> rfl
    simp [specRun, this]
    exact ih fun e' h' => h e' (by simp [h'])

theorem apply_events_benign (s : State) (t : Tid) (e : Eff) (hb : e.shared = false) :
    (apply s t e).events = match e with
      | .emit es => s.events ++ es
      | _ => s.events := by
  cases e <;> simp [Eff.shared] at hb <;> simp [apply]
  split <;> rfl

theorem step_noErr {s : State} (h : Inv s) (hl : LockInv s) (t : Tid) (c : Choice) :
    (step .fixed s t c).errs = [] := by
  have hne : (act .fixed s t c (s.thr t).pc).eff ≠ .crash := by
    intro hc
    rcases act_crash s t c _ hc with ⟨h1, h2⟩ | h1 | ⟨h1, n, rfl⟩ | ⟨a, h1, h2⟩ | h1
    · have := hl.crit t
      by_cases ho : s.owner = some t
      · exact h2 ho
      · simp [ho] at this; omega
    · exact h1 (h.loc t)
    · have := h.clientKind n; rw [h1] at this; cases this
    · cases t with
      | client n => have := h.clientKind n; rw [h1] at this; simp [jobOnly, liveB, NameK.isBgdone] at this
      | job x =>
        have hx := h.selfName x a .bgdone h1 rfl
        subst hx
        exact h2 (h.liveBg a (by rw [h1]; rfl) (h.kindB a (by rw [h1]; rfl)))
    · have := h.noPinned t; rw [h1] at this; cases this
  unfold JC.step
  generalize act .fixed s t c (s.thr t).pc = x at hne
  obtain ⟨p', e, pop⟩ := x
  cases e <;> simp [apply, setPc, setJobPc, h.noErr] at hne ⊢ <;> (repeat' split) <;> simp [h.noErr]

theorem step_spec {s : State} (h : Inv s) (t : Tid) (c : Choice) :
    specRun Spec.init (step .fixed s t c).events =
      some ⟨(step .fixed s t c).queue, (step .fixed s t c).active⟩ := by
  have hloc := h.loc t
  have hspec := h.spec
  have hcase := step_case t c (h.noPinned t)
  generalize step .fixed s t c = s' at hcase ⊢
  rcases hcase with @⟨p, p', e, hp, sh⟩ | @⟨p', e, pop, c', hact, hb⟩
  · rw [hp] at hloc
    rcases sh with ⟨bk, l⟩ | ⟨l⟩ | ⟨bk, b⟩ | ⟨k, hqne⟩ | ⟨b, hb⟩ | _ | ⟨b⟩ | ⟨b, hbin⟩ |
        ⟨b, k, hun⟩ | ⟨b, k, hcr⟩
    case enq =>
      cases bk <;> simp [apply, setPc, setJobPc, specRun_append, hspec, specRun, specStep]
    case pop =>
      simp [Loc] at hloc
      cases hq : s.queue with
      | nil => exact absurd hq hqne
      | cons x r =>
        simp [apply, setPc, setJobPc, specRun_append, hspec, specRun, specStep, hq, hloc]
    case actNone =>
      subst hb
      have hbq := h.liveActive b (by rw [hp]; rfl) (h.kindQ b (by rw [hp]; rfl))
      simp [apply, setPc, setJobPc, specRun_append, hspec, specRun, specStep, hbq]
    all_goals simp [apply, setPc, setJobPc, specRun_append, hspec, specRun, specStep]
  · obtain ⟨hq, hac, hbg, hi, hn, hpc, hthr⟩ := benign_view s t p' pop e hb
    rw [hq, hac]
    rw [apply_events_benign _ _ _ hb]
    cases e <;> simp [Eff.shared] at hb <;> simp [setPc, hspec]
    rename_i es _
    have hpl := act_emit_plain .fixed s t c' _ es (by rw [hact])
    simp [specRun_append, hspec, specRun_plain _ _ hpl]

/-! ### the invariant holds in every reachable state of the code as it stands -/

theorem Inv.step {s : State} (h : Inv s) (hl : LockInv s) (t : Tid) (c : Choice) :
    Inv (step .fixed s t c) where
  noPinned := step_noPinned h t c
  clientKind := step_clientKind h t c
  fresh := step_fresh h t c
  loc := step_loc h hl t c
  selfName := step_selfName h t c
  kindQ := step_kindQ h t c
  kindB := step_kindB h t c
  activeInfo := step_activeInfo h t c
  queueInfo := step_queueInfo h t c
  queueNodup := step_queueNodup h t c
  bgInfo := step_bgInfo h t c
  bgNodup := step_bgNodup h t c
  liveActive := step_liveActive h t c
  liveBg := step_liveBg h t c
  activeWitness := step_activeWitness h t c
  bgWitness := step_bgWitness h t c
  oblig := step_oblig h t c
  spec := step_spec h t c
  noErr := step_noErr h hl t c

theorem Reach.inv {progs : Nat → List Op} {s : State} (h : Reach .fixed progs s) : Inv s := by
  induction h with
  | init => exact Inv.init progs
  | step t c hr ih => exact ih.step hr.lockInv t c

end Bardolph.JC
