import Bardolph.Proofs.ParseTokTerm
/-!
The whole parse of the model, on an arbitrary token list whose tokens satisfy `tokOk`: it ends in
`accept` or in `reject` with at least one message, each carrying the line of an input token or 0.
-/
namespace Bardolph.ParseTok
open Bardolph

theorem good_body : ∀ n fuel st, Inv st → 6 * st.rest.length + 1 < fuel → st.rest.length < n →
    (body n fuel st).Good true st := by
  intro n
  induction n with
  | zero => intro fuel st _ _ h; omega
  | succ n ih =>
    intro fuel st hi hb hn
    unfold body
    rw [getSt_bind]
    by_cases he : (st.cur.ty == TT.eof) = true
    · rw [if_pos he]; exact OkPost.refl hi
    · rw [if_neg he]
      have hne : st.cur.ty ≠ .eof := by simpa using he
      have hs := ((spec_stmtFamily fuel).1.run st hi).strengthen (t := true)
        ((fin_stmtFamily fuel).1 st hi hb)
      rw [bind_run]
      cases hr : command fuel st with
      | ok a s =>
        rw [hr] at hs
        have l := sne_command fuel st a s hi hne hr
        exact Res.Good.after hs (ih fuel s hs.inv (by omega) (by omega))
      | fail s => rw [hr] at hs; exact hs
      | raised k s => rw [hr] at hs; exact hs
      | oof => rw [hr] at hs; exact hs

theorem spec_bodyLoop {fuel : Nat} {st : St} (hi : Inv st) (hb : 6 * st.rest.length + 1 < fuel) :
    (bodyLoop fuel st).Good true st :=
  good_body _ fuel st hi hb (Nat.lt_succ_self _)

theorem good_script {fuel : Nat} {st : St} (hi : Inv st) (hb : 6 * st.rest.length + 1 < fuel) :
    (script fuel st).Good true st := by
  unfold script
  have h1 := spec_bodyLoop hi hb
  rw [bind_run]
  cases hr : bodyLoop fuel st with
  | ok a s =>
    rw [hr] at h1
    have hs : Spec true (do
        if (← getSt).cur.ty != .eof then triggerError "Didn't get to end of file." : M Unit) := by
      spec_steps
    exact Res.Good.after h1 (hs.run s h1.inv)
  | fail s => rw [hr] at h1; exact h1
  | raised k s => rw [hr] at h1; exact h1
  | oof => rw [hr] at h1; exact h1

/-! ### the initial state -/

theorem initState_eq (toks : List Tok) :
    initState toks = match toks ++ [eofTok] with
      | t :: r => { cur := t, rest := r, globals := initialGlobals }
      | [] => default := by
  unfold initState advance
  cases toks <;> rfl

theorem initState_toks (toks : List Tok) : (initState toks).toks = toks ++ [eofTok] := by
  rw [initState_eq]
  cases toks <;> rfl

theorem initState_errors (toks : List Tok) : (initState toks).errors = [] := by
  rw [initState_eq]
  cases toks <;> rfl

theorem initState_globals (toks : List Tok) : (initState toks).globals = initialGlobals := by
  rw [initState_eq]
  cases toks <;> rfl

theorem initState_rest_length (toks : List Tok) : (initState toks).rest.length = toks.length := by
  have := congrArg List.length (initState_toks toks)
  simp [St.toks] at this
  exact this

theorem initialGlobals_no_macro : ∀ n s, initialGlobals.lookup n = some s → s.kind ≠ .macro := by
  intro n s h
  unfold initialGlobals builtins at h
  simp only [List.map, List.lookup] at h
  repeat (split at h; (first | (cases h; decide) | skip))
  cases h

theorem inv_initState {toks : List Tok} (h : ∀ t ∈ toks, tokOk t = true) : Inv (initState toks) := by
  refine ⟨?_, ?_, ?_⟩
  · rw [initState_toks]
    intro t ht
    rcases List.mem_append.mp ht with h1 | h1
    · exact h t h1
    · simp at h1; subst h1; rfl
  · rw [initState_toks]; simp [eofTok]
  · rw [initState_globals]
    intro n s hl hk
    exact absurd hk (initialGlobals_no_macro n s hl)

/-- the outcome of the model on a token list all of whose tokens satisfy `tokOk` -/
theorem parseTokens_outcome {toks : List Tok} (h : ∀ t ∈ toks, tokOk t = true) :
    (∃ prog, parseTokens toks = .accept prog) ∨
    (∃ msgs, parseTokens toks = .reject msgs ∧ msgs ≠ [] ∧
      ∀ m ∈ msgs, m.1 = 0 ∨ ∃ t ∈ toks, t.line = m.1) := by
  have hi := inv_initState h
  have hg := good_script (fuel := 8 * toks.length + 16) hi
    (by rw [initState_rest_length]; omega)
  unfold parseTokens
  cases hr : script (8 * toks.length + 16) (initState toks) with
  | ok a s =>
    rw [hr] at hg
    left
    have : s.errors = [] := by rw [hg.errors, initState_errors]
    simp [outcomeOf, this]
  | fail s =>
    rw [hr] at hg
    right
    obtain ⟨new, hne, he, hl⟩ := hg.errors
    rw [initState_errors, List.nil_append] at he
    refine ⟨new, ?_, hne, ?_⟩
    · have : s.errors.isEmpty = false := by
        rw [he]; cases new with
        | nil => exact absurd rfl hne
        | cons _ _ => rfl
      simp [outcomeOf, he, hne]
    · intro m hm
      rcases hl m hm with h0 | ⟨t, ht, hlt⟩
      · exact .inl h0
      · rw [initState_toks] at ht
        rcases List.mem_append.mp ht with h1 | h1
        · exact .inr ⟨t, h1, hlt⟩
        · simp at h1; subst h1; exact .inl hlt.symm
  | raised k s => rw [hr] at hg; cases hg
  | oof => rw [hr] at hg; cases hg

end Bardolph.ParseTok
