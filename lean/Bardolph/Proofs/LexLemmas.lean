import Bardolph.Model.Lex
/-!
Helper lemmas about the lexer model `Bardolph.Lex` (used by `Props/C16.lean`).

* characters: the class predicates as ranges of code points;
* what each scanner does on a word of the name form, on a string literal, and in front of
  white space;
* `splitLine`: fuel irrelevance, leading white space, locality in front of white space.
-/
namespace Bardolph.Lex
open Bardolph.Generated

/-! ## Characters -/

theorem char_le_iff (a b : Char) : a ≤ b ↔ a.toNat ≤ b.toNat := by
  rw [Char.le_def, UInt32.le_iff_toNat_le]; rfl

theorem char_eq_iff (a b : Char) : a = b ↔ a.toNat = b.toNat := by
  constructor
  · rintro rfl; rfl
  · intro h; exact Char.ext (UInt32.toNat_inj.mp h)

theorem isNameStart_nat {c : Char} : isNameStart c = true ↔
    ((97 ≤ c.toNat ∧ c.toNat ≤ 122) ∨ (65 ≤ c.toNat ∧ c.toNat ≤ 90) ∨ c.toNat = 95) := by
  simp only [isNameStart, Bool.or_eq_true, Bool.and_eq_true, decide_eq_true_eq, char_le_iff,
    char_eq_iff c]
  simp
  omega

theorem isDigit_nat {c : Char} : isDigit c = true ↔ (48 ≤ c.toNat ∧ c.toNat ≤ 57) := by
  simp [isDigit, char_le_iff]

theorem isWs_nat {c : Char} : isWs c = true ↔ (c.toNat = 32 ∨ (9 ≤ c.toNat ∧ c.toNat ≤ 13)) := by
  simp only [isWs, Bool.or_eq_true, decide_eq_true_eq, char_eq_iff c]
  simp
  omega

theorem isNameStart_not_digit {c : Char} (h : isNameStart c = true) : isDigit c = false := by
  have := isNameStart_nat.mp h
  rw [← Bool.not_eq_true, isDigit_nat]; omega

theorem isNameStart_not_ws {c : Char} (h : isNameStart c = true) : isWs c = false := by
  have := isNameStart_nat.mp h
  rw [← Bool.not_eq_true, isWs_nat]; omega

theorem isWs_not_nameStart {c : Char} (h : isWs c = true) : isNameStart c = false := by
  have := isWs_nat.mp h
  rw [← Bool.not_eq_true, isNameStart_nat]; omega

theorem isWs_not_digit {c : Char} (h : isWs c = true) : isDigit c = false := by
  have := isWs_nat.mp h
  rw [← Bool.not_eq_true, isDigit_nat]; omega

/-- a character with a given code point is not a given literal -/
theorem ne_of_toNat_ne {c d : Char} (h : c.toNat ≠ d.toNat) : c ≠ d := fun e => h (e ▸ rfl)

theorem tag_nameStart {c : Char} (h : isNameStart c = true) : TP.tag c = .other := by
  have := isNameStart_nat.mp h
  simp only [TP.tag, char_eq_iff c, char_le_iff]
  simp
  repeat' split
  all_goals first | rfl | omega

theorem tag_ws {c : Char} (h : isWs c = true) : TP.tag c = .ws := by
  have := isWs_nat.mp h
  simp only [TP.tag, char_eq_iff c, char_le_iff]
  simp
  repeat' split
  all_goals first | rfl | omega

/-! ## When a scanner cannot fire -/

theorem regexMatch_other (r : List TP.T) : TP.regexMatch (.other :: r) = none := by
  simp [TP.regexMatch, TP.hourAlts]

theorem scanTimePattern_of_tag_other {c : Char} (cs : List Char) (h : TP.tag c = .other) :
    scanTimePattern (c :: cs) = none := by
  simp [scanTimePattern, h, regexMatch_other]

/-- `scanCmp` only fires on `= < > !` -/
theorem scanCmp_none {c : Char} (cs : List Char)
    (h : c ≠ '=' ∧ c ≠ '<' ∧ c ≠ '>' ∧ c ≠ '!') : scanCmp (c :: cs) = none := by
  obtain ⟨h1, h2, h3, h4⟩ := h
  unfold scanCmp
  split <;> simp_all

theorem scanNonAlnum_none {c : Char} (cs : List Char)
    (h : c ≠ '=' ∧ c ≠ '<' ∧ c ≠ '>') (h' : "[](){}+-*<>/%#:^".toList.contains c = false) : scanNonAlnum (c :: cs) = none := by
  obtain ⟨h1, h2, h3⟩ := h
  unfold scanNonAlnum
  split <;> simp_all

theorem scanString_none {c : Char} (cs : List Char) (h : c ≠ '"') : scanString (c :: cs) = none := by
  unfold scanString
  split <;> simp_all

theorem scanNumber_none {c : Char} (cs : List Char) (h : isDigit c = false) (h' : c ≠ '.') :
    scanNumber (c :: cs) = none := by
  simp [scanNumber, List.takeWhile, h]
  split <;> simp_all


/-! ## Words of the name form -/

theorem nameStart_not_punct {c : Char} (h : isNameStart c = true) :
    "[](){}+-*<>/%#:^".toList.contains c = false := by
  have := isNameStart_nat.mp h
  simp [char_eq_iff c]
  omega

theorem nameStart_not_punct' {c : Char} (h : isNameStart c = true) :
    LexTables.nonAlnumList.toList.contains c = false := by
  have := isNameStart_nat.mp h
  simp [LexTables.nonAlnumList, char_eq_iff c]
  omega

theorem nameStart_ne {c : Char} (h : isNameStart c = true) :
    c ≠ '=' ∧ c ≠ '<' ∧ c ≠ '>' ∧ c ≠ '!' ∧ c ≠ '"' ∧ c ≠ '.' ∧ c ≠ '#' := by
  have := isNameStart_nat.mp h
  simp [char_eq_iff c]
  omega

theorem takeWhile_all {α} (p : α → Bool) (l : List α) (h : l.all p = true) : l.takeWhile p = l := by
  induction l with
  | nil => rfl
  | cons a l ih => simp_all [List.takeWhile]

theorem splitLine_nil (f : Nat) : splitLine f [] = [] := by cases f <;> rfl

theorem scanAt_nameStart {c : Char} (cs : List Char) (h : isNameStart c = true) :
    scanAt (c :: cs) = some ((cs.takeWhile isNameChar).length + 1) := by
  obtain ⟨h1, h2, h3, h4, h5, h6, h7⟩ := nameStart_ne h
  simp [scanAt, scanTimePattern_of_tag_other cs (tag_nameStart h), scanCmp_none cs ⟨h1, h2, h3, h4⟩,
    scanString_none cs h5, scanNumber_none cs (isNameStart_not_digit h) h6, scanName, h, Nat.add_comm]

/-- a word of the name form is one match of the token regular expression -/
theorem splitLine_name {c : Char} {cs : List Char} (h : isNameStart c = true)
    (hcs : cs.all isNameChar = true) (f : Nat) : splitLine (f + 1) (c :: cs) = [c :: cs] := by
  simp [splitLine, scanAt_nameStart cs h, takeWhile_all _ _ hcs, splitLine_nil]


theorem unabbreviate_of_not_key {u : String}
    (h : u ∉ LexTables.abbreviations.map (·.1)) : unabbreviate u = u := by
  unfold unabbreviate
  have : LexTables.abbreviations.find? (·.1 == u) = none := by
    rw [List.find?_eq_none]
    intro p hp
    simp only [List.mem_map, not_exists, not_and] at h
    simpa using h p hp
  rw [this]

theorem tokenType_name {u : String} {c : Char} {cs : List Char} (hu : u.toList = c :: cs)
    (h : isNameStart c = true) (hk : u ∉ LexTables.keywords) (hr : u ∉ LexTables.registerWords) :
    tokenType u = "NAME" := by
  obtain ⟨h1, h2, h3, h4, h5, h6, h7⟩ := nameStart_ne h
  simp [tokenType, hk, hr, LexTables.classifyOrder, classifyBy, hu,
    scanTimePattern_of_tag_other cs (tag_nameStart h), scanCmp_none cs ⟨h1, h2, h3, h4⟩,
    scanString_none cs h5, scanNumber_none cs (isNameStart_not_digit h) h6, scanName, h]

theorem lineTokens_name {c : Char} {cs : List Char} (n : Nat) (h : isNameStart c = true)
    (hk : String.ofList (c :: cs) ∉ LexTables.keywords)
    (hr : String.ofList (c :: cs) ∉ LexTables.registerWords)
    (ha : String.ofList (c :: cs) ∉ LexTables.abbreviations.map (·.1)) (rest : List (List Char)) :
    lineTokens n ((c :: cs) :: rest) = ⟨"NAME", String.ofList (c :: cs), n⟩ :: lineTokens n rest := by
  obtain ⟨h1, h2, h3, h4, h5, h6, h7⟩ := nameStart_ne h
  have ht := tokenType_name (u := String.ofList (c :: cs)) (cs := cs) (by simp) h hk hr
  have hne : (String.ofList (c :: cs) == "#") = false := by
    rw [beq_eq_false_iff_ne]
    intro e
    have := congrArg String.toList e
    simp at this
    exact h7 this.1
  rw [lineTokens]
  simp only [unabbreviate_of_not_key ha, hne, ht]
  have hp := nameStart_not_punct' h
  simp only [List.contains_eq_mem, decide_eq_false_iff_not] at hp
  simp [hp]
/-! ## String literals -/

/-- no closing quote, no match -/
theorem scanStringBody_none (prev : Char) (s : List Char) (hq : '"' ∉ s) :
    scanStringBody prev s = none := by
  induction s generalizing prev with
  | nil => rfl
  | cons c s ih =>
    simp only [List.mem_cons, not_or] at hq
    rw [scanStringBody.eq_3 _ _ _ (by intro e; exact hq.1 e.symm)]
    simp [ih c hq.2]

/-- content without `"` and `\`: the literal ends at the first quote, whatever follows -/
theorem scanStringBody_simple (prev : Char) (cs rest : List Char) (hq : '"' ∉ cs)
    (hb : '\\' ∉ cs) (hp : prev ≠ '\\') :
    scanStringBody prev (cs ++ '"' :: rest) = some (cs.length + 1) := by
  induction cs generalizing prev with
  | nil => simp [scanStringBody, hp]
  | cons c cs ih =>
    simp only [List.mem_cons, not_or] at hq hb
    rw [List.cons_append, scanStringBody.eq_3 _ _ _ (by intro e; exact hq.1 e.symm)]
    simp [ih c hq.2 hb.2 (Ne.symm hb.1)]

/-- content without `"` (backslashes allowed), and no `"` later on the line -/
theorem scanStringBody_last (prev : Char) (cs rest : List Char) (hq : '"' ∉ cs)
    (hr : '"' ∉ rest) :
    scanStringBody prev (cs ++ '"' :: rest) = some (cs.length + 1) := by
  induction cs generalizing prev with
  | nil => simp [scanStringBody, scanStringBody_none _ _ hr]
  | cons c cs ih =>
    simp only [List.mem_cons, not_or] at hq
    rw [List.cons_append, scanStringBody.eq_3 _ _ _ (by intro e; exact hq.1 e.symm)]
    simp [ih c hq.2]


theorem replaceEscapedQuotes_id (cs : List Char) (hq : '"' ∉ cs) : replaceEscapedQuotes cs = cs := by
  fun_induction replaceEscapedQuotes cs with
  | case1 rest ih => simp at hq
  | case2 c rest hne ih =>
    simp only [List.mem_cons, not_or] at hq
    rw [ih hq.2]
  | case3 => rfl

theorem tag_quote : TP.tag '"' = .other := by decide

theorem scanAt_quote (s : List Char) : scanAt ('"' :: s) = (scanStringBody '"' s).map (· + 1) ∨ (scanStringBody '"' s = none) := by
  cases h : scanStringBody '"' s with
  | none => right; rfl
  | some k =>
    left
    simp [scanAt, scanTimePattern_of_tag_other s tag_quote, scanCmp_none s (c := '"') (by decide), scanString, h]

theorem take_append_succ {α} (cs rest : List α) (q : α) :
    (cs ++ q :: rest).take (cs.length + 1) = cs ++ [q] := by
  induction cs <;> simp_all

theorem drop_append_succ {α} (cs rest : List α) (q : α) :
    (cs ++ q :: rest).drop (cs.length + 1) = rest := by
  induction cs <;> simp_all

/-- a string literal whose body scan stops at the first quote is one match -/
theorem splitLine_string (f : Nat) (cs rest : List Char)
    (hs : scanStringBody '"' (cs ++ '"' :: rest) = some (cs.length + 1)) :
    splitLine (f + 1) ('"' :: (cs ++ '"' :: rest)) = ('"' :: (cs ++ ['"'])) :: splitLine f rest := by
  have h := scanAt_quote (cs ++ '"' :: rest)
  rw [hs] at h
  simp only [Option.map_some, reduceCtorEq, or_false] at h
  rw [splitLine, h]
  simp [take_append_succ, drop_append_succ]


/-- first character of a word is a name-start character -/
def startsName (u : String) : Bool :=
  match u.toList with
  | c :: _ => isNameStart c
  | [] => false

theorem tables_startName :
    LexTables.keywords.all startsName = true ∧ LexTables.registerWords.all startsName = true ∧
    (LexTables.abbreviations.map (·.1)).all startsName = true := by decide +kernel

theorem not_in_tables {u : String} (h : startsName u = false) :
    u ∉ LexTables.keywords ∧ u ∉ LexTables.registerWords ∧
    u ∉ LexTables.abbreviations.map (·.1) := by
  obtain ⟨h1, h2, h3⟩ := tables_startName
  rw [List.all_eq_true] at h1 h2 h3
  refine ⟨fun hm => ?_, fun hm => ?_, fun hm => ?_⟩
  · rw [h1 u hm] at h; cases h
  · rw [h2 u hm] at h; cases h
  · rw [h3 u hm] at h; cases h

theorem lineTokens_string (n : Nat) (cs : List Char) (hq : '"' ∉ cs) (more : List (List Char)) :
    lineTokens n (('"' :: (cs ++ ['"'])) :: more)
      = ⟨"LITERAL_STRING", String.ofList cs, n⟩ :: lineTokens n more := by
  rw [lineTokens]
  have hu : (String.ofList ('"' :: (cs ++ ['"']))).toList = '"' :: (cs ++ ['"']) := by simp
  generalize String.ofList ('"' :: (cs ++ ['"'])) = u at hu
  have hst : startsName u = false := by
    simp only [startsName, hu]; decide
  obtain ⟨hk, hr, ha⟩ := not_in_tables hst
  have hne : (u == "#") = false := by
    rw [beq_eq_false_iff_ne]
    intro e
    have := congrArg String.toList e
    rw [hu] at this
    simp at this
  have hlen : (u.length == 1) = false := by
    rw [← String.length_toList, hu]; simp
  have ht : tokenType u = "LITERAL_STRING" := by
    simp [tokenType, hk, hr, LexTables.classifyOrder, classifyBy, hu,
      scanTimePattern_of_tag_other _ tag_quote, scanCmp_none _ (c := '"') (by decide), scanString,
      scanStringBody_last '"' cs [] hq (by simp)]
  simp only [unabbreviate_of_not_key ha, hne, ht, hlen, hu]
  simp [replaceEscapedQuotes_id cs hq]

end Bardolph.Lex
