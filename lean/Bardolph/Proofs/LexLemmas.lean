import Bardolph.Model.Lex
/-!
Helper lemmas about the lexer model `Bardolph.Lex` (used by `Props/C16.lean`).

* characters: the class predicates as ranges of code points;
* what each scanner does on a word of the name form, on a string literal, and in front of
  white space;
* `splitLine`: fuel irrelevance, leading white space, locality in front of white space.
-/
namespace Bardolph.Lex
open Bardolph.Generated

/-! ## Characters -/

theorem char_le_iff (a b : Char) : a ≤ b ↔ a.toNat ≤ b.toNat := by
  rw [Char.le_def, UInt32.le_iff_toNat_le]; rfl

theorem char_eq_iff (a b : Char) : a = b ↔ a.toNat = b.toNat := by
  constructor
  · rintro rfl; rfl
  · intro h; exact Char.ext (UInt32.toNat_inj.mp h)

theorem isNameStart_nat {c : Char} : isNameStart c = true ↔
    ((97 ≤ c.toNat ∧ c.toNat ≤ 122) ∨ (65 ≤ c.toNat ∧ c.toNat ≤ 90) ∨ c.toNat = 95) := by
  simp only [isNameStart, Bool.or_eq_true, Bool.and_eq_true, decide_eq_true_eq, char_le_iff,
    char_eq_iff c]
  simp
  omega

theorem isDigit_nat {c : Char} : isDigit c = true ↔ (48 ≤ c.toNat ∧ c.toNat ≤ 57) := by
  simp [isDigit, char_le_iff]

theorem isWs_nat {c : Char} : isWs c = true ↔ (c.toNat = 32 ∨ (9 ≤ c.toNat ∧ c.toNat ≤ 13)) := by
  simp only [isWs, Bool.or_eq_true, decide_eq_true_eq, char_eq_iff c]
  simp
  omega

theorem isNameStart_not_digit {c : Char} (h : isNameStart c = true) : isDigit c = false := by
  have := isNameStart_nat.mp h
  rw [← Bool.not_eq_true, isDigit_nat]; omega

theorem isNameStart_not_ws {c : Char} (h : isNameStart c = true) : isWs c = false := by
  have := isNameStart_nat.mp h
  rw [← Bool.not_eq_true, isWs_nat]; omega

theorem isWs_not_nameStart {c : Char} (h : isWs c = true) : isNameStart c = false := by
  have := isWs_nat.mp h
  rw [← Bool.not_eq_true, isNameStart_nat]; omega

theorem isWs_not_digit {c : Char} (h : isWs c = true) : isDigit c = false := by
  have := isWs_nat.mp h
  rw [← Bool.not_eq_true, isDigit_nat]; omega

/-- a character with a given code point is not a given literal -/
theorem ne_of_toNat_ne {c d : Char} (h : c.toNat ≠ d.toNat) : c ≠ d := fun e => h (e ▸ rfl)

theorem tag_nameStart {c : Char} (h : isNameStart c = true) : TP.tag c = .other := by
  have := isNameStart_nat.mp h
  simp only [TP.tag, char_eq_iff c, char_le_iff]
  simp
  repeat' split
  all_goals first | rfl | omega

theorem tag_ws {c : Char} (h : isWs c = true) : TP.tag c = .ws := by
  have := isWs_nat.mp h
  simp only [TP.tag, char_eq_iff c, char_le_iff]
  simp
  repeat' split
  all_goals first | rfl | omega

/-! ## When a scanner cannot fire -/

theorem regexMatch_other (r : List TP.T) : TP.regexMatch (.other :: r) = none := by
  simp [TP.regexMatch, TP.hourAlts]

theorem scanTimePattern_of_tag_other {c : Char} (cs : List Char) (h : TP.tag c = .other) :
    scanTimePattern (c :: cs) = none := by
  simp [scanTimePattern, h, regexMatch_other]

/-- `scanCmp` only fires on `= < > !` -/
theorem scanCmp_none {c : Char} (cs : List Char)
    (h : c ≠ '=' ∧ c ≠ '<' ∧ c ≠ '>' ∧ c ≠ '!') : scanCmp (c :: cs) = none := by
  obtain ⟨h1, h2, h3, h4⟩ := h
  unfold scanCmp
  split <;> simp_all

theorem scanNonAlnum_none {c : Char} (cs : List Char)
    (h : c ≠ '=' ∧ c ≠ '<' ∧ c ≠ '>') (h' : "[](){}+-*<>/%#:^".toList.contains c = false) : scanNonAlnum (c :: cs) = none := by
  obtain ⟨h1, h2, h3⟩ := h
  unfold scanNonAlnum
  split <;> simp_all

theorem scanString_none {c : Char} (cs : List Char) (h : c ≠ '"') : scanString (c :: cs) = none := by
  unfold scanString
  split <;> simp_all

theorem scanNumber_none {c : Char} (cs : List Char) (h : isDigit c = false) (h' : c ≠ '.') :
    scanNumber (c :: cs) = none := by
  simp [scanNumber, List.takeWhile, h]
  split <;> simp_all


/-! ## Words of the name form -/

theorem nameStart_not_punct {c : Char} (h : isNameStart c = true) :
    "[](){}+-*<>/%#:^".toList.contains c = false := by
  have := isNameStart_nat.mp h
  simp [char_eq_iff c]
  omega

theorem nameStart_not_punct' {c : Char} (h : isNameStart c = true) :
    LexTables.nonAlnumList.toList.contains c = false := by
  have := isNameStart_nat.mp h
  simp [LexTables.nonAlnumList, char_eq_iff c]
  omega

theorem nameStart_ne {c : Char} (h : isNameStart c = true) :
    c ≠ '=' ∧ c ≠ '<' ∧ c ≠ '>' ∧ c ≠ '!' ∧ c ≠ '"' ∧ c ≠ '.' ∧ c ≠ '#' := by
  have := isNameStart_nat.mp h
  simp [char_eq_iff c]
  omega

theorem takeWhile_all {α} (p : α → Bool) (l : List α) (h : l.all p = true) : l.takeWhile p = l := by
  induction l with
  | nil => rfl
  | cons a l ih => simp_all [List.takeWhile]

theorem splitLine_nil (f : Nat) : splitLine f [] = [] := by cases f <;> rfl

theorem scanAt_nameStart {c : Char} (cs : List Char) (h : isNameStart c = true) :
    scanAt (c :: cs) = some ((cs.takeWhile isNameChar).length + 1) := by
  obtain ⟨h1, h2, h3, h4, h5, h6, h7⟩ := nameStart_ne h
  simp [scanAt, scanTimePattern_of_tag_other cs (tag_nameStart h), scanCmp_none cs ⟨h1, h2, h3, h4⟩,
    scanString_none cs h5, scanNumber_none cs (isNameStart_not_digit h) h6, scanName, h, Nat.add_comm]

/-- a word of the name form is one match of the token regular expression -/
theorem splitLine_name {c : Char} {cs : List Char} (h : isNameStart c = true)
    (hcs : cs.all isNameChar = true) (f : Nat) : splitLine (f + 1) (c :: cs) = [c :: cs] := by
  simp [splitLine, scanAt_nameStart cs h, takeWhile_all _ _ hcs, splitLine_nil]


theorem unabbreviate_of_not_key {u : String}
    (h : u ∉ LexTables.abbreviations.map (·.1)) : unabbreviate u = u := by
  unfold unabbreviate
  have : LexTables.abbreviations.find? (·.1 == u) = none := by
    rw [List.find?_eq_none]
    intro p hp
    simp only [List.mem_map, not_exists, not_and] at h
    simpa using h p hp
  rw [this]

theorem tokenType_name {u : String} {c : Char} {cs : List Char} (hu : u.toList = c :: cs)
    (h : isNameStart c = true) (hk : u ∉ LexTables.keywords) (hr : u ∉ LexTables.registerWords) :
    tokenType u = "NAME" := by
  obtain ⟨h1, h2, h3, h4, h5, h6, h7⟩ := nameStart_ne h
  simp [tokenType, hk, hr, LexTables.classifyOrder, classifyBy, hu,
    scanTimePattern_of_tag_other cs (tag_nameStart h), scanCmp_none cs ⟨h1, h2, h3, h4⟩,
    scanString_none cs h5, scanNumber_none cs (isNameStart_not_digit h) h6, scanName, h]

theorem lineTokens_name {c : Char} {cs : List Char} (n : Nat) (h : isNameStart c = true)
    (hk : String.ofList (c :: cs) ∉ LexTables.keywords)
    (hr : String.ofList (c :: cs) ∉ LexTables.registerWords)
    (ha : String.ofList (c :: cs) ∉ LexTables.abbreviations.map (·.1)) (rest : List (List Char)) :
    lineTokens n ((c :: cs) :: rest) = ⟨"NAME", String.ofList (c :: cs), n⟩ :: lineTokens n rest := by
  obtain ⟨h1, h2, h3, h4, h5, h6, h7⟩ := nameStart_ne h
  have ht := tokenType_name (u := String.ofList (c :: cs)) (cs := cs) (by simp) h hk hr
  have hne : (String.ofList (c :: cs) == "#") = false := by
    rw [beq_eq_false_iff_ne]
    intro e
    have := congrArg String.toList e
    simp at this
    exact h7 this.1
  rw [lineTokens]
  simp only [unabbreviate_of_not_key ha, hne, ht]
  have hp := nameStart_not_punct' h
  simp only [List.contains_eq_mem, decide_eq_false_iff_not] at hp
  simp [hp]
/-! ## String literals -/

/-- no closing quote, no match -/
theorem scanStringBody_none (prev : Char) (s : List Char) (hq : '"' ∉ s) :
    scanStringBody prev s = none := by
  induction s generalizing prev with
  | nil => rfl
  | cons c s ih =>
    simp only [List.mem_cons, not_or] at hq
    rw [scanStringBody.eq_3 _ _ _ (by intro e; exact hq.1 e.symm)]
    simp [ih c hq.2]

/-- content without `"` and `\`: the literal ends at the first quote, whatever follows -/
theorem scanStringBody_simple (prev : Char) (cs rest : List Char) (hq : '"' ∉ cs)
    (hb : '\\' ∉ cs) (hp : prev ≠ '\\') :
    scanStringBody prev (cs ++ '"' :: rest) = some (cs.length + 1) := by
  induction cs generalizing prev with
  | nil => simp [scanStringBody, hp]
  | cons c cs ih =>
    simp only [List.mem_cons, not_or] at hq hb
    rw [List.cons_append, scanStringBody.eq_3 _ _ _ (by intro e; exact hq.1 e.symm)]
    simp [ih c hq.2 hb.2 (Ne.symm hb.1)]

/-- content without `"` (backslashes allowed), and no `"` later on the line -/
theorem scanStringBody_last (prev : Char) (cs rest : List Char) (hq : '"' ∉ cs)
    (hr : '"' ∉ rest) :
    scanStringBody prev (cs ++ '"' :: rest) = some (cs.length + 1) := by
  induction cs generalizing prev with
  | nil => simp [scanStringBody, scanStringBody_none _ _ hr]
  | cons c cs ih =>
    simp only [List.mem_cons, not_or] at hq
    rw [List.cons_append, scanStringBody.eq_3 _ _ _ (by intro e; exact hq.1 e.symm)]
    simp [ih c hq.2]


theorem replaceEscapedQuotes_id (cs : List Char) (hq : '"' ∉ cs) : replaceEscapedQuotes cs = cs := by
  fun_induction replaceEscapedQuotes cs with
  | case1 rest ih => simp at hq
  | case2 c rest hne ih =>
    simp only [List.mem_cons, not_or] at hq
    rw [ih hq.2]
  | case3 => rfl

theorem tag_quote : TP.tag '"' = .other := by decide

theorem scanAt_quote (s : List Char) : scanAt ('"' :: s) = (scanStringBody '"' s).map (· + 1) ∨ (scanStringBody '"' s = none) := by
  cases h : scanStringBody '"' s with
  | none => right; rfl
  | some k =>
    left
    simp [scanAt, scanTimePattern_of_tag_other s tag_quote, scanCmp_none s (c := '"') (by decide), scanString, h]

theorem take_append_succ {α} (cs rest : List α) (q : α) :
    (cs ++ q :: rest).take (cs.length + 1) = cs ++ [q] := by
  induction cs <;> simp_all

theorem drop_append_succ {α} (cs rest : List α) (q : α) :
    (cs ++ q :: rest).drop (cs.length + 1) = rest := by
  induction cs <;> simp_all

/-- a string literal whose body scan stops at the first quote is one match -/
theorem splitLine_string (f : Nat) (cs rest : List Char)
    (hs : scanStringBody '"' (cs ++ '"' :: rest) = some (cs.length + 1)) :
    splitLine (f + 1) ('"' :: (cs ++ '"' :: rest)) = ('"' :: (cs ++ ['"'])) :: splitLine f rest := by
  have h := scanAt_quote (cs ++ '"' :: rest)
  rw [hs] at h
  simp only [Option.map_some, reduceCtorEq, or_false] at h
  rw [splitLine, h]
  simp [take_append_succ, drop_append_succ]


/-- first character of a word is a name-start character -/
def startsName (u : String) : Bool :=
  match u.toList with
  | c :: _ => isNameStart c
  | [] => false

theorem tables_startName :
    LexTables.keywords.all startsName = true ∧ LexTables.registerWords.all startsName = true ∧
    (LexTables.abbreviations.map (·.1)).all startsName = true := by decide +kernel

theorem not_in_tables {u : String} (h : startsName u = false) :
    u ∉ LexTables.keywords ∧ u ∉ LexTables.registerWords ∧
    u ∉ LexTables.abbreviations.map (·.1) := by
  obtain ⟨h1, h2, h3⟩ := tables_startName
  rw [List.all_eq_true] at h1 h2 h3
  refine ⟨fun hm => ?_, fun hm => ?_, fun hm => ?_⟩
  · rw [h1 u hm] at h; cases h
  · rw [h2 u hm] at h; cases h
  · rw [h3 u hm] at h; cases h

theorem lineTokens_string (n : Nat) (cs : List Char) (hq : '"' ∉ cs) (more : List (List Char)) :
    lineTokens n (('"' :: (cs ++ ['"'])) :: more)
      = ⟨"LITERAL_STRING", String.ofList cs, n⟩ :: lineTokens n more := by
  rw [lineTokens]
  have hu : (String.ofList ('"' :: (cs ++ ['"']))).toList = '"' :: (cs ++ ['"']) := by simp
  generalize String.ofList ('"' :: (cs ++ ['"'])) = u at hu
  have hst : startsName u = false := by
    simp only [startsName, hu]; decide
  obtain ⟨hk, hr, ha⟩ := not_in_tables hst
  have hne : (u == "#") = false := by
    rw [beq_eq_false_iff_ne]
    intro e
    have := congrArg String.toList e
    rw [hu] at this
    simp at this
  have hlen : (u.length == 1) = false := by
    rw [← String.length_toList, hu]; simp
  have ht : tokenType u = "LITERAL_STRING" := by
    simp [tokenType, hk, hr, LexTables.classifyOrder, classifyBy, hu,
      scanTimePattern_of_tag_other _ tag_quote, scanCmp_none _ (c := '"') (by decide), scanString,
      scanStringBody_last '"' cs [] hq (by simp)]
  simp only [unabbreviate_of_not_key ha, hne, ht, hlen, hu]
  simp [replaceEscapedQuotes_id cs hq]

/-! ## Comments and composition of `lineTokens` -/

theorem lineTokens_hash (n : Nat) (rest : List (List Char)) : lineTokens n (['#'] :: rest) = [] := by
  rfl

/-- the only match that cuts a line is `#` itself -/
theorem unabbreviate_eq_hash (m : List Char) :
    unabbreviate (String.ofList m) = "#" ↔ m = ['#'] := by
  constructor
  · intro h
    by_cases hk : String.ofList m ∈ LexTables.abbreviations.map (·.1)
    · exfalso
      have : ∀ k ∈ LexTables.abbreviations.map (·.1), unabbreviate k ≠ "#" := by decide +kernel
      exact this _ hk h
    · rw [unabbreviate_of_not_key hk] at h
      have := congrArg String.toList h
      simpa using this
  · rintro rfl; rfl

theorem lineTokens_cut (n : Nat) (xs ys : List (List Char)) (m : List Char)
    (hm : unabbreviate (String.ofList m) = "#") :
    lineTokens n (xs ++ m :: ys) = lineTokens n xs := by
  induction xs with
  | nil => simp [lineTokens, hm]
  | cons x xs ih =>
    simp only [List.cons_append, lineTokens]
    split
    · rfl
    · split <;> rw [ih]


/-- without a `#` match in `xs`, the tokens of `xs ++ ys` are those of `xs` then those of `ys`,
one token per match -/
theorem lineTokens_append (n : Nat) (xs ys : List (List Char)) (h : ['#'] ∉ xs) :
    lineTokens n (xs ++ ys) = lineTokens n xs ++ lineTokens n ys ∧
    (lineTokens n xs).length = xs.length := by
  induction xs with
  | nil => simp [lineTokens]
  | cons x xs ih =>
    simp only [List.mem_cons, not_or] at h
    have hx : (unabbreviate (String.ofList x) == "#") = false := by
      rw [beq_eq_false_iff_ne]
      intro e
      exact h.1 ((unabbreviate_eq_hash x).mp e).symm
    obtain ⟨ih1, ih2⟩ := ih h.2
    simp only [List.cons_append, lineTokens, hx, ih1, Bool.false_eq_true, if_false]
    split <;> simp [ih2]

/-! ## In front of white space every scanner sees only what precedes it; matches stay inside the text -/

open TP

/-! ### the time pattern in front of white space -/

theorem hourAlts_append_ws (x y : List T) :
    hourAlts (x ++ T.ws :: y) = (hourAlts x).map fun p => (p.1, p.2 ++ T.ws :: y) := by
  match x with
  | [] => simp [hourAlts]
  | [t] => cases t <;> simp [hourAlts]
  | t :: u :: x' => cases t <;> cases u <;> simp [hourAlts]

theorem minAlts_append_ws (x y : List T) :
    minAlts (x ++ T.ws :: y) = (minAlts x).map fun p => (p.1, p.2 ++ T.ws :: y) := by
  match x with
  | [] => simp [minAlts]
  | [t] => cases t <;> simp [minAlts]
  | t :: u :: x' => cases t <;> cases u <;> simp [minAlts]

theorem lookOk_append_ws (x y : List T) : lookOk (x ++ T.ws :: y) = lookOk x := by
  match x with
  | [] => rfl
  | t :: x' => cases t <;> rfl

theorem regexMatch_append_ws (x y : List T) : regexMatch (x ++ T.ws :: y) = regexMatch x := by
  unfold regexMatch
  rw [hourAlts_append_ws, List.findSome?_map]
  congr 1
  funext ⟨h, r⟩
  simp only [Function.comp]
  match r with
  | [] => rfl
  | t :: r' =>
    cases t <;> simp only [List.cons_append]
    rw [minAlts_append_ws, List.findSome?_map]
    congr 1
    funext ⟨m, rest⟩
    simp only [Function.comp, lookOk_append_ws]


theorem scanTimePattern_append_ws (a r : List Char) {w : Char} (hw : isWs w = true) :
    scanTimePattern (a ++ w :: r) = scanTimePattern a := by
  simp only [scanTimePattern, List.map_append, List.map_cons, tag_ws hw, regexMatch_append_ws]

theorem isWs_ne {w : Char} (hw : isWs w = true) :
    w ≠ '=' ∧ w ≠ '<' ∧ w ≠ '>' ∧ w ≠ '!' ∧ w ≠ '"' ∧ w ≠ '.' ∧ w ≠ '#' ∧
    "[](){}+-*<>/%#:^".toList.contains w = false := by
  have := isWs_nat.mp hw
  simp [char_eq_iff w]
  omega

theorem scanCmp_fst (c d : Char) (t : List Char) (hd : d ≠ '=') :
    scanCmp (c :: d :: t) = scanCmp [c] := by
  by_cases h1 : c = '='
  · subst h1; simp [scanCmp, hd]
  by_cases h2 : c = '<'
  · subst h2; simp [scanCmp, hd]
  by_cases h3 : c = '>'
  · subst h3; simp [scanCmp, hd]
  by_cases h4 : c = '!'
  · subst h4; simp [scanCmp, hd]
  rw [scanCmp_none _ ⟨h1, h2, h3, h4⟩, scanCmp_none _ ⟨h1, h2, h3, h4⟩]

theorem scanCmp_snd_eq (c : Char) (t : List Char) :
    scanCmp (c :: '=' :: t) = scanCmp [c, '='] := by
  by_cases h1 : c = '='
  · subst h1; simp [scanCmp]
  by_cases h2 : c = '<'
  · subst h2; simp [scanCmp]
  by_cases h3 : c = '>'
  · subst h3; simp [scanCmp]
  by_cases h4 : c = '!'
  · subst h4; simp [scanCmp]
  rw [scanCmp_none _ ⟨h1, h2, h3, h4⟩, scanCmp_none _ ⟨h1, h2, h3, h4⟩]

theorem scanCmp_append_ws (a r : List Char) {w : Char} (hw : isWs w = true) :
    scanCmp (a ++ w :: r) = scanCmp a := by
  obtain ⟨h1, h2, h3, h4, -⟩ := isWs_ne hw
  match a with
  | [] => simp [scanCmp_none r ⟨h1, h2, h3, h4⟩]; rfl
  | [c] => exact scanCmp_fst c w r h1
  | c :: d :: a' =>
    simp only [List.cons_append]
    by_cases hd : d = '='
    · subst hd; rw [scanCmp_snd_eq, scanCmp_snd_eq c a']
    · rw [scanCmp_fst _ _ _ hd, scanCmp_fst _ _ _ hd]


theorem scanNonAlnum_other {c : Char} (t : List Char) (h : c ≠ '=' ∧ c ≠ '<' ∧ c ≠ '>') :
    scanNonAlnum (c :: t) = if "[](){}+-*<>/%#:^".toList.contains c then some 1 else none := by
  obtain ⟨h1, h2, h3⟩ := h
  unfold scanNonAlnum
  split <;> simp_all

theorem scanNonAlnum_fst (c d : Char) (t : List Char) (hd : d ≠ '=') :
    scanNonAlnum (c :: d :: t) = scanNonAlnum [c] := by
  by_cases h1 : c = '='
  · subst h1; simp [scanNonAlnum, hd]
  by_cases h2 : c = '<'
  · subst h2; simp [scanNonAlnum, hd]
  by_cases h3 : c = '>'
  · subst h3; simp [scanNonAlnum, hd]
  rw [scanNonAlnum_other _ ⟨h1, h2, h3⟩, scanNonAlnum_other _ ⟨h1, h2, h3⟩]

theorem scanNonAlnum_snd_eq (c : Char) (t : List Char) :
    scanNonAlnum (c :: '=' :: t) = scanNonAlnum [c, '='] := by
  by_cases h1 : c = '='
  · subst h1; simp [scanNonAlnum]
  by_cases h2 : c = '<'
  · subst h2; simp [scanNonAlnum]
  by_cases h3 : c = '>'
  · subst h3; simp [scanNonAlnum]
  rw [scanNonAlnum_other _ ⟨h1, h2, h3⟩, scanNonAlnum_other _ ⟨h1, h2, h3⟩]

theorem scanNonAlnum_append_ws (a r : List Char) {w : Char} (hw : isWs w = true) :
    scanNonAlnum (a ++ w :: r) = scanNonAlnum a := by
  obtain ⟨h1, h2, h3, h4, h5, h6, h7, h8⟩ := isWs_ne hw
  match a with
  | [] => simp [scanNonAlnum_none r ⟨h1, h2, h3⟩ h8]; rfl
  | [c] => exact scanNonAlnum_fst c w r h1
  | c :: d :: a' =>
    simp only [List.cons_append]
    by_cases hd : d = '='
    · subst hd; rw [scanNonAlnum_snd_eq, scanNonAlnum_snd_eq c a']
    · rw [scanNonAlnum_fst _ _ _ hd, scanNonAlnum_fst _ _ _ hd]

theorem takeWhile_append_stop {α} (p : α → Bool) (a r : List α) {w : α} (hw : p w = false) :
    (a ++ w :: r).takeWhile p = a.takeWhile p := by
  induction a with
  | nil => simp [List.takeWhile, hw]
  | cons x a ih => simp only [List.cons_append, List.takeWhile]; split <;> simp [ih]

theorem scanName_append_ws (a r : List Char) {w : Char} (hw : isWs w = true) :
    scanName (a ++ w :: r) = scanName a := by
  match a with
  | [] => simp [scanName, isWs_not_nameStart hw]
  | c :: a' =>
    have : isNameChar w = false := by simp [isNameChar, isWs_not_nameStart hw, isWs_not_digit hw]
    simp only [List.cons_append, scanName, takeWhile_append_stop _ _ _ this]

theorem scanDefault_append_ws (a r : List Char) {w : Char} (hw : isWs w = true) :
    scanDefault (a ++ w :: r) = scanDefault a := by
  have h : (fun c => !isWs c) w = false := by simp [hw]
  simp only [scanDefault, takeWhile_append_stop (fun c => !isWs c) a r h]

theorem scanString_append_ws (a r : List Char) {w : Char} (hw : isWs w = true) (ha : '"' ∉ a) :
    scanString (a ++ w :: r) = scanString a := by
  obtain ⟨h1, h2, h3, h4, h5, -⟩ := isWs_ne hw
  match a with
  | [] => simp [scanString_none r h5]; rfl
  | c :: a' =>
    simp only [List.mem_cons, not_or] at ha
    rw [List.cons_append, scanString_none _ (Ne.symm ha.1), scanString_none _ (Ne.symm ha.1)]


/-- `scanNumber` in terms of the digit prefix and what follows it -/
def numberTail (d1 : Nat) : List Char → Option Nat
  | '.' :: rest =>
    let d2 := (rest.takeWhile isDigit).length
    if d2 > 0 then some (d1 + 1 + d2) else if d1 > 0 then some d1 else none
  | _ => if d1 > 0 then some d1 else none

theorem scanNumber_eq (s : List Char) :
    scanNumber s = numberTail (s.takeWhile isDigit).length (s.drop (s.takeWhile isDigit).length) := by
  unfold scanNumber numberTail
  rfl

theorem numberTail_append_ws (d1 : Nat) (t r : List Char) {w : Char} (hw : isWs w = true) :
    numberTail d1 (t ++ w :: r) = numberTail d1 t := by
  obtain ⟨h1, h2, h3, h4, h5, h6, -⟩ := isWs_ne hw
  match t with
  | [] =>
    simp only [List.nil_append]
    unfold numberTail
    split <;> simp_all
  | x :: t' =>
    by_cases hx : x = '.'
    · subst hx
      simp only [List.cons_append, numberTail, takeWhile_append_stop _ _ _ (isWs_not_digit hw)]
    · simp only [List.cons_append]
      unfold numberTail
      split <;> simp_all

theorem takeWhile_length_le {α} (p : α → Bool) (l : List α) : (l.takeWhile p).length ≤ l.length := by
  induction l with
  | nil => simp
  | cons a l ih => simp only [List.takeWhile]; split <;> simp <;> omega

theorem scanNumber_append_ws (a r : List Char) {w : Char} (hw : isWs w = true) :
    scanNumber (a ++ w :: r) = scanNumber a := by
  rw [scanNumber_eq, scanNumber_eq, takeWhile_append_stop _ _ _ (isWs_not_digit hw),
    List.drop_append_of_le_length (takeWhile_length_le _ _), numberTail_append_ws _ _ _ hw]

/-- in front of white space every alternative sees only what precedes the white space -/
theorem scanAt_append_ws (a r : List Char) {w : Char} (hw : isWs w = true) (ha : '"' ∉ a) :
    scanAt (a ++ w :: r) = scanAt a := by
  simp only [scanAt, scanTimePattern_append_ws _ _ hw, scanCmp_append_ws _ _ hw,
    scanString_append_ws _ _ hw ha, scanNumber_append_ws _ _ hw, scanName_append_ws _ _ hw,
    scanNonAlnum_append_ws _ _ hw, scanDefault_append_ws _ _ hw]

open TP in
theorem hourAlts_length {s : List T} {h : List PC} {r : List T} (hm : (h, r) ∈ hourAlts s) :
    s.length = h.length + r.length := by
  unfold hourAlts at hm
  simp only [List.mem_append] at hm
  rcases hm with (((hm | hm) | hm) | hm) | hm <;> split at hm <;> simp at hm <;>
    obtain ⟨rfl, rfl⟩ := hm <;> simp <;> omega

open TP in
theorem minAlts_length {s : List T} {h : List PC} {r : List T} (hm : (h, r) ∈ minAlts s) :
    s.length = h.length + r.length := by
  unfold minAlts at hm
  simp only [List.mem_append] at hm
  rcases hm with ((hm | hm) | hm) | hm <;> split at hm <;> simp at hm <;>
    obtain ⟨rfl, rfl⟩ := hm <;> simp <;> omega

open TP in
theorem regexMatch_length {s : List T} {h m : List PC} (hm : regexMatch s = some (h, m)) :
    h.length + 1 + m.length ≤ s.length := by
  unfold regexMatch at hm
  obtain ⟨⟨h', r⟩, hmem, hf⟩ := List.exists_of_findSome?_eq_some hm
  have hl := hourAlts_length hmem
  match r, hf with
  | .colon :: r', hf =>
    simp only at hf
    obtain ⟨⟨m', rest⟩, hmem2, hf2⟩ := List.exists_of_findSome?_eq_some hf
    have hl2 := minAlts_length hmem2
    simp only at hf2
    split at hf2
    · simp only [Option.some.injEq, Prod.mk.injEq] at hf2
      obtain ⟨rfl, rfl⟩ := hf2
      simp only [List.length_cons] at hl
      omega
    · cases hf2

theorem scanTimePattern_le {a : List Char} {n : Nat} (h : scanTimePattern a = some n) :
    n ≤ a.length := by
  simp only [scanTimePattern, Option.map_eq_some_iff] at h
  obtain ⟨⟨hh, mm⟩, hm, rfl⟩ := h
  have := regexMatch_length hm
  simpa using this

theorem scanCmp_le {a : List Char} {n : Nat} (h : scanCmp a = some n) : n ≤ a.length := by
  unfold scanCmp at h
  split at h <;> simp_all <;> omega

theorem scanNonAlnum_le {a : List Char} {n : Nat} (h : scanNonAlnum a = some n) : n ≤ a.length := by
  unfold scanNonAlnum at h
  split at h <;> simp_all <;> omega

theorem scanName_le {a : List Char} {n : Nat} (h : scanName a = some n) : n ≤ a.length := by
  unfold scanName at h
  split at h
  · split at h
    · have := takeWhile_length_le isNameChar ‹List Char›
      simp at h; simp; omega
    · cases h
  · cases h

theorem scanDefault_le {a : List Char} {n : Nat} (h : scanDefault a = some n) : n ≤ a.length := by
  unfold scanDefault at h
  simp only at h
  split at h
  · have := takeWhile_length_le (fun c => !isWs c) a
    simp at h; omega
  · cases h

theorem numberTail_le {d1 n : Nat} {t : List Char} (h : numberTail d1 t = some n) :
    n ≤ d1 + t.length := by
  unfold numberTail at h
  split at h
  · have := takeWhile_length_le isDigit ‹List Char›
    simp only at h
    split at h
    · simp at h; simp; omega
    · split at h <;> simp at h; omega
  · split at h <;> simp at h; omega

theorem scanNumber_le {a : List Char} {n : Nat} (h : scanNumber a = some n) : n ≤ a.length := by
  rw [scanNumber_eq] at h
  have := numberTail_le h
  have h2 := takeWhile_length_le isDigit a
  simp only [List.length_drop] at this
  omega


theorem scanStringBody_le {prev : Char} {s : List Char} {n : Nat}
    (h : scanStringBody prev s = some n) : n ≤ s.length := by
  induction s generalizing prev n with
  | nil => cases h
  | cons c s ih =>
    by_cases hc : c = '"'
    · subst hc
      simp only [scanStringBody] at h
      split at h
      · split at h
        · rename_i k hk
          have := ih hk
          simp at h; simp; omega
        · simp at h; simp; omega
      · simp at h; simp; omega
    · rw [scanStringBody.eq_3 _ _ _ hc] at h
      simp only [Option.map_eq_some_iff] at h
      obtain ⟨k, hk, rfl⟩ := h
      have := ih hk
      simp; omega

theorem scanString_le {a : List Char} {n : Nat} (h : scanString a = some n) : n ≤ a.length := by
  unfold scanString at h
  split at h
  · simp only [Option.map_eq_some_iff] at h
    obtain ⟨k, hk, rfl⟩ := h
    have := scanStringBody_le hk
    simp; omega
  · cases h

/-- a match never extends past the end of the text -/
theorem scanAt_le {a : List Char} {n : Nat} (h : scanAt a = some n) : n ≤ a.length := by
  unfold scanAt at h
  cases h1 : scanTimePattern a with
  | some k => rw [h1] at h; cases h; exact scanTimePattern_le h1
  | none =>
  rw [h1] at h
  cases h2 : scanCmp a with
  | some k => rw [h2] at h; cases h; exact scanCmp_le h2
  | none =>
  rw [h2] at h
  cases h3 : scanString a with
  | some k => rw [h3] at h; cases h; exact scanString_le h3
  | none =>
  rw [h3] at h
  cases h4 : scanNumber a with
  | some k => rw [h4] at h; cases h; exact scanNumber_le h4
  | none =>
  rw [h4] at h
  cases h5 : scanName a with
  | some k => rw [h5] at h; cases h; exact scanName_le h5
  | none =>
  rw [h5] at h
  cases h6 : scanNonAlnum a with
  | some k => rw [h6] at h; cases h; exact scanNonAlnum_le h6
  | none =>
  rw [h6] at h
  exact scanDefault_le h

/-! ## `splitLine`: fuel, leading white space, splitting at white space -/

/-- any fuel ≥ the length of the text gives the same matches -/
theorem splitLine_fuel (f g : Nat) (s : List Char) (hf : s.length ≤ f) (hg : s.length ≤ g) :
    splitLine f s = splitLine g s := by
  induction f generalizing g s with
  | zero =>
    have : s = [] := List.eq_nil_of_length_eq_zero (by omega)
    subst this; rw [splitLine_nil, splitLine_nil]
  | succ f ih =>
    match s, g with
    | [], g => rw [splitLine_nil, splitLine_nil]
    | c :: rest, 0 => simp at hg
    | c :: rest, g + 1 =>
      simp only [List.length_cons] at hf hg
      simp only [splitLine]
      cases h : scanAt (c :: rest) with
      | none => exact ih g rest (by omega) (by omega)
      | some n =>
        simp only
        split
        · exact ih g rest (by omega) (by omega)
        · rename_i hn
          have hl : ((c :: rest).drop n).length ≤ rest.length := by
            simp only [List.length_drop, List.length_cons]; omega
          rw [ih g _ (by omega) (by omega)]

/-- leading white space is skipped -/
theorem splitLine_ws (f : Nat) (w : Char) (s : List Char) (hw : isWs w = true) :
    splitLine (f + 1) (w :: s) = splitLine f s := by
  have h : scanAt (w :: s) = none := by
    have := scanAt_append_ws [] s hw (by simp)
    rw [List.nil_append] at this
    rw [this]; decide
  simp [splitLine, h]

theorem splitLine_ws_list (f : Nat) (ws s : List Char) (hws : ws.all isWs = true) :
    splitLine (f + ws.length) (ws ++ s) = splitLine f s := by
  induction ws with
  | nil => rfl
  | cons w ws ih =>
    simp only [List.all_cons, Bool.and_eq_true] at hws
    rw [List.length_cons, ← Nat.add_assoc, List.cons_append, splitLine_ws _ _ _ hws.1, ih hws.2]


/-- the matches of `a ++ ws ++ b` are the matches of `a` followed by the matches of `b`, for
non-empty white space `ws` and `a` free of double quotes -/
theorem splitLine_append_ws (f : Nat) (a ws b : List Char) (ha : '"' ∉ a) (hne : ws ≠ [])
    (hws : ws.all isWs = true) (hf : (a ++ ws ++ b).length ≤ f) :
    splitLine f (a ++ ws ++ b) = splitLine a.length a ++ splitLine b.length b := by
  induction f generalizing a with
  | zero =>
    exfalso
    cases ws with
    | nil => exact hne rfl
    | cons w ws => simp at hf
  | succ f ih =>
    match a with
    | [] =>
      simp only [List.nil_append, List.length_nil, splitLine_nil, List.length_append] at hf ⊢
      have : f + 1 = (f + 1 - ws.length) + ws.length := by omega
      rw [this, splitLine_ws_list _ _ _ hws]
      exact splitLine_fuel _ _ _ (by omega) (Nat.le_refl _)
    | c :: a' =>
      obtain ⟨w, ws', rfl⟩ : ∃ w ws', ws = w :: ws' := by
        cases ws with
        | nil => exact absurd rfl hne
        | cons w ws' => exact ⟨w, ws', rfl⟩
      simp only [List.all_cons, Bool.and_eq_true] at hws
      have hsc : scanAt (c :: (a' ++ (w :: ws') ++ b)) = scanAt (c :: a') := by
        have := scanAt_append_ws (c :: a') (ws' ++ b) hws.1 ha
        simpa using this
      have ha' : '"' ∉ a' := fun h => ha (List.mem_cons_of_mem _ h)
      have hf' : (a' ++ (w :: ws') ++ b).length ≤ f := by
        simp only [List.length_append, List.length_cons] at hf ⊢; omega
      have hall : (w :: ws').all isWs = true := by simp [hws.1, hws.2]
      simp only [List.cons_append, List.length_cons]
      rw [splitLine, splitLine, hsc]
      cases h : scanAt (c :: a') with
      | none => exact ih a' ha' hf'
      | some n =>
        simp only
        split
        · exact ih a' ha' hf'
        · rename_i hn
          have hle := scanAt_le h
          have e1 : (c :: (a' ++ w :: ws' ++ b)).take n = (c :: a').take n := by
            have : c :: (a' ++ w :: ws' ++ b) = (c :: a') ++ (w :: ws' ++ b) := by simp
            rw [this, List.take_append_of_le_length hle]
          have e2 : (c :: (a' ++ w :: ws' ++ b)).drop n = (c :: a').drop n ++ (w :: ws') ++ b := by
            have : c :: (a' ++ w :: ws' ++ b) = (c :: a') ++ (w :: ws' ++ b) := by simp
            rw [this, List.drop_append_of_le_length hle]; simp
          have hd : '"' ∉ (c :: a').drop n := fun hm => ha (List.mem_of_mem_drop hm)
          have hdl : ((c :: a').drop n).length ≤ a'.length := by
            simp only [List.length_drop, List.length_cons]; omega
          rw [e1, e2, ih _ hd (by
            simp only [List.length_append, List.length_cons] at hf ⊢; omega)]
          rw [splitLine_fuel a'.length ((c :: a').drop n).length _ hdl (Nat.le_refl _)]
          simp

theorem scanAt_hash (b : List Char) : scanAt ('#' :: b) = some 1 := by
  have h1 : scanTimePattern ('#' :: b) = none := by
    have ht : TP.tag '#' = .ws := by decide
    simp [scanTimePattern, ht, TP.regexMatch, TP.hourAlts]
  have h2 : scanCmp ('#' :: b) = none := scanCmp_none b (by decide)
  have h3 : scanString ('#' :: b) = none := scanString_none b (by decide)
  have h4 : scanNumber ('#' :: b) = none := scanNumber_none b (by decide) (by decide)
  have h5 : scanName ('#' :: b) = none := by simp [scanName]; decide
  have h6 : scanNonAlnum ('#' :: b) = some 1 := by
    rw [scanNonAlnum_other b (by decide)]; decide
  simp [scanAt, h1, h2, h3, h4, h5, h6]

theorem splitLine_hash (f : Nat) (b : List Char) :
    splitLine (f + 1) ('#' :: b) = ['#'] :: splitLine f b := by
  simp [splitLine, scanAt_hash]

/-- the line number is only copied into the tokens -/
theorem lineTokens_line (n m : Nat) (xs : List (List Char)) :
    (lineTokens n xs).map (fun t => (t.type, t.content))
      = (lineTokens m xs).map (fun t => (t.type, t.content)) := by
  induction xs with
  | nil => rfl
  | cons x xs ih =>
    simp only [lineTokens]
    split
    · rfl
    · split <;> simp [ih]

/-! ## String literals: the exact condition -/

/-- content without `"` whose last character (or, if empty, the character before it) is not a
backslash: the literal ends at the first quote, whatever follows -/
theorem scanStringBody_noesc (prev : Char) (cs rest : List Char) (hq : '"' ∉ cs)
    (hl : (prev :: cs).getLast? ≠ some '\\') :
    scanStringBody prev (cs ++ '"' :: rest) = some (cs.length + 1) := by
  induction cs generalizing prev with
  | nil =>
    have : prev ≠ '\\' := by simpa using hl
    simp [scanStringBody, this]
  | cons c cs ih =>
    simp only [List.mem_cons, not_or] at hq
    rw [List.cons_append, scanStringBody.eq_3 _ _ _ (by intro e; exact hq.1 e.symm)]
    rw [List.getLast?_cons_cons] at hl
    simp [ih c hq.2 hl]

theorem getLast?_quote_cons (cs : List Char) (h : cs.getLast? ≠ some '\\') :
    ('"' :: cs).getLast? ≠ some '\\' := by
  cases cs with
  | nil => decide
  | cons c cs => rw [List.getLast?_cons_cons]; exact h

/-! ## Punctuation, names and numbers without separating white space -/

/-- punctuation characters that are their own match whatever follows: the punctuation list
without `*` (which may start a time pattern such as `*:30`) -/
def soloPunct : List Char := "[]{}()+-/%#:^".toList

theorem scanAt_soloPunct (p : Char) (rest : List Char) (hp : p ∈ soloPunct) :
    scanAt (p :: rest) = some 1 := by
  have h1 : scanTimePattern (p :: rest) = none := by
    simp only [scanTimePattern, List.map_cons]
    have : ∀ q ∈ soloPunct, TP.tag q = .other ∨ TP.tag q = .colon ∨ TP.tag q = .ws := by decide
    rcases this p hp with h | h | h <;> rw [h] <;> simp [TP.regexMatch, TP.hourAlts]
  have hne : ∀ q ∈ soloPunct, q ≠ '=' ∧ q ≠ '<' ∧ q ≠ '>' ∧ q ≠ '!' ∧ q ≠ '"' ∧ q ≠ '.' ∧
      isDigit q = false ∧ isNameStart q = false ∧
      "[](){}+-*<>/%#:^".toList.contains q = true := by decide
  obtain ⟨a1, a2, a3, a4, a5, a6, a7, a8, a9⟩ := hne p hp
  have h2 : scanCmp (p :: rest) = none := scanCmp_none rest ⟨a1, a2, a3, a4⟩
  have h3 : scanString (p :: rest) = none := scanString_none rest a5
  have h4 : scanNumber (p :: rest) = none := scanNumber_none rest a7 a6
  have h5 : scanName (p :: rest) = none := by simp [scanName, a8]
  have h6 : scanNonAlnum (p :: rest) = some 1 := by
    rw [scanNonAlnum_other rest ⟨a1, a2, a3⟩, a9]; rfl
  simp [scanAt, h1, h2, h3, h4, h5, h6]

theorem splitLine_soloPunct (f : Nat) (p : Char) (rest : List Char) (hp : p ∈ soloPunct) :
    splitLine (f + 1) (p :: rest) = [p] :: splitLine f rest := by
  simp [splitLine, scanAt_soloPunct p rest hp]

/-- a word of the name form ends where the name characters end, whatever follows -/
theorem splitLine_name_then (f : Nat) {c p : Char} {cs : List Char} (rest : List Char)
    (h : isNameStart c = true) (hcs : cs.all isNameChar = true) (hp : isNameChar p = false) :
    splitLine (f + 1) (c :: cs ++ p :: rest) = (c :: cs) :: splitLine f (p :: rest) := by
  have ht : (cs ++ p :: rest).takeWhile isNameChar = cs := by
    rw [takeWhile_append_stop _ _ _ hp, takeWhile_all _ _ hcs]
  rw [List.cons_append, splitLine, scanAt_nameStart _ h, ht]
  simp

open TP in
theorem regexMatch_digits_then (l : List (Fin 10)) (hl : l ≠ []) (t : T) (r : List T)
    (ht : t = .other ∨ t = .ws ∨ (t = .star ∧ r.head? ≠ some .colon)) :
    regexMatch (l.map T.dig ++ t :: r) = none := by
  match l with
  | [] => exact absurd rfl hl
  | [d] =>
    rcases ht with rfl | rfl | ⟨rfl, hr⟩
    · simp [regexMatch, hourAlts]
    · simp [regexMatch, hourAlts]
    · match r with
      | [] => simp [regexMatch, hourAlts]
      | x :: r' =>
        cases x <;> first | exact absurd rfl hr | simp [regexMatch, hourAlts]
  | [d, e] =>
    rcases ht with rfl | rfl | ⟨rfl, _⟩ <;> simp [regexMatch, hourAlts]
  | d :: e :: g :: l' => simp [regexMatch, hourAlts]

theorem tag_digit {c : Char} (h : isDigit c = true) : ∃ d, TP.tag c = .dig d := by
  have := isDigit_nat.mp h
  refine ⟨Fin.ofNat 10 (c.toNat - 48), ?_⟩
  simp only [TP.tag, char_eq_iff c, char_le_iff]
  simp
  repeat' split
  all_goals first | rfl | omega

theorem map_tag_digits (ds : List Char) (h : ds.all isDigit = true) :
    ∃ l : List (Fin 10), ds.map TP.tag = l.map TP.T.dig ∧ l.length = ds.length := by
  induction ds with
  | nil => exact ⟨[], rfl, rfl⟩
  | cons c ds ih =>
    simp only [List.all_cons, Bool.and_eq_true] at h
    obtain ⟨l, hl, hlen⟩ := ih h.2
    obtain ⟨d, hd⟩ := tag_digit h.1
    exact ⟨d :: l, by simp [hd, hl], by simp [hlen]⟩

/-- what the character after a run of digits must be for the run to be a match on its own:
not a digit, not `.`, not `:`; and if it is `*`, no `:` after it (`5*:30` is a time pattern) -/
def endsNumber (p : Char) (rest : List Char) : Prop :=
  isDigit p = false ∧ p ≠ '.' ∧ p ≠ ':' ∧ (p = '*' → rest.head? ≠ some ':')

theorem tag_cases_of_endsNumber {p : Char} {rest : List Char} (h : endsNumber p rest) :
    TP.tag p = .other ∨ TP.tag p = .ws ∨
      (TP.tag p = .star ∧ (rest.map TP.tag).head? ≠ some .colon) := by
  obtain ⟨h1, h2, h3, h4⟩ := h
  by_cases hs : p = '*'
  · right; right
    subst hs
    refine ⟨by decide, ?_⟩
    have := h4 rfl
    match rest with
    | [] => simp
    | x :: rest' =>
      simp only [List.map_cons, List.head?_cons, ne_eq, Option.some.injEq] at this ⊢
      intro hx
      apply this
      -- tag x = colon → x = ':'
      unfold TP.tag at hx
      repeat' split at hx
      all_goals first | cases hx | assumption
  · have hd : ¬ ('0' ≤ p ∧ p ≤ '9') := by
      intro hh; simp [isDigit, hh.1, hh.2] at h1
    unfold TP.tag
    rw [if_neg hs, if_neg h3, if_neg hd]
    split
    · right; left; rfl
    · split
      · right; left; rfl
      · left; rfl

theorem scanAt_digits_then (ds : List Char) (p : Char) (rest : List Char) (hne : ds ≠ [])
    (hds : ds.all isDigit = true) (hp : endsNumber p rest) :
    scanAt (ds ++ p :: rest) = some ds.length := by
  obtain ⟨l, hl, hlen⟩ := map_tag_digits ds hds
  have h1 : scanTimePattern (ds ++ p :: rest) = none := by
    simp only [scanTimePattern, List.map_append, List.map_cons, hl]
    rw [regexMatch_digits_then l (by intro e; subst e; simp at hlen; exact hne (List.eq_nil_of_length_eq_zero hlen.symm)) _ _
      (tag_cases_of_endsNumber hp)]
    rfl
  obtain ⟨c, ds', rfl⟩ : ∃ c ds', ds = c :: ds' := by
    cases ds with
    | nil => exact absurd rfl hne
    | cons c ds' => exact ⟨c, ds', rfl⟩
  simp only [List.all_cons, Bool.and_eq_true] at hds
  have hcn := isDigit_nat.mp hds.1
  have hc : c ≠ '=' ∧ c ≠ '<' ∧ c ≠ '>' ∧ c ≠ '!' ∧ c ≠ '"' := by
    simp [char_eq_iff c]; omega
  have hall : (c :: ds').all isDigit = true := by simp [hds.1, hds.2]
  generalize hs : c :: ds' ++ p :: rest = s at h1 ⊢
  have hs' : s = c :: (ds' ++ p :: rest) := by rw [← hs]; rfl
  have h2 : scanCmp s = none := by
    rw [hs']; exact scanCmp_none _ ⟨hc.1, hc.2.1, hc.2.2.1, hc.2.2.2.1⟩
  have h3 : scanString s = none := by rw [hs']; exact scanString_none _ hc.2.2.2.2
  have h4 : scanNumber s = some (ds'.length + 1) := by
    have htw : s.takeWhile isDigit = c :: ds' := by
      rw [← hs, takeWhile_append_stop _ _ _ hp.1, takeWhile_all _ _ hall]
    have hdr : s.drop (c :: ds').length = p :: rest := by rw [← hs, List.drop_left]
    rw [scanNumber_eq, htw, hdr]
    unfold numberTail
    split
    · rename_i heq
      simp only [List.cons.injEq] at heq
      exact absurd heq.1 hp.2.1
    · simp
  simp [scanAt, h1, h2, h3, h4]

/-- a run of digits is a match on its own in front of anything that `endsNumber` -/
theorem splitLine_digits_then (f : Nat) (ds : List Char) (p : Char) (rest : List Char)
    (hne : ds ≠ []) (hds : ds.all isDigit = true) (hp : endsNumber p rest) :
    splitLine (f + 1) (ds ++ p :: rest) = ds :: splitLine f (p :: rest) := by
  have h := scanAt_digits_then ds p rest hne hds hp
  obtain ⟨c, ds', rfl⟩ : ∃ c ds', ds = c :: ds' := by
    cases ds with
    | nil => exact absurd rfl hne
    | cons c ds' => exact ⟨c, ds', rfl⟩
  rw [List.cons_append] at h ⊢
  rw [splitLine, h]
  simp

end Bardolph.Lex
