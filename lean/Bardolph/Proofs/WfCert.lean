import Bardolph.Model.Wf
/-!
What `Wf.wfImage img = true` means, declaratively (used by `Props/C05.lean`).

`certOf img` recomputes the pieces the checker looks at — where the main code starts, the
routine bodies, the names a `JSR` may use and, per segment, the abstract frame stack the
checker's forward scan assigns to every program point.  `cert_ok` proves that when the checker
accepts, these pieces satisfy `CertOk`: per-instruction `transfer` facts, jump facts, segment
boundaries, the prologue and the link between the routine table and the segments.
-/
namespace Bardolph
namespace Wf
open Vm

/-- one segment of the image: `[lo, hi)` are its instructions, `hi` is its end point (the
`END name` of a routine body, or the end of the code for the main segment); `abs` holds the
checker's abstract state at `lo, lo+1, …, hi` -/
structure Seg where
  lo : Nat
  hi : Nat
  inRoutine : Bool
  name : String
  abs : List Abs
  deriving Repr

structure CertData where
  known : List String
  mainLo : Nat
  segs : List Seg
  deriving Repr

def absOf (inR : Bool) (known : List String) (code : Array Instr) (lo hi : Nat) : List Abs :=
  (scan inR known code (hi - lo) lo Abs.empty).getD []

/-- address of the first instruction of the main code -/
def mainStart (img : Image) : Nat :=
  match img.routines with
  | [] => 0
  | _ =>
    match img.code[0]? with
    | some (Instr.jump JumpCond.always off) => off.toNat
    | _ => 0

/-- the routine bodies `(name, first address, address of END)` -/
def spansOf (img : Image) : List (String × Nat × Nat) :=
  match img.routines with
  | [] => []
  | _ => (routineSpans img.code img.code.size 1 (mainStart img)).getD []

def knownOf (img : Image) : List String := builtinNames ++ (spansOf img).map (·.1)

def mainSeg (img : Image) : Seg :=
  ⟨mainStart img, img.code.size, false, "",
    absOf false (knownOf img) img.code (mainStart img) img.code.size⟩

def routineSeg (img : Image) (sp : String × Nat × Nat) : Seg :=
  ⟨sp.2.1, sp.2.2, true, sp.1, absOf true (knownOf img) img.code sp.2.1 sp.2.2⟩

/-- the checker's view of the image -/
def certOf (img : Image) : CertData :=
  { known := knownOf img, mainLo := mainStart img,
    segs := mainSeg img :: (spansOf img).map (routineSeg img) }

/-! ### the forward scan -/

theorem scan_length {inR : Bool} {known : List String} {code : Array Instr} {n pc : Nat} {a : Abs}
    {abs : List Abs} (h : scan inR known code n pc a = some abs) : abs.length = n + 1 := by
  induction n generalizing pc a abs with
  | zero => simp [scan] at h; simp [← h]
  | succ n ih =>
    simp only [scan] at h
    split at h
    · cases h
    · split at h
      · cases h
      · simp only [Option.map_eq_some_iff] at h
        obtain ⟨t, ht, rfl⟩ := h
        simp [ih ht]

theorem scan_head {inR : Bool} {known : List String} {code : Array Instr} {n pc : Nat} {a : Abs}
    {abs : List Abs} (h : scan inR known code n pc a = some abs) : abs[0]? = some a := by
  cases n with
  | zero => simp [scan] at h; simp [← h]
  | succ n =>
    simp only [scan] at h
    split at h
    · cases h
    · split at h
      · cases h
      · simp only [Option.map_eq_some_iff] at h
        obtain ⟨t, _, rfl⟩ := h
        simp

theorem scan_point {inR : Bool} {known : List String} {code : Array Instr} {n pc : Nat} {a : Abs}
    {abs : List Abs} (h : scan inR known code n pc a = some abs) {k : Nat} (hk : k < n) :
    ∃ i ak ak1, code[pc + k]? = some i ∧ abs[k]? = some ak ∧ abs[k + 1]? = some ak1 ∧
      transfer inR known code[pc + k + 1]? ak i = some ak1 := by
  induction n generalizing pc a abs k with
  | zero => omega
  | succ n ih =>
    simp only [scan] at h
    split at h
    · cases h
    · rename_i i hi
      split at h
      · cases h
      · rename_i a' ha'
        simp only [Option.map_eq_some_iff] at h
        obtain ⟨t, ht, rfl⟩ := h
        cases k with
        | zero =>
          refine ⟨i, a, a', by simpa using hi, by simp, ?_, by simpa using ha'⟩
          simpa using scan_head ht
        | succ k =>
          obtain ⟨j, ak, ak1, h1, h2, h3, h4⟩ := ih ht (k := k) (by omega)
          refine ⟨j, ak, ak1, ?_, by simpa using h2, by simpa using h3, ?_⟩
          · rw [← h1]; congr 1; omega
          · rw [← h4]; congr 2; omega

/-! ### routine spans -/

theorem findEnd_some {code : Array Instr} {stop : Nat} {name : String} {f q e : Nat}
    (h : routineSpans.findEnd code stop name f q = some e) :
    q ≤ e ∧ e < stop ∧ code[e]? = some (.end_ name) := by
  induction f generalizing q with
  | zero => simp [routineSpans.findEnd] at h
  | succ f ih =>
    simp only [routineSpans.findEnd] at h
    split at h
    · cases h
    · rename_i hq
      split at h
      · rename_i n hn
        split at h
        · rename_i hname
          cases h
          have : n = name := by simpa using hname
          subst this
          exact ⟨Nat.le_refl _, by omega, hn⟩
        · have := ih h; exact ⟨by omega, this.2⟩
      · have := ih h; exact ⟨by omega, this.2⟩
      · cases h

theorem routineSpans_mem {code : Array Instr} {fuel p stop : Nat}
    {spans : List (String × Nat × Nat)} (h : routineSpans code fuel p stop = some spans)
    {name : String} {lo hi : Nat} (hm : (name, lo, hi) ∈ spans) :
    p < lo ∧ code[lo - 1]? = some (.routine name) ∧ lo ≤ hi ∧ hi < stop ∧
      code[hi]? = some (.end_ name) := by
  induction fuel generalizing p spans with
  | zero =>
    simp only [routineSpans] at h
    split at h
    · cases h; cases hm
    · cases h
  | succ fuel ih =>
    simp only [routineSpans] at h
    split at h
    · cases h; cases hm
    · split at h
      · rename_i nm hnm
        split at h
        · rename_i q hq
          simp only [Option.map_eq_some_iff] at h
          obtain ⟨t, ht, rfl⟩ := h
          have hf := findEnd_some hq
          rcases List.mem_cons.mp hm with heq | hm'
          · cases heq
            exact ⟨by omega, by simpa using hnm, hf.1, hf.2.1, hf.2.2⟩
          · have := ih ht hm'
            exact ⟨by omega, this.2⟩
        · cases h
      · cases h

/-- every `ROUTINE` marker in the routine area is followed by an `END` inside the area -/
theorem routineSpans_end_after {code : Array Instr} {fuel p stop : Nat}
    {spans : List (String × Nat × Nat)} (h : routineSpans code fuel p stop = some spans)
    {r : Nat} {name : String} (h1 : p ≤ r) (h2 : r < stop)
    (hr : code[r]? = some (.routine name)) :
    ∃ q n, r < q ∧ q < stop ∧ code[q]? = some (.end_ n) := by
  induction fuel generalizing p spans with
  | zero =>
    simp only [routineSpans] at h
    split at h
    · rename_i hp; have : p = stop := by simpa using hp
      omega
    · cases h
  | succ fuel ih =>
    simp only [routineSpans] at h
    split at h
    · rename_i hp; have : p = stop := by simpa using hp
      omega
    · split at h
      · rename_i nm hnm
        split at h
        · rename_i q hq
          simp only [Option.map_eq_some_iff] at h
          obtain ⟨t, ht, -⟩ := h
          have hf := findEnd_some hq
          by_cases hrq : r < q
          · exact ⟨q, nm, hrq, hf.2.1, hf.2.2⟩
          · have hne : r ≠ q := by
              rintro rfl; rw [hf.2.2] at hr; cases hr
            exact ih ht (by omega)
        · cases h
      · cases h

/-! ### what the checker establishes -/

structure SegOk (img : Image) (known : List String) (mainLo : Nat) (g : Seg) : Prop where
  le : g.lo ≤ g.hi
  scan : scan g.inRoutine known img.code (g.hi - g.lo) g.lo Abs.empty = some g.abs
  last : g.abs.getLast? = some Abs.empty
  jumps : jumpsOk img.code g.lo g.hi g.abs = true
  /-- the main segment runs from the main start to the end of the code -/
  main : g.inRoutine = false → g.lo = mainLo ∧ g.hi = img.code.size
  /-- a routine body stands between its `ROUTINE name` and its `END name`, before the main code -/
  rout : g.inRoutine = true → 1 ≤ g.lo ∧ img.code[g.lo - 1]? = some (.routine g.name) ∧
    img.code[g.hi]? = some (.end_ g.name) ∧ g.hi < mainLo

structure CertOk (img : Image) (C : CertData) : Prop where
  segs : ∀ g ∈ C.segs, SegOk img C.known C.mainLo g
  mainSeg : ∃ g ∈ C.segs, g.inRoutine = false
  mainLe : C.mainLo ≤ img.code.size
  /-- no routines and the main code starts at 0, or the image starts with `JUMP main` -/
  prologue : (img.routines = [] ∧ C.mainLo = 0) ∨
    (img.routines ≠ [] ∧ img.code[0]? = some (.jump .always C.mainLo) ∧ 1 ≤ C.mainLo)
  /-- a name in the routine table is the entry of a routine segment -/
  user : ∀ name addr, img.routine? name = some addr →
    ∃ g ∈ C.segs, g.inRoutine = true ∧ g.lo = addr
  /-- a name a `JSR` may use that is not in the routine table is a built-in -/
  builtin : ∀ name ∈ C.known, img.routine? name = none → builtinParams name ≠ none
  /-- every `ROUTINE` marker before the main code is followed by an `END` before the main code -/
  endAfter : ∀ r name, 1 ≤ r → r < C.mainLo → img.code[r]? = some (.routine name) →
    ∃ q n, r < q ∧ q < C.mainLo ∧ img.code[q]? = some (.end_ n)

theorem segmentOk_iff {inR : Bool} {known : List String} {code : Array Instr} {lo hi : Nat}
    (h : segmentOk inR known code lo hi = true) :
    ∃ abs, scan inR known code (hi - lo) lo Abs.empty = some abs ∧
      abs.getLast? = some Abs.empty ∧ jumpsOk code lo hi abs = true := by
  unfold segmentOk at h
  split at h
  · cases h
  · rename_i abs habs
    simp only [Bool.and_eq_true, beq_iff_eq] at h
    exact ⟨abs, habs, h.1, h.2⟩

theorem builtin_names_ok : ∀ name ∈ builtinNames, builtinParams name ≠ none := by decide

theorem routine?_none_of_nil {img : Image} (h : img.routines = []) (name : String) :
    img.routine? name = none := by simp [Image.routine?, h]

theorem cert_ok_nil {img : Image} (hr : img.routines = []) (h : wfImage img = true) :
    CertOk img (certOf img) := by
  have hm : mainStart img = 0 := by simp [mainStart, hr]
  have hs : spansOf img = [] := by simp [spansOf, hr]
  have hk : knownOf img = builtinNames := by simp [knownOf, hs]
  simp only [wfImage, hr] at h
  obtain ⟨abs, h1, h2, h3⟩ := segmentOk_iff h
  have hseg : SegOk img builtinNames 0 (mainSeg img) := by
    have h1' : scan false builtinNames img.code img.code.size 0 Abs.empty = some abs := by
      simpa using h1
    have ha : (mainSeg img).abs = abs := by simp [mainSeg, absOf, hm, hk, h1']
    refine ⟨by simp [mainSeg, hm], ?_, by rw [ha]; exact h2, ?_, ?_, ?_⟩
    · rw [ha]; simpa [mainSeg, hm] using h1
    · rw [ha]; simpa [mainSeg, hm] using h3
    · intro _; simp [mainSeg, hm]
    · intro hc; simp [mainSeg] at hc
  refine ⟨?_, ⟨mainSeg img, by simp [certOf], rfl⟩, by simp [certOf, hm], .inl ⟨hr, hm⟩, ?_, ?_, ?_⟩
  · intro g hg
    simp only [certOf, hs, List.map_nil, List.mem_singleton] at hg
    subst hg
    simpa [certOf, hk, hm] using hseg
  · intro name addr hu; simp [routine?_none_of_nil hr] at hu
  · intro name hn _
    exact builtin_names_ok name (by simpa [certOf, hk] using hn)
  · intro r name h1 h2; simp [certOf, hm] at h2

theorem cert_ok_cons {img : Image} (hr : img.routines ≠ []) (h : wfImage img = true) :
    CertOk img (certOf img) := by
  obtain ⟨x, xs, hx⟩ := List.exists_cons_of_ne_nil hr
  simp only [wfImage, hx] at h
  rw [← hx] at h
  split at h
  rotate_left
  · cases h
  rename_i off hc0
  split at h
  rotate_left
  · cases h
  rename_i hoff
  simp only [Bool.and_eq_true, decide_eq_true_eq] at hoff
  split at h
  rotate_left
  · cases h
  rename_i spans hspans
  simp only [Bool.and_eq_true] at h
  obtain ⟨⟨⟨htab, hany⟩, hsegs⟩, hmain⟩ := h
  have hm : mainStart img = off.toNat := by
    unfold mainStart
    split
    · exact absurd (by assumption) hr
    · simp [hc0]
  have hs : spansOf img = spans := by
    unfold spansOf
    split
    · exact absurd (by assumption) hr
    · simp [hm, hspans]
  have hk : knownOf img = builtinNames ++ spans.map (·.1) := by simp [knownOf, hs]
  have hcast : ((off.toNat : Nat) : Int) = off := by omega
  -- segments
  have hmainseg : SegOk img (knownOf img) (mainStart img) (mainSeg img) := by
    obtain ⟨abs, h1, h2, h3⟩ := segmentOk_iff hmain
    have ha : (mainSeg img).abs = abs := by simp [mainSeg, absOf, hm, hk, h1]
    refine ⟨by simp [mainSeg, hm, hoff.2], ?_, by rw [ha]; exact h2, ?_, ?_, ?_⟩
    · rw [ha]; simpa [mainSeg, hm, hk] using h1
    · rw [ha]; simpa [mainSeg, hm] using h3
    · intro _; simp [mainSeg, hm]
    · intro hc; simp [mainSeg] at hc
  have hrseg : ∀ sp ∈ spans, SegOk img (knownOf img) (mainStart img) (routineSeg img sp) := by
    intro sp hsp
    obtain ⟨name, lo, hi⟩ := sp
    have hso := List.all_eq_true.mp hsegs _ hsp
    simp only at hso
    obtain ⟨abs, h1, h2, h3⟩ := segmentOk_iff hso
    have hmem := routineSpans_mem hspans hsp
    have ha : (routineSeg img (name, lo, hi)).abs = abs := by simp [routineSeg, absOf, hk, h1]
    refine ⟨hmem.2.2.1, ?_, by rw [ha]; exact h2, ?_, ?_, ?_⟩
    · rw [ha]; simpa [routineSeg, hk] using h1
    · rw [ha]; simpa [routineSeg] using h3
    · intro hc; simp [routineSeg] at hc
    · intro _
      exact ⟨by simp only [routineSeg]; omega, hmem.2.1, hmem.2.2.2.2, by rw [hm]; exact hmem.2.2.2.1⟩
  refine ⟨?_, ⟨mainSeg img, by simp [certOf], rfl⟩, by simp [certOf, hm, hoff.2], .inr ⟨hr, ?_, ?_⟩,
    ?_, ?_, ?_⟩
  · intro g hg
    simp only [certOf, List.mem_cons, List.mem_map] at hg
    rcases hg with rfl | ⟨sp, hsp, rfl⟩
    · exact hmainseg
    · exact hrseg sp (hs ▸ hsp)
  · simp [certOf, hm, hcast, hc0]
  · simp only [certOf, hm]; omega
  · intro name addr hu
    simp only [Image.routine?, Option.map_eq_some_iff] at hu
    obtain ⟨⟨n', a'⟩, hfind, rfl⟩ := hu
    have hmem := List.mem_of_find?_eq_some hfind
    have ht := List.all_eq_true.mp htab _ hmem
    simp only [beq_iff_eq, Option.map_eq_some_iff] at ht
    obtain ⟨sp, hspf, hlo⟩ := ht
    have hsp : sp ∈ spans := by
      have := List.mem_of_find?_eq_some hspf
      simpa using this
    refine ⟨routineSeg img sp, ?_, rfl, hlo⟩
    simp only [certOf, List.mem_cons, List.mem_map]
    exact .inr ⟨sp, hs ▸ hsp, rfl⟩
  · intro name hn hnone
    simp only [certOf, hk, List.mem_append, List.mem_map] at hn
    rcases hn with hn | ⟨sp, hsp, rfl⟩
    · exact builtin_names_ok name hn
    · exfalso
      have ha := List.all_eq_true.mp hany _ hsp
      simp only [List.any_eq_true] at ha
      obtain ⟨x, hx, hxe⟩ := ha
      simp only [Image.routine?, Option.map_eq_none_iff, List.find?_eq_none] at hnone
      exact hnone x hx hxe
  · intro r name h1 h2 hrn
    simp only [certOf, hm] at h2 ⊢
    exact routineSpans_end_after hspans h1 h2 hrn

/-! ### per-point facts of a checked segment -/

section
variable {img : Image} {known : List String} {mainLo : Nat} {g : Seg}

theorem SegOk.length (h : SegOk img known mainLo g) : g.abs.length = g.hi - g.lo + 1 :=
  scan_length h.scan

/-- the abstract stack is empty where a segment starts -/
theorem SegOk.first (h : SegOk img known mainLo g) : g.abs[0]? = some Abs.empty :=
  scan_head h.scan

/-- … and where it ends -/
theorem SegOk.lastAbs (h : SegOk img known mainLo g) : g.abs[g.hi - g.lo]? = some Abs.empty := by
  have := h.last
  rw [List.getLast?_eq_getElem?, h.length] at this
  simpa using this

/-- every instruction of the segment passed `transfer` between the abstract states before and
after it -/
theorem SegOk.point (h : SegOk img known mainLo g) {pc : Nat} (h1 : g.lo ≤ pc) (h2 : pc < g.hi) :
    ∃ i a a', img.code[pc]? = some i ∧ g.abs[pc - g.lo]? = some a ∧
      g.abs[pc + 1 - g.lo]? = some a' ∧
      transfer g.inRoutine known img.code[pc + 1]? a i = some a' := by
  obtain ⟨i, a, a', e1, e2, e3, e4⟩ := scan_point h.scan (k := pc - g.lo) (by omega)
  have p1 : g.lo + (pc - g.lo) = pc := by omega
  have p2 : pc - g.lo + 1 = pc + 1 - g.lo := by omega
  rw [p1] at e1 e4
  rw [p2] at e3
  exact ⟨i, a, a', e1, e2, e3, e4⟩

/-- every jump of the segment lands inside it (or on its end) on a point with the same
abstract state -/
theorem SegOk.jump (h : SegOk img known mainLo g) {pc : Nat} {c : JumpCond} {off : Int}
    (h1 : g.lo ≤ pc) (h2 : pc < g.hi) (hc : img.code[pc]? = some (.jump c off)) :
    ∃ t : Nat, (t : Int) = pc + off ∧ g.lo ≤ t ∧ t ≤ g.hi ∧
      g.abs[t - g.lo]? = g.abs[pc - g.lo]? := by
  have := List.all_eq_true.mp h.jumps (pc - g.lo) (by simp; omega)
  have p1 : g.lo + (pc - g.lo) = pc := by omega
  simp only [p1, hc, Bool.and_eq_true, decide_eq_true_eq, beq_iff_eq] at this
  obtain ⟨⟨j1, j2⟩, j3⟩ := this
  refine ⟨((pc : Int) + off).toNat, by omega, by omega, by omega, ?_⟩
  rw [j3]; congr 1; omega

end

/-- the checker's verdict, declaratively -/
theorem cert_ok {img : Image} (h : wfImage img = true) : CertOk img (certOf img) := by
  by_cases hr : img.routines = []
  · exact cert_ok_nil hr h
  · exact cert_ok_cons hr h

end Wf
end Bardolph
