import Bardolph.Proofs.ClosedGen
/-!
What the loader's `classify` / `routineSegment` make of generated code: the routine segment of
a well-scoped script is the concatenation, in source order, of `ROUTINE f; body; END f` for the
routine definitions of the script (`defsB`), wherever they are nested.
-/
set_option linter.unusedSimpArgs false
set_option linter.unusedVariables false

namespace Bardolph
namespace Closed
open Gen Wf Loader

/-! ## `classify`, one item at a time -/

def cnext (st : Option String) (x : Instr) : Option String :=
  match st with
  | none => isRoutine x
  | some n =>
    match isEnd x with
    | some m => if m == n then none else some n
    | none => some n

def cbit (st : Option String) (x : Instr) : Bool :=
  match st with
  | none => (isRoutine x).isSome
  | some _ => true

theorem classify_cons (st : Option String) (x : Instr) (rest : List Instr) :
    classify st (x :: rest) = cbit st x :: classify (cnext st x) rest := by
  cases st <;> cases x <;> simp [classify, cbit, cnext, isRoutine, isEnd]

def cend (st : Option String) : List Instr → Option String
  | [] => st
  | x :: xs => cend (cnext st x) xs

theorem classify_append (st : Option String) (xs ys : List Instr) :
    classify st (xs ++ ys) = classify st xs ++ classify (cend st xs) ys := by
  induction xs generalizing st with
  | nil => rfl
  | cons x xs ih => simp only [List.cons_append, classify_cons, ih, cend]

@[simp] theorem length_classify (st : Option String) (xs : List Instr) :
    (classify st xs).length = xs.length := by
  induction xs generalizing st with
  | nil => rfl
  | cons x xs ih => simp [classify_cons, ih]

theorem cend_append (st : Option String) (xs ys : List Instr) :
    cend st (xs ++ ys) = cend (cend st xs) ys := by
  induction xs generalizing st with
  | nil => rfl
  | cons x xs ih => simp only [List.cons_append, cend, ih]

variable {inR il : Bool} {K : List String}

theorem trU_cnext {s s' : St} {x : Instr} (h : trU inR K s x = some s') :
    s'.1 = cnext s.1 x := by
  obtain ⟨cl, a⟩ := s
  cases cl with
  | none =>
    simp only [trU] at h
    cases hr : isRoutine x with
    | none =>
      simp only [hr] at h
      cases ht : transfer inR K (some .endCtx) a x with
      | none => simp [ht] at h
      | some a' =>
        simp only [ht, Option.map_some, Option.some.injEq] at h
        rw [← h]; simp [cnext, hr]
    | some n =>
      simp only [hr] at h
      cases inR with
      | true => simp at h
      | false =>
        simp only [Bool.false_eq_true, if_false, Option.some.injEq] at h
        rw [← h]; simp [cnext, hr]
  | some n =>
    simp only [trU] at h
    cases he : isEnd x with
    | none =>
      simp only [he, Option.some.injEq] at h
      rw [← h]; simp [cnext, he]
    | some m =>
      simp only [he, Option.some.injEq] at h
      rw [← h]; simp [cnext, he]

theorem cend_scan {c : Code} {s : St} (h : scanOk inR K c s = true) :
    cend s.1 (c.map gi) = (run inR K c s c.length).1 := by
  induction c generalizing s with
  | nil => rfl
  | cons g c ih =>
    simp only [scanOk, Bool.and_eq_true] at h
    cases ht : trU inR K s (gi g) with
    | none => simp [ht] at h
    | some s' =>
      simp only [ht] at h
      simp only [List.map_cons, cend, List.length_cons, run_cons_succ, ht, Option.getD_some]
      rw [← trU_cnext ht]
      exact ih h.2

theorem classify_run {c : Code} {s : St} (h : scanOk inR K c s = true) {k : Nat} {g : G}
    (hk : c[k]? = some g) :
    (classify s.1 (c.map gi))[k]? = some (cbit (run inR K c s k).1 (gi g)) := by
  induction c generalizing s k with
  | nil => simp at hk
  | cons g0 c ih =>
    simp only [scanOk, Bool.and_eq_true] at h
    cases ht : trU inR K s (gi g0) with
    | none => simp [ht] at h
    | some s' =>
      simp only [ht] at h
      simp only [List.map_cons, classify_cons]
      cases k with
      | zero =>
        simp only [List.getElem?_cons_zero, Option.some.injEq] at hk
        subst hk
        simp
      | succ k =>
        simp only [List.getElem?_cons_succ] at hk ⊢
        simp only [run_cons_succ, ht, Option.getD_some]
        rw [← trU_cnext ht]
        exact ih h.2 hk

theorem cend_closed {c : Code} {a : Abs} {sb : St} (h : ClosedB inR il K c (none, a) sb) :
    cend none (c.map gi) = none := by
  have := cend_scan h.ok
  rw [h.fin] at this
  exact this

/-! ## the routine segment of a piece of code -/

def rsegC (st : Option String) (c : Code) : Code :=
  ((c.zip (classify st (c.map gi))).filter (·.2)).map (·.1)

theorem rsegC_nil (st : Option String) : rsegC st [] = [] := rfl

theorem rsegC_cons (st : Option String) (g : G) (c : Code) :
    rsegC st (g :: c) =
      if cbit st (gi g) = true then g :: rsegC (cnext st (gi g)) c
      else rsegC (cnext st (gi g)) c := by
  simp only [rsegC, List.map_cons, classify_cons, List.zip_cons_cons, List.filter_cons]
  split <;> simp_all

theorem rsegC_append (st : Option String) (c1 c2 : Code) :
    rsegC st (c1 ++ c2) = rsegC st c1 ++ rsegC (cend st (c1.map gi)) c2 := by
  induction c1 generalizing st with
  | nil => rfl
  | cons g c1 ih =>
    simp only [List.cons_append, rsegC_cons, ih, List.map_cons, cend]
    split <;> simp

theorem routineSegment_aux (xs : List Instr) (cls : List Bool) :
    routineSegment xs cls = ((((ins xs).zip cls).filter (·.2)).map (·.1)).map gi := by
  induction xs generalizing cls with
  | nil => rfl
  | cons x xs ih =>
    cases cls with
    | nil => rfl
    | cons b bs =>
      have := ih bs
      simp only [routineSegment, beq_true, List.map_map] at this ⊢
      cases b <;> simp [this]

theorem routineSegment_eq (prog : List Instr) :
    routineSegment prog (classify none prog) = (rsegC none (ins prog)).map gi := by
  have e : (ins prog).map gi = prog := by simp [ins, Function.comp_def]
  rw [routineSegment_aux, rsegC, e]

/-- no `ROUTINE` / `END` markers -/
def MarkerFree (c : Code) : Prop := ∀ g ∈ c, isRoutine (gi g) = none ∧ isEnd (gi g) = none

theorem MarkerFree.append {c1 c2 : Code} (h1 : MarkerFree c1) (h2 : MarkerFree c2) :
    MarkerFree (c1 ++ c2) := by
  intro g hg
  rcases List.mem_append.mp hg with h | h
  · exact h1 g h
  · exact h2 g h

theorem MarkerFree.main {c : Code} (h : MarkerFree c) :
    rsegC none c = [] ∧ cend none (c.map gi) = none := by
  induction c with
  | nil => exact ⟨rfl, rfl⟩
  | cons g c ih =>
    have hg := h g (by simp)
    have := ih fun g' hg' => h g' (by simp [hg'])
    simp only [rsegC_cons, List.map_cons, cend, cbit, cnext, hg.1, Option.isSome_none,
      Bool.false_eq_true, if_false]
    exact this

theorem MarkerFree.inside {c : Code} (h : MarkerFree c) (n : String) :
    rsegC (some n) c = c ∧ cend (some n) (c.map gi) = some n := by
  induction c with
  | nil => exact ⟨rfl, rfl⟩
  | cons g c ih =>
    have hg := h g (by simp)
    have := ih fun g' hg' => h g' (by simp [hg'])
    simp only [rsegC_cons, List.map_cons, cend, cbit, cnext, hg.2, if_true, this.1, this.2,
      and_self]

theorem markerFree_of_ok {c : Code} {a : Abs} (h : scanOk true K c (none, a) = true) :
    MarkerFree c :=
  (section_aux "" a c (none, a) rfl h).2.2.1

theorem markerFree_ins {xs : List Instr} (h : CI true K xs) : MarkerFree (ins xs) :=
  markerFree_of_ok (h Abs.empty false (none, Abs.empty)).ok

/-- a routine section is taken whole -/
theorem rsegC_section {body : Code} (h : MarkerFree body) (n : String) :
    rsegC none (G.i (.routine n) :: (body ++ [G.i (.end_ n)])) =
        G.i (.routine n) :: (body ++ [G.i (.end_ n)]) ∧
      cend none ((G.i (.routine n) :: (body ++ [G.i (.end_ n)])).map gi) = none := by
  have hb := h.inside n
  constructor
  · rw [rsegC_cons]
    simp only [gi_i, cbit, isRoutine, Option.isSome_some, if_true, cnext]
    rw [rsegC_append, hb.1, hb.2, rsegC_cons]
    simp [cbit, rsegC_nil]
  · simp only [List.map_cons, cend, gi_i, cnext, isRoutine, List.map_append, cend_append, hb.2,
      List.map_nil, isEnd, BEq.rfl, if_true]

/-! ## `break` patching leaves the routine segment alone -/

theorem patchBreaks_cons (g : G) (c : Code) (b t : Nat) :
    patchBreaks (g :: c) b t = patchG t b g :: patchBreaks c (b + 1) t := by
  apply List.ext_getElem?
  intro k
  rw [getElem?_patchBreaks]
  cases k with
  | zero => simp
  | succ k =>
    simp only [List.getElem?_cons_succ, getElem?_patchBreaks]
    have : b + (k + 1) = b + 1 + k := by omega
    rw [this]

theorem cbit_patchG (st : Option String) (t : Int) (k : Nat) (g : G) :
    cbit st (gi (patchG t k g)) = cbit st (gi g) := by
  cases g <;> cases st <;> rfl

theorem cnext_patchG (st : Option String) (t : Int) (k : Nat) (g : G) :
    cnext st (gi (patchG t k g)) = cnext st (gi g) := by
  cases g <;> cases st <;> rfl

theorem rsegC_patch {c : Code} {st : Option String} (b t : Nat)
    (h : ∀ k : Nat, c[k]? = some G.brk → (classify st (c.map gi))[k]? = some false) :
    rsegC st (patchBreaks c b t) = rsegC st c := by
  induction c generalizing st b with
  | nil => rfl
  | cons g c ih =>
    rw [patchBreaks_cons, rsegC_cons, rsegC_cons, cbit_patchG, cnext_patchG]
    have ih' := ih (st := cnext st (gi g)) (b + 1) (fun k hk => by
      have := h (k + 1) (by simpa using hk)
      simpa [classify_cons] using this)
    rw [ih']
    split
    · rename_i hb
      have : g ≠ G.brk := by
        intro hg
        have := h 0 (by simp [hg])
        simp [classify_cons] at this
        rw [hb] at this
        cases this
      cases g with
      | brk => exact absurd rfl this
      | i x => rfl
    · rfl

theorem rsegC_patch_closed {c : Code} {s sb : St} (b t : Nat)
    (h : ClosedB inR il K c s sb) (hsb : sb.1 = none) :
    rsegC s.1 (patchBreaks c b t) = rsegC s.1 c := by
  apply rsegC_patch
  intro k hk
  rw [classify_run h.ok hk, (h.brks k hk).2, hsb]
  rfl


/-! ## the routine definitions of a script, in source order -/

mutual
  def defsS : Stmt → List (String × Block)
    | .setReg _ _ => []
    | .units _ => []
    | .actAll _ => []
    | .setDefault _ => []
    | .action _ _ ops => defsOps ops
    | .get _ => []
    | .wait => []
    | .timeAt _ => []
    | .assign _ _ => []
    | .defMacro _ _ => []
    | .defRoutine n _ body => [(n, body)]
    | .call _ _ _ => []
    | .ret _ => []
    | .ite _ t none => defsB t
    | .ite _ t (some b) => defsB t ++ defsB b
    | .repeat_ _ body => defsB body
    | .brk => []
    | .print _ => []
    | .println _ => []
    | .printf _ _ => []
    | .stage _ _ _ => []
  def defsB : Block → List (String × Block)
    | .nil => []
    | .cons s rest => defsS s ++ defsB rest
  def defsOp : Operand_ → List (String × Block)
    | .light _ => []
    | .group _ => []
    | .location _ => []
    | .zone _ _ => []
    | .matrixInline _ _ _ _ => []
    | .matrixBlock _ body => defsB body
  def defsOps : Operands → List (String × Block)
    | .nil => []
    | .cons o rest => defsOp o ++ defsOps rest
end

/-! a statement without routine definitions is also well-scoped as part of a routine body
(where `return` would be allowed in addition) -/

mutual
  theorem mono_stmt : ∀ (s : Stmt) (il im : Bool), wsStmt K false il im s = true →
      defsS s = [] → wsStmt K true il im s = true
    | .setReg _ _, il, im, h, _ => by simpa [wsStmt] using h
    | .units _, il, im, h, _ => by simp [wsStmt]
    | .actAll _, il, im, h, _ => by simp [wsStmt]
    | .setDefault _, il, im, h, _ => by simp [wsStmt]
    | .action k w ops, il, im, h, hd => by
      simp only [wsStmt] at h ⊢
      simp only [defsS] at hd
      exact mono_ops ops im h hd
    | .get _, il, im, h, _ => by simpa [wsStmt] using h
    | .wait, il, im, h, _ => by simp [wsStmt]
    | .timeAt _, il, im, h, _ => by simp [wsStmt]
    | .assign _ _, il, im, h, _ => by simpa [wsStmt] using h
    | .defMacro _ _, il, im, h, _ => by simp [wsStmt]
    | .defRoutine n ps body, il, im, h, hd => by simp [defsS] at hd
    | .call _ _ _, il, im, h, _ => by simpa [wsStmt] using h
    | .ret _, il, im, h, _ => by simp [wsStmt] at h
    | .ite c t none, il, im, h, hd => by
      simp only [wsStmt, Bool.and_eq_true] at h ⊢
      simp only [defsS] at hd
      exact ⟨⟨h.1.1, mono_block t _ _ h.1.2 hd⟩, trivial⟩
    | .ite c t (some b), il, im, h, hd => by
      simp only [wsStmt, Bool.and_eq_true] at h ⊢
      simp only [defsS, List.append_eq_nil_iff] at hd
      exact ⟨⟨h.1.1, mono_block t _ _ h.1.2 hd.1⟩, mono_block b _ _ h.2 hd.2⟩
    | .repeat_ hd0 body, il, im, h, hd => by
      simp only [wsStmt, Bool.and_eq_true] at h ⊢
      simp only [defsS] at hd
      exact ⟨h.1, mono_block body _ _ h.2 hd⟩
    | .brk, il, im, h, _ => by simpa [wsStmt] using h
    | .print _, il, im, h, _ => by simpa [wsStmt] using h
    | .println _, il, im, h, _ => by simpa [wsStmt] using h
    | .printf _ _, il, im, h, _ => by simpa [wsStmt] using h
    | .stage _ _ _, il, im, h, _ => by simpa [wsStmt] using h
  theorem mono_block : ∀ (b : Block) (il im : Bool), wsBlock K false il im b = true →
      defsB b = [] → wsBlock K true il im b = true
    | .nil, il, im, h, _ => by simp [wsBlock]
    | .cons s rest, il, im, h, hd => by
      simp only [wsBlock, Bool.and_eq_true] at h ⊢
      simp only [defsB, List.append_eq_nil_iff] at hd
      exact ⟨mono_stmt s _ _ h.1 hd.1, mono_block rest _ _ h.2 hd.2⟩
  theorem mono_op : ∀ (o : Operand_) (im : Bool), wsOperand K false im o = true →
      defsOp o = [] → wsOperand K true im o = true
    | .light _, im, h, _ => by simp [wsOperand]
    | .group _, im, h, _ => by simp [wsOperand]
    | .location _, im, h, _ => by simp [wsOperand]
    | .zone _ _, im, h, _ => by simpa [wsOperand] using h
    | .matrixInline _ _ _ _, im, h, _ => by simpa [wsOperand] using h
    | .matrixBlock n body, im, h, hd => by
      simp only [wsOperand, Bool.and_eq_true] at h ⊢
      simp only [defsOp] at hd
      exact ⟨h.1, mono_block body _ _ h.2 hd⟩
  theorem mono_ops : ∀ (ops : Operands) (im : Bool), wsOperands K false im ops = true →
      defsOps ops = [] → wsOperands K true im ops = true
    | .nil, im, h, _ => by simp [wsOperands]
    | .cons o rest, im, h, hd => by
      simp only [wsOperands, Bool.and_eq_true] at h ⊢
      simp only [defsOps, List.append_eq_nil_iff] at hd
      exact ⟨mono_op o _ h.1 hd.1, mono_ops rest _ h.2 hd.2⟩
end

/-- code of a routine body (or of anything that may stand in one) has no markers -/
theorem markerFree_stmt {s : Stmt} {il im : Bool} (h : wsStmt K true il im s = true) :
    MarkerFree (genStmt s) :=
  markerFree_of_ok (closed_stmt s true il im h ⟨[], im⟩ ⟨rfl, rfl⟩).ok

theorem markerFree_block {b : Block} {il im : Bool} (h : wsBlock K true il im b = true) :
    MarkerFree (genBlock b) :=
  markerFree_of_ok (closed_block b true il im h ⟨[], im⟩ ⟨rfl, rfl⟩).ok

theorem markerFree_operand {o : Operand_} {im : Bool} (h : wsOperand K true im o = true) :
    MarkerFree (genOperand o) :=
  markerFree_of_ok (closed_operand o true im h ⟨[], im⟩ ⟨rfl, rfl⟩ false (none, ⟨[], im⟩)).ok

/-! ## the routine segment of generated code -/

/-- the code of one definition -/
def rc (d : String × Block) : Code := G.i (.routine d.1) :: (genBlock d.2 ++ [G.i (.end_ d.1)])

/-- class state returns to "main" -/
def Neutral (c : Code) : Prop := cend none (c.map gi) = none

theorem MarkerFree.neutral {c : Code} (h : MarkerFree c) : Neutral c := h.main.2

theorem ClosedB.neutral {c : Code} {a : Abs} {sb : St} (h : ClosedB inR il K c (none, a) sb) :
    Neutral c := cend_closed h

theorem Neutral.append {c1 c2 : Code} (h1 : Neutral c1) (h2 : Neutral c2) :
    Neutral (c1 ++ c2) := by
  unfold Neutral at *
  rw [List.map_append, cend_append, h1, h2]

theorem rsegC_app {c1 : Code} (h1 : Neutral c1) (c2 : Code) :
    rsegC none (c1 ++ c2) = rsegC none c1 ++ rsegC none c2 := by
  rw [rsegC_append, h1]

theorem rsegC_mf_left {c1 : Code} (h1 : MarkerFree c1) (c2 : Code) :
    rsegC none (c1 ++ c2) = rsegC none c2 := by
  rw [rsegC_app h1.neutral, h1.main.1, List.nil_append]

theorem rsegC_mf_right {c1 : Code} (h1 : Neutral c1) {c2 : Code} (h2 : MarkerFree c2) :
    rsegC none (c1 ++ c2) = rsegC none c1 := by
  rw [rsegC_app h1, h2.main.1, List.append_nil]

theorem markerFree_single {x : Instr} (h1 : isRoutine x = none) (h2 : isEnd x = none) :
    MarkerFree [G.i x] := by
  intro g hg
  simp only [List.mem_singleton] at hg
  subst hg
  exact ⟨h1, h2⟩

theorem rsegC_genIf_none {cond T : Code} (hc : MarkerFree cond) :
    rsegC none (genIf cond T none) = rsegC none T := by
  simp only [genIf]
  rw [rsegC_mf_left (hc.append (markerFree_single rfl rfl))]

theorem rsegC_genIf_some {cond T E : Code} (hc : MarkerFree cond) (hT : Neutral T) :
    rsegC none (genIf cond T (some E)) = rsegC none T ++ rsegC none E := by
  simp only [genIf]
  have h1 : MarkerFree (cond ++ [G.i (Instr.jump JumpCond.ifFalse (↑T.length + 2))]) :=
    hc.append (markerFree_single rfl rfl)
  have h2 : MarkerFree [G.i (Instr.jump JumpCond.always (↑E.length + 1))] :=
    markerFree_single rfl rfl
  rw [rsegC_app ((h1.neutral.append hT).append h2.neutral), rsegC_mf_right (h1.neutral.append hT) h2,
    rsegC_mf_left h1]

theorem rsegC_assembleLoop {pre test bodyPre post : List Instr} {body : Code} {a : Abs}
    (hpre : CI true K pre) (htest : CI true K test) (hbp : CI true K bodyPre)
    (hpost : CI true K post)
    (hpre' : CI inR K pre) (htest' : CI inR K test) (hbp' : CI inR K bodyPre)
    (hpost' : CI inR K post)
    (hbody : ClosedB inR true K body (none, loopA a) (none, loopA a)) :
    rsegC none (assembleLoop pre test bodyPre body post) = rsegC none body := by
  obtain ⟨o1, o2, W, hWe, hW, e⟩ := assembleLoop_shape (hpre' _ _ _) (htest' _ _ _) (hbp' _ _ _)
    hbody (hpost' _ _ _)
  obtain ⟨e2, hU⟩ := loop_unpatched hW
  rw [e, e2, rsegC_patch_closed 0 _ hU rfl]
  have m1 := markerFree_ins hpre
  have m2 := markerFree_ins htest
  have m3 := markerFree_ins hbp
  have m4 := markerFree_ins hpost
  have mj1 : MarkerFree [G.i (Instr.jump JumpCond.ifFalse o1)] := markerFree_single rfl rfl
  have mj2 : MarkerFree ([G.i (Instr.jump JumpCond.always o2)] ++ []) := by
    simpa using markerFree_single (x := Instr.jump JumpCond.always o2) rfl rfl
  have ml : MarkerFree [G.i Instr.loop] := markerFree_single rfl rfl
  have me : MarkerFree [G.i Instr.endLoop] := markerFree_single rfl rfl
  have nb : Neutral body := hbody.neutral
  subst hWe
  rw [rsegC_mf_left ml, rsegC_mf_right _ me, rsegC_mf_left (m1.append m2), rsegC_mf_left mj1,
    rsegC_mf_right _ mj2, rsegC_mf_right (m3.neutral.append nb) m4, rsegC_mf_left m3]
  · exact (m3.neutral.append nb).append m4.neutral
  · exact ((m1.append m2).neutral.append (mj1.neutral.append
      (((m3.neutral.append nb).append m4.neutral).append mj2.neutral)))

theorem split_leaf_aux {c : Code} {ds : List (String × Block)} (hm : MarkerFree c) (hd : ds = []) :
    rsegC none c = ds.flatMap rc := by
  rw [hd, hm.main.1]; rfl

mutual
  theorem split_stmt : ∀ (s : Stmt) (il im : Bool), wsStmt K false il im s = true →
      rsegC none (genStmt s) = (defsS s).flatMap rc
    | .setReg r v, il, im, h => split_leaf_aux (markerFree_stmt (mono_stmt _ il im h (by rw [defsS]))) (by rw [defsS])
    | .units m, il, im, h => split_leaf_aux (markerFree_stmt (mono_stmt _ il im h (by rw [defsS]))) (by rw [defsS])
    | .actAll k, il, im, h => split_leaf_aux (markerFree_stmt (mono_stmt _ il im h (by rw [defsS]))) (by rw [defsS])
    | .setDefault _, il, im, h => split_leaf_aux (markerFree_stmt (mono_stmt _ il im h (by rw [defsS]))) (by rw [defsS])
    | .action k w ops, il, im, h => by
      have ho : wsOperands K false im ops = true := by simpa [wsStmt] using h
      have ih := split_operands k ops im ho
      rw [defsS, ← ih]
      have hw : MarkerFree (ins (if w = true then [Instr.wait] else [])) := by
        cases w
        · exact markerFree_ins (K := K) CI.nil
        · exact markerFree_ins (K := K) (ci_one _ rfl)
      cases k
      · rw [genStmt]
        exact rsegC_mf_left ((markerFree_ins (K := K) CI.nil).append hw) _
      · rw [genStmt]
        exact rsegC_mf_left ((markerFree_ins (K := K) (ci_one _ rfl)).append hw) _
      · rw [genStmt]
        exact rsegC_mf_left ((markerFree_ins (K := K) (ci_one _ rfl)).append hw) _
    | .get name, il, im, h => split_leaf_aux (markerFree_stmt (mono_stmt _ il im h (by rw [defsS]))) (by rw [defsS])
    | .wait, il, im, h => split_leaf_aux (markerFree_stmt (mono_stmt _ il im h (by rw [defsS]))) (by rw [defsS])
    | .timeAt ps, il, im, h => split_leaf_aux (markerFree_stmt (mono_stmt _ il im h (by rw [defsS]))) (by rw [defsS])
    | .assign n v, il, im, h => split_leaf_aux (markerFree_stmt (mono_stmt _ il im h (by rw [defsS]))) (by rw [defsS])
    | .defMacro n v, il, im, h => split_leaf_aux (markerFree_stmt (mono_stmt _ il im h (by rw [defsS]))) (by rw [defsS])
    | .defRoutine n ps body, il, im, h => by
      simp only [wsStmt, Bool.and_eq_true] at h
      have hm := markerFree_block h.2
      rw [genStmt, defsS]
      have := (rsegC_section hm n).1
      simpa [rc, List.append_assoc] using this
    | .call f ps as, il, im, h => split_leaf_aux (markerFree_stmt (mono_stmt _ il im h (by rw [defsS]))) (by rw [defsS])
    | .ret v, il, im, h => by simp [wsStmt] at h
    | .ite c t none, il, im, h => by
      simp only [wsStmt, Bool.and_eq_true] at h
      rw [genStmt, defsS, rsegC_genIf_none (markerFree_ins (ci_rv h.1.1 _))]
      exact split_block t il im h.1.2
    | .ite c t (some b), il, im, h => by
      simp only [wsStmt, Bool.and_eq_true] at h
      rw [genStmt, defsS, rsegC_genIf_some (markerFree_ins (ci_rv h.1.1 _))
        (closed_block t false il im h.1.2 ⟨[], im⟩ ⟨rfl, rfl⟩).neutral, List.flatMap_append,
        split_block t il im h.1.2, split_block b il im h.2]
    | .repeat_ hd body, il, im, h => by
      simp only [wsStmt, Bool.and_eq_true] at h
      obtain ⟨pre, test, bp, post, e, h1, h2, h3, h4⟩ := genLoop_parts h.1
      rw [genStmt, defsS, e, rsegC_assembleLoop (inR := false) (a := ⟨[], im⟩) (h1 _) (h2 _) (h3 _)
        (h4 _) (h1 _) (h2 _) (h3 _) (h4 _)
        (closed_block body false true im h.2 (loopA ⟨[], im⟩) (Entry.loop ⟨rfl, rfl⟩))]
      exact split_block body true im h.2
    | .brk, il, im, h => split_leaf_aux (markerFree_stmt (mono_stmt _ il im h (by rw [defsS]))) (by rw [defsS])
    | .print v, il, im, h => split_leaf_aux (markerFree_stmt (mono_stmt _ il im h (by rw [defsS]))) (by rw [defsS])
    | .println v, il, im, h => split_leaf_aux (markerFree_stmt (mono_stmt _ il im h (by rw [defsS]))) (by rw [defsS])
    | .printf fmt as, il, im, h => split_leaf_aux (markerFree_stmt (mono_stmt _ il im h (by rw [defsS]))) (by rw [defsS])
    | .stage rows cols cf, il, im, h => split_leaf_aux (markerFree_stmt (mono_stmt _ il im h (by rw [defsS]))) (by rw [defsS])
  theorem split_block : ∀ (b : Block) (il im : Bool), wsBlock K false il im b = true →
      rsegC none (genBlock b) = (defsB b).flatMap rc
    | .nil, il, im, h => by rw [genBlock, defsB]; rfl
    | .cons s rest, il, im, h => by
      simp only [wsBlock, Bool.and_eq_true] at h
      rw [genBlock, defsB, List.flatMap_append,
        rsegC_app (closed_stmt s false il im h.1 ⟨[], im⟩ ⟨rfl, rfl⟩).neutral,
        split_stmt s il im h.1, split_block rest il im h.2]
  theorem split_operand : ∀ (o : Operand_) (im : Bool), wsOperand K false im o = true →
      rsegC none (genOperand o) = (defsOp o).flatMap rc
    | .light n, im, h => split_leaf_aux (markerFree_operand (mono_op _ im h (by rw [defsOp]))) (by rw [defsOp])
    | .group n, im, h => split_leaf_aux (markerFree_operand (mono_op _ im h (by rw [defsOp]))) (by rw [defsOp])
    | .location n, im, h => split_leaf_aux (markerFree_operand (mono_op _ im h (by rw [defsOp]))) (by rw [defsOp])
    | .zone n r, im, h => split_leaf_aux (markerFree_operand (mono_op _ im h (by rw [defsOp]))) (by rw [defsOp])
    | .matrixInline n rows cols cf, im, h => split_leaf_aux (markerFree_operand (mono_op _ im h (by rw [defsOp]))) (by rw [defsOp])
    | .matrixBlock n body, im, h => by
      simp only [wsOperand, Bool.and_eq_true, Bool.not_eq_true'] at h
      have hM := h.1
      have hb := closed_block body false false true h.2 (matA ⟨[], false⟩) (Entry.mat ⟨rfl, rfl⟩)
      rw [genOperand, defsOp]
      have m1 : MarkerFree (ins [genName n, .matrix]) := by
        intro g hg
        simp only [ins_cons, ins_nil, List.mem_cons, List.mem_nil_iff, or_false] at hg
        rcases hg with rfl | rfl
        · cases n <;> exact ⟨rfl, rfl⟩
        · exact ⟨rfl, rfl⟩
      have m2 : MarkerFree (ins [.endMatrix, genName n, .moveq (.operand .matrixLight) (.reg .operand)]) := by
        intro g hg
        simp only [ins_cons, ins_nil, List.mem_cons, List.mem_nil_iff, or_false] at hg
        rcases hg with rfl | rfl | rfl
        · exact ⟨rfl, rfl⟩
        · cases n <;> exact ⟨rfl, rfl⟩
        · exact ⟨rfl, rfl⟩
      rw [rsegC_mf_right (m1.neutral.append hb.neutral) m2, rsegC_mf_left m1]
      exact split_block body false true h.2
  theorem split_operands (k : ActKind) : ∀ (ops : Operands) (im : Bool),
      wsOperands K false im ops = true →
      rsegC none (genOperands k ops) = (defsOps ops).flatMap rc
    | .nil, im, h => by rw [genOperands, defsOps]; rfl
    | .cons o rest, im, h => by
      simp only [wsOperands, Bool.and_eq_true] at h
      have hn : Neutral (genOperand o) :=
        (closed_operand o false im h.1 ⟨[], im⟩ ⟨rfl, rfl⟩ false (none, ⟨[], im⟩)).neutral
      have mo : MarkerFree (ins [opcodeOf k]) := markerFree_ins (K := K) (ci_one _ (plain_opcodeOf k))
      rw [genOperands, defsOps, List.flatMap_append, rsegC_app (hn.append mo.neutral),
        rsegC_mf_right hn mo, split_operand o im h.1, split_operands k rest im h.2]
end

end Closed
end Bardolph
