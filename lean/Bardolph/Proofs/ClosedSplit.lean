import Bardolph.Proofs.ClosedGen
/-!
What the loader's `classify` / `routineSegment` make of generated code: the routine segment of
a well-scoped script is the concatenation, in source order, of `ROUTINE f; body; END f` for the
routine definitions of the script (`defsB`), wherever they are nested.
-/
set_option linter.unusedSimpArgs false
set_option linter.unusedVariables false

namespace Bardolph
namespace Closed
open Gen Wf Loader

/-! ## `classify`, one item at a time -/

def cnext (st : Option String) (x : Instr) : Option String :=
  match st with
  | none => isRoutine x
  | some n =>
    match isEnd x with
    | some m => if m == n then none else some n
    | none => some n

def cbit (st : Option String) (x : Instr) : Bool :=
  match st with
  | none => (isRoutine x).isSome
  | some _ => true

theorem classify_cons (st : Option String) (x : Instr) (rest : List Instr) :
    classify st (x :: rest) = cbit st x :: classify (cnext st x) rest := by
  cases st <;> cases x <;> simp [classify, cbit, cnext, isRoutine, isEnd]

def cend (st : Option String) : List Instr → Option String
  | [] => st
  | x :: xs => cend (cnext st x) xs

theorem classify_append (st : Option String) (xs ys : List Instr) :
    classify st (xs ++ ys) = classify st xs ++ classify (cend st xs) ys := by
  induction xs generalizing st with
  | nil => rfl
  | cons x xs ih => simp only [List.cons_append, classify_cons, ih, cend]

@[simp] theorem length_classify (st : Option String) (xs : List Instr) :
    (classify st xs).length = xs.length := by
  induction xs generalizing st with
  | nil => rfl
  | cons x xs ih => simp [classify_cons, ih]

theorem cend_append (st : Option String) (xs ys : List Instr) :
    cend st (xs ++ ys) = cend (cend st xs) ys := by
  induction xs generalizing st with
  | nil => rfl
  | cons x xs ih => simp only [List.cons_append, cend, ih]

variable {inR il : Bool} {K : List String}

theorem trU_cnext {s s' : St} {x : Instr} (h : trU inR K s x = some s') :
    s'.1 = cnext s.1 x := by
  obtain ⟨cl, a⟩ := s
  cases cl with
  | none =>
    simp only [trU] at h
    cases hr : isRoutine x with
    | none =>
      simp only [hr] at h
      cases ht : transfer inR K (some .endCtx) a x with
      | none => simp [ht] at h
      | some a' =>
        simp only [ht, Option.map_some, Option.some.injEq] at h
        rw [← h]; simp [cnext, hr]
    | some n =>
      simp only [hr] at h
      cases inR with
      | true => simp at h
      | false =>
        simp only [Bool.false_eq_true, if_false, Option.some.injEq] at h
        rw [← h]; simp [cnext, hr]
  | some n =>
    simp only [trU] at h
    cases he : isEnd x with
    | none =>
      simp only [he, Option.some.injEq] at h
      rw [← h]; simp [cnext, he]
    | some m =>
      simp only [he, Option.some.injEq] at h
      rw [← h]; simp [cnext, he]

theorem cend_scan {c : Code} {s : St} (h : scanOk inR K c s = true) :
    cend s.1 (c.map gi) = (run inR K c s c.length).1 := by
  induction c generalizing s with
  | nil => rfl
  | cons g c ih =>
    simp only [scanOk, Bool.and_eq_true] at h
    cases ht : trU inR K s (gi g) with
    | none => simp [ht] at h
    | some s' =>
      simp only [ht] at h
      simp only [List.map_cons, cend, List.length_cons, run_cons_succ, ht, Option.getD_some]
      rw [← trU_cnext ht]
      exact ih h.2

theorem classify_run {c : Code} {s : St} (h : scanOk inR K c s = true) {k : Nat} {g : G}
    (hk : c[k]? = some g) :
    (classify s.1 (c.map gi))[k]? = some (cbit (run inR K c s k).1 (gi g)) := by
  induction c generalizing s k with
  | nil => simp at hk
  | cons g0 c ih =>
    simp only [scanOk, Bool.and_eq_true] at h
    cases ht : trU inR K s (gi g0) with
    | none => simp [ht] at h
    | some s' =>
      simp only [ht] at h
      simp only [List.map_cons, classify_cons]
      cases k with
      | zero =>
        simp only [List.getElem?_cons_zero, Option.some.injEq] at hk
        subst hk
        simp
      | succ k =>
        simp only [List.getElem?_cons_succ] at hk ⊢
        simp only [run_cons_succ, ht, Option.getD_some]
        rw [← trU_cnext ht]
        exact ih h.2 hk

theorem cend_closed {c : Code} {a : Abs} {sb : St} (h : ClosedB inR il K c (none, a) sb) :
    cend none (c.map gi) = none := by
  have := cend_scan h.ok
  rw [h.fin] at this
  exact this

/-! ## the routine segment of a piece of code -/

def rsegC (st : Option String) (c : Code) : Code :=
  ((c.zip (classify st (c.map gi))).filter (·.2)).map (·.1)

theorem rsegC_nil (st : Option String) : rsegC st [] = [] := rfl

theorem rsegC_cons (st : Option String) (g : G) (c : Code) :
    rsegC st (g :: c) =
      if cbit st (gi g) = true then g :: rsegC (cnext st (gi g)) c
      else rsegC (cnext st (gi g)) c := by
  simp only [rsegC, List.map_cons, classify_cons, List.zip_cons_cons, List.filter_cons]
  split <;> simp_all

theorem rsegC_append (st : Option String) (c1 c2 : Code) :
    rsegC st (c1 ++ c2) = rsegC st c1 ++ rsegC (cend st (c1.map gi)) c2 := by
  induction c1 generalizing st with
  | nil => rfl
  | cons g c1 ih =>
    simp only [List.cons_append, rsegC_cons, ih, List.map_cons, cend]
    split <;> simp

theorem routineSegment_aux (xs : List Instr) (cls : List Bool) :
    routineSegment xs cls = ((((ins xs).zip cls).filter (·.2)).map (·.1)).map gi := by
  induction xs generalizing cls with
  | nil => rfl
  | cons x xs ih =>
    cases cls with
    | nil => rfl
    | cons b bs =>
      have := ih bs
      simp only [routineSegment, beq_true, List.map_map] at this ⊢
      cases b <;> simp [this]

theorem routineSegment_eq (prog : List Instr) :
    routineSegment prog (classify none prog) = (rsegC none (ins prog)).map gi := by
  have e : (ins prog).map gi = prog := by simp [ins, Function.comp_def]
  rw [routineSegment_aux, rsegC, e]

/-- no `ROUTINE` / `END` markers -/
def MarkerFree (c : Code) : Prop := ∀ g ∈ c, isRoutine (gi g) = none ∧ isEnd (gi g) = none

theorem MarkerFree.append {c1 c2 : Code} (h1 : MarkerFree c1) (h2 : MarkerFree c2) :
    MarkerFree (c1 ++ c2) := by
  intro g hg
  rcases List.mem_append.mp hg with h | h
  · exact h1 g h
  · exact h2 g h

theorem MarkerFree.main {c : Code} (h : MarkerFree c) :
    rsegC none c = [] ∧ cend none (c.map gi) = none := by
  induction c with
  | nil => exact ⟨rfl, rfl⟩
  | cons g c ih =>
    have hg := h g (by simp)
    have := ih fun g' hg' => h g' (by simp [hg'])
    simp only [rsegC_cons, List.map_cons, cend, cbit, cnext, hg.1, Option.isSome_none,
      Bool.false_eq_true, if_false]
    exact this

theorem MarkerFree.inside {c : Code} (h : MarkerFree c) (n : String) :
    rsegC (some n) c = c ∧ cend (some n) (c.map gi) = some n := by
  induction c with
  | nil => exact ⟨rfl, rfl⟩
  | cons g c ih =>
    have hg := h g (by simp)
    have := ih fun g' hg' => h g' (by simp [hg'])
    simp only [rsegC_cons, List.map_cons, cend, cbit, cnext, hg.2, if_true, this.1, this.2,
      and_self]

theorem markerFree_of_ok {c : Code} {a : Abs} (h : scanOk true K c (none, a) = true) :
    MarkerFree c :=
  (section_aux "" a c (none, a) rfl h).2.2.1

theorem markerFree_ins {xs : List Instr} (h : CI true K xs) : MarkerFree (ins xs) :=
  markerFree_of_ok (h Abs.empty false (none, Abs.empty)).ok

/-- a routine section is taken whole -/
theorem rsegC_section {body : Code} (h : MarkerFree body) (n : String) :
    rsegC none (G.i (.routine n) :: (body ++ [G.i (.end_ n)])) =
        G.i (.routine n) :: (body ++ [G.i (.end_ n)]) ∧
      cend none ((G.i (.routine n) :: (body ++ [G.i (.end_ n)])).map gi) = none := by
  have hb := h.inside n
  constructor
  · rw [rsegC_cons]
    simp only [gi_i, cbit, isRoutine, Option.isSome_some, if_true, cnext]
    rw [rsegC_append, hb.1, hb.2, rsegC_cons]
    simp [cbit, rsegC_nil]
  · simp only [List.map_cons, cend, gi_i, cnext, isRoutine, List.map_append, cend_append, hb.2,
      List.map_nil, isEnd, BEq.rfl, if_true]

/-! ## `break` patching leaves the routine segment alone -/

theorem patchBreaks_cons (g : G) (c : Code) (b t : Nat) :
    patchBreaks (g :: c) b t = patchG t b g :: patchBreaks c (b + 1) t := by
  apply List.ext_getElem?
  intro k
  rw [getElem?_patchBreaks]
  cases k with
  | zero => simp
  | succ k =>
    simp only [List.getElem?_cons_succ, getElem?_patchBreaks]
    have : b + (k + 1) = b + 1 + k := by omega
    rw [this]

theorem cbit_patchG (st : Option String) (t : Int) (k : Nat) (g : G) :
    cbit st (gi (patchG t k g)) = cbit st (gi g) := by
  cases g <;> cases st <;> rfl

theorem cnext_patchG (st : Option String) (t : Int) (k : Nat) (g : G) :
    cnext st (gi (patchG t k g)) = cnext st (gi g) := by
  cases g <;> cases st <;> rfl

theorem rsegC_patch {c : Code} {st : Option String} (b t : Nat)
    (h : ∀ k : Nat, c[k]? = some G.brk → (classify st (c.map gi))[k]? = some false) :
    rsegC st (patchBreaks c b t) = rsegC st c := by
  induction c generalizing st b with
  | nil => rfl
  | cons g c ih =>
    rw [patchBreaks_cons, rsegC_cons, rsegC_cons, cbit_patchG, cnext_patchG]
    have ih' := ih (st := cnext st (gi g)) (b + 1) (fun k hk => by
      have := h (k + 1) (by simpa using hk)
      simpa [classify_cons] using this)
    rw [ih']
    split
    · rename_i hb
      have : g ≠ G.brk := by
        intro hg
        have := h 0 (by simp [hg])
        simp [classify_cons] at this
        rw [hb] at this
        cases this
      cases g with
      | brk => exact absurd rfl this
      | i x => rfl
    · rfl

theorem rsegC_patch_closed {c : Code} {s sb : St} (b t : Nat)
    (h : ClosedB inR il K c s sb) (hsb : sb.1 = none) :
    rsegC s.1 (patchBreaks c b t) = rsegC s.1 c := by
  apply rsegC_patch
  intro k hk
  rw [classify_run h.ok hk, (h.brks k hk).2, hsb]
  rfl

end Closed
end Bardolph
