import Bardolph.Proofs.JobControlLock
/-!
Helper lemmas for C08, layer 2: "aspect" lemmas read off the table `act` for the code as it
stands (`Variant.fixed`): which line can have which effect, and how sets of program counters
(`liveQ`, `liveB`, `obligated`, `starter`, …) are entered and left.
-/
set_option linter.unusedSimpArgs false
set_option linter.unusedVariables false
namespace Bardolph.JC

def AcqK.isDone : AcqK → Bool | .done => true | _ => false
def AcqK.isBgdone : AcqK → Bool | .bgdone => true | _ => false
def AcqK.isRn : AcqK → Bool | .rn _ => true | _ => false
def AcqK.pinned : AcqK → Bool | .pstopCur => true | _ => false
def RelK.isDone : RelK → Bool | .done => true | _ => false
def RelK.pinned : RelK → Bool | .pstopCur => true | _ => false
def NameK.isBgdone : NameK → Bool | .bgdone => true | _ => false
def NameK.isSpawn : NameK → Bool | .spawn => true | _ => false
def ExK.isRn : ExK → Bool | .rn _ => true | _ => false
def ExK.isSpawn : ExK → Bool | .spawn => true | _ => false
def AirK.pinned : AirK → Bool | .pstopCur => true | _ => false
def ReqK.pinned : ReqK → Bool | .pstopCur => true | _ => false

/-- the thread of a QUEUED agent between its start and `self._active_agent = None` -/
def liveQ : Pc → Bool
  | .boot | .xc1 | .xc2 | .body | .xc4 | .od1 | .od2 | .od3 => true
  | .acq1 k | .acq4 k => k.isDone
  | _ => false

/-- the thread of a BACKGROUND agent between its start and `del self._background[...]` -/
def liveB : Pc → Bool
  | .boot | .xc1 | .xc2 | .body | .xc4 | .bd1 | .bd2 | .bd3 => true
  | .acq1 k | .acq4 k => k.isBgdone
  | .name2 _ k => k.isBgdone
  | _ => false

/-- lines only the completion callback of a queued agent reaches -/
def qOnly : Pc → Bool
  | .od1 | .od2 | .od3 => true
  | .acq1 k | .acq4 k => k.isDone
  | _ => false

/-- lines only the completion callback of a background agent reaches -/
def bOnly : Pc → Bool
  | .bd1 | .bd2 | .bd3 => true
  | .acq1 k | .acq4 k => k.isBgdone
  | .name2 _ k => k.isBgdone
  | _ => false

/-- lines only an agent's own thread executes -/
def jobOnly (p : Pc) : Bool := liveQ p || liveB p

/-- a thread that has popped (or is about to start) agent `a` -/
def starter (a : Nat) : Pc → Bool
  | .rn5 _ => true
  | .ex1 b k | .ex2 b k => k.isRn && b == a
  | _ => false

/-- a thread that has registered background agent `a` and is about to start it -/
def bstarter (a : Nat) : Pc → Bool
  | .sp6 b => b == a
  | .ex1 b k | .ex2 b k => k.isSpawn && b == a
  | _ => false

/-- a thread that is certain to test "nothing active and something queued" under the lock -/
def obligated : Pc → Bool
  | .enq6 _ | .enq7 _ | .od5 | .od6 | .rn1 _ | .rn2 _ | .rn3 _ | .rn4 _ => true
  | .rel1 k => k.isDone
  | .acq1 k | .acq4 k => k.isRn
  | _ => false

/-- lines that exist only in the pinned variant of `clear_queue` / `stop_current` -/
def pinnedPc : Pc → Bool
  | .pcl1 | .ps1 | .ps2 | .ps3 | .ps4 | .ps6 | .ps7 | .ps8 => true
  | .acq1 k | .acq4 k => k.pinned
  | .rel1 k => k.pinned
  | .air1 _ k | .air1b _ k => k.pinned
  | .req1 _ k => k.pinned
  | _ => false

/-- effects that write `_queue`, `_active_agent`, `_background`, make agents or threads -/
def Eff.shared : Eff → Bool
  | .alloc .. | .enq .. | .pop | .actNone _ | .clear | .bgAdd _ | .bgDel _ | .mkThread _
  | .startThread _ => true
  | _ => false

theorem ExK.crit_pos (k : ExK) : 0 < k.crit := by cases k <;> simp [ExK.crit]

theorem firstPc_fixed_not_pinned (op : Op) : pinnedPc (firstPc .fixed op) = false := by
  cases op <;> rfl

theorem afterAcq_pinned (k : AcqK) : pinnedPc (afterAcq k) = k.pinned := by cases k <;> rfl

theorem afterRel_pinned (k : RelK) : k.pinned = false → pinnedPc (afterRel k) = false := by
  cases k with
  | rn k => cases k <;> simp [afterRel, pinnedPc]
  | _ => simp [afterRel, pinnedPc, RelK.pinned]

/-- macro: case analysis over the table -/
macro "table_cases " p:ident : tactic =>
  `(tactic| (cases $p:ident <;> simp [act] <;> (repeat' split)))

theorem act_not_pinned (s : State) (t : Tid) (c : Choice) (p : Pc) :
    pinnedPc p = false → pinnedPc (act .fixed s t c p).pc = false := by
  table_cases p <;>
    (try simp only [firstPc_fixed_not_pinned, afterAcq_pinned]) <;>
    first
    | exact fun h => afterRel_pinned _ (by simpa [pinnedPc] using h)
    | simp_all [pinnedPc, retEv, AcqK.pinned, RelK.pinned, AirK.pinned, ReqK.pinned]

/-- in the code as it stands every write to shared state happens inside the lock -/
theorem act_shared_locked (s : State) (t : Tid) (c : Choice) (p : Pc) :
    pinnedPc p = false → (act .fixed s t c p).eff.shared = true → 0 < p.crit := by
  table_cases p <;>
    simp_all [Pc.crit, retEv, Eff.shared, ExK.crit_pos, NameK.crit, RnK.crit, pinnedPc]

/-- the ten lines that write shared state, with what they need and where they lead -/
inductive SharedShape (s : State) (t : Tid) : Pc → Pc → Eff → Prop
  | allocQ (bk l) : SharedShape s t (.enq4 bk l) (.init 1 s.next (.enq bk)) (.alloc l false)
  | allocB (l) : SharedShape s t (.sp4 l) (.init 1 s.next .spawn) (.alloc l true)
  | enq (bk a) : SharedShape s t (.enq5 bk a) (.enq6 a) (.enq bk a)
  | pop (k) : s.queue ≠ [] → SharedShape s t (.rn4 k) (.rn5 k) .pop
  | actNone (a) : t = .job a → SharedShape s t .od3 .od5 (.actNone a)
  | clear : SharedShape s t .cl3 .cl5 .clear
  | bgAdd (a) : SharedShape s t (.name2 a .spawn) (.sp6 a) (.bgAdd a)
  | bgDel (a) : a ∈ s.bg → SharedShape s t (.name2 a .bgdone) .bd5 (.bgDel a)
  | mk (a k) : (s.thr (.job a)).pc = .unborn → SharedShape s t (.ex1 a k) (.ex2 a k) (.mkThread a)
  | start (a k) : (s.thr (.job a)).pc = .created →
      SharedShape s t (.ex2 a k) (.ex3 a k) (.startThread a)

theorem act_shared_shape (s : State) (t : Tid) (c : Choice) (p : Pc) :
    pinnedPc p = false → (act .fixed s t c p).eff.shared = true →
      SharedShape s t p (act .fixed s t c p).pc (act .fixed s t c p).eff := by
  table_cases p <;> simp_all [retEv, Eff.shared, pinnedPc] <;>
    first
    | (constructor; done)
    | (constructor; simp_all; done)
    | (subst_vars; constructor; done)
    | skip

theorem act_popTodo (v : Variant) (s : State) (t : Tid) (c : Choice) (p : Pc) :
    (act v s t c p).popTodo = true → p = .idle := by
  table_cases p <;> simp_all [retEv]

/-- events that are not deque operations and not thread / background bookkeeping -/
def Event.plain : Event → Bool
  | .bodyBegin _ | .bodyEnd .. | .stop _ | .ret .. => true
  | _ => false

theorem act_emit_plain (v : Variant) (s : State) (t : Tid) (c : Choice) (p : Pc) (es : List Event) :
    (act v s t c p).eff = .emit es → ∀ e ∈ es, e.plain = true := by
  table_cases p <;> simp_all [retEv, Event.plain] <;> (rintro rfl; simp [Event.plain])

/-! ### how the sets of program counters are entered and left -/

theorem firstPc_not_jobOnly (v : Variant) (op : Op) : jobOnly (firstPc v op) = false := by
  cases op <;> cases v <;> rfl

theorem afterAcq_liveQ (k : AcqK) : liveQ (afterAcq k) = k.isDone := by cases k <;> rfl
theorem afterAcq_liveB (k : AcqK) : liveB (afterAcq k) = k.isBgdone := by cases k <;> rfl
theorem afterAcq_qOnly (k : AcqK) : qOnly (afterAcq k) = k.isDone := by cases k <;> rfl
theorem afterAcq_bOnly (k : AcqK) : bOnly (afterAcq k) = k.isBgdone := by cases k <;> rfl
theorem afterRel_liveQ (k : RelK) : liveQ (afterRel k) = false := by
  cases k with
  | rn k => cases k <;> rfl
  | _ => rfl
theorem afterRel_liveB (k : RelK) : liveB (afterRel k) = false := by
  cases k with
  | rn k => cases k <;> rfl
  | _ => rfl
theorem afterRel_qOnly (k : RelK) : qOnly (afterRel k) = false := by
  cases k with
  | rn k => cases k <;> rfl
  | _ => rfl
theorem afterRel_bOnly (k : RelK) : bOnly (afterRel k) = false := by
  cases k with
  | rn k => cases k <;> rfl
  | _ => rfl
theorem firstPc_liveQ (v : Variant) (op : Op) : liveQ (firstPc v op) = false := by
  cases op <;> cases v <;> rfl
theorem firstPc_liveB (v : Variant) (op : Op) : liveB (firstPc v op) = false := by
  cases op <;> cases v <;> rfl
theorem firstPc_qOnly (v : Variant) (op : Op) : qOnly (firstPc v op) = false := by
  cases op <;> cases v <;> rfl
theorem firstPc_bOnly (v : Variant) (op : Op) : bOnly (firstPc v op) = false := by
  cases op <;> cases v <;> rfl

theorem act_liveQ_back (v : Variant) (s : State) (t : Tid) (c : Choice) (p : Pc) :
    liveQ (act v s t c p).pc = true → liveQ p = true := by
  table_cases p <;>
    (try simp only [firstPc_liveQ, afterAcq_liveQ, afterRel_liveQ]) <;>
    simp_all [liveQ, retEv, AcqK.isDone]

theorem act_liveB_back (v : Variant) (s : State) (t : Tid) (c : Choice) (p : Pc) :
    liveB (act v s t c p).pc = true → liveB p = true := by
  table_cases p <;>
    (try simp only [firstPc_liveB, afterAcq_liveB, afterRel_liveB]) <;>
    simp_all [liveB, retEv, AcqK.isBgdone, NameK.isBgdone]

theorem act_jobOnly_back (v : Variant) (s : State) (t : Tid) (c : Choice) (p : Pc) :
    jobOnly (act v s t c p).pc = true → jobOnly p = true := by
  simp only [jobOnly, Bool.or_eq_true]
  rintro (h | h)
  · exact Or.inl (act_liveQ_back v s t c p h)
  · exact Or.inr (act_liveB_back v s t c p h)

theorem act_qOnly_back (v : Variant) (s : State) (t : Tid) (c : Choice) (p : Pc) :
    qOnly (act v s t c p).pc = true →
      qOnly p = true ∨ (p = .xc4 ∧ ∃ a, t = .job a ∧ (s.info a).bg = false) := by
  table_cases p <;>
    (try simp only [firstPc_qOnly, afterAcq_qOnly, afterRel_qOnly]) <;>
    simp_all [qOnly, retEv, AcqK.isDone]

theorem act_bOnly_back (v : Variant) (s : State) (t : Tid) (c : Choice) (p : Pc) :
    bOnly (act v s t c p).pc = true →
      bOnly p = true ∨ (p = .xc4 ∧ ∃ a, t = .job a ∧ (s.info a).bg = true) := by
  table_cases p <;>
    (try simp only [firstPc_bOnly, afterAcq_bOnly, afterRel_bOnly]) <;>
    simp_all [bOnly, retEv, AcqK.isBgdone, NameK.isBgdone]

theorem afterRel_ne_name2 (k : RelK) (b : Nat) (k' : NameK) : afterRel k ≠ .name2 b k' := by
  cases k with
  | rn k => cases k <;> simp [afterRel]
  | _ => simp [afterRel]

theorem act_name2_bgdone (v : Variant) (s : State) (t : Tid) (c : Choice) (p : Pc) (b : Nat)
    (k : NameK) : (act v s t c p).pc = .name2 b k → k.isBgdone = true →
      (p = .bd3 ∧ t = .job b) ∨ p = .name2 b k := by
  table_cases p <;> simp_all [retEv, NameK.isBgdone] <;>
    first
    | (rintro rfl rfl; simp [NameK.isBgdone]; done)
    | (rintro rfl rfl; simp_all [NameK.isBgdone]; done)
    | (intro h; cases ‹Op› <;> cases v <;> simp [firstPc] at h; done)
    | (intro h; rename_i k; cases k <;> simp [afterAcq] at h; done)
    | (intro h; exact absurd h (afterRel_ne_name2 _ _ _))
    | skip

theorem act_unborn (v : Variant) (s : State) (t : Tid) (c : Choice) :
    act v s t c .unborn = ⟨.unborn, .nop, false⟩ := by simp [act]
theorem act_created (v : Variant) (s : State) (t : Tid) (c : Choice) :
    act v s t c .created = ⟨.created, .nop, false⟩ := by simp [act]

theorem act_liveQ_fwd (v : Variant) (s : State) (a : Nat) (c : Choice) (p : Pc) :
    liveQ p = true → (s.info a).bg = false →
      liveQ (act v s (.job a) c p).pc = true ∨ (act v s (.job a) c p).eff = .actNone a := by
  table_cases p <;>
    (try simp only [afterAcq_liveQ]) <;>
    simp_all [liveQ, retEv, AcqK.isDone]

theorem act_liveB_fwd (v : Variant) (s : State) (a : Nat) (c : Choice) (p : Pc) :
    liveB p = true → (s.info a).bg = true → (∀ b k, p = .name2 b k → k.isBgdone = true → b = a) →
      liveB (act v s (.job a) c p).pc = true ∨ (act v s (.job a) c p).eff = .bgDel a := by
  table_cases p <;>
    (try simp only [afterAcq_liveB]) <;>
    simp_all [liveB, retEv, AcqK.isBgdone, NameK.isBgdone]

theorem act_starter_fwd (v : Variant) (s : State) (t : Tid) (a : Nat) (c : Choice) (p : Pc) :
    starter a p = true → s.active = some a →
      starter a (act v s t c p).pc = true ∨ (act v s t c p).eff = .startThread a := by
  table_cases p <;> simp_all [starter, retEv, ExK.isRn]

theorem act_bstarter_fwd (v : Variant) (s : State) (t : Tid) (a : Nat) (c : Choice) (p : Pc) :
    bstarter a p = true →
      bstarter a (act v s t c p).pc = true ∨ (act v s t c p).eff = .startThread a := by
  table_cases p <;> simp_all [bstarter, retEv, ExK.isSpawn]

theorem afterAcq_obligated (k : AcqK) : obligated (afterAcq k) = k.isRn := by cases k <;> rfl

theorem afterRel_obligated (k : RelK) : k.isDone = true → obligated (afterRel k) = true := by
  cases k with
  | rn k => cases k <;> simp [RelK.isDone]
  | _ => simp [RelK.isDone, afterRel, obligated]

theorem RelK.crit_pos (k : RelK) : 0 < k.crit := by cases k <;> simp [RelK.crit]

theorem act_obligated_fwd (v : Variant) (s : State) (t : Tid) (c : Choice) (p : Pc) :
    obligated p = true →
      obligated (act v s t c p).pc = true ∨ (act v s t c p).eff = .pop ∨
        ¬ (s.active = none ∧ s.queue ≠ []) := by
  table_cases p <;>
    (try simp only [afterAcq_obligated]) <;>
    first
    | (intro h; exact Or.inl (afterRel_obligated _ (by simpa [obligated] using h)))
    | simp_all [obligated, retEv, AcqK.isRn, RelK.isDone]

/-- what is known about the shared state when a thread stands at a line inside a critical
section (all these lines have `crit > 0`) -/
def Loc (s : State) : Pc → Prop
  | .init _ a k =>
    match k with
    | .enq _ => a < s.next ∧ (s.info a).bg = false ∧ a ∉ s.queue ∧ (s.thr (.job a)).pc = .unborn
    | .spawn => a < s.next ∧ (s.info a).bg = true ∧ a ∉ s.bg ∧ (s.thr (.job a)).pc = .unborn
  | .enq5 _ a => a < s.next ∧ (s.info a).bg = false ∧ a ∉ s.queue ∧ (s.thr (.job a)).pc = .unborn
  | .sp5 a => a < s.next ∧ (s.info a).bg = true ∧ a ∉ s.bg ∧ (s.thr (.job a)).pc = .unborn
  | .name2 a k =>
    match k with
    | .spawn => a < s.next ∧ (s.info a).bg = true ∧ a ∉ s.bg ∧ (s.thr (.job a)).pc = .unborn
    | .stopJob _ => s.active ≠ none
    | _ => True
  | .sp6 a => a < s.next ∧ (s.info a).bg = true ∧ a ∈ s.bg ∧ (s.thr (.job a)).pc = .unborn
  | .ex1 a k =>
    match k with
    | .spawn => a < s.next ∧ (s.info a).bg = true ∧ a ∈ s.bg ∧ (s.thr (.job a)).pc = .unborn
    | .rn _ => s.active = some a ∧ a ∉ s.queue ∧ (s.thr (.job a)).pc = .unborn
  | .ex2 a k =>
    match k with
    | .spawn => a < s.next ∧ (s.info a).bg = true ∧ a ∈ s.bg ∧ (s.thr (.job a)).pc = .created
    | .rn _ => s.active = some a ∧ (s.thr (.job a)).pc = .created
  | .rn4 _ => s.active = none ∧ s.queue ≠ []
  | .rn5 _ => ∃ a, s.active = some a ∧ a ∉ s.queue ∧ (s.thr (.job a)).pc = .unborn
  | .sj5 _ | .sj6 => s.active ≠ none
  | .sj9 b => b ∈ s.bg
  | _ => True

theorem Loc_of_crit_zero (s : State) (p : Pc) (h : p.crit = 0) : Loc s p := by
  cases p <;> simp [Loc] <;> simp_all [Pc.crit, NameK.crit] <;>
    (rename_i k; cases k <;> simp_all [ExK.crit, NameK.crit, RnK.crit])

/-- an internal error needs one of these -/
theorem act_crash (s : State) (t : Tid) (c : Choice) (p : Pc) :
    (act .fixed s t c p).eff = .crash →
      (0 < p.crit ∧ s.owner ≠ some t) ∨ ¬ Loc s p ∨ (jobOnly p = true ∧ ∃ n, t = .client n) ∨
        (∃ a, p = .name2 a .bgdone ∧ a ∉ s.bg) ∨ pinnedPc p = true := by
  table_cases p <;>
    simp_all [retEv, Pc.crit, RelK.crit_pos, Loc, jobOnly, liveQ, liveB, pinnedPc, NameK.isBgdone] <;>
    (rename_i k h; cases k <;> simp_all [ExK.crit])

theorem firstPc_loc (s : State) (v : Variant) (op : Op) : Loc s (firstPc v op) := by
  cases op <;> cases v <;> simp [firstPc, Loc]

theorem afterAcq_loc (s : State) (k : AcqK) : Loc s (afterAcq k) := by
  cases k <;> simp [afterAcq, Loc]

theorem afterRel_loc (s : State) (k : RelK) : Loc s (afterRel k) := by
  cases k with
  | rn k => cases k <;> simp [afterRel, Loc]
  | _ => simp [afterRel, Loc]

theorem lookupBg_mem (s : State) (n b : Nat) : lookupBg s n = some b → b ∈ s.bg := by
  intro h; exact List.mem_of_find?_eq_some h

/-- a line that does not write shared state establishes what the next line relies on -/
theorem act_loc (s : State) (t : Tid) (c : Choice) (p : Pc) :
    Loc s p → (act .fixed s t c p).eff.shared = false → Loc s (act .fixed s t c p).pc := by
  table_cases p <;>
    first
    | (intros; (try dsimp only); exact firstPc_loc _ _ _)
    | (intros; (try dsimp only); exact afterAcq_loc _ _)
    | (intros; (try dsimp only); exact afterRel_loc _ _)
    | (simp_all [Loc, retEv, Eff.shared]; done)
    | (simp_all [Loc, retEv, Eff.shared]; (first | exact lookupBg_mem _ _ _ (by assumption) | (intro h; simp_all)))

theorem afterAcq_ne (k : AcqK) : afterAcq k ≠ .acq4 k := by cases k <;> simp [afterAcq]
theorem afterRel_ne (k : RelK) : afterRel k ≠ .rel1 k := by
  cases k with
  | rn k => cases k <;> simp [afterRel]
  | _ => simp [afterRel]

/-- inside a critical section every line that does not fail moves on to another line -/
theorem act_progress (s : State) (t : Tid) (c : Choice) (p : Pc) :
    0 < p.crit → (act .fixed s t c p).eff ≠ .crash → canAcquire s t = true →
      (act .fixed s t c p).pc ≠ p := by
  table_cases p <;>
    first
    | (intros; exact afterAcq_ne _)
    | (intros; exact afterRel_ne _)
    | simp_all [Pc.crit, retEv]

end Bardolph.JC
