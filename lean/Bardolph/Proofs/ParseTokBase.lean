import Bardolph.Model.ParseTok
/-!
Proof infrastructure for the parser model `ParseTok`: the state invariant, the specification
`Spec` every parsing routine satisfies, and its composition rules.
-/
namespace Bardolph.ParseTok
open Bardolph

variable {t : Bool}

/-- the tokens not yet consumed, the current one first -/
def St.toks (st : St) : List Tok := st.cur :: st.rest

/-- the text starts like a name (`[a-zA-Z_]`) -/
def nameLike (s : String) : Bool :=
  match s.toList with
  | c :: _ => Lex.isNameStart c
  | [] => false

/-- what the lexer guarantees about a token, as far as the parser's behaviour depends on it -/
def tokOk (t : Tok) : Bool :=
  match t.ty with
  | .not_ => t.content == "not"
  | .and_ | .or_ | .compare => t.content != "not"
  | .name => nameLike t.content
  | .timePattern => !nameLike t.content
  | .number => !nameLike t.content
  | _ => true

structure Inv (st : St) : Prop where
  toks : ∀ t ∈ st.toks, tokOk t = true
  lastEof : (st.toks.getLast?.map (·.ty)) = some .eof
  macros : ∀ n s, st.globals.lookup n = some s → s.kind = .macro → nameLike n = true

/-- a line number an error message may carry: that of a token still to be read, or 0 -/
def lineOf (st : St) (n : Nat) : Prop := n = 0 ∨ ∃ t ∈ st.toks, t.line = n

def shape (l : List (Option (List Nat))) : List Bool := l.map Option.isSome

structure OkPost (st st' : St) : Prop where
  inv : Inv st'
  suffix : st'.toks <:+ st.toks
  errors : st'.errors = st.errors
  shape : shape st'.loops = shape st.loops

structure FailPost (st st' : St) : Prop where
  suffix : st'.toks <:+ st.toks
  errors : ∃ new, new ≠ [] ∧ st'.errors = st.errors ++ new ∧ ∀ e ∈ new, lineOf st e.1

/-- what a result must satisfy -/
def Res.Good (t : Bool) (st : St) : Res α → Prop
  | .ok _ st' => OkPost st st'
  | .fail st' => FailPost st st'
  | .raised _ _ => False
  | .oof => t = false

/-- the specification of a parsing routine: from a state satisfying the invariant it either
succeeds — invariant kept, only a prefix of the tokens consumed, no message added, loop stack of
the same shape —, or fails with at least one new message carrying the line of a pending token,
or runs out of fuel; it never raises -/
structure Spec (t : Bool) (m : M α) : Prop where
  run : ∀ st, Inv st → (m st).Good t st

theorem suffix_length {st st' : St} (h : st'.toks <:+ st.toks) :
    st'.rest.length ≤ st.rest.length := by
  have := h.length_le
  simp [St.toks] at this
  exact this

theorem lineOf_mono {st st' : St} (h : st'.toks <:+ st.toks) {n : Nat} (hn : lineOf st' n) :
    lineOf st n := by
  rcases hn with h0 | ⟨t, ht, hl⟩
  · exact .inl h0
  · exact .inr ⟨t, h.subset ht, hl⟩

theorem OkPost.refl {st : St} (h : Inv st) : OkPost st st :=
  ⟨h, List.suffix_refl _, rfl, rfl⟩

theorem OkPost.trans {a b c : St} (h1 : OkPost a b) (h2 : OkPost b c) : OkPost a c :=
  ⟨h2.inv, h2.suffix.trans h1.suffix, h2.errors.trans h1.errors, h2.shape.trans h1.shape⟩

theorem FailPost.after {a b c : St} (h1 : OkPost a b) (h2 : FailPost b c) : FailPost a c := by
  refine ⟨h2.suffix.trans h1.suffix, ?_⟩
  obtain ⟨new, hne, he, hl⟩ := h2.errors
  exact ⟨new, hne, by rw [he, h1.errors], fun e he' => lineOf_mono h1.suffix (hl e he')⟩

theorem Res.Good.after {a b : St} (h1 : OkPost a b) {r : Res α} (h2 : r.Good t b) : r.Good t a := by
  cases r with
  | ok x s => exact h1.trans h2
  | fail s => exact FailPost.after h1 h2
  | raised k s => exact h2
  | oof => exact h2

/-! ## Running a `do` block -/

theorem bind_run (m : M α) (f : α → M β) (st : St) :
    (m >>= f) st = (match m st with
      | .ok a st' => f a st'
      | .fail st' => .fail st'
      | .raised k st' => .raised k st'
      | .oof => .oof) := rfl

theorem bind_ok {m : M α} {f : α → M β} {st st' : St} {a : α} (h : m st = .ok a st') :
    (m >>= f) st = f a st' := by rw [bind_run, h]

theorem bind_fail {m : M α} {f : α → M β} {st st' : St} (h : m st = .fail st') :
    (m >>= f) st = .fail st' := by rw [bind_run, h]

theorem pure_run (a : α) (st : St) : (pure a : M α) st = .ok a st := rfl

theorem getSt_bind (f : St → M β) (st : St) : (getSt >>= f) st = f st st := rfl

/-! ## Composition rules -/

theorem Spec.pure (a : α) : Spec t (pure a : M α) := ⟨fun _ h => OkPost.refl h⟩

theorem Spec.bind {m : M α} {f : α → M β} (hm : Spec t m) (hf : ∀ a, Spec t (f a)) :
    Spec t (m >>= f) := by
  refine ⟨fun st hst => ?_⟩
  have h1 := hm.run st hst
  show (M.bind m f st).Good t st
  unfold M.bind
  cases hr : m st with
  | ok a s =>
    rw [hr] at h1
    exact Res.Good.after h1 ((hf a).run s h1.inv)
  | fail s => rw [hr] at h1; exact h1
  | raised k s => rw [hr] at h1; exact h1
  | oof => rw [hr] at h1; exact h1

theorem Spec.ite {c : Prop} [Decidable c] {a e : M α} (ht : Spec t a) (he : Spec t e) :
    Spec t (if c then a else e) := by
  split <;> assumption

theorem Spec.outOfFuel : Spec false (outOfFuel : M α) := ⟨fun _ _ => rfl⟩

/-! ## Pointwise composition for the routines that push and pop the loop stack -/

/-- `OkPost` without the clause about the loop stack -/
structure OkPostX (st st' : St) : Prop where
  inv : Inv st'
  suffix : st'.toks <:+ st.toks
  errors : st'.errors = st.errors

/-- like `Good`, with the shape of the resulting loop stack given explicitly -/
def Res.GoodX (t : Bool) (st : St) (sh : List Bool) : Res α → Prop
  | .ok _ st' => OkPostX st st' ∧ shape st'.loops = sh
  | .fail st' => FailPost st st'
  | .raised _ _ => False
  | .oof => t = false

theorem Res.Good.toX {st : St} {r : Res α} (h : r.Good t st) : r.GoodX t st (shape st.loops) := by
  cases r with
  | ok a s => exact ⟨⟨h.inv, h.suffix, h.errors⟩, h.shape⟩
  | fail s => exact h
  | raised k s => exact h
  | oof => exact h

theorem Res.GoodX.toGood {st : St} {r : Res α} (h : r.GoodX t st (shape st.loops)) : r.Good t st := by
  cases r with
  | ok a s => exact ⟨h.1.inv, h.1.suffix, h.1.errors, h.2⟩
  | fail s => exact h
  | raised k s => exact h
  | oof => exact h

theorem OkPostX.refl {st : St} (h : Inv st) : OkPostX st st := ⟨h, List.suffix_refl _, rfl⟩

theorem Res.GoodX.after {a b : St} (h1 : OkPostX a b) {r : Res α} {sh : List Bool}
    (h2 : r.GoodX t b sh) : r.GoodX t a sh := by
  cases r with
  | ok x s =>
    exact ⟨⟨h2.1.inv, h2.1.suffix.trans h1.suffix, h2.1.errors.trans h1.errors⟩, h2.2⟩
  | fail s =>
    refine ⟨h2.suffix.trans h1.suffix, ?_⟩
    obtain ⟨new, hne, he, hl⟩ := h2.errors
    exact ⟨new, hne, by rw [he, h1.errors], fun e he' => lineOf_mono h1.suffix (hl e he')⟩
  | raised k s => exact h2
  | oof => exact h2

theorem goodX_bind {m : M α} {f : α → M β} {st : St} {sh1 sh2 : List Bool}
    (hm : (m st).GoodX t st sh1)
    (hf : ∀ a s, OkPostX st s → shape s.loops = sh1 → (f a s).GoodX t s sh2) :
    ((m >>= f) st).GoodX t st sh2 := by
  rw [bind_run]
  cases hr : m st with
  | ok a s =>
    rw [hr] at hm
    exact Res.GoodX.after hm.1 (hf a s hm.1 hm.2)
  | fail s => rw [hr] at hm; exact hm
  | raised k s => rw [hr] at hm; exact hm
  | oof => rw [hr] at hm; exact hm

end Bardolph.ParseTok
