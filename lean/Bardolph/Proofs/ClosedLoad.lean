import Bardolph.Proofs.Closed
/-!
Closed code and the loader: the loaded image of a closed program is accepted by the checker.

* `segmentOk_of_closed` (S): a closed, marker-free instruction list passes `Wf.segmentOk`;
* `main_closed` (A): the loader's main segment of a closed program is closed;
* `wfImage_load` (C): `Wf.wfImage (Loader.load prog) = true`.
-/
set_option linter.unusedSimpArgs false
set_option linter.unusedVariables false

namespace Bardolph
namespace Closed
namespace Load
open Gen Wf Loader

variable {inR il : Bool} {known : List String}

/-! ## per-item facts of a successful scan -/

theorem scanOk_step {c : Code} {s : St} (h : scanOk inR known c s = true) {k : Nat} {g : G}
    (hg : c[k]? = some g) :
    jsrOk (gi g) (c[k + 1]?.map gi) = true ∧
      trU inR known (run inR known c s k) (gi g) = some (run inR known c s (k + 1)) := by
  induction c generalizing s k with
  | nil => simp at hg
  | cons g0 c ih =>
    simp only [scanOk, Bool.and_eq_true] at h
    obtain ⟨hj, h⟩ := h
    cases ht : trU inR known s (gi g0) with
    | none => simp [ht] at h
    | some s' =>
      simp only [ht] at h
      cases k with
      | zero =>
        simp only [List.getElem?_cons_zero, Option.some.injEq] at hg
        subst hg
        refine ⟨?_, ?_⟩
        · have : (g0 :: c)[0 + 1]? = c.head? := by cases c <;> simp
          rw [this]; exact hj
        · simp [run_cons_succ, ht]
      | succ k =>
        simp only [List.getElem?_cons_succ] at hg
        have := ih h hg
        simpa only [List.getElem?_cons_succ, run_cons_succ, ht, Option.getD_some] using this

/-! ## (S) closed marker-free code passes `segmentOk` -/

theorem transfer_jsrOk {x : Instr} {nx : Option Instr} (h : jsrOk x nx = true) (K : List String)
    (a : Abs) : transfer inR K nx a x = transfer inR K (some .endCtx) a x := by
  cases x <;> try rfl
  · rename_i f
    cases nx with
    | none => simp [jsrOk] at h
    | some y => cases y <;> first | rfl | simp [jsrOk] at h
  · rename_i c off
    cases c <;> rfl

theorem scan_of_steps {K : List String} {code : Array Instr} :
    ∀ (n pc : Nat) (τ : Nat → Abs),
      (∀ j, j < n → ∃ x, code[pc + j]? = some x ∧
        transfer inR K code[pc + j + 1]? (τ j) x = some (τ (j + 1))) →
      scan inR K code n pc (τ 0) = some ((List.range (n + 1)).map τ) := by
  intro n
  induction n with
  | zero => intro pc τ _; simp [scan]
  | succ n ih =>
    intro pc τ h
    obtain ⟨x, hx, ht⟩ := h 0 (by omega)
    simp only [Nat.add_zero] at hx ht
    have := ih (pc + 1) (fun j => τ (j + 1)) (by
      intro j hj
      obtain ⟨y, hy, hty⟩ := h (j + 1) (by omega)
      refine ⟨y, ?_, ?_⟩
      · rw [← hy]; congr 1; omega
      · rw [← hty]; congr 2; omega)
    simp only [scan, hx, ht, this, Option.map_some]
    rw [List.range_succ_eq_map (n := n + 1)]
    simp [Function.comp_def]

/-- (S) a closed, marker-free instruction list that sits in the array at `lo` passes the checker's
`segmentOk` -/
theorem segmentOk_of_closed {inR : Bool} {K : List String} {code : Array Instr} {lo : Nat}
    {seg : List Instr}
    (hcode : ∀ j, j < seg.length → code[lo + j]? = seg[j]?)
    (h : ClosedAt inR false K (ins seg) (none, Abs.empty))
    (hm : ∀ k, (run inR K (ins seg) (none, Abs.empty) k).1 = none) :
    segmentOk inR K code lo (lo + seg.length) = true := by
  have hst : ∀ k, run inR K (ins seg) (none, Abs.empty) k =
      (none, (run inR K (ins seg) (none, Abs.empty) k).2) := by
    intro k
    have := hm k
    generalize run inR K (ins seg) (none, Abs.empty) k = r at this ⊢
    obtain ⟨r1, r2⟩ := r
    simp only at this
    subst this; rfl
  have hscan := scan_of_steps (inR := inR) (K := K) (code := code) seg.length lo
    (fun j => (run inR K (ins seg) (none, Abs.empty) j).2) (by
      intro j hj
      have hx : seg[j]? = some seg[j] := List.getElem?_eq_getElem hj
      refine ⟨seg[j], by rw [hcode j hj, hx], ?_⟩
      obtain ⟨h1, h2⟩ := scanOk_step h.ok (k := j) (g := .i seg[j]) (by rw [getElem?_ins, hx]; rfl)
      simp only [gi_i] at h1 h2
      have h1' : jsrOk seg[j] code[lo + j + 1]? = true := by
        by_cases hj1 : j + 1 < seg.length
        · rw [Nat.add_assoc, hcode (j + 1) hj1]
          rw [getElem?_ins] at h1
          cases hy : seg[j + 1]? <;> simpa [hy] using h1
        · rw [getElem?_ins, List.getElem?_eq_none (by omega)] at h1
          exact jsrOk_of_none h1 _
      rw [transfer_jsrOk h1']
      rw [hst j, hst (j + 1)] at h2
      simp only [trU] at h2
      cases hr : isRoutine seg[j] with
      | some n =>
        simp only [hr] at h2
        cases inR <;> simp at h2
      | none =>
        simp only [hr] at h2
        cases htt : transfer inR K (some .endCtx)
            (run inR K (ins seg) (none, Abs.empty) j).2 seg[j] with
        | none => simp [htt] at h2
        | some a' =>
          simp only [htt, Option.map_some, Option.some.injEq, Prod.mk.injEq, true_and] at h2
          rw [h2])
  simp only [run_zero] at hscan
  unfold segmentOk
  have e : lo + seg.length - lo = seg.length := by omega
  rw [e, hscan]
  simp only [Bool.and_eq_true, beq_iff_eq]
  refine ⟨?_, ?_⟩
  · rw [List.getLast?_eq_getElem?]
    simp only [List.length_map, List.length_range, Nat.add_sub_cancel, List.getElem?_map,
      List.getElem?_range (Nat.lt_succ_self _), Option.map_some]
    have := h.fin
    rw [length_ins] at this
    rw [this]
  · unfold jumpsOk
    rw [e, List.all_eq_true]
    intro k hk
    have hk : k < seg.length := by simpa using hk
    rw [hcode k hk]
    have hx : seg[k]? = some seg[k] := List.getElem?_eq_getElem hk
    rw [hx]
    split
    · rename_i c off heq
      have hq : seg[k] = .jump c off := by simpa using heq
      obtain ⟨j1, j2, j3⟩ := h.jumps k c off (by rw [getElem?_ins, hx, hq]; rfl) (hm k)
      rw [length_ins] at j2
      have e2 : (((lo + k : Nat) : Int) + off - (lo : Int)).toNat = ((k : Int) + off).toNat := by
        omega
      simp only [Bool.and_eq_true, decide_eq_true_eq, beq_iff_eq]
      refine ⟨⟨by omega, by omega⟩, ?_⟩
      rw [e2]
      have hb : ((k : Int) + off).toNat < seg.length + 1 := by omega
      simp only [List.getElem?_map, List.getElem?_range hb,
        List.getElem?_range (show k < seg.length + 1 by omega), Option.map_some, j3]
    · rfl

/-! ## (A) the main segment -/

/-- relocation of the instruction `x` sitting at index `i` of `prog` -/
def reloc (prog : List Instr) (cls : List Bool) (x : Instr) (i : Nat) : Instr :=
  match x with
  | .jump c off =>
    let target := (i : Int) + off
    if c != .indirect && target ≥ 0 && target ≤ prog.length then
      .jump c ((mainPos cls target.toNat : Int) - (mainPos cls i : Int))
    else .jump c off
  | ins => ins

def mainAux (f : Instr → Nat → Instr) : List Instr → List Bool → Nat → List Instr
  | x :: xs, b :: bs, i => if b then mainAux f xs bs (i + 1) else f x i :: mainAux f xs bs (i + 1)
  | _, _, _ => []

theorem mainAux_eq (f : Instr → Nat → Instr) (xs : List Instr) (bs : List Bool) (i : Nat) :
    (((xs.zip bs).zipIdx i).filter (fun x => x.1.2 == false)).map (fun x => f x.1.1 x.2) =
      mainAux f xs bs i := by
  induction xs generalizing bs i with
  | nil => simp [mainAux]
  | cons x xs ih =>
    cases bs with
    | nil => simp [mainAux]
    | cons b bs =>
      have := ih bs (i + 1)
      cases b <;> simp [mainAux, List.zipIdx_cons, List.filter_cons] at this ⊢ <;> exact this

theorem mainSegment_eq (prog : List Instr) (cls : List Bool) :
    mainSegment prog cls = mainAux (reloc prog cls) prog cls 0 := by
  rw [← mainAux_eq]
  rfl

theorem key_reloc (prog : List Instr) (cls : List Bool) (x : Instr) (i : Nat) :
    key (reloc prog cls x i) = key x := by
  cases x <;> try rfl
  simp only [reloc]
  split <;> rfl

@[simp] theorem mainPos_zero (bs : List Bool) : mainPos bs 0 = 0 := by simp [mainPos]
@[simp] theorem mainPos_nil (k : Nat) : mainPos [] k = 0 := by simp [mainPos]
theorem mainPos_cons_succ (b : Bool) (bs : List Bool) (k : Nat) :
    mainPos (b :: bs) (k + 1) = (if b then 0 else 1) + mainPos bs k := by
  cases b <;> simp [mainPos, List.take_succ_cons, List.filter_cons] <;> omega

theorem mainPos_mono (bs : List Bool) {k k' : Nat} (h : k ≤ k') : mainPos bs k ≤ mainPos bs k' := by
  induction bs generalizing k k' with
  | nil => simp
  | cons b bs ih =>
    cases k with
    | zero => simp
    | succ k =>
      cases k' with
      | zero => omega
      | succ k' =>
        rw [mainPos_cons_succ, mainPos_cons_succ]
        have := ih (k := k) (k' := k') (by omega)
        omega

theorem mainAux_get (f : Instr → Nat → Instr) {xs : List Instr} {bs : List Bool} {i k : Nat}
    {x : Instr} (hb : bs[k]? = some false) (hx : xs[k]? = some x) :
    (mainAux f xs bs i)[mainPos bs k]? = some (f x (i + k)) := by
  induction xs generalizing bs i k with
  | nil => simp at hx
  | cons x0 xs ih =>
    cases bs with
    | nil => simp at hb
    | cons b bs =>
      cases k with
      | zero =>
        simp only [List.getElem?_cons_zero, Option.some.injEq] at hb hx
        subst hb hx
        simp [mainAux]
      | succ k =>
        simp only [List.getElem?_cons_succ] at hb hx
        have := ih (i := i + 1) hb hx
        rw [mainPos_cons_succ]
        have e : i + 1 + k = i + (k + 1) := by omega
        cases b
        · simp only [mainAux, Bool.false_eq_true, if_false]
          rw [Nat.add_comm 1 (mainPos bs k), List.getElem?_cons_succ, this, e]
        · simp only [mainAux, if_true, Nat.zero_add]
          rw [this, e]

theorem mainAux_inv (f : Instr → Nat → Instr) {xs : List Instr} {bs : List Bool} {i j : Nat}
    (hj : j < (mainAux f xs bs i).length) :
    ∃ k x, bs[k]? = some false ∧ xs[k]? = some x ∧ j = mainPos bs k := by
  induction xs generalizing bs i j with
  | nil => simp [mainAux] at hj
  | cons x0 xs ih =>
    cases bs with
    | nil => simp [mainAux] at hj
    | cons b bs =>
      cases b
      · simp only [mainAux, Bool.false_eq_true, if_false, List.length_cons] at hj
        cases j with
        | zero => exact ⟨0, x0, by simp, by simp, by simp⟩
        | succ j =>
          obtain ⟨k, x, h1, h2, h3⟩ := ih (bs := bs) (i := i + 1) (j := j) (by omega)
          refine ⟨k + 1, x, by simpa using h1, by simpa using h2, ?_⟩
          rw [mainPos_cons_succ]; simp; omega
      · simp only [mainAux, if_true] at hj
        obtain ⟨k, x, h1, h2, h3⟩ := ih hj
        refine ⟨k + 1, x, by simpa using h1, by simpa using h2, ?_⟩
        rw [mainPos_cons_succ]; simp; omega

theorem mainAux_length (f : Instr → Nat → Instr) {xs : List Instr} {bs : List Bool} {i : Nat}
    (h : bs.length = xs.length) : (mainAux f xs bs i).length = mainPos bs xs.length := by
  induction xs generalizing bs i with
  | nil => simp [mainAux]
  | cons x0 xs ih =>
    cases bs with
    | nil => simp at h
    | cons b bs =>
      have := ih (bs := bs) (i := i + 1) (by simpa using h)
      rw [List.length_cons, mainPos_cons_succ]
      cases b <;> simp [mainAux, this] <;> omega

theorem classify_length (st : Option String) (xs : List Instr) :
    (classify st xs).length = xs.length := by
  induction xs generalizing st with
  | nil => cases st <;> rfl
  | cons x xs ih =>
    cases st <;> cases x <;> simp [classify, ih]

/-- class of one item (`true` = belongs to a routine section) -/
def clsB (st : Option String) (x : Instr) : Bool :=
  match st with
  | none => (isRoutine x).isSome
  | some _ => true

def clsNext (st : Option String) (x : Instr) : Option String :=
  match st with
  | none => isRoutine x
  | some n =>
    match isEnd x with
    | some m => if m == n then none else some n
    | none => some n

theorem classify_cons (st : Option String) (x : Instr) (rest : List Instr) :
    classify st (x :: rest) = clsB st x :: classify (clsNext st x) rest := by
  cases st <;> cases x <;> simp [classify, clsB, clsNext, isRoutine, isEnd]

/-- one successful scanner step, seen by the classifier -/
theorem trU_cls {K : List String} {s s' : St} {x : Instr} (h : trU false K s x = some s') :
    s'.1 = clsNext s.1 x ∧ (clsB s.1 x = true → s'.2 = s.2) ∧
      (clsB s.1 x = false → s.1 = none ∧ s'.1 = none ∧ isRoutine x = none) := by
  obtain ⟨cl, a⟩ := s
  cases cl with
  | none =>
    simp only [trU] at h
    cases hr : isRoutine x with
    | some n =>
      simp only [hr, Bool.false_eq_true, if_false, Option.some.injEq] at h
      subst h
      simp [clsNext, clsB, hr]
    | none =>
      simp only [hr] at h
      cases ht : transfer false K (some .endCtx) a x with
      | none => simp [ht] at h
      | some a' =>
        simp only [ht, Option.map_some, Option.some.injEq] at h
        subst h
        simp [clsNext, clsB, hr]
  | some n =>
    simp only [trU] at h
    cases he : isEnd x with
    | some m =>
      simp only [he, Option.some.injEq] at h
      subst h
      simp [clsNext, clsB, he]
    | none =>
      simp only [he, Option.some.injEq] at h
      subst h
      simp [clsNext, clsB, he]

@[simp] theorem classify_nil (st : Option String) : classify st [] = [] := by cases st <;> rfl

theorem key_endCtx {y : Instr} (h : key y = .endCtx) : y = .endCtx := by
  cases y <;> simp [key] at h ⊢

theorem jsrOk_main (F : Instr → Nat → Instr) (hF : ∀ x i, key (F x i) = key x) {x : Instr}
    {xs : List Instr} (i : Nat) (hj : jsrOk x ((ins xs).head?.map gi) = true) :
    jsrOk x ((ins (mainAux F xs (classify none xs) i)).head?.map gi) = true := by
  cases x <;> try rfl
  rename_i f
  cases xs with
  | nil => simp [jsrOk] at hj
  | cons y xs =>
    have hy : y = .endCtx := by
      cases y <;> first | rfl | simp [jsrOk] at hj
    subst hy
    have e : F Instr.endCtx i = .endCtx := key_endCtx (by rw [hF]; rfl)
    simp [classify_cons, clsB, isRoutine, mainAux, e, jsrOk]

theorem main_sim {K : List String} (F : Instr → Nat → Instr) (hF : ∀ x i, key (F x i) = key x)
    (xs : List Instr) : ∀ (s : St) (i : Nat), scanOk false K (ins xs) s = true →
      scanOk false K (ins (mainAux F xs (classify s.1 xs) i)) (none, s.2) = true ∧
      (∀ k, run false K (ins (mainAux F xs (classify s.1 xs) i)) (none, s.2)
          (mainPos (classify s.1 xs) k) = (none, (run false K (ins xs) s k).2)) ∧
      (∀ j, (run false K (ins (mainAux F xs (classify s.1 xs) i)) (none, s.2) j).1 = none) := by
  induction xs with
  | nil => intro s i _; simp [mainAux, scanOk]
  | cons x xs ih =>
    intro s i h
    simp only [ins_cons, scanOk, gi_i, Bool.and_eq_true] at h
    obtain ⟨hj, h⟩ := h
    cases ht : trU false K s x with
    | none => simp [ht] at h
    | some s' =>
      simp only [ht] at h
      obtain ⟨c1, c2, c3⟩ := trU_cls ht
      obtain ⟨i1, i2, i3⟩ := ih s' (i + 1) h
      rw [classify_cons, ← c1]
      cases hb : clsB s.1 x with
      | true =>
        simp only [mainAux, if_true]
        rw [← c2 hb]
        refine ⟨i1, ?_, i3⟩
        intro k
        cases k with
        | zero => simp [c2 hb]
        | succ k =>
          rw [mainPos_cons_succ]
          simp only [if_true, Nat.zero_add, ins_cons, run_cons_succ, gi_i, ht, Option.getD_some]
          exact i2 k
      | false =>
        obtain ⟨d1, d2, d3⟩ := c3 hb
        obtain ⟨cl, a⟩ := s
        obtain ⟨cl', a'⟩ := s'
        simp only at d1 d2
        subst d1 d2
        have hstep : trU false K (none, a) (F x i) = some (none, a') := by
          rw [← trU_key, hF, trU_key]; exact ht
        simp only [mainAux, Bool.false_eq_true, if_false]
        refine ⟨?_, ?_, ?_⟩
        · simp only [ins_cons, scanOk, gi_i, hstep, i1, Bool.and_true]
          rw [← jsrOk_key (F x i), hF, jsrOk_key]
          exact jsrOk_main F hF (i + 1) hj
        · intro k
          cases k with
          | zero => simp
          | succ k =>
            rw [mainPos_cons_succ]
            simp only [Bool.false_eq_true, if_false, Nat.add_comm 1, ins_cons, run_cons_succ, gi_i,
              hstep, ht, Option.getD_some]
            exact i2 k
        · intro j
          cases j with
          | zero => simp
          | succ j =>
            simp only [ins_cons, run_cons_succ, gi_i, hstep, Option.getD_some]
            exact i3 j

/-- the classifier agrees with the scanner -/
theorem classify_run {K : List String} {xs : List Instr} {s : St}
    (h : scanOk false K (ins xs) s = true) {k : Nat} {x : Instr} (hx : xs[k]? = some x) :
    (classify s.1 xs)[k]? = some (clsB (run false K (ins xs) s k).1 x) := by
  induction xs generalizing s k with
  | nil => simp at hx
  | cons x0 xs ih =>
    simp only [ins_cons, scanOk, gi_i, Bool.and_eq_true] at h
    obtain ⟨hj, h⟩ := h
    cases ht : trU false K s x0 with
    | none => simp [ht] at h
    | some s' =>
      simp only [ht] at h
      rw [classify_cons]
      cases k with
      | zero =>
        simp only [List.getElem?_cons_zero, Option.some.injEq] at hx
        subst hx
        simp
      | succ k =>
        simp only [List.getElem?_cons_succ] at hx
        simp only [List.getElem?_cons_succ, ins_cons, run_cons_succ, gi_i, ht, Option.getD_some]
        rw [← (trU_cls ht).1]
        exact ih h hx

theorem clsB_false {st : Option String} {x : Instr} (h : clsB st x = false) : st = none := by
  cases st <;> simp [clsB] at h ⊢

/-- (A) the loader's main segment of a closed program is closed, and all its scanner states are
outside routine sections -/
theorem main_closed {K : List String} {prog : List Instr}
    (h : ClosedAt false false K (ins prog) (none, Abs.empty)) :
    ClosedAt false false K (ins (mainSegment prog (classify none prog))) (none, Abs.empty) ∧
    (∀ k, (run false K (ins (mainSegment prog (classify none prog))) (none, Abs.empty) k).1 =
      none) := by
  rw [mainSegment_eq]
  obtain ⟨s1, s2, s3⟩ := main_sim (K := K) (reloc prog (classify none prog)) (key_reloc _ _) prog
    (none, Abs.empty) 0 h.ok
  simp only at s1 s2 s3
  have hcr := fun k x hx => classify_run h.ok (k := k) (x := x) hx
  simp only at hcr
  generalize hcls : classify none prog = cls at *
  have hlen : cls.length = prog.length := by rw [← hcls, classify_length]
  have hML := mainAux_length (reloc prog cls) (i := 0) hlen
  have hfin := h.fin
  rw [length_ins] at hfin
  refine ⟨⟨s1, ?_, ?_, ?_⟩, s3⟩
  · rw [length_ins, hML, s2, hfin]
  · intro j c off' hj _
    rw [getElem?_ins] at hj
    have hjl : j < (mainAux (reloc prog cls) prog cls 0).length := by
      apply Nat.lt_of_not_le
      intro hge
      rw [List.getElem?_eq_none hge] at hj
      simp at hj
    obtain ⟨k, x, hb, hx, rfl⟩ := mainAux_inv _ hjl
    rw [mainAux_get _ hb hx, Nat.zero_add] at hj
    simp only [Option.map_some, Option.some.injEq, G.i.injEq] at hj
    have hc := hcr k x hx
    rw [hb] at hc
    have hrk : (run false K (ins prog) (none, Abs.empty) k).1 = none :=
      clsB_false (Option.some.inj hc).symm
    cases x <;> try (simp [reloc] at hj; done)
    rename_i c0 off
    obtain ⟨j1, j2, j3⟩ := h.jumps k c0 off (by rw [getElem?_ins, hx]; rfl) hrk
    rw [length_ins] at j2
    have hc0 : c0 ≠ .indirect := by
      rintro rfl
      have := (scanOk_step h.ok (k := k) (g := .i (.jump .indirect off))
        (by rw [getElem?_ins, hx]; rfl)).2
      generalize run false K (ins prog) (none, Abs.empty) k = r at this hrk
      obtain ⟨r1, r2⟩ := r
      simp only at hrk
      subst hrk
      simp [trU, isRoutine, transfer] at this
    have hcond : (c0 != .indirect && decide ((k : Int) + off ≥ 0) &&
        decide ((k : Int) + off ≤ prog.length)) = true := by
      simp only [Bool.and_eq_true, decide_eq_true_eq, bne_iff_ne, ne_eq]
      exact ⟨⟨hc0, j1⟩, j2⟩
    simp only [reloc, hcond, if_true, Instr.jump.injEq] at hj
    obtain ⟨rfl, rfl⟩ := hj
    have hmono := mainPos_mono cls (k := ((k : Int) + off).toNat) (k' := prog.length) (by omega)
    have e : ((mainPos cls k : Int) +
        ((mainPos cls ((k : Int) + off).toNat : Int) - (mainPos cls k : Int))).toNat =
        mainPos cls ((k : Int) + off).toNat := by omega
    refine ⟨by omega, by rw [length_ins, hML]; omega, ?_⟩
    rw [e, s2, s2, j3]
  · intro k hk
    rw [getElem?_ins] at hk
    cases hx : (mainAux (reloc prog cls) prog cls 0)[k]? <;> simp [hx] at hk

/-! ## (C) the loaded image -/

/-- one routine section as it stands in the compiled program -/
def render (sec : String × List Instr) : List Instr := .routine sec.1 :: (sec.2 ++ [.end_ sec.1])

@[simp] theorem length_render (sec : String × List Instr) :
    (render sec).length = sec.2.length + 2 := by simp [render]

/-- the spans the checker finds when the sections are laid out from address `off` -/
def secSpans (off : Nat) : List (String × List Instr) → List (String × Nat × Nat)
  | [] => []
  | sec :: rest =>
    (sec.1, off + 1, off + 1 + sec.2.length) :: secSpans (off + (sec.2.length + 2)) rest

theorem findEnd_of_body {code : Array Instr} {stop : Nat} {name : String} :
    ∀ (m f q : Nat), (∀ j, j < m → ∃ x, code[q + j]? = some x ∧ isEnd x = none) →
      code[q + m]? = some (.end_ name) → q + m < stop → m + 1 ≤ f →
      routineSpans.findEnd code stop name f q = some (q + m) := by
  intro m
  induction m with
  | zero =>
    intro f q _ he hs hf
    obtain ⟨f, rfl⟩ : ∃ f', f = f' + 1 := ⟨f - 1, by omega⟩
    simp only [Nat.add_zero] at he hs ⊢
    simp only [routineSpans.findEnd, he]
    simp; omega
  | succ m ih =>
    intro f q hb he hs hf
    obtain ⟨f, rfl⟩ : ∃ f', f = f' + 1 := ⟨f - 1, by omega⟩
    obtain ⟨x, hx, hxe⟩ := hb 0 (by omega)
    simp only [Nat.add_zero] at hx
    have hrec := ih f (q + 1) (by
      intro j hj
      obtain ⟨y, hy, hye⟩ := hb (j + 1) (by omega)
      exact ⟨y, by rw [← hy]; congr 1; omega, hye⟩) (by rw [← he]; congr 1; omega) (by omega)
      (by omega)
    have e : q + 1 + m = q + (m + 1) := by omega
    rw [e] at hrec
    simp only [routineSpans.findEnd, hx]
    have hq : ¬ q ≥ stop := by omega
    simp only [hq, if_false]
    cases x <;> first | exact hrec | simp [isEnd] at hxe

theorem routineSpans_secs {code : Array Instr} :
    ∀ (secs : List (String × List Instr)) (fuel pc : Nat),
      (∀ j, j < (secs.flatMap render).length → code[pc + j]? = (secs.flatMap render)[j]?) →
      (∀ sec ∈ secs, ∀ x ∈ sec.2, isEnd x = none) →
      secs.length ≤ fuel →
      routineSpans code fuel pc (pc + (secs.flatMap render).length) = some (secSpans pc secs) := by
  intro secs
  induction secs with
  | nil => intro fuel pc _ _ _; cases fuel <;> simp [routineSpans, secSpans]
  | cons sec rest ih =>
    intro fuel pc hcode hend hfuel
    obtain ⟨fuel, rfl⟩ : ∃ f', fuel = f' + 1 := ⟨fuel - 1, by simp at hfuel; omega⟩
    obtain ⟨name, body⟩ := sec
    have hlen : ((name, body) :: rest).flatMap render =
        .routine name :: (body ++ (.end_ name :: rest.flatMap render)) := by
      simp [List.flatMap_cons, render]
    rw [hlen] at hcode ⊢
    have h0 : code[pc]? = some (.routine name) := by
      have := hcode 0 (by simp)
      simpa using this
    have hb : ∀ j, j < body.length → code[pc + 1 + j]? = body[j]? := by
      intro j hj
      have := hcode (1 + j) (by simp; omega)
      rw [← Nat.add_assoc, Nat.add_comm 1 j, List.getElem?_cons_succ,
        List.getElem?_append_left hj] at this
      exact this
    have he : code[pc + 1 + body.length]? = some (.end_ name) := by
      have := hcode (1 + body.length) (by simp; omega)
      rw [← Nat.add_assoc, Nat.add_comm 1 body.length, List.getElem?_cons_succ,
        List.getElem?_append_right (Nat.le_refl _)] at this
      simpa using this
    have hr : ∀ j, j < (rest.flatMap render).length →
        code[pc + 1 + body.length + 1 + j]? = (rest.flatMap render)[j]? := by
      intro j hj
      have := hcode (1 + (body.length + (1 + j))) (by
        simp only [List.length_cons, List.length_append]; omega)
      rw [Nat.add_comm 1 (body.length + (1 + j)), List.getElem?_cons_succ,
        List.getElem?_append_right (by omega)] at this
      have e1 : body.length + (1 + j) - body.length = j + 1 := by omega
      rw [e1, List.getElem?_cons_succ] at this
      rw [← this]; congr 1; omega
    have hstop : pc + (Instr.routine name :: (body ++ (.end_ name :: rest.flatMap render))).length =
        pc + 1 + body.length + 1 + (rest.flatMap render).length := by
      simp; omega
    rw [hstop]
    have hfe := findEnd_of_body (code := code) (name := name)
      (stop := pc + 1 + body.length + 1 + (rest.flatMap render).length) body.length
      (pc + 1 + body.length + 1 + (rest.flatMap render).length - pc) (pc + 1) (by
        intro j hj
        refine ⟨body[j], by rw [hb j hj]; exact List.getElem?_eq_getElem hj, ?_⟩
        exact hend (name, body) (by simp) _ (List.getElem_mem hj)) he (by omega) (by omega)
    have hrec := ih fuel (pc + 1 + body.length + 1) hr
      (fun sec hs => hend sec (by simp [hs])) (by simpa using hfuel)
    have hne : ¬ pc = pc + 1 + body.length + 1 + (rest.flatMap render).length := by omega
    simp only [routineSpans, beq_iff_eq, hne, if_false, h0, hfe, hrec, Option.map_some, secSpans]
    have e3 : pc + 1 + body.length + 1 = pc + (body.length + 2) := by omega
    rw [e3]

theorem secSpans_names (off : Nat) (secs : List (String × List Instr)) :
    (secSpans off secs).map (·.1) = secs.map (·.1) := by
  induction secs generalizing off with
  | nil => rfl
  | cons sec rest ih => simp [secSpans, ih]

theorem secSpans_mem {code : Array Instr} :
    ∀ (secs : List (String × List Instr)) (off : Nat),
      (∀ j, j < (secs.flatMap render).length → code[off + j]? = (secs.flatMap render)[j]?) →
      ∀ n lo hi, (n, lo, hi) ∈ secSpans off secs →
        ∃ sec ∈ secs, n = sec.1 ∧ hi = lo + sec.2.length ∧
          ∀ j, j < sec.2.length → code[lo + j]? = sec.2[j]? := by
  intro secs
  induction secs with
  | nil => intro off _ n lo hi h; simp [secSpans] at h
  | cons sec rest ih =>
    intro off hcode n lo hi h
    obtain ⟨name, body⟩ := sec
    have hlen : ((name, body) :: rest).flatMap render =
        .routine name :: (body ++ (.end_ name :: rest.flatMap render)) := by
      simp [List.flatMap_cons, render]
    rw [hlen] at hcode
    simp only [secSpans, List.mem_cons, Prod.mk.injEq] at h
    rcases h with ⟨rfl, rfl, rfl⟩ | h
    · refine ⟨(n, body), by simp, rfl, rfl, ?_⟩
      intro j hj
      have hj : j < body.length := hj
      have := hcode (1 + j) (by simp only [List.length_cons, List.length_append]; omega)
      rw [← Nat.add_assoc, Nat.add_comm 1 j, List.getElem?_cons_succ,
        List.getElem?_append_left hj] at this
      exact this
    · have hr : ∀ j, j < (rest.flatMap render).length →
          code[off + (body.length + 2) + j]? = (rest.flatMap render)[j]? := by
        intro j hj
        have := hcode (1 + (body.length + (1 + j))) (by
          simp only [List.length_cons, List.length_append]; omega)
        rw [Nat.add_comm 1 (body.length + (1 + j)), List.getElem?_cons_succ,
          List.getElem?_append_right (by omega)] at this
        have e1 : body.length + (1 + j) - body.length = j + 1 := by omega
        rw [e1, List.getElem?_cons_succ] at this
        rw [← this]; congr 1; omega
      obtain ⟨sec, hs, h1, h2, h3⟩ := ih _ hr n lo hi h
      exact ⟨sec, by simp [hs], h1, h2, h3⟩

theorem filterMap_routine_nil (body : List Instr) (i : Nat)
    (h : ∀ x ∈ body, isRoutine x = none) :
    ((body.zipIdx i).filterMap fun x =>
      match x.1 with
      | .routine n => some (n, x.2 + 2)
      | _ => none) = [] := by
  rw [List.filterMap_eq_nil_iff]
  intro p hp
  have hm : p.1 ∈ body := by
    obtain ⟨a, b⟩ := p
    exact (List.mem_zipIdx hp).2.2 ▸ List.getElem_mem _
  have := h _ hm
  cases hx : p.1 <;> simp [hx, isRoutine] at this ⊢

theorem routineTable_secs (secs : List (String × List Instr)) (i : Nat)
    (h : ∀ sec ∈ secs, ∀ x ∈ sec.2, isRoutine x = none) :
    (((secs.flatMap render).zipIdx i).filterMap fun x =>
      match x.1 with
      | .routine n => some (n, x.2 + 2)
      | _ => none) = (secSpans (i + 1) secs).map (fun p => (p.1, p.2.1)) := by
  induction secs generalizing i with
  | nil => simp [secSpans]
  | cons sec rest ih =>
    obtain ⟨name, body⟩ := sec
    have hlen : ((name, body) :: rest).flatMap render =
        .routine name :: (body ++ (.end_ name :: rest.flatMap render)) := by
      simp [List.flatMap_cons, render]
    have hrec := ih (i + 1 + body.length + 1) (fun sec hs => h sec (by simp [hs]))
    rw [hlen, List.zipIdx_cons, List.filterMap_cons]
    simp only []
    rw [List.zipIdx_append, List.filterMap_append,
      filterMap_routine_nil body _ (h (name, body) (by simp)), List.nil_append,
      List.zipIdx_cons, List.filterMap_cons]
    simp only []
    rw [hrec]
    simp only [secSpans, List.map_cons]
    have e : i + 1 + body.length + 1 + 1 = i + 1 + (body.length + 2) := by omega
    rw [e]

theorem find_nodup {l : List (String × Nat × Nat)} (hnd : (l.map (·.1)).Nodup)
    {p : String × Nat × Nat} (hp : p ∈ l) : l.find? (·.1 == p.1) = some p := by
  induction l with
  | nil => simp at hp
  | cons q l ih =>
    simp only [List.map_cons, List.nodup_cons] at hnd
    rcases List.mem_cons.mp hp with rfl | hp
    · simp
    · have hne : (q.1 == p.1) = false := by
        rw [beq_eq_false_iff_ne]
        intro he
        exact hnd.1 (he ▸ List.mem_map_of_mem hp)
      rw [List.find?_cons, hne]
      exact ih hnd.2 hp

theorem body_markers {K : List String} {body : List Instr}
    (hb : ClosedAt true false K (ins body) (none, Abs.empty)) :
    (∀ x ∈ body, isRoutine x = none ∧ isEnd x = none) ∧
      (∀ k, (run true K (ins body) (none, Abs.empty) k).1 = none) := by
  obtain ⟨_, _, i3, i4⟩ :=
    section_aux (known := K) "" Abs.empty (ins body) (none, Abs.empty) rfl hb.ok
  exact ⟨fun x hx => i3 (.i x) (List.mem_map_of_mem hx), i4⟩

theorem wfImage_of {code : Array Instr} {routines : List (String × Nat)} {off : Int}
    {spans : List (String × Nat × Nat)}
    (hr : routines ≠ []) (h0 : code[0]? = some (.jump .always off)) (h1 : off ≥ 1)
    (h2 : off.toNat ≤ code.size)
    (hs : routineSpans code code.size 1 off.toNat = some spans)
    (c1 : routines.all (fun (name, addr) =>
      (spans.reverse.find? (·.1 == name)).map (·.2.1) == some addr) = true)
    (c2 : spans.all (fun (name, _, _) => routines.any (·.1 == name)) = true)
    (c3 : spans.all (fun (_, lo, hi) =>
      segmentOk true (builtinNames ++ spans.map (·.1)) code lo hi) = true)
    (c4 : segmentOk false (builtinNames ++ spans.map (·.1)) code off.toNat code.size = true) :
    wfImage ⟨code, routines⟩ = true := by
  obtain ⟨r, rs, rfl⟩ := List.exists_cons_of_ne_nil hr
  simp only [wfImage, h0, hs]
  simp only [h1, h2, decide_true, Bool.and_self, if_true, c1, c2, c3, c4]

theorem nodup_reverse' {α : Type} {l : List α} (h : l.Nodup) : l.reverse.Nodup := by
  unfold List.Nodup at *
  rw [List.pairwise_reverse]
  exact h.imp (fun hab => Ne.symm hab)

theorem length_le_flatMap (secs : List (String × List Instr)) :
    secs.length ≤ (secs.flatMap render).length := by
  induction secs with
  | nil => simp
  | cons a l ih =>
    simp only [List.flatMap_cons, List.length_append, length_render, List.length_cons]; omega

/-- (C) the loaded image of a closed program whose routine sections are closed bodies is
accepted by the checker -/
theorem wfImage_load {K : List String} {prog : List Instr} {secs : List (String × List Instr)}
    (hmain : ClosedAt false false K (ins prog) (none, Abs.empty))
    (hK : K = builtinNames ++ secs.map (·.1))
    (hseg : routineSegment prog (classify none prog) = secs.flatMap render)
    (hbody : ∀ sec ∈ secs, ClosedAt true false K (ins sec.2) (none, Abs.empty))
    (hnd : (secs.map (·.1)).Nodup) :
    wfImage (load prog) = true := by
  obtain ⟨hA, hAm⟩ := main_closed hmain
  generalize hM : mainSegment prog (classify none prog) = main at hA hAm
  by_cases hs : secs = []
  · subst hs
    have hload : load prog = { code := main.toArray, routines := [] } := by
      simp [load, hseg, hM]
    rw [hload]
    have := segmentOk_of_closed (code := main.toArray) (lo := 0) (seg := main)
      (by intro j _; simp) hA hAm
    subst hK
    simpa [wfImage] using this
  · obtain ⟨sec0, rest, hsecs⟩ := List.exists_cons_of_ne_nil hs
    have hne : (secs.flatMap render).isEmpty = false := by
      subst hsecs; simp [List.flatMap_cons, render]
    have hload : load prog =
        { code := (Instr.jump .always ((secs.flatMap render).length + 1) ::
            (secs.flatMap render ++ main)).toArray,
          routines := (routineTable (secs.flatMap render)).reverse } := by
      simp [load, hseg, hM, hne]
    rw [hload]
    have hmark := fun sec hs => (body_markers (hbody sec hs)).1
    have htab : routineTable (secs.flatMap render) =
        (secSpans 1 secs).map (fun p => (p.1, p.2.1)) := by
      have := routineTable_secs secs 0 (fun sec hs x hx => (hmark sec hs x hx).1)
      simp only [Nat.zero_add] at this
      exact this
    have hKs : builtinNames ++ (secSpans 1 secs).map (·.1) = K := by
      rw [secSpans_names, hK]
    generalize hcode : (Instr.jump .always ((secs.flatMap render).length + 1) ::
            (secs.flatMap render ++ main)).toArray = code
    have hsize : code.size = (secs.flatMap render).length + 1 + main.length := by
      subst hcode; simp; omega
    have hR : ∀ j, j < (secs.flatMap render).length →
        code[1 + j]? = (secs.flatMap render)[j]? := by
      intro j hj
      subst hcode
      rw [List.getElem?_toArray, Nat.add_comm 1 j, List.getElem?_cons_succ,
        List.getElem?_append_left hj]
    have hMn : ∀ j, j < main.length →
        code[(secs.flatMap render).length + 1 + j]? = main[j]? := by
      intro j hj
      subst hcode
      have e : (secs.flatMap render).length + 1 + j = ((secs.flatMap render).length + j) + 1 := by
        omega
      rw [List.getElem?_toArray, e, List.getElem?_cons_succ,
        List.getElem?_append_right (by omega), Nat.add_sub_cancel_left]
    have hoff : (((secs.flatMap render).length : Int) + 1).toNat =
        (secs.flatMap render).length + 1 := by omega
    refine wfImage_of (spans := secSpans 1 secs)
      (off := ((secs.flatMap render).length : Int) + 1) ?_ ?_ (by omega) (by rw [hoff, hsize]; omega)
      ?_ ?_ ?_ ?_ ?_
    · rw [htab]; subst hsecs; simp [secSpans]
    · subst hcode; simp
    · rw [hoff, Nat.add_comm _ 1]
      refine routineSpans_secs secs _ 1 hR (fun sec hs x hx => (hmark sec hs x hx).2) ?_
      rw [hsize]
      have := length_le_flatMap secs
      omega
    · rw [htab, List.all_reverse, List.all_map, List.all_eq_true]
      intro p hp
      simp only [Function.comp]
      have := find_nodup (l := (secSpans 1 secs).reverse)
        (by rw [List.map_reverse, secSpans_names]; exact nodup_reverse' hnd)
        (List.mem_reverse.mpr hp)
      rw [this]; simp
    · rw [htab, List.all_eq_true]
      intro p hp
      obtain ⟨n, lo, hi⟩ := p
      simp only [List.any_reverse, List.any_map, List.any_eq_true, Function.comp]
      exact ⟨(n, lo, hi), hp, by simp⟩
    · rw [hKs, List.all_eq_true]
      intro p hp
      obtain ⟨n, lo, hi⟩ := p
      obtain ⟨sec, hsm, -, rfl, h3⟩ := secSpans_mem secs 1 hR n lo hi hp
      simp only []
      exact segmentOk_of_closed h3 (hbody sec hsm) (body_markers (hbody sec hsm)).2
    · rw [hKs, hoff, hsize]
      exact segmentOk_of_closed hMn hA hAm

end Load
end Closed
end Bardolph
