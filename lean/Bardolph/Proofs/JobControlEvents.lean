import Bardolph.Proofs.JobControlInv
/-!
Helper lemmas for C08, layer 4: invariants about the event log (exactly-once bookkeeping).
-/
set_option linter.unusedSimpArgs false
set_option linter.unusedVariables false
namespace Bardolph.JC

/-- the thread of an agent before it has entered the body -/
def early : Pc → Bool
  | .unborn | .created | .boot | .xc1 | .xc2 => true
  | _ => false

/-- no thread object yet, or not started -/
def prestart : Pc → Bool
  | .unborn | .created => true
  | _ => false

theorem firstPc_early (v : Variant) (op : Op) : early (firstPc v op) = false := by
  cases op <;> cases v <;> rfl
theorem afterAcq_early (k : AcqK) : early (afterAcq k) = false := by cases k <;> rfl
theorem afterRel_early (k : RelK) : early (afterRel k) = false := by
  cases k with
  | rn k => cases k <;> rfl
  | _ => rfl

theorem act_early_back (v : Variant) (s : State) (t : Tid) (c : Choice) (p : Pc) :
    early (act v s t c p).pc = true → early p = true := by
  table_cases p <;>
    (try simp only [firstPc_early, afterAcq_early, afterRel_early]) <;>
    simp_all [early, retEv]

theorem firstPc_prestart (v : Variant) (op : Op) : prestart (firstPc v op) = false := by
  cases op <;> cases v <;> rfl
theorem afterAcq_prestart (k : AcqK) : prestart (afterAcq k) = false := by cases k <;> rfl
theorem afterRel_prestart (k : RelK) : prestart (afterRel k) = false := by
  cases k with
  | rn k => cases k <;> rfl
  | _ => rfl

theorem act_prestart_back (v : Variant) (s : State) (t : Tid) (c : Choice) (p : Pc) :
    prestart (act v s t c p).pc = true → prestart p = true := by
  table_cases p <;>
    (try simp only [firstPc_prestart, afterAcq_prestart, afterRel_prestart]) <;>
    simp_all [prestart, retEv]

theorem act_emit_begin (v : Variant) (s : State) (t : Tid) (c : Choice) (p : Pc) (es : List Event)
    (a : Nat) : (act v s t c p).eff = .emit es → .bodyBegin a ∈ es → t = .job a ∧ p = .xc2 := by
  table_cases p <;> simp_all [retEv] <;> (rintro rfl; simp) <;> (try (rintro rfl; rfl))

/-- the step that takes an agent's thread out of the `early` lines logs `bodyBegin` -/
theorem act_begin_fwd (v : Variant) (s : State) (a : Nat) (c : Choice) (p : Pc) :
    early p = true → early (act v s (.job a) c p).pc = false →
      ∃ es, (act v s (.job a) c p).eff = .emit es ∧ .bodyBegin a ∈ es := by
  table_cases p <;> simp_all [early, retEv]

/-- the step that takes it past the body logs `bodyEnd` -/
theorem act_end_fwd (v : Variant) (s : State) (a : Nat) (c : Choice) (p : Pc) :
    early (act v s (.job a) c p).pc = false → (act v s (.job a) c p).pc ≠ .body →
      (early p = false ∧ p ≠ .body) ∨
        ∃ es r, (act v s (.job a) c p).eff = .emit es ∧ .bodyEnd a r ∈ es := by
  table_cases p <;> simp_all [early, retEv]

/-- what a step appends to the log -/
def effEvents (s : State) : Eff → List Event
  | .enq b a => [.enq b a]
  | .pop => match s.queue with | [] => [] | a :: _ => [.start a]
  | .actNone a => [.done a]
  | .clear => [.clear]
  | .bgAdd a => [.bgAdd a]
  | .bgDel a => [.bgDel a]
  | .startThread a => [.tstart a]
  | .emit es => es
  | _ => []

theorem step_events (v : Variant) (s : State) (t : Tid) (c : Choice) :
    (step v s t c).events = s.events ++ effEvents s (act v s t c (s.thr t).pc).eff := by
  unfold JC.step
  generalize act v s t c (s.thr t).pc = x
  obtain ⟨p', e, pop⟩ := x
  cases e <;> simp [apply, setPc, setJobPc, effEvents] <;> (repeat' split) <;> simp_all


theorem act_unborn_back (v : Variant) (s : State) (t : Tid) (c : Choice) (p : Pc) :
    (act v s t c p).pc = .unborn → p = .unborn := by
  intro h
  have := act_prestart_back v s t c p (by rw [h]; rfl)
  revert h
  cases p <;> simp [prestart] at this <;> simp [act]

theorem act_pop_pc (v : Variant) (s : State) (t : Tid) (c : Choice) (p : Pc) :
    (act v s t c p).eff = .pop → ∃ k, p = .rn4 k := by
  table_cases p <;> simp_all [retEv]

theorem act_actNone_pc (v : Variant) (s : State) (t : Tid) (c : Choice) (p : Pc) (b : Nat) :
    (act v s t c p).eff = .actNone b → p = .od3 ∧ t = .job b := by
  table_cases p <;> simp_all [retEv]

theorem step_active_unchanged (v : Variant) (s : State) (t : Tid) (c : Choice)
    (h1 : (act v s t c (s.thr t).pc).eff ≠ .pop)
    (h2 : ∀ b, (act v s t c (s.thr t).pc).eff ≠ .actNone b) :
    (step v s t c).active = s.active := by
  unfold JC.step
  generalize act v s t c (s.thr t).pc = x at *
  obtain ⟨p', e, pop⟩ := x
  cases e <;> simp_all [apply, setPc, setJobPc] <;> split <;> rfl

theorem step_active_pop (v : Variant) (s : State) (t : Tid) (c : Choice) (a : Nat)
    (h1 : (act v s t c (s.thr t).pc).eff = .pop) (h2 : s.queue.head? = some a) :
    (step v s t c).active = some a := by
  unfold JC.step
  generalize act v s t c (s.thr t).pc = x at *
  obtain ⟨p', e, pop⟩ := x
  simp at h1; subst h1
  cases hq : s.queue <;> simp [hq] at h2
  subst h2
  simp [apply, setPc, hq]

theorem step_prestart_back (s : State) (t : Tid) (c : Choice) (a : Nat) :
    prestart ((step .fixed s t c).thr (.job a)).pc = true → prestart (s.thr (.job a)).pc = true := by
  intro h
  rcases step_pc_cases s t c (.job a) with e | ⟨e1, e2⟩ | ⟨b, eb, hb, e⟩ | ⟨b, eb, hb, e⟩
  · rw [e] at h; exact h
  · rw [e2] at h; rw [← e1] at h; exact act_prestart_back _ _ _ _ _ h
  · cases eb; rw [act_mkThread _ _ _ _ _ _ hb]; rfl
  · rw [e] at h; cases h

theorem step_early_back (s : State) (t : Tid) (c : Choice) (a : Nat) :
    early ((step .fixed s t c).thr (.job a)).pc = true → early (s.thr (.job a)).pc = true := by
  intro h
  rcases step_pc_cases s t c (.job a) with e | ⟨e1, e2⟩ | ⟨b, eb, hb, e⟩ | ⟨b, eb, hb, e⟩
  · rw [e] at h; exact h
  · rw [e2] at h; rw [← e1] at h; exact act_early_back _ _ _ _ _ h
  · cases eb; rw [act_mkThread _ _ _ _ _ _ hb]; rfl
  · cases eb; rw [act_startThread _ _ _ _ _ _ hb]; rfl

theorem step_unborn_back (s : State) (t : Tid) (c : Choice) (a : Nat) :
    ((step .fixed s t c).thr (.job a)).pc = .unborn → (s.thr (.job a)).pc = .unborn := by
  intro h
  rcases step_pc_cases s t c (.job a) with e | ⟨e1, e2⟩ | ⟨b, eb, hb, e⟩ | ⟨b, eb, hb, e⟩
  · rw [e] at h; exact h
  · rw [e2] at h; rw [← e1] at h; exact act_unborn_back _ _ _ _ _ h
  · rw [e] at h; cases h
  · rw [e] at h; cases h


structure EvInv (s : State) : Prop where
  startOnce : ∀ a, s.events.count (.start a) ≤ 1
  startSeen : ∀ a, .start a ∈ s.events → (s.thr (.job a)).pc ≠ .unborn ∨ s.active = some a
  tstartOnce : ∀ a, s.events.count (.tstart a) ≤ 1
  tstartSeen : ∀ a, .tstart a ∈ s.events → prestart (s.thr (.job a)).pc = false
  beginOnce : ∀ a, s.events.count (.bodyBegin a) ≤ 1
  beginSeen : ∀ a, .bodyBegin a ∈ s.events → early (s.thr (.job a)).pc = false
  beginDone : ∀ a, early (s.thr (.job a)).pc = false → .bodyBegin a ∈ s.events
  endDone : ∀ a, early (s.thr (.job a)).pc = false → (s.thr (.job a)).pc ≠ .body →
    ∃ r, .bodyEnd a r ∈ s.events

theorem EvInv.init (progs : Nat → List Op) : EvInv (init progs) := by
  constructor <;> intros <;> simp_all [JC.init, early]

theorem act_emit_begin_count (v : Variant) (s : State) (t : Tid) (c : Choice) (p : Pc)
    (es : List Event) (a : Nat) : (act v s t c p).eff = .emit es → es.count (.bodyBegin a) ≤ 1 := by
  table_cases p <;> simp_all [retEv] <;> (rintro rfl; simp [List.count_cons]) <;> split <;> simp

/-- which steps log `start a`, `tstart a`, `bodyBegin a` -/
theorem new_start {v : Variant} {s : State} {t : Tid} {c : Choice} {p : Pc} {a : Nat}
    (h : .start a ∈ effEvents s (act v s t c p).eff) :
    (act v s t c p).eff = .pop ∧ s.queue.head? = some a ∧
      effEvents s (act v s t c p).eff = [.start a] := by
  have hpl := act_emit_plain v s t c p
  generalize (act v s t c p).eff = e at *
  cases e <;> simp [effEvents] at h ⊢
  · cases hq : s.queue <;> simp [hq] at h ⊢; exact h.symm
  · rename_i es; have := hpl es rfl _ h; simp [Event.plain] at this

theorem new_tstart {v : Variant} {s : State} {t : Tid} {c : Choice} {p : Pc} {a : Nat}
    (h : .tstart a ∈ effEvents s (act v s t c p).eff) :
    (act v s t c p).eff = .startThread a := by
  have hpl := act_emit_plain v s t c p
  generalize (act v s t c p).eff = e at *
  cases e <;> simp [effEvents] at h ⊢
  · cases hq : s.queue <;> simp [hq] at h
  · exact h.symm
  · rename_i es; have := hpl es rfl _ h; simp [Event.plain] at this

theorem new_begin {v : Variant} {s : State} {t : Tid} {c : Choice} {p : Pc} {a : Nat}
    (h : .bodyBegin a ∈ effEvents s (act v s t c p).eff) :
    t = .job a ∧ p = .xc2 ∧ (effEvents s (act v s t c p).eff).count (.bodyBegin a) ≤ 1 := by
  have h1 := act_emit_begin v s t c p
  have h2 := act_emit_begin_count v s t c p
  generalize (act v s t c p).eff = e at *
  cases e <;> simp [effEvents] at h ⊢
  · cases hq : s.queue <;> simp [hq] at h
  · rename_i es
    obtain ⟨r1, r2⟩ := h1 es a rfl h
    exact ⟨r1, r2, h2 es a rfl⟩


theorem count_append_le_one {α} [BEq α] [LawfulBEq α] (x : α) (l n : List α)
    (hl : l.count x ≤ 1) (hn : n.count x ≤ 1) (hx : x ∈ n → x ∉ l) : (l ++ n).count x ≤ 1 := by
  rw [List.count_append]
  by_cases h : x ∈ n
  · have := List.count_eq_zero.mpr (hx h); omega
  · have := List.count_eq_zero.mpr h; omega

theorem step_startOnce {s : State} (h : Inv s) (he : EvInv s) (t : Tid) (c : Choice) (a : Nat) :
    (step .fixed s t c).events.count (.start a) ≤ 1 := by
  rw [step_events]
  apply count_append_le_one _ _ _ (he.startOnce a)
  · by_cases hm : Event.start a ∈ effEvents s (act .fixed s t c (s.thr t).pc).eff
    · rw [(new_start hm).2.2]; simp
    · rw [List.count_eq_zero.mpr hm]; omega
  · intro hm hold
    obtain ⟨hpop, hhead, _⟩ := new_start hm
    obtain ⟨k, hp⟩ := act_pop_pc _ _ _ _ _ hpop
    have hloc := h.loc t
    rw [hp] at hloc
    simp [Loc] at hloc
    have hq : a ∈ s.queue := by
      cases hqq : s.queue <;> simp [hqq] at hhead; subst hhead; simp
    rcases he.startSeen a hold with h1 | h1
    · exact h1 (h.queueInfo a hq).2.2
    · rw [hloc.1] at h1; cases h1

theorem step_startSeen {s : State} (h : Inv s) (he : EvInv s) (t : Tid) (c : Choice) (a : Nat) :
    .start a ∈ (step .fixed s t c).events →
      ((step .fixed s t c).thr (.job a)).pc ≠ .unborn ∨ (step .fixed s t c).active = some a := by
  rw [step_events, List.mem_append]
  rintro (hold | hnew)
  · by_cases hu : (s.thr (.job a)).pc = .unborn
    · right
      have hact : s.active = some a := by
        rcases he.startSeen a hold with h1 | h1
        · exact absurd hu h1
        · exact h1
      rw [step_active_unchanged]
      · exact hact
      · intro hpop
        obtain ⟨k, hp⟩ := act_pop_pc _ _ _ _ _ hpop
        have hloc := h.loc t
        rw [hp] at hloc
        simp [Loc] at hloc
        rw [hloc.1] at hact; cases hact
      · intro b hb
        obtain ⟨hp, ht⟩ := act_actNone_pc _ _ _ _ _ _ hb
        subst ht
        have hbq := h.liveActive b (by rw [hp]; rfl) (h.kindQ b (by rw [hp]; rfl))
        rw [hact] at hbq
        cases hbq
        rw [hu] at hp; cases hp
    · left
      intro hn
      exact hu (step_unborn_back s t c a hn)
  · right
    obtain ⟨hpop, hhead, _⟩ := new_start hnew
    exact step_active_pop _ _ _ _ _ hpop hhead

theorem step_tstartOnce {s : State} (he : EvInv s) (t : Tid) (c : Choice) (a : Nat) :
    (step .fixed s t c).events.count (.tstart a) ≤ 1 := by
  rw [step_events]
  apply count_append_le_one _ _ _ (he.tstartOnce a)
  · by_cases hm : Event.tstart a ∈ effEvents s (act .fixed s t c (s.thr t).pc).eff
    · rw [new_tstart hm]; simp [effEvents]
    · rw [List.count_eq_zero.mpr hm]; omega
  · intro hm hold
    have hcr := act_startThread _ _ _ _ _ _ (new_tstart hm)
    have := he.tstartSeen a hold
    rw [hcr] at this; cases this

theorem step_tstartSeen {s : State} (he : EvInv s) (t : Tid) (c : Choice) (a : Nat) :
    .tstart a ∈ (step .fixed s t c).events →
      prestart ((step .fixed s t c).thr (.job a)).pc = false := by
  rw [step_events, List.mem_append]
  rintro (hold | hnew)
  · have := he.tstartSeen a hold
    cases hp : prestart ((step .fixed s t c).thr (.job a)).pc
    · rfl
    · rw [step_prestart_back s t c a hp] at this; cases this
  · have hst := new_tstart hnew
    rcases step_pc_cases s t c (.job a) with e | ⟨e1, e2⟩ | ⟨b, eb, hb, e⟩ | ⟨b, eb, hb, e⟩
    · -- impossible: the thread's pc must have changed to boot
      have := step_pc .fixed s t c (.job a)
      rw [hst] at this
      simp at this
      rw [this]; rfl
    · have := step_pc .fixed s t c (.job a)
      rw [hst] at this
      simp at this
      rw [this]; rfl
    · rw [hst] at hb; cases hb
    · rw [e]; rfl


theorem effEvents_of_emit {s : State} {e : Eff} {es : List Event} (h : e = .emit es) :
    effEvents s e = es := by subst h; rfl

theorem step_beginSeen {s : State} (he : EvInv s) (t : Tid) (c : Choice) (a : Nat) :
    .bodyBegin a ∈ (step .fixed s t c).events →
      early ((step .fixed s t c).thr (.job a)).pc = false := by
  rw [step_events, List.mem_append]
  rintro (hold | hnew)
  · have := he.beginSeen a hold
    cases hp : early ((step .fixed s t c).thr (.job a)).pc
    · rfl
    · rw [step_early_back s t c a hp] at this; cases this
  · obtain ⟨ht, hp, _⟩ := new_begin hnew
    subst ht
    have hpc := step_pc .fixed s (.job a) c (.job a)
    rw [hp] at hpc hnew
    cases c <;> simp [act] at hpc hnew ⊢ <;> rw [hpc] <;> rfl

theorem step_beginOnce {s : State} (he : EvInv s) (t : Tid) (c : Choice) (a : Nat) :
    (step .fixed s t c).events.count (.bodyBegin a) ≤ 1 := by
  rw [step_events]
  apply count_append_le_one _ _ _ (he.beginOnce a)
  · by_cases hm : Event.bodyBegin a ∈ effEvents s (act .fixed s t c (s.thr t).pc).eff
    · exact (new_begin hm).2.2
    · rw [List.count_eq_zero.mpr hm]; omega
  · intro hm hold
    obtain ⟨ht, hp, _⟩ := new_begin hm
    subst ht
    have := he.beginSeen a hold
    rw [hp] at this; cases this

theorem step_beginDone {s : State} (he : EvInv s) (t : Tid) (c : Choice) (a : Nat) :
    early ((step .fixed s t c).thr (.job a)).pc = false →
      .bodyBegin a ∈ (step .fixed s t c).events := by
  intro hne
  rw [step_events, List.mem_append]
  rcases step_pc_cases s t c (.job a) with e | ⟨e1, e2⟩ | ⟨b, eb, hb, e⟩ | ⟨b, eb, hb, e⟩
  · rw [e] at hne; exact Or.inl (he.beginDone a hne)
  · subst e1
    rw [e2] at hne
    cases hold : early (s.thr (.job a)).pc
    · exact Or.inl (he.beginDone a hold)
    · obtain ⟨es, h1, h2⟩ := act_begin_fwd .fixed s a c _ hold hne
      right; rw [effEvents_of_emit h1]; exact h2
  · rw [e] at hne; cases hne
  · rw [e] at hne; cases hne

theorem step_endDone {s : State} (he : EvInv s) (t : Tid) (c : Choice) (a : Nat) :
    early ((step .fixed s t c).thr (.job a)).pc = false →
      ((step .fixed s t c).thr (.job a)).pc ≠ .body →
        ∃ r, .bodyEnd a r ∈ (step .fixed s t c).events := by
  intro hne hnb
  rw [step_events]
  simp only [List.mem_append]
  rcases step_pc_cases s t c (.job a) with e | ⟨e1, e2⟩ | ⟨b, eb, hb, e⟩ | ⟨b, eb, hb, e⟩
  · rw [e] at hne hnb
    obtain ⟨r, hr⟩ := he.endDone a hne hnb
    exact ⟨r, Or.inl hr⟩
  · subst e1
    rw [e2] at hne hnb
    rcases act_end_fwd .fixed s a c _ hne hnb with ⟨h1, h2⟩ | ⟨es, r, h1, h2⟩
    · obtain ⟨r, hr⟩ := he.endDone a h1 h2
      exact ⟨r, Or.inl hr⟩
    · exact ⟨r, Or.inr (by rw [effEvents_of_emit h1]; exact h2)⟩
  · rw [e] at hne; cases hne
  · rw [e] at hne; cases hne

theorem EvInv.step {s : State} (h : Inv s) (he : EvInv s) (t : Tid) (c : Choice) :
    EvInv (step .fixed s t c) where
  startOnce := step_startOnce h he t c
  startSeen := step_startSeen h he t c
  tstartOnce := step_tstartOnce he t c
  tstartSeen := step_tstartSeen he t c
  beginOnce := step_beginOnce he t c
  beginSeen := step_beginSeen he t c
  beginDone := step_beginDone he t c
  endDone := step_endDone he t c

theorem Reach.evInv {progs : Nat → List Op} {s : State} (h : Reach .fixed progs s) : EvInv s := by
  induction h with
  | init => exact EvInv.init progs
  | step t c hr ih => exact ih.step hr.inv t c


/-- job `a` was queued (or was in the initial queue `q0`) and then removed by a `clear`
before it was started -/
def ClearedFrom (q0 : List Nat) (es : List Event) (a : Nat) : Prop :=
  ∃ pre post, es = pre ++ Event.clear :: post ∧ (a ∈ q0 ∨ ∃ b, Event.enq b a ∈ pre) ∧
    Event.start a ∉ pre

theorem ClearedFrom.cons {q0 q1 : List Nat} {e : Event} {es : List Event} {a : Nat}
    (h : ClearedFrom q1 es a) (hq : a ∈ q1 → a ∈ q0 ∨ ∃ b, e = Event.enq b a)
    (he : e ≠ Event.start a) : ClearedFrom q0 (e :: es) a := by
  obtain ⟨pre, post, rfl, h1, h2⟩ := h
  refine ⟨e :: pre, post, rfl, ?_, ?_⟩
  · rcases h1 with h1 | ⟨b, h1⟩
    · rcases hq h1 with h3 | ⟨b, h3⟩
      · exact Or.inl h3
      · exact Or.inr ⟨b, by simp [h3]⟩
    · exact Or.inr ⟨b, by simp [h1]⟩
  · simp [h2]
    exact fun h => he h.symm

/-- every job that entered the specification deque is still in it, or has been started, or was
cleared -/
theorem spec_accounting (s0 s1 : Spec) (es : List Event) (h : specRun s0 es = some s1) (a : Nat)
    (ha : a ∈ s0.queue ∨ ∃ b, Event.enq b a ∈ es) :
    a ∈ s1.queue ∨ Event.start a ∈ es ∨ ClearedFrom s0.queue es a := by
  induction es generalizing s0 with
  | nil =>
    simp [specRun] at h; subst h
    rcases ha with ha | ⟨b, hb⟩
    · exact Or.inl ha
    · simp at hb
  | cons e es ih =>
    simp only [specRun] at h
    cases hs : specStep s0 e with
    | none => simp [hs] at h
    | some s' =>
      simp [hs] at h
      by_cases hst : e = .start a
      · exact Or.inr (Or.inl (by simp [hst]))
      -- is `a` in the deque after this event, or queued later?
      have key : (a ∈ s'.queue ∨ ∃ b, Event.enq b a ∈ es) ∨ (e = .clear ∧ a ∈ s0.queue) := by
        rcases ha with ha | ⟨b, hb⟩
        · cases e <;> simp [specStep] at hs
          case enq bk x => cases bk <;> simp at hs <;> subst hs <;> simp [ha]
          case clear => exact Or.inr ⟨rfl, ha⟩
          case start x =>
            cases hr : s0.running <;> simp [hr] at hs
            cases hq : s0.queue with
            | nil => simp [hq] at hs
            | cons y r =>
              simp [hq] at hs
              obtain ⟨rfl, rfl⟩ := hs
              simp [hq] at ha
              rcases ha with rfl | ha
              · exact absurd rfl hst
              · exact Or.inl (Or.inl ha)
          case done x =>
            obtain ⟨_, rfl⟩ := hs; exact Or.inl (Or.inl ha)
          all_goals (subst hs; exact Or.inl (Or.inl ha))
        · simp at hb
          rcases hb with rfl | hb
          · left; left
            cases b <;> simp [specStep] at hs <;> subst hs <;> simp
          · exact Or.inl (Or.inr ⟨b, hb⟩)
      rcases key with key | ⟨rfl, hq⟩
      · rcases ih s' h key with r | r | r
        · exact Or.inl r
        · exact Or.inr (Or.inl (by simp [r]))
        · refine Or.inr (Or.inr (r.cons ?_ hst))
          intro hm
          cases e <;> simp [specStep] at hs
          case enq bk x =>
            cases bk <;> simp at hs <;> subst hs <;> simp at hm
            · rcases hm with rfl | hm
              · exact Or.inr ⟨false, rfl⟩
              · exact Or.inl hm
            · rcases hm with hm | rfl
              · exact Or.inl hm
              · exact Or.inr ⟨true, rfl⟩
          case clear => subst hs; simp at hm
          case start x =>
            cases hr : s0.running <;> simp [hr] at hs
            cases hq : s0.queue with
            | nil => simp [hq] at hs
            | cons y r =>
              simp [hq] at hs
              obtain ⟨rfl, rfl⟩ := hs
              exact Or.inl (by simp [hm])
          case done x =>
            obtain ⟨_, rfl⟩ := hs; exact Or.inl hm
          all_goals (subst hs; exact Or.inl hm)
      · exact Or.inr (Or.inr ⟨[], es, rfl, Or.inl hq, by simp⟩)


structure BgInv (s : State) : Prop where
  tracked : ∀ a, a ∈ s.bg ↔ (.bgAdd a ∈ s.events ∧ .bgDel a ∉ s.events)
  delSeen : ∀ a, .bgDel a ∈ s.events → (s.thr (.job a)).pc ≠ .unborn

theorem BgInv.init (progs : Nat → List Op) : BgInv (init progs) := by
  constructor <;> intros <;> simp_all [JC.init]

theorem new_bgAdd {v : Variant} {s : State} {t : Tid} {c : Choice} {p : Pc} {a : Nat}
    (h : .bgAdd a ∈ effEvents s (act v s t c p).eff) : (act v s t c p).eff = .bgAdd a := by
  have hpl := act_emit_plain v s t c p
  generalize (act v s t c p).eff = e at *
  cases e <;> simp [effEvents] at h ⊢
  · cases hq : s.queue <;> simp [hq] at h
  · exact h.symm
  · rename_i es; have := hpl es rfl _ h; simp [Event.plain] at this

theorem new_bgDel {v : Variant} {s : State} {t : Tid} {c : Choice} {p : Pc} {a : Nat}
    (h : .bgDel a ∈ effEvents s (act v s t c p).eff) : (act v s t c p).eff = .bgDel a := by
  have hpl := act_emit_plain v s t c p
  generalize (act v s t c p).eff = e at *
  cases e <;> simp [effEvents] at h ⊢
  · cases hq : s.queue <;> simp [hq] at h
  · exact h.symm
  · rename_i es; have := hpl es rfl _ h; simp [Event.plain] at this

theorem act_bgAdd_pc (v : Variant) (s : State) (t : Tid) (c : Choice) (p : Pc) (a : Nat) :
    (act v s t c p).eff = .bgAdd a → p = .name2 a .spawn := by
  table_cases p <;> simp_all [retEv]

theorem act_bgDel_pc (v : Variant) (s : State) (t : Tid) (c : Choice) (p : Pc) (a : Nat) :
    (act v s t c p).eff = .bgDel a → p = .name2 a .bgdone := by
  table_cases p <;> simp_all [retEv]

theorem step_bg_eq (v : Variant) (s : State) (t : Tid) (c : Choice) :
    (step v s t c).bg = match (act v s t c (s.thr t).pc).eff with
      | .bgAdd a => s.bg ++ [a]
      | .bgDel a => s.bg.erase a
      | _ => s.bg := by
  unfold JC.step
  generalize act v s t c (s.thr t).pc = x
  obtain ⟨p', e, pop⟩ := x
  cases e <;> simp [apply, setPc, setJobPc] <;> split <;> rfl

theorem BgInv.step {s : State} (h : Inv s) (hb : BgInv s) (t : Tid) (c : Choice) :
    BgInv (step .fixed s t c) := by
  have hloc := h.loc t
  constructor
  · intro a
    rw [step_events, step_bg_eq]
    simp only [List.mem_append]
    by_cases hadd : ∃ b, (act .fixed s t c (s.thr t).pc).eff = .bgAdd b
    · obtain ⟨b, hb'⟩ := hadd
      have hp := act_bgAdd_pc _ _ _ _ _ _ hb'
      rw [hp] at hloc; simp [Loc] at hloc
      rw [hb']; simp [effEvents]
      by_cases hab : a = b
      · subst hab
        simp
        intro hdel
        exact hb.delSeen a hdel hloc.2.2.2
      · simp [hab, hb.tracked a]
    by_cases hdel : ∃ b, (act .fixed s t c (s.thr t).pc).eff = .bgDel b
    · obtain ⟨b, hb'⟩ := hdel
      rw [hb']; simp [effEvents]
      by_cases hab : a = b
      · subst hab
        simp
        intro hm
        exact absurd hm (List.Nodup.not_mem_erase h.bgNodup)
      · rw [List.mem_erase_of_ne hab]
        simp [hab, hb.tracked a]
    · have h1 : Event.bgAdd a ∉ effEvents s (act .fixed s t c (s.thr t).pc).eff :=
        fun hm => hadd ⟨a, new_bgAdd hm⟩
      have h2 : Event.bgDel a ∉ effEvents s (act .fixed s t c (s.thr t).pc).eff :=
        fun hm => hdel ⟨a, new_bgDel hm⟩
      have : (match (act .fixed s t c (s.thr t).pc).eff with
          | .bgAdd a => s.bg ++ [a] | .bgDel a => s.bg.erase a | _ => s.bg) = s.bg := by
        split
        · rename_i b hb'; exact absurd ⟨b, hb'⟩ hadd
        · rename_i b hb'; exact absurd ⟨b, hb'⟩ hdel
        · rfl
      rw [this]
      simp [h1, h2, hb.tracked a]
  · intro a
    rw [step_events, List.mem_append]
    rintro (hold | hnew)
    · intro hu; exact hb.delSeen a hold (step_unborn_back s t c a hu)
    · have hd := new_bgDel hnew
      have hp := act_bgDel_pc _ _ _ _ _ _ hd
      intro hu
      have hold := step_unborn_back s t c a hu
      -- the thread executing the `del` is a's own thread
      cases t with
      | client n => have := h.clientKind n; rw [hp] at this; simp [jobOnly, liveB, NameK.isBgdone] at this
      | job x =>
        have := h.selfName x a .bgdone hp rfl
        subst this
        rw [hold] at hp; cases hp

theorem Reach.bgInv {progs : Nat → List Op} {s : State} (h : Reach .fixed progs s) : BgInv s := by
  induction h with
  | init => exact BgInv.init progs
  | step t c hr ih => exact ih.step hr.inv t c

end Bardolph.JC
