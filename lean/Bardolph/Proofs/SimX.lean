import Bardolph.Proofs.Sim
/-!
Value positions with calls, for the simulation theorem C01: the relation *during* the evaluation of
a value (`SimX`) — operands of the expression under evaluation lie on the evaluation stack above
what the statement found there, and the `CTX` frames of the calls whose arguments are being
evaluated lie on the frame stack above the loop frames —, the fragment of value positions with
calls (`ExprC`, `RvC`, `ArgsC`), and the STATEMENTS of the simulation goals for them (`ExprGoal`,
`ArgsGoal`, `CallGoal`, `RvGoal`); their proofs are in `Proofs/SimVals.lean`.
-/
namespace Bardolph
namespace Sim
open Vm VmSteps Sem Gen

/-! ## the fragment of value positions with calls -/

mutual
  /-- expressions of the fragment: literals, variables, registers other than `result`, unary and
  binary operators, parentheses, and calls `f(…)` of routines in `V` (which deliver a value on
  every path) with arguments of the fragment and distinct parameter names -/
  def ExprC (V : String → Prop) : Expr → Prop
    | .lit _ => True
    | .var _ => True
    | .reg r => r ≠ .result
    | .call f ps as => V f ∧ ps.Nodup ∧ ArgsC V as
    | .un _ e => ExprC V e
    | .bin _ a b => ExprC V a ∧ ExprC V b
    | .paren e => ExprC V e
  /-- value positions of the fragment: literal, variable, register other than `result`, `{expr}`,
  `[f args]` -/
  def RvC (V : String → Prop) : Rv → Prop
    | .lit _ => True
    | .var _ => True
    | .reg r => r ≠ .result
    | .expr e => ExprC V e
    | .call f ps as => V f ∧ ps.Nodup ∧ ArgsC V as
  def ArgsC (V : String → Prop) : Args → Prop
    | .nil => True
    | .cons a rest => RvC V a ∧ ArgsC V rest
end

variable {V : String → Prop}

theorem ExprC.of_pure {e : Expr} (h : Pure e) : ExprC V e := by
  induction h with
  | lit v => trivial
  | var n => trivial
  | reg r hr => exact hr
  | un m e _ ih => exact ih
  | bin op a b _ _ iha ihb => exact ⟨iha, ihb⟩
  | paren e _ ih => exact ih

/-- the call-free value positions are value positions of the fragment -/
theorem RvC.of_pure {v : Rv} (h : RvOK v) : RvC V v := by
  cases v with
  | lit _ => trivial
  | var _ => trivial
  | reg r => exact h
  | expr e => exact ExprC.of_pure h
  | call _ _ _ => exact absurd h (by simp [RvOK])

/-! ## the relation during the evaluation of a value -/

/-- `σ` and `s` agree during the evaluation of a value inside a statement that runs with the
stacks `stk`: the operands `ops` of the expression under evaluation lie on the evaluation stack
above `stk.ev`, the parameter dictionaries `pends` of the calls whose arguments are being evaluated
(innermost first) lie as `CTX` frames on the frame stack above the loop frames; apart from that the
statement-level relation `Sim` holds -/
structure SimX (K : Ctx) (stk : Stk) (ops : List Val) (pends : List Dict) (σ : S) (s : State) : Prop where
  eval : s.eval = ops ++ stk.ev
  stack : s.stack = pends.map Frame.pending ++ (stk.frames ++ baseOf K σ.locals)
  sim : Sim K stk σ { s with eval := stk.ev, stack := stk.frames ++ baseOf K σ.locals }

variable {K : Ctx} {stk : Stk} {ops : List Val} {pends : List Dict} {σ : S} {s : State}

theorem SimX.of_sim (h : Sim K stk σ s) : SimX K stk [] [] σ s :=
  ⟨h.eval, h.stack, by
    have e : ({ s with eval := stk.ev, stack := stk.frames ++ baseOf K σ.locals } : State) = s := by
      apply State.ext' <;> first | rfl | exact h.stack.symm | exact h.eval.symm
    rw [e]; exact h⟩

theorem SimX.to_sim (h : SimX K stk [] [] σ s) : Sim K stk σ s := by
  have e : ({ s with eval := stk.ev, stack := stk.frames ++ baseOf K σ.locals } : State) = s := by
    apply State.ext' <;> first | rfl | (exact h.stack.symm) | (exact h.eval.symm)
  have := h.sim
  rw [e] at this
  exact this

theorem SimX.running (h : SimX K stk ops pends σ s) : s.status = .running := h.sim.running

theorem SimX.regs (h : SimX K stk ops pends σ s) (r : Reg) (hr : r ≠ .result) : σ.vm.regs r = s.regs r :=
  h.sim.regs r hr

theorem activation_pendings (pends : List Dict) (rest : List Frame) :
    activation (pends.map Frame.pending ++ rest) = activation rest := by
  induction pends with
  | nil => rfl
  | cons d ds ih => simpa [activation] using ih

/-- names mean the same on both sides: `CTX` frames not yet entered are not searched -/
theorem SimX.lookup (h : SimX K stk ops pends σ s) (n : String) : σ.lookup n = s.getVariable n := by
  have h1 := h.sim.lookup n
  rw [h1]
  simp only [State.getVariable, h.stack, activation_pendings]

/-- the evaluation stack and the program counter are the generated code's -/
theorem SimX.setEval (h : SimX K stk ops pends σ s) (ops' : List Val) (p : Int) :
    SimX K stk ops' pends σ { s with pc := p, eval := ops' ++ stk.ev } :=
  ⟨rfl, h.stack, h.sim.setPc p⟩

theorem SimX.setPc (h : SimX K stk ops pends σ s) (p : Int) :
    SimX K stk ops pends σ { s with pc := p } :=
  ⟨h.eval, h.stack, h.sim.setPc p⟩

theorem SimX.setResult (h : SimX K stk ops pends σ s) (v : Val) (p : Int) :
    SimX K stk ops pends σ { s with pc := p, regs := fun r => if r = .result then v else s.regs r } :=
  ⟨h.eval, h.stack, (h.sim.setResult v).setPc p⟩

/-- a `CTX` frame pushed, filled or dropped -/
theorem SimX.setPends (h : SimX K stk ops pends σ s) (pends' : List Dict) (p : Int) :
    SimX K stk ops pends' σ
      { s with pc := p, stack := pends'.map Frame.pending ++ (stk.frames ++ baseOf K σ.locals) } :=
  ⟨h.eval, rfl, h.sim.setPc p⟩


/-! ## a failed evaluation is never a control outcome -/

/-- not one of the outcomes the simulation theorem talks about -/
def NotCtl (o : Outcome) : Prop := o ≠ .normal ∧ o ≠ .brk ∧ o ≠ .ret

/-- whatever the value position — with or without calls —, its evaluation fails only with a
fault, an uninterpreted operation or lack of fuel: `break` and `return` do not leave a routine
through a value -/
theorem eval_error_ctl (f : Nat) :
    (∀ e s o, evalExpr f e s = .error o → NotCtl o) ∧ (∀ r s o, evalRv f r s = .error o → NotCtl o) ∧
    (∀ ps as s o, evalArgs f ps as s = .error o → NotCtl o) ∧
    (∀ name ps as s o, callRoutine f name ps as s = .error o → NotCtl o) := by
  induction f with
  | zero =>
    refine ⟨?_, ?_, ?_, ?_⟩ <;>
      (intros; rename_i h
       simp only [evalExpr, evalRv, evalArgs, callRoutine, Except.error.injEq] at h
       subst h; simp [NotCtl])
  | succ f ih =>
    obtain ⟨ihE, ihR, ihA, ihC⟩ := ih
    have hC : ∀ name ps as s o, callRoutine (f + 1) name ps as s = .error o → NotCtl o := by
      intro name ps as s o h
      simp only [callRoutine] at h
      split at h
      · rename_i o' he
        simp at h; subst h; exact ihA _ _ _ _ he
      · split at h
        · split at h
          · simp at h
          · simp at h
          · simp at h; subst h; simp [NotCtl]
          · rename_i hn hr hb _
            simp only [Except.error.injEq] at h
            subst h
            exact ⟨hn, hb, hr⟩
        · split at h
          · split at h
            · simp at h
            · simp at h; subst h; simp [NotCtl]
            · simp at h; subst h; simp [NotCtl]
          · simp at h; subst h; simp [NotCtl]
    have hE : ∀ e s o, evalExpr (f + 1) e s = .error o → NotCtl o := by
      intro e s o h
      cases e with
      | lit v => simp [evalExpr] at h
      | var n =>
        simp only [evalExpr] at h
        split at h <;> simp at h
        subst h; simp [NotCtl]
      | reg r =>
        simp only [evalExpr] at h
        split at h <;> simp at h
        subst h; simp [NotCtl]
      | call g ps as =>
        simp only [evalExpr] at h
        split at h
        · split at h
          · simp at h; subst h; simp [NotCtl]
          · simp at h
        · rename_i o' he
          simp at h; subst h
          exact ihC _ _ _ _ _ he
      | paren e => simp only [evalExpr] at h; exact ihE _ _ _ h
      | un m e =>
        simp only [evalExpr] at h
        split at h
        · split at h
          · split at h <;> simp at h
            subst h; simp [NotCtl]
          · simp at h
        · rename_i o' he
          simp at h; subst h
          exact ihE _ _ _ he
      | bin op a b =>
        simp only [evalExpr] at h
        split at h
        · rename_i o' he
          simp at h; subst h
          exact ihE _ _ _ he
        · split at h
          · rename_i o' he
            simp at h; subst h
            exact ihE _ _ _ he
          · cases op <;> simp only [] at h
            all_goals (repeat' split at h)
            all_goals simp at h
            all_goals (subst h; simp [NotCtl])
    have hR : ∀ r s o, evalRv (f + 1) r s = .error o → NotCtl o := by
      intro r s o h
      cases r with
      | lit _ => simp [evalRv] at h
      | var _ => simp [evalRv] at h
      | reg _ => simp [evalRv] at h
      | expr e => simp only [evalRv] at h; exact ihE _ _ _ h
      | call g ps as => simp only [evalRv] at h; exact ihC _ _ _ _ _ h
    have hA : ∀ ps as s o, evalArgs (f + 1) ps as s = .error o → NotCtl o := by
      intro ps as s o h
      cases ps with
      | nil => simp [evalArgs] at h
      | cons p ps =>
        cases as with
        | nil => simp [evalArgs] at h
        | cons a rest =>
          simp only [evalArgs] at h
          split at h
          · rename_i o' he
            simp at h; subst h; exact ihR _ _ _ he
          · split at h
            · rename_i o' he
              simp at h; subst h; exact ihA _ _ _ _ he
            · simp at h
    exact ⟨hE, hR, hA, hC⟩

theorem evalRvC_error {v : Rv} {f : Nat} {σ : S} {o : Outcome} (h : evalRv f v σ = .error o) :
    o ≠ .normal ∧ o ≠ .brk ∧ o ≠ .ret := (eval_error_ctl f).2.1 v σ o h

/-! ## the goals -/

variable (V)

/-- **expressions**: the postfix code leaves the value on the evaluation stack, above the operands
already there; what the calls in it did is done on both sides -/
def ExprGoal (img : Image) (K : Ctx) (f : Nat) : Prop :=
  ∀ (e : Expr), ExprC V e → ∀ (σ σ' : S) (x : Val) (s : State) (pc : Nat) (stk : Stk) (ops : List Val)
    (pends : List Dict),
    SimX K stk ops pends σ s → s.pc = (pc : Int) → CodeAt img pc (genExpr e) →
    evalExpr f e σ = .ok (x, σ') →
    Exec img s (fun t => t.pc = ((pc + (genExpr e).length : Nat) : Int) ∧ SimX K stk (x :: ops) pends σ' t)

/-- **a call** (`CTX`, the arguments, `JSR`, `END_CTX`): the routine's effects are done on both
sides; if the routine is one that delivers a value (`V g`), the value is in `result` -/
def CallGoal (img : Image) (K : Ctx) (f : Nat) : Prop :=
  ∀ (g : String) (ps : List String) (as : Args), ps.Nodup → ArgsC V as →
  ∀ (σ σ' : S) (v : Val) (s : State) (pc : Nat) (stk : Stk) (ops : List Val) (pends : List Dict),
    SimX K stk ops pends σ s → s.pc = (pc : Int) → CodeAt img pc (genCall g ps as) →
    callRoutine f g ps as σ = .ok (v, σ') →
    Exec img s (fun t => t.pc = ((pc + (genCall g ps as).length : Nat) : Int) ∧ SimX K stk ops pends σ' t ∧
      (V g → t.regs .result = v))

/-- **value positions**, delivered in `result` -/
def RvGoal (img : Image) (K : Ctx) (f : Nat) : Prop :=
  ∀ (v : Rv), RvC V v → ∀ (σ σ' : S) (x : Val) (s : State) (pc : Nat) (stk : Stk) (ops : List Val)
    (pends : List Dict),
    SimX K stk ops pends σ s → s.pc = (pc : Int) → CodeAt img pc (genRv v (.to Gen.result)) →
    evalRv f v σ = .ok (x, σ') →
    Exec img s (fun t => t.pc = ((pc + (genRv v (.to Gen.result)).length : Nat) : Int) ∧
      SimX K stk ops pends σ' t ∧ t.regs .result = x)

/-- **the arguments of a call**: each is computed into `result` and stored in the `CTX` frame under
its parameter's name -/
def ArgsGoal (img : Image) (K : Ctx) (f : Nat) : Prop :=
  ∀ (ps : List String) (as : Args), ps.Nodup → ArgsC V as →
  ∀ (σ σ' : S) (d : Dict) (s : State) (pc : Nat) (stk : Stk) (ops : List Val) (d0 : Dict) (pends : List Dict),
    SimX K stk ops (d0 :: pends) σ s → s.pc = (pc : Int) → CodeAt img pc (genParams ps as) →
    (∀ p ∈ ps, d0.any (·.1 == p) = false) →
    evalArgs f ps as σ = .ok (d, σ') →
    Exec img s (fun t => t.pc = ((pc + (genParams ps as).length : Nat) : Int) ∧
      SimX K stk ops ((d0 ++ d) :: pends) σ' t)

/-- **value positions at statement level**, delivered to any destination `d` but the unit-mode
register: the machine reaches a state that is some state `s0` related to the source-level state
after the evaluation, with the value stored to `d` by the machine's store routine -/
def RvToGoal (img : Image) (K : Ctx) (f : Nat) : Prop :=
  ∀ (v : Rv), RvC V v → ∀ (d : Dst), d ≠ .reg .unitMode →
  ∀ (σ σ' : S) (x : Val) (s : State) (pc : Nat) (stk : Stk),
    Sim K stk σ s → s.pc = (pc : Int) → CodeAt img pc (genRv v (.to d)) →
    evalRv f v σ = .ok (x, σ') →
    (∀ s0, Sim K stk σ' s0 → (s0.put d x).status = .running) →
    Exec img s (fun t => ∃ s0, Sim K stk σ' s0 ∧
      t = { s0.put d x with pc := ((pc + (genRv v (.to d)).length : Nat) : Int) })

end Sim
end Bardolph
