import Bardolph.Model.JobControl
/-!
Helper lemmas for C08, layer 1: the lock discipline of the job-control model.

`Pc.crit pc` is the number of times the thread's call stack holds the re-entrant lock when it
stands at `pc` (read off the source: inside which `if self._acquire_lock(): try: … finally:
release` blocks the line lies).  `LockInv`: every thread's `crit` equals the lock's count if it
is the owner and 0 otherwise — "a thread inside a critical section owns the lock".
-/
set_option linter.unusedSimpArgs false
namespace Bardolph.JC

def RnK.crit : RnK → Nat
  | .enq _ => 1 | .done => 0

def AcqK.crit : AcqK → Nat
  | .rn k => k.crit | _ => 0

def RelK.crit : RelK → Nat
  | .rn k => k.crit + 1 | _ => 1

def ExK.crit : ExK → Nat
  | .rn k => k.crit + 1 | .spawn => 1

def NameK.crit : NameK → Nat
  | .isRun _ => 0 | _ => 1

def AirK.crit : AirK → Nat
  | .stopCur => 1 | .pstopCur => 0

def Pc.crit : Pc → Nat
  | .enq3 .. | .enq4 .. | .enq5 .. | .enq6 _ | .enq7 _ | .enq9 _ | .init .. => 1
  | .acq1 k => k.crit | .acq4 k => k.crit + 1
  | .rel1 k => k.crit
  | .rn1 k => k.crit
  | .rn2 k | .rn3 k | .rn4 k | .rn5 k | .rn7 k => k.crit + 1
  | .ex1 _ k | .ex2 _ k | .ex3 _ k => k.crit
  | .sp3 _ | .sp4 _ | .sp5 _ | .sp6 _ | .sp8 _ => 1
  | .name2 _ k => k.crit
  | .od2 | .od3 | .od5 => 1
  | .bd2 | .bd3 | .bd5 => 1
  | .cl2 | .cl3 | .cl5 => 1
  | .sj3 _ | .sj4 _ | .sj5 _ | .sj6 | .sj7 | .sj8 _ | .sj9 _ | .sj10 | .sj12 _ => 1
  | .req1 .. => 1
  | .sb3 | .sb4 | .sb7 | .gb1 | .gb3 | .sb8 | .sb9f | .sb9 _ | .sb10 .. | .sb12 => 1
  | .air1 _ k | .air1b _ k => k.crit
  | .sc3 | .sc4 | .sc5 _ | .sc6 _ | .sc7 | .sc9 _ => 1
  | .ps3 | .ps4 | .ps6 => 1
  | _ => 0

structure LockInv (s : State) : Prop where
  crit : ∀ t, (s.thr t).pc.crit = if s.owner = some t then s.count else 0
  pos : s.owner ≠ none → 0 < s.count
  zero : s.owner = none → s.count = 0

theorem LockInv.init (progs) : LockInv (init progs) := by
  refine ⟨fun t => ?_, by simp [JC.init], by simp [JC.init]⟩
  cases t <;> simp [JC.init, Pc.crit]

theorem firstPc_crit (v : Variant) (op : Op) : (firstPc v op).crit = 0 := by
  cases op <;> cases v <;> rfl

theorem afterAcq_crit (k : AcqK) : (afterAcq k).crit = k.crit + 1 := by
  cases k <;> simp [afterAcq, Pc.crit, AcqK.crit]

theorem afterRel_crit (k : RelK) : (afterRel k).crit + 1 = k.crit := by
  cases k with
  | rn k => cases k <;> simp [afterRel, Pc.crit, RelK.crit, RnK.crit]
  | _ => simp [afterRel, Pc.crit, RelK.crit]

/-! ### what each line does to the lock (read off the table `act`) -/

theorem act_crit_acquire (v : Variant) (s : State) (t : Tid) (c : Choice) (p : Pc) :
    (act v s t c p).eff = .acquire →
      canAcquire s t = true ∧ (act v s t c p).pc.crit = p.crit + 1 := by
  cases p <;> simp [act] <;> (repeat' split) <;> simp_all [Pc.crit, retEv]

theorem act_crit_release (v : Variant) (s : State) (t : Tid) (c : Choice) (p : Pc) :
    (act v s t c p).eff = .release → s.owner = some t ∧ (act v s t c p).pc.crit + 1 = p.crit := by
  cases p <;> simp [act] <;> (repeat' split) <;> (try simp only [afterRel_crit]) <;>
    simp_all [Pc.crit, retEv]

theorem act_crit_other (v : Variant) (s : State) (t : Tid) (c : Choice) (p : Pc) :
    (act v s t c p).eff ≠ .release → (act v s t c p).eff ≠ .acquire →
      (act v s t c p).pc.crit = p.crit := by
  cases p <;> simp [act] <;> (repeat' split) <;>
    (try simp only [afterAcq_crit, firstPc_crit]) <;>
    simp_all [Pc.crit, retEv, ExK.crit, NameK.crit, AirK.crit, RelK.crit, AcqK.crit, RnK.crit]

theorem act_mkThread (v : Variant) (s : State) (t : Tid) (c : Choice) (p : Pc) (a : Nat) :
    (act v s t c p).eff = .mkThread a → (s.thr (.job a)).pc = .unborn := by
  cases p <;> simp [act] <;> (repeat' split) <;> simp_all [retEv] <;> (rintro rfl; assumption)

theorem act_startThread (v : Variant) (s : State) (t : Tid) (c : Choice) (p : Pc) (a : Nat) :
    (act v s t c p).eff = .startThread a → (s.thr (.job a)).pc = .created := by
  cases p <;> simp [act] <;> (repeat' split) <;> simp_all [retEv] <;> (rintro rfl; assumption)

/-! ### the lock invariant is preserved by every step (both variants) -/

theorem LockInv.frame {s s' : State} (h : LockInv s) (ho : s'.owner = s.owner)
    (hc : s'.count = s.count) (hthr : ∀ u, (s'.thr u).pc.crit = (s.thr u).pc.crit) :
    LockInv s' :=
  ⟨fun u => by rw [hthr, ho, hc]; exact h.crit u, by rw [ho, hc]; exact h.pos,
    by rw [ho, hc]; exact h.zero⟩

theorem setPc_thr_self (s : State) (t : Tid) (pc : Pc) (b : Bool) :
    ((setPc s t pc b).thr t).pc = pc := by simp [setPc]

theorem setPc_thr_other (s : State) (t u : Tid) (pc : Pc) (b : Bool) (h : u ≠ t) :
    (setPc s t pc b).thr u = s.thr u := by simp [setPc, h]

theorem apply_owner (s : State) (t : Tid) (e : Eff) (h1 : e ≠ .acquire) (h2 : e ≠ .release) :
    (apply s t e).owner = s.owner := by
  cases e <;> simp_all [apply, setJobPc] <;> split <;> rfl

theorem apply_count (s : State) (t : Tid) (e : Eff) (h1 : e ≠ .acquire) (h2 : e ≠ .release) :
    (apply s t e).count = s.count := by
  cases e <;> simp_all [apply, setJobPc] <;> split <;> rfl

theorem apply_thr (s : State) (t : Tid) (e : Eff) (h1 : ∀ a, e ≠ .mkThread a)
    (h2 : ∀ a, e ≠ .startThread a) : (apply s t e).thr = s.thr := by
  cases e <;> simp_all [apply] <;> split <;> rfl

theorem LockInv.step {v : Variant} {s : State} (h : LockInv s) (t : Tid) (c : Choice) :
    LockInv (step v s t c) := by
  unfold JC.step
  have h1 := act_crit_acquire v s t c (s.thr t).pc
  have h2 := act_crit_release v s t c (s.thr t).pc
  have h3 := act_crit_other v s t c (s.thr t).pc
  have h4 := act_mkThread v s t c (s.thr t).pc
  have h5 := act_startThread v s t c (s.thr t).pc
  generalize act v s t c (s.thr t).pc = a at *
  obtain ⟨pc', eff, pop⟩ := a
  simp only at h1 h2 h3 h4 h5 ⊢
  have hcrit := h.crit
  cases eff with
  | acquire =>
    obtain ⟨hcan, hpc⟩ := h1 rfl
    refine ⟨fun u => ?_, by simp [apply], by simp [apply]⟩
    by_cases hu : u = t
    · subst hu
      have := hcrit u
      simp only [apply, setPc_thr_self, hpc, if_true]
      simp only [canAcquire] at hcan
      split at hcan
      · rename_i ho; have hz := h.zero ho; simp [ho] at this; simp [setPc]; omega
      · rename_i w ho; simp at hcan; subst hcan; simp [ho] at this; simp [setPc]; omega
    · have := hcrit u
      simp only [apply, setPc_thr_other _ _ _ _ _ hu]
      simp only [canAcquire] at hcan
      have hne : ¬ (some t = some u) := by simpa using fun e => hu e.symm
      simp only [hne, if_false]
      split at hcan
      · rename_i ho; simpa [ho] using this
      · rename_i w ho; simp at hcan; subst hcan
        have hne' : ¬ (some w = some u) := by simpa using fun e => hu e.symm
        simpa [ho, hne'] using this
  | release =>
    obtain ⟨hown, hpc⟩ := h2 rfl
    have hpos := h.pos (by simp [hown])
    have ht := hcrit t
    simp only [hown, if_true] at ht
    by_cases hle : s.count ≤ 1
    · have h1c : s.count = 1 := by omega
      refine ⟨fun u => ?_, by simp [apply, setPc, hle], by simp [apply, setPc, hle]⟩
      by_cases hu : u = t
      · subst hu; simp [apply, setPc, hle]; omega
      · have := hcrit u
        have hne : ¬ (some t = some u) := by simpa using fun e => hu e.symm
        simp [hown, hne] at this
        simp [apply, setPc, hle, hu, this]
    · refine ⟨fun u => ?_, by simp [apply, setPc, hle]; omega, by simp [apply, setPc, hle, hown]⟩
      by_cases hu : u = t
      · subst hu; simp [apply, setPc, hle, hown]; omega
      · have := hcrit u
        have hne : ¬ (some t = some u) := by simpa using fun e => hu e.symm
        simp [hown, hne] at this
        simp [apply, setPc, hle, hu, this, hown, hne]
  | mkThread a =>
    have hpc := h3 (by simp) (by simp)
    have hun := h4 a rfl
    refine h.frame (by simp [apply, setJobPc, setPc]) (by simp [apply, setJobPc, setPc]) fun u => ?_
    by_cases hu : u = t
    · subst hu
      by_cases hj : u = .job a
      · subst hj; simp [hun, Pc.crit] at hpc ⊢; simp [apply, setJobPc, Pc.crit, hun]
      · simp [apply, setJobPc, hj, setPc, hpc]
    · by_cases hj : u = .job a
      · subst hj; simp [apply, setJobPc, Pc.crit, hun]
      · simp [apply, setJobPc, hj, setPc, hu]
  | startThread a =>
    have hpc := h3 (by simp) (by simp)
    have hun := h5 a rfl
    refine h.frame (by simp [apply, setJobPc, setPc]) (by simp [apply, setJobPc, setPc]) fun u => ?_
    by_cases hu : u = t
    · subst hu
      by_cases hj : u = .job a
      · subst hj; simp [hun, Pc.crit] at hpc ⊢; simp [apply, setJobPc, Pc.crit, hun]
      · simp [apply, setJobPc, hj, setPc, hpc]
    · by_cases hj : u = .job a
      · subst hj; simp [apply, setJobPc, Pc.crit, hun]
      · simp [apply, setJobPc, hj, setPc, hu]
  | _ =>
    have hpc := h3 (by simp) (by simp)
    refine h.frame (by rw [apply_owner _ _ _ (by simp) (by simp)]; rfl)
      (by rw [apply_count _ _ _ (by simp) (by simp)]; rfl) fun u => ?_
    rw [apply_thr _ _ _ (by simp) (by simp)]
    by_cases hu : u = t
    · subst hu; simp [setPc, hpc]
    · simp [setPc, hu]

theorem Reach.lockInv {v progs s} (h : Reach v progs s) : LockInv s := by
  induction h with
  | init => exact LockInv.init progs
  | step t c _ ih => exact ih.step t c

end Bardolph.JC
