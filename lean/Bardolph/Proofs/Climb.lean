import Bardolph.Model.ExprParse
/-!
# Correctness of the precedence-climbing expression parser model (helpers for C02)

The parser of `Bardolph.Model.ExprParse` is proved to invert `render`.  The proof depends on
the generated tables only through `TableFacts B` (`B` = the binary operator symbols):

* every symbol of `B` is a binary operator token and has a VM operator,
* precedences of `B` are non-negative,
* two symbols of `B` with the same precedence have the same associativity.

Plan:
1. `norm` makes the parentheses `render` inserts explicit (`paren` nodes), so that
   `render t = rend (norm t)` with `rend` plain concatenation, and `norm t` is `Normal`
   (no child needs parentheses).
2. `spine` cuts a `Normal` tree along its left spine: `a op₁ r₁ op₂ r₂ … opₙ rₙ` with `a` not a
   binary node, precedences non-increasing, strictly decreasing at right-associative operators.
3. `climb m` consumes such a chain while the precedence is `≥ m` (`climb_all`, `chain_inner`);
   `inner op` parses the right operand of `op` by calling `climb` on successive runs of the
   operand's spine (`chain_inner`, `opd_of_spine`).
4. `main` ties the knot by induction on the number of tokens, with explicit fuel bounds
   (`2·tokens + 2` for `expression`), which `parse`'s fuel `4·tokens + 4` covers.
-/
namespace Bardolph.ExprParse.Climb
open Bardolph Bardolph.ExprParse

/-- what the proof needs to know about the generated tables; `B` = binary operator symbols -/
structure TableFacts (B : List String) : Prop where
  binop : ∀ s ∈ B, isBinop (.op s) = true
  hasOp : ∀ s ∈ B, ∃ i, doOp s = some i
  nonneg : ∀ s ∈ B, 0 ≤ precOf s
  assoc : ∀ s ∈ B, ∀ s' ∈ B, precOf s = precOf s' → isRight (.op s) = isRight (.op s')

/-! ### trees: well-formedness, explicit parentheses -/

/-- every binary node carries a symbol of `B` -/
def Wf (B : List String) : Tree → Prop
  | .atom _ => True
  | .neg t => Wf B t
  | .pos t => Wf B t
  | .bin s l r => s ∈ B ∧ Wf B l ∧ Wf B r
  | .paren t => Wf B t

def isBin : Tree → Bool
  | .bin _ _ _ => true
  | _ => false

def wrapIf (b : Bool) (t : Tree) : Tree := if b then .paren t else t

/-- make the parentheses that `render` inserts explicit -/
def norm : Tree → Tree
  | .atom c => .atom c
  | .neg t => .neg (wrapIf (isBin t) (norm t))
  | .pos t => .pos (wrapIf (isBin t) (norm t))
  | .bin s l r =>
    .bin s (wrapIf (needsParen s l true) (norm l)) (wrapIf (needsParen s r false) (norm r))
  | .paren t => .paren (norm t)

/-- rendering without any implicit parentheses -/
def rend : Tree → List Tok
  | .atom c => [.atom c]
  | .neg t => .op "-" :: rend t
  | .pos t => .op "+" :: rend t
  | .bin s l r => rend l ++ .op s :: rend r
  | .paren t => .lparen :: (rend t ++ [.rparen])

/-- the code of operator `s` as `postfixOf` appends it -/
def insOf (s : String) : List Instr :=
  match doOp s with
  | some i => [i]
  | none => []

theorem postfixOf_bin (s : String) (l r : Tree) :
    postfixOf (.bin s l r) = postfixOf l ++ postfixOf r ++ insOf s := rfl

/-- `b` may follow `a` in one `climb` loop: not tighter, and not right-associative at the same
level (otherwise `inner a` would have taken it) -/
def ok (a b : String) : Prop :=
  precOf b ≤ precOf a ∧ (precOf b = precOf a → isRight (.op b) = false)

/-- operators that `inner s` consumes: tighter ones, and (for a right-associative `s`) those of
the same level -/
def cont (s s' : String) : Prop :=
  precOf s < precOf s' ∨ (precOf s' = precOf s ∧ isRight (.op s) = true)

def LeftOK (s : String) (l : Tree) : Prop := ∀ s' a b, l = .bin s' a b → ok s' s
def RightOK (s : String) (r : Tree) : Prop := ∀ s' a b, r = .bin s' a b → cont s s'

/-- no child needs parentheses (all parentheses are explicit `paren` nodes) -/
inductive Normal (B : List String) : Tree → Prop
  | atom (c) : Normal B (.atom c)
  | neg {t} : Normal B t → isBin t = false → Normal B (.neg t)
  | pos {t} : Normal B t → isBin t = false → Normal B (.pos t)
  | paren {t} : Normal B t → Normal B (.paren t)
  | bin {s l r} : s ∈ B → Normal B l → Normal B r → LeftOK s l → RightOK s r →
      Normal B (.bin s l r)

theorem isBin_norm (t : Tree) : isBin (norm t) = isBin t := by
  cases t <;> simp [norm, isBin]

theorem isBin_wrapIf_norm (t : Tree) : isBin (wrapIf (isBin t) (norm t)) = false := by
  cases e : isBin t
  · simpa [wrapIf, isBin_norm] using e
  · rfl

theorem render_eq (t : Tree) : render t = rend (norm t) := by
  induction t with
  | atom c => simp [render, norm, rend]
  | neg t ih => cases t <;> simp_all [render, norm, rend, wrapIf, isBin]
  | pos t ih => cases t <;> simp_all [render, norm, rend, wrapIf, isBin]
  | bin s l r ihl ihr =>
    simp only [render, norm, rend, wrapIf, ihl, ihr]
    cases needsParen s l true <;> cases needsParen s r false <;> simp [rend]
  | paren t ih => simp [render, norm, rend, ih]

theorem postfix_norm (t : Tree) : postfixOf (norm t) = postfixOf t := by
  induction t with
  | atom c => rfl
  | neg t ih => simp only [norm, wrapIf]; split <;> simp [postfixOf, ih]
  | pos t ih => simp only [norm, wrapIf]; split <;> simp [postfixOf, ih]
  | bin s l r ihl ihr =>
    simp only [norm, wrapIf]
    split <;> split <;> simp [postfixOf, ihl, ihr]
  | paren t ih => simp [norm, postfixOf, ih]

theorem leftOK_norm {s : String} {l : Tree} (h : needsParen s l true = false) :
    LeftOK s (norm l) := by
  intro s' a b e
  cases l with
  | bin c l1 l2 =>
    simp [norm] at e
    rw [← e.1]
    simp [needsParen] at h
    refine ⟨by omega, fun e' => ?_⟩
    simpa [isRight] using h.2 e'.symm
  | _ => simp [norm] at e

theorem rightOK_norm {s : String} {r : Tree} (h : needsParen s r false = false) :
    RightOK s (norm r) := by
  intro s' a b e
  cases r with
  | bin c l1 l2 =>
    simp [norm] at e
    rw [← e.1]
    simp [needsParen] at h
    by_cases e' : precOf c = precOf s
    · exact Or.inr ⟨e', by simpa [isRight] using h.2 e'⟩
    · exact Or.inl (by omega)
  | _ => simp [norm] at e

theorem normal_wrapIf {B : List String} {t : Tree} (b : Bool) (h : Normal B t) :
    Normal B (wrapIf b t) := by
  cases b
  · exact h
  · exact .paren h

theorem normal_norm {B : List String} : ∀ {t : Tree}, Wf B t → Normal B (norm t)
  | .atom c, _ => .atom c
  | .neg t, h => by
    exact .neg (normal_wrapIf _ (normal_norm (t := t) h)) (isBin_wrapIf_norm t)
  | .pos t, h => by
    exact .pos (normal_wrapIf _ (normal_norm (t := t) h)) (isBin_wrapIf_norm t)
  | .paren t, h => .paren (normal_norm (t := t) h)
  | .bin s l r, h => by
    obtain ⟨hs, hl, hr⟩ := h
    refine .bin hs (normal_wrapIf _ (normal_norm hl)) (normal_wrapIf _ (normal_norm hr)) ?_ ?_
    · cases e : needsParen s l true
      · exact leftOK_norm e
      · intro s' a b e'; simp [wrapIf] at e'
    · cases e : needsParen s r false
      · exact rightOK_norm e
      · intro s' a b e'; simp [wrapIf] at e'

/-! ### the left spine of a normal tree -/

/-- `a op₁ r₁ … opₙ rₙ`: the leftmost non-binary operand and the operator/right-operand pairs
met on the way back up -/
def spine : Tree → Tree × List (String × Tree)
  | .bin s l r => ((spine l).1, (spine l).2 ++ [(s, r)])
  | t => (t, [])

def toks : List (String × Tree) → List Tok
  | [] => []
  | x :: tl => .op x.1 :: (rend x.2 ++ toks tl)

def codes : List (String × Tree) → List Instr
  | [] => []
  | x :: tl => postfixOf x.2 ++ insOf x.1 ++ codes tl

theorem toks_append (a b : List (String × Tree)) : toks (a ++ b) = toks a ++ toks b := by
  induction a with
  | nil => rfl
  | cons x tl ih => simp [toks, ih]

theorem codes_append (a b : List (String × Tree)) : codes (a ++ b) = codes a ++ codes b := by
  induction a with
  | nil => rfl
  | cons x tl ih => simp [codes, ih]

theorem spine_nonbin {t : Tree} (h : isBin t = false) : spine t = (t, []) := by
  cases t <;> simp_all [spine, isBin]

theorem spine_rend (t : Tree) : rend t = rend (spine t).1 ++ toks (spine t).2 := by
  induction t with
  | bin s l r ihl ihr => simp [spine, rend, toks_append, toks]; rw [← List.append_assoc, ← ihl]
  | _ => simp [spine, toks]

theorem spine_postfix (t : Tree) :
    postfixOf t = postfixOf (spine t).1 ++ codes (spine t).2 := by
  induction t with
  | bin s l r ihl ihr =>
    simp only [spine, codes_append, codes, postfixOf_bin, List.append_nil]
    rw [ihl]; simp
  | _ => simp [spine, codes]

theorem rend_pos (t : Tree) : 0 < (rend t).length := by
  cases t <;> simp [rend] <;> omega

theorem spine_head_nonbin (t : Tree) : isBin (spine t).1 = false := by
  induction t with
  | bin s l r ihl ihr => simpa [spine] using ihl
  | _ => simp [spine, isBin]

theorem spine_head_normal {B : List String} {t : Tree} (h : Normal B t) :
    Normal B (spine t).1 := by
  induction h with
  | bin hs hl hr hL hR ihl ihr => simpa [spine] using ihl
  | atom c => exact .atom c
  | neg h e ih => exact .neg h e
  | pos h e ih => exact .pos h e
  | paren h ih => exact .paren h

/-- the spine's operators are at least as tight as the root operator -/
theorem spine_prec {B : List String} {t : Tree} (h : Normal B t) :
    ∀ s' a b, t = .bin s' a b → ∀ x ∈ (spine t).2, precOf s' ≤ precOf x.1 := by
  induction h with
  | @bin s l r hs hl hr hL hR ihl ihr =>
    intro s' a b e x hx
    cases e
    simp only [spine, List.mem_append, List.mem_singleton] at hx
    rcases hx with hx | rfl
    · cases hb : isBin l
      · rw [spine_nonbin hb] at hx; simp at hx
      · cases l <;> simp [isBin] at hb
        rename_i s2 l2 r2
        have h1 := ihl s2 l2 r2 rfl x hx
        have h2 := (hL s2 l2 r2 rfl).1
        omega
    · exact Int.le_refl _
  | _ => intro s' a b e; cases e

theorem spine_elems {B : List String} {t : Tree} (h : Normal B t) :
    ∀ x ∈ (spine t).2, x.1 ∈ B ∧ Normal B x.2 ∧ RightOK x.1 x.2 ∧
      (rend x.2).length < (rend t).length := by
  induction h with
  | @bin s l r hs hl hr hL hR ihl ihr =>
    intro x hx
    simp only [spine, List.mem_append, List.mem_singleton] at hx
    rcases hx with hx | rfl
    · obtain ⟨h1, h2, h3, h4⟩ := ihl x hx
      refine ⟨h1, h2, h3, ?_⟩
      simp [rend]; omega
    · refine ⟨hs, hr, hR, ?_⟩
      simp [rend]; omega
  | _ => intro x hx; simp [spine] at hx

theorem spine_pairwise {B : List String} {t : Tree} (h : Normal B t) :
    (spine t).2.Pairwise (fun x y => ok x.1 y.1) := by
  induction h with
  | @bin s l r hs hl hr hL hR ihl ihr =>
    simp only [spine]
    rw [List.pairwise_append]
    refine ⟨ihl, by simp, ?_⟩
    intro x hx y hy
    simp only [List.mem_singleton] at hy
    subst hy
    cases hb : isBin l
    · rw [spine_nonbin hb] at hx; simp at hx
    · cases l <;> simp [isBin] at hb
      rename_i s2 l2 r2
      have h1 := spine_prec hl s2 l2 r2 rfl x hx
      obtain ⟨h2, h3⟩ := hL s2 l2 r2 rfl
      refine ⟨by simp only; omega, fun e => h3 ?_⟩
      simp only at e; omega
  | _ => simp [spine]

/-- the spine of a right operand of `s` consists of operators that `inner s` consumes -/
theorem spine_cont {B : List String} {s : String} {t : Tree} (h : Normal B t)
    (hR : RightOK s t) : ∀ x ∈ (spine t).2, cont s x.1 := by
  intro x hx
  cases hb : isBin t
  · rw [spine_nonbin hb] at hx; simp at hx
  · cases t <;> simp [isBin] at hb
    rename_i s2 l2 r2
    have h1 := spine_prec h s2 l2 r2 rfl x hx
    rcases hR s2 l2 r2 rfl with h2 | ⟨h2, h3⟩
    · exact Or.inl (by omega)
    · by_cases e : precOf x.1 = precOf s
      · exact Or.inr ⟨e, h3⟩
      · exact Or.inl (by omega)

/-! ### what may follow a parsed piece -/

/-- the rest of the input is empty, starts with `)`, or starts with an operator of `B`
satisfying `P` -/
inductive Follow (B : List String) (P : String → Prop) : List Tok → Prop
  | nil : Follow B P []
  | rparen (tl) : Follow B P (.rparen :: tl)
  | op (s tl) : s ∈ B → P s → Follow B P (.op s :: tl)

theorem Follow.mono {B : List String} {P Q : String → Prop} {rest : List Tok}
    (h : Follow B P rest) (hPQ : ∀ s ∈ B, P s → Q s) : Follow B Q rest := by
  cases h with
  | nil => exact .nil
  | rparen tl => exact .rparen tl
  | op s tl hs hp => exact .op s tl hs (hPQ s hs hp)

/-- end of the (sub)expression: nothing or a closing parenthesis -/
abbrev Terminal (B : List String) (rest : List Tok) : Prop := Follow B (fun _ => False) rest

theorem follow_toks {B : List String} {P : String → Prop} {tl : List (String × Tree)}
    {rest : List Tok} (h : ∀ y ∈ tl, y.1 ∈ B ∧ P y.1) (hr : Follow B P rest) :
    Follow B P (toks tl ++ rest) := by
  cases tl with
  | nil => exact hr
  | cons y tl =>
    have := h y (by simp)
    exact .op _ _ this.1 this.2

theorem follow_ok_mono {B : List String} {s x : String} {rest : List Tok}
    (h : precOf s ≤ precOf x) (hr : Follow B (ok s) rest) : Follow B (ok x) rest := by
  refine hr.mono fun s' _ hs' => ⟨?_, fun e => hs'.2 ?_⟩
  · have := hs'.1; omega
  · have := hs'.1; omega

variable {B : List String}

theorem climb_stop {m : Int} {rest : List Tok} (c : List Instr) (f : Nat)
    (h : Follow B (fun s => precOf s < m) rest) : climb (f + 1) m (rest, c) = some (rest, c) := by
  cases h with
  | nil => rw [climb]
  | rparen tl => rw [climb]; simp [isBinop]
  | op s tl hs hp =>
    rw [climb]
    have : ¬ (m ≤ precOf s) := by omega
    simp [tokPrec, this]

theorem inner_stop {s : String} {rest : List Tok} (c : List Instr) (f : Nat)
    (h : Follow B (ok s) rest) : inner (f + 1) (.op s) (rest, c) = some (rest, c) := by
  cases h with
  | nil => rw [inner]
  | rparen tl => rw [inner]; simp [isBinop, isRight]
  | op s' tl hs hp =>
    rw [inner]
    obtain ⟨h1, h2⟩ := hp
    have : ¬ (precOf s < precOf s') := by omega
    by_cases e : precOf s' = precOf s
    · simp [tokPrec, this, h2 e]
    · simp [tokPrec, this, e]

/-- one iteration of `climb`'s loop -/
theorem climb_step (T : TableFacts B) {s : String} {r : Tree} {m : Int} {R : List Tok}
    {c : List Instr} {f : Nat} {st1 : St} (hs : s ∈ B) (hm : m ≤ precOf s)
    (ha : atom f (rend r ++ R, c) = some st1)
    (hi : inner f (.op s) st1 = some (R, c ++ postfixOf r)) :
    climb (f + 1) m (.op s :: (rend r ++ R), c) = climb f m (R, c ++ postfixOf r ++ insOf s) := by
  obtain ⟨i, hi'⟩ := T.hasOp s hs
  rw [climb]
  simp [T.binop s hs, tokPrec, hm, ha, hi, hi', insOf]

/-- one iteration of `inner`'s loop -/
theorem inner_step (T : TableFacts B) {s x : String} {R : List Tok} {c : List Instr} {f : Nat}
    (hs : s ∈ B) (hx : x ∈ B) (hc : cont s x) :
    inner (f + 1) (.op s) (.op x :: R, c) =
      match climb f (precOf x) (.op x :: R, c) with
      | some st1 => inner f (.op s) st1
      | none => none := by
  rw [inner]
  have : (isBinop (.op x) && decide (tokPrec (.op x) > tokPrec (.op s)) ||
      isRight (.op x) && tokPrec (.op x) == tokPrec (.op s)) = true := by
    rcases hc with h | ⟨h1, h2⟩
    · simp [T.binop x hx, tokPrec, h]
    · have := T.assoc s hs x hx h1.symm
      simp [tokPrec, h1, ← this, h2]
  rw [if_pos this]; rfl

/-- the operand lemma: `atom` then `inner s` parse the right operand `r` of `s` -/
def Opd (B : List String) (s : String) (r : Tree) : Prop :=
  ∀ rest c, Follow B (ok s) rest → ∃ st1,
    (∀ f, 2 * (rend r).length ≤ f → atom f (rend r ++ rest, c) = some st1) ∧
    (∀ f, 2 * (rend r).length + 2 ≤ f →
      inner f (.op s) st1 = some (rest, c ++ postfixOf r))

theorem toks_cons_append (x : String × Tree) (tl : List (String × Tree)) (rest : List Tok) :
    toks (x :: tl) ++ rest = .op x.1 :: (rend x.2 ++ (toks tl ++ rest)) := by
  simp [toks]

theorem toks_cons_length (x : String × Tree) (tl : List (String × Tree)) :
    (toks (x :: tl)).length = 1 + (rend x.2).length + (toks tl).length := by
  simp [toks]; omega

/-- `climb m` consumes a whole chain of operators of precedence `≥ m` -/
theorem climb_all (T : TableFacts B) {m : Int} {rest : List Tok} :
    ∀ (ops : List (String × Tree)) (c : List Instr),
      (∀ x ∈ ops, x.1 ∈ B ∧ m ≤ precOf x.1 ∧ Opd B x.1 x.2) →
      ops.Pairwise (fun x y => ok x.1 y.1) →
      (∀ x ∈ ops, Follow B (ok x.1) rest) →
      Follow B (fun s => precOf s < m) rest →
      ∀ f, 2 * (toks ops).length + 1 ≤ f →
        climb f m (toks ops ++ rest, c) = some (rest, c ++ codes ops) := by
  intro ops
  induction ops with
  | nil =>
    intro c _ _ _ hr f hf
    obtain ⟨f, rfl⟩ : ∃ f', f = f' + 1 := ⟨f - 1, by omega⟩
    simpa [toks, codes] using climb_stop c f hr
  | cons x tl ih =>
    intro c hops hpw hfo hr f hf
    rw [toks_cons_length] at hf
    obtain ⟨f, rfl⟩ : ∃ f', f = f' + 1 := ⟨f - 1, by omega⟩
    obtain ⟨hxB, hxm, hxO⟩ := hops x (by simp)
    rw [List.pairwise_cons] at hpw
    have hF : Follow B (ok x.1) (toks tl ++ rest) :=
      follow_toks (fun y hy => ⟨(hops y (by simp [hy])).1, hpw.1 y hy⟩) (hfo x (by simp))
    obtain ⟨st1, h1, h2⟩ := hxO (toks tl ++ rest) c hF
    rw [toks_cons_append, climb_step T hxB hxm (h1 f (by omega)) (h2 f (by omega))]
    rw [ih _ (fun y hy => hops y (by simp [hy])) hpw.2 (fun y hy => hfo y (by simp [hy])) hr f
      (by omega)]
    simp [codes]

/-- `climb m` called from `inner s` on the rest of the operand's spine, followed by the
remaining iterations of `inner s` -/
theorem chain_inner (T : TableFacts B) {s : String} (hs : s ∈ B) {rest : List Tok}
    (hr : Follow B (ok s) rest) :
    ∀ (ops : List (String × Tree)) (c : List Instr),
      (∀ x ∈ ops, x.1 ∈ B ∧ cont s x.1 ∧ Opd B x.1 x.2) →
      ops.Pairwise (fun x y => ok x.1 y.1) →
      ∀ m : Int, (precOf s < m ∨ (m = precOf s ∧ isRight (.op s) = true)) →
      ∃ st1, (∀ f, 2 * (toks ops).length + 1 ≤ f → climb f m (toks ops ++ rest, c) = some st1) ∧
        (∀ f, 2 * (toks ops).length + 2 ≤ f →
          inner f (.op s) st1 = some (rest, c ++ codes ops)) := by
  intro ops
  induction ops with
  | nil =>
    intro c _ _ m hm
    refine ⟨(rest, c), fun f hf => ?_, fun f hf => ?_⟩
    · obtain ⟨f, rfl⟩ : ∃ f', f = f' + 1 := ⟨f - 1, by omega⟩
      simp only [toks, List.nil_append]
      refine climb_stop c f (hr.mono fun s' hs' ⟨h1, h2⟩ => ?_)
      rcases hm with hm | ⟨hm, hright⟩
      · omega
      · by_cases e : precOf s' = precOf s
        · have := T.assoc s' hs' s hs e
          rw [h2 e, hright] at this
          cases this
        · omega
    · obtain ⟨f, rfl⟩ : ∃ f', f = f' + 1 := ⟨f - 1, by omega⟩
      simpa [codes] using inner_stop c f hr
  | cons x tl ih =>
    intro c hops hpw m hm
    obtain ⟨hxB, hxc, hxO⟩ := hops x (by simp)
    rw [List.pairwise_cons] at hpw
    have hsx : precOf s ≤ precOf x.1 := by
      rcases hxc with h | ⟨h, _⟩ <;> omega
    have hF : Follow B (ok x.1) (toks tl ++ rest) :=
      follow_toks (fun y hy => ⟨(hops y (by simp [hy])).1, hpw.1 y hy⟩) (follow_ok_mono hsx hr)
    -- the case where `climb m` takes `x`
    have C1 : ∀ m : Int, (precOf s < m ∨ (m = precOf s ∧ isRight (.op s) = true)) →
        m ≤ precOf x.1 →
        ∃ st1, (∀ f, 2 * (toks (x :: tl)).length + 1 ≤ f →
            climb f m (toks (x :: tl) ++ rest, c) = some st1) ∧
          (∀ f, 2 * (toks tl).length + 2 ≤ f →
            inner f (.op s) st1 = some (rest, c ++ codes (x :: tl))) := by
      intro m hm hmx
      obtain ⟨sta, ha1, ha2⟩ := hxO (toks tl ++ rest) c hF
      obtain ⟨st1, h1, h2⟩ := ih (c ++ postfixOf x.2 ++ insOf x.1)
        (fun y hy => hops y (by simp [hy])) hpw.2 m hm
      refine ⟨st1, fun f hf => ?_, fun f hf => ?_⟩
      · rw [toks_cons_length] at hf
        obtain ⟨f, rfl⟩ : ∃ f', f = f' + 1 := ⟨f - 1, by omega⟩
        rw [toks_cons_append, climb_step T hxB hmx (ha1 f (by omega)) (ha2 f (by omega))]
        exact h1 f (by omega)
      · rw [h2 f hf]; simp [codes]
    by_cases hmx : m ≤ precOf x.1
    · obtain ⟨st1, h1, h2⟩ := C1 m hm hmx
      refine ⟨st1, h1, fun f hf => h2 f ?_⟩
      rw [toks_cons_length] at hf; omega
    · refine ⟨(toks (x :: tl) ++ rest, c), fun f hf => ?_, fun f hf => ?_⟩
      · obtain ⟨f, rfl⟩ : ∃ f', f = f' + 1 := ⟨f - 1, by omega⟩
        rw [toks_cons_append]
        exact climb_stop c f (.op _ _ hxB (by omega))
      · obtain ⟨st1, h1, h2⟩ := C1 (precOf x.1) hxc (Int.le_refl _)
        rw [toks_cons_length] at hf
        obtain ⟨f, rfl⟩ : ∃ f', f = f' + 1 := ⟨f - 1, by omega⟩
        rw [toks_cons_append, inner_step T hs hxB hxc, ← toks_cons_append,
          h1 f (by rw [toks_cons_length]; omega)]
        exact h2 f (by omega)

/-- the specification of `atom` on a non-binary tree -/
def AtomSpec (a : Tree) : Prop :=
  ∀ (rest : List Tok) (c : List Instr) (f : Nat), 2 * (rend a).length ≤ f →
    atom f (rend a ++ rest, c) = some (rest, c ++ postfixOf a)

/-- the specification of `expression` -/
def ExprSpec (B : List String) (t : Tree) : Prop :=
  ∀ (rest : List Tok) (c : List Instr) (f : Nat), Terminal B rest →
    2 * (rend t).length + 2 ≤ f →
    expression f (rend t ++ rest, c) = some (rest, c ++ postfixOf t)

/-- the operand lemma from the specification of its pieces -/
theorem opd_of_spine (T : TableFacts B) {s : String} {r : Tree} (hs : s ∈ B)
    (hA : AtomSpec (spine r).1)
    (hops : ∀ x ∈ (spine r).2, x.1 ∈ B ∧ cont s x.1 ∧ Opd B x.1 x.2)
    (hpw : (spine r).2.Pairwise (fun x y => ok x.1 y.1)) : Opd B s r := by
  intro rest c hF
  have hr := spine_rend r
  have hp := spine_postfix r
  have ha := rend_pos (spine r).1
  generalize (spine r).1 = a at *
  generalize (spine r).2 = ops at *
  rw [hr, hp]
  cases ops with
  | nil =>
    refine ⟨(rest, c ++ postfixOf a), fun f hf => ?_, fun f hf => ?_⟩
    · simpa [toks] using hA rest c f (by simpa [toks] using hf)
    · obtain ⟨f, rfl⟩ : ∃ f', f = f' + 1 := ⟨f - 1, by omega⟩
      simpa [codes] using inner_stop (c ++ postfixOf a) f hF
  | cons x tl =>
    obtain ⟨hxB, hxc, -⟩ := hops x (by simp)
    obtain ⟨st1, h1, h2⟩ := chain_inner T hs hF (x :: tl) (c ++ postfixOf a) hops hpw
      (precOf x.1) hxc
    refine ⟨(toks (x :: tl) ++ rest, c ++ postfixOf a), fun f hf => ?_, fun f hf => ?_⟩
    · rw [List.append_assoc]
      exact hA _ c f (by rw [List.length_append] at hf; omega)
    · rw [List.length_append] at hf
      obtain ⟨f, rfl⟩ : ∃ f', f = f' + 1 := ⟨f - 1, by omega⟩
      rw [toks_cons_append, inner_step T hs hxB hxc, ← toks_cons_append, h1 f (by omega)]
      simp only
      rw [h2 f (by omega), List.append_assoc]

/-- `expression` from the specification of the pieces -/
theorem expr_of_spine (T : TableFacts B) {t : Tree}
    (hA : AtomSpec (spine t).1)
    (hops : ∀ x ∈ (spine t).2, x.1 ∈ B ∧ Opd B x.1 x.2)
    (hpw : (spine t).2.Pairwise (fun x y => ok x.1 y.1)) : ExprSpec B t := by
  intro rest c f hT hf
  have hr := spine_rend t
  have hp := spine_postfix t
  have ha := rend_pos (spine t).1
  generalize (spine t).1 = a at *
  generalize (spine t).2 = ops at *
  rw [hr, List.length_append] at hf
  obtain ⟨f, rfl⟩ : ∃ f', f = f' + 1 := ⟨f - 1, by omega⟩
  rw [hr, hp, expression, List.append_assoc, hA _ c f (by omega)]
  simp only
  rw [climb_all T ops (c ++ postfixOf a)
    (fun x hx => ⟨(hops x hx).1, T.nonneg _ (hops x hx).1, (hops x hx).2⟩) hpw
    (fun x _ => hT.mono fun _ _ h => h.elim) (hT.mono fun _ _ h => h.elim) f (by omega),
    List.append_assoc]

/-- `atom` on the non-binary trees, from the specifications of the children -/
theorem atom_of_children {t : Tree} (hb : isBin t = false)
    (hneg : ∀ u, t = .neg u → AtomSpec u) (hpos : ∀ u, t = .pos u → AtomSpec u)
    (hpar : ∀ u, t = .paren u → ExprSpec B u) : AtomSpec t := by
  intro rest c f hf
  cases t with
  | atom code =>
    simp only [rend, List.length_singleton] at hf
    obtain ⟨f, rfl⟩ : ∃ f', f = f' + 1 := ⟨f - 1, by omega⟩
    simp [rend, postfixOf, atom]
  | neg u =>
    simp only [rend, List.length_cons] at hf
    obtain ⟨f, rfl⟩ : ∃ f', f = f' + 1 := ⟨f - 1, by omega⟩
    simp only [rend, List.cons_append, postfixOf]
    rw [atom, hneg u rfl rest c f (by omega)]
    simp
  | pos u =>
    simp only [rend, List.length_cons] at hf
    obtain ⟨f, rfl⟩ : ∃ f', f = f' + 1 := ⟨f - 1, by omega⟩
    simp only [rend, List.cons_append, postfixOf]
    rw [atom, hpos u rfl rest c f (by omega)]
  | paren u =>
    simp only [rend, List.length_cons, List.length_append] at hf
    obtain ⟨f, rfl⟩ : ∃ f', f = f' + 1 := ⟨f - 1, by omega⟩
    simp only [rend, List.cons_append, List.append_assoc, List.nil_append, postfixOf]
    rw [atom, hpar u rfl (.rparen :: rest) c f (.rparen rest) (by omega)]
  | bin s l r => simp [isBin] at hb

/-- all three specifications, by induction on the number of tokens -/
theorem main (T : TableFacts B) : ∀ (n : Nat) (t : Tree), (rend t).length ≤ n → Normal B t →
    (isBin t = false → AtomSpec t) ∧ (∀ s ∈ B, RightOK s t → Opd B s t) ∧ ExprSpec B t := by
  intro n
  induction n with
  | zero => intro t h; have := rend_pos t; omega
  | succ n ih =>
    have hA : ∀ t, (rend t).length ≤ n + 1 → Normal B t → isBin t = false → AtomSpec t := by
      intro t hn hN hb
      refine atom_of_children (B := B) hb ?_ ?_ ?_
      · rintro u rfl
        cases hN with
        | neg hu hbu => exact (ih u (by simp [rend] at hn; omega) hu).1 hbu
      · rintro u rfl
        cases hN with
        | pos hu hbu => exact (ih u (by simp [rend] at hn; omega) hu).1 hbu
      · rintro u rfl
        cases hN with
        | paren hu => exact (ih u (by simp [rend] at hn; omega) hu).2.2
    intro t hn hN
    have hlen : (rend (spine t).1).length ≤ (rend t).length := by
      have := congrArg List.length (spine_rend t)
      rw [List.length_append] at this; omega
    have hA' : AtomSpec (spine t).1 :=
      hA _ (by omega) (spine_head_normal hN) (spine_head_nonbin t)
    have hO : ∀ x ∈ (spine t).2, x.1 ∈ B ∧ Opd B x.1 x.2 := by
      intro x hx
      obtain ⟨h1, h2, h3, h4⟩ := spine_elems hN x hx
      exact ⟨h1, (ih x.2 (by omega) h2).2.1 x.1 h1 h3⟩
    refine ⟨hA t hn hN, fun s hs hR => ?_, ?_⟩
    · exact opd_of_spine T hs hA'
        (fun x hx => ⟨(hO x hx).1, spine_cont hN hR x hx, (hO x hx).2⟩) (spine_pairwise hN)
    · exact expr_of_spine T hA' hO (spine_pairwise hN)

/-- the parser inverts `render`, for any table with the `TableFacts` -/
theorem parse_render (T : TableFacts B) {t : Tree} (h : Wf B t) :
    parse (render t) = some (postfixOf t) := by
  have hE := (main T _ (norm t) (Nat.le_refl _) (normal_norm h)).2.2
  have := hE [] [] (4 * (rend (norm t)).length + 4) .nil (by omega)
  rw [List.append_nil, List.nil_append, postfix_norm] at this
  rw [parse, render_eq, this]

end Bardolph.ExprParse.Climb
