import Bardolph.Proofs.SimLoad
import Bardolph.Proofs.SimVals
import Bardolph.Proofs.ClosedLoad
import Bardolph.Proofs.ClosedSplit
/-!
Routine definitions at the top level of a script and the loader.

The compiled script is a sequence of *items*: the code of a statement of the main program, or a
routine section `ROUTINE f; body; END f`.  `Loader.load` moves the sections in front of the main
code and relocates the jumps of the main code; here: what exactly the image is (`load_items`),
that the jumps of an item whose jumps stay inside the item are left as they are, where the
routine bodies sit and what the routine table says (`routinesAt_items`).
-/
namespace Bardolph
namespace Sim
open Vm VmSteps Sem Gen

variable {V : String → Prop}

/-! ## items -/

inductive Item where
  | main (c : List Instr)
  | sec (n : String) (body : List Instr)

def Item.code : Item → List Instr
  | .main c => c
  | .sec n b => Closed.Load.render (n, b)

def Item.bits : Item → List Bool
  | .main c => List.replicate c.length false
  | .sec _ b => List.replicate (b.length + 2) true

def progOf (its : List Item) : List Instr := its.flatMap Item.code
def bitsOf (its : List Item) : List Bool := its.flatMap Item.bits

def mainOf : List Item → List Instr
  | [] => []
  | .main c :: r => c ++ mainOf r
  | .sec _ _ :: r => mainOf r

def secsOf : List Item → List (String × List Instr)
  | [] => []
  | .main _ :: r => secsOf r
  | .sec n b :: r => (n, b) :: secsOf r

theorem Item.length_bits (it : Item) : it.bits.length = it.code.length := by
  cases it <;> simp [Item.bits, Item.code]

theorem length_bitsOf (its : List Item) : (bitsOf its).length = (progOf its).length := by
  induction its with
  | nil => rfl
  | cons it r ih =>
    simp only [bitsOf, progOf, List.flatMap_cons, List.length_append, Item.length_bits] at ih ⊢
    rw [ih]

/-- every jump of the code stays inside it (or leads to its end) -/
def JClosed (c : List Instr) : Prop :=
  ∀ (k : Nat) (cnd : JumpCond) (off : Int), c[k]? = some (Instr.jump cnd off) →
    0 ≤ (k : Int) + off ∧ (k : Int) + off ≤ c.length

structure ItemsOK (its : List Item) : Prop where
  main : ∀ c, .main c ∈ its → c.all Instr.plainI = true ∧ JClosed c
  sec : ∀ n b, .sec n b ∈ its → b.all Instr.plainI = true

theorem ItemsOK.tail {it : Item} {r : List Item} (h : ItemsOK (it :: r)) : ItemsOK r :=
  ⟨fun c hc => h.main c (by simp [hc]), fun n b hb => h.sec n b (by simp [hb])⟩

/-! ## `classify` -/

theorem cend_plain (xs : List Instr) (h : xs.all Instr.plainI = true) :
    Closed.cend none xs = none := by
  induction xs with
  | nil => rfl
  | cons x r ih =>
    simp only [List.all_cons, Bool.and_eq_true] at h
    have : Closed.cnext none x = none := by
      cases x <;> simp_all [Closed.cnext, Closed.isRoutine, Instr.plainI]
    simp only [Closed.cend, this]
    exact ih h.2

theorem classify_inside (n : String) (xs : List Instr) (h : xs.all Instr.plainI = true) :
    Loader.classify (some n) xs = List.replicate xs.length true ∧ Closed.cend (some n) xs = some n := by
  induction xs with
  | nil => exact ⟨rfl, rfl⟩
  | cons x r ih =>
    simp only [List.all_cons, Bool.and_eq_true] at h
    have hn : Closed.cnext (some n) x = some n := by
      cases x <;> simp_all [Closed.cnext, Closed.isEnd, Instr.plainI]
    have := ih h.2
    simp only [Closed.classify_cons, Closed.cend, hn, this.1, this.2, Closed.cbit,
      List.length_cons, List.replicate_succ, and_self]

theorem classify_sec (n : String) (b : List Instr) (h : b.all Instr.plainI = true) :
    Loader.classify none (Closed.Load.render (n, b)) = List.replicate (b.length + 2) true ∧
      Closed.cend none (Closed.Load.render (n, b)) = none := by
  have hb := classify_inside n b h
  simp only [Closed.Load.render, Closed.classify_cons, Closed.cbit, Closed.isRoutine, Closed.cnext,
    Closed.classify_append, hb.1, hb.2, Closed.cend, Closed.cend_append, Closed.isEnd]
  constructor
  · simp only [Loader.classify, List.replicate_succ, Option.isSome_some, BEq.rfl, if_true,
      Closed.classify_cons, Closed.cbit, List.cons.injEq, true_and]
    first
      | rw [← List.replicate_succ', List.replicate_succ]
      | (simp; rw [← List.replicate_succ', List.replicate_succ])
  · simp

theorem classify_items (its : List Item) (h : ItemsOK its) :
    Loader.classify none (progOf its) = bitsOf its ∧ Closed.cend none (progOf its) = none := by
  induction its with
  | nil => exact ⟨rfl, rfl⟩
  | cons it r ih =>
    have := ih h.tail
    cases it with
    | main c =>
      have hc := (h.main c (by simp)).1
      simp only [progOf, bitsOf, List.flatMap_cons, Item.code, Item.bits] at this ⊢
      rw [Closed.classify_append, Closed.cend_append, cend_plain c hc, classify_plain c hc]
      exact ⟨by rw [this.1], this.2⟩
    | sec n b =>
      have hb := classify_sec n b (h.sec n b (by simp))
      simp only [progOf, bitsOf, List.flatMap_cons, Item.code, Item.bits] at this ⊢
      rw [Closed.classify_append, Closed.cend_append, hb.1, hb.2]
      exact ⟨by rw [this.1], this.2⟩

/-! ## the routine segment -/

theorem routineSegment_append (xs ys : List Instr) (bs cs : List Bool) (h : bs.length = xs.length) :
    Loader.routineSegment (xs ++ ys) (bs ++ cs) =
      Loader.routineSegment xs bs ++ Loader.routineSegment ys cs := by
  simp only [Loader.routineSegment]
  rw [List.zip_append h.symm, List.filter_append, List.map_append]

theorem routineSegment_true (xs : List Instr) :
    Loader.routineSegment xs (List.replicate xs.length true) = xs := by
  induction xs with
  | nil => rfl
  | cons x r ih =>
    simp only [Loader.routineSegment] at ih ⊢
    simp only [List.length_cons, List.replicate_succ, List.zip_cons_cons, List.filter_cons, BEq.rfl,
      if_true, List.map_cons, ih]

theorem routineSegment_false (xs : List Instr) :
    Loader.routineSegment xs (List.replicate xs.length false) = [] := by
  unfold Loader.routineSegment
  rw [zip_filter_false]; rfl

theorem routineSegment_items (its : List Item) :
    Loader.routineSegment (progOf its) (bitsOf its) = (secsOf its).flatMap Closed.Load.render := by
  induction its with
  | nil => rfl
  | cons it r ih =>
    simp only [progOf, bitsOf, List.flatMap_cons] at ih ⊢
    rw [routineSegment_append _ _ _ _ it.length_bits, ih]
    cases it with
    | main c => simp only [Item.code, Item.bits, routineSegment_false, secsOf, List.nil_append]
    | sec n b =>
      have : (Item.sec n b).bits = List.replicate (Item.sec n b).code.length true := by
        simp [Item.bits, Item.code]
      rw [this, routineSegment_true]
      simp only [Item.code, secsOf, List.flatMap_cons]

/-! ## the main segment -/

theorem mainAux_append (f : Instr → Nat → Instr) (xs ys : List Instr) (bs cs : List Bool) (i : Nat)
    (h : bs.length = xs.length) :
    Closed.Load.mainAux f (xs ++ ys) (bs ++ cs) i =
      Closed.Load.mainAux f xs bs i ++ Closed.Load.mainAux f ys cs (i + xs.length) := by
  induction xs generalizing bs i with
  | nil =>
    cases bs with
    | nil => simp [Closed.Load.mainAux]
    | cons _ _ => simp at h
  | cons x r ih =>
    cases bs with
    | nil => simp at h
    | cons b bs =>
      have := ih bs (i + 1) (by simpa using h)
      have e : i + 1 + r.length = i + (r.length + 1) := by omega
      cases b <;> simp [Closed.Load.mainAux, this, e]

theorem mainAux_true (f : Instr → Nat → Instr) (xs : List Instr) (i : Nat) :
    Closed.Load.mainAux f xs (List.replicate xs.length true) i = [] := by
  induction xs generalizing i with
  | nil => simp [Closed.Load.mainAux]
  | cons x r ih => simp [Closed.Load.mainAux, List.replicate_succ, ih]

theorem mainAux_false (f : Instr → Nat → Instr) (xs : List Instr) (i : Nat)
    (h : ∀ k x, xs[k]? = some x → f x (i + k) = x) :
    Closed.Load.mainAux f xs (List.replicate xs.length false) i = xs := by
  induction xs generalizing i with
  | nil => simp [Closed.Load.mainAux]
  | cons x r ih =>
    have h0 := h 0 x (by simp)
    have hr := ih (i + 1) fun k y hy => by
      have := h (k + 1) y (by simpa using hy)
      rw [← this]; congr 1; omega
    simp only [Nat.add_zero] at h0
    simp [Closed.Load.mainAux, List.replicate_succ, hr, h0]

theorem mainPos_append (bs cs : List Bool) (j : Nat) :
    Loader.mainPos (bs ++ cs) (bs.length + j) = Loader.mainPos bs bs.length + Loader.mainPos cs j := by
  induction bs with
  | nil => simp
  | cons b r ih =>
    have e : (b :: r).length + j = (r.length + j) + 1 := by simp; omega
    rw [List.cons_append, e, Closed.Load.mainPos_cons_succ, ih, List.length_cons,
      Closed.Load.mainPos_cons_succ]
    omega

theorem mainPos_false_prefix (n : Nat) (cs : List Bool) (j : Nat) (hj : j ≤ n) :
    Loader.mainPos (List.replicate n false ++ cs) j = j := by
  induction n generalizing j with
  | zero => have : j = 0 := by omega
            subst this; simp
  | succ n ih =>
    cases j with
    | zero => simp
    | succ j =>
      rw [List.replicate_succ, List.cons_append, Closed.Load.mainPos_cons_succ, ih j (by omega)]
      simp; omega

/-- a jump that stays inside a main item is left as it is by the relocation -/
theorem reloc_closed (P : List Instr) (B : List Bool) (hPB : B.length = P.length) (c : List Instr)
    (hc : JClosed c) (rest : List Instr) (cs : List Bool) (k : Nat) (x : Instr)
    (hx : c[k]? = some x) :
    Closed.Load.reloc (P ++ (c ++ rest)) (B ++ (List.replicate c.length false ++ cs)) x
      (P.length + k) = x := by
  cases x with
  | jump cnd off =>
    obtain ⟨h0, h1⟩ := hc k cnd off hx
    have hk : k < c.length := by
      rcases Nat.lt_or_ge k c.length with h | h
      · exact h
      · rw [List.getElem?_eq_none h] at hx; cases hx
    simp only [Closed.Load.reloc]
    split
    · have e1 : (((P.length + k : Nat) : Int) + off).toNat = B.length + ((k : Int) + off).toNat := by
        omega
      have e2 : P.length + k = B.length + k := by omega
      rw [e1, e2, mainPos_append, mainPos_append, mainPos_false_prefix _ _ _ (by omega),
        mainPos_false_prefix _ _ _ (by omega)]
      congr 1
      omega
    · rfl
  | _ => rfl

theorem mainAux_items (its : List Item) (h : ItemsOK its) (P : List Instr) (B : List Bool)
    (hPB : B.length = P.length) :
    Closed.Load.mainAux (Closed.Load.reloc (P ++ progOf its) (B ++ bitsOf its)) (progOf its)
      (bitsOf its) P.length = mainOf its := by
  induction its generalizing P B with
  | nil => simp [progOf, bitsOf, mainOf, Closed.Load.mainAux]
  | cons it r ih =>
    have hr := ih h.tail (P ++ it.code) (B ++ it.bits) (by simp [hPB, it.length_bits])
    simp only [progOf, bitsOf, List.flatMap_cons] at hr ⊢
    rw [mainAux_append _ _ _ _ _ _ it.length_bits]
    simp only [List.append_assoc, List.length_append] at hr
    rw [hr]
    cases it with
    | main c =>
      simp only [Item.code, Item.bits, mainOf]
      rw [mainAux_false]
      intro k x hx
      exact reloc_closed P B hPB c (h.main c (by simp)).2 _ _ k x hx
    | sec n b =>
      have : (Item.sec n b).bits = List.replicate (Item.sec n b).code.length true := by
        simp [Item.bits, Item.code]
      rw [this, mainAux_true]
      simp only [mainOf, List.nil_append]

theorem mainSegment_items (its : List Item) (h : ItemsOK its) :
    Loader.mainSegment (progOf its) (bitsOf its) = mainOf its := by
  rw [Closed.Load.mainSegment_eq]
  have := mainAux_items its h [] [] rfl
  simpa using this

/-! ## the image -/

theorem isRoutine_plain {x : Instr} (h : Instr.plainI x = true) : Closed.isRoutine x = none := by
  cases x <;> simp_all [Closed.isRoutine, Instr.plainI]

/-- the loaded image of a sequence of items -/
theorem load_items (its : List Item) (h : ItemsOK its) :
    Loader.load (progOf its) =
      if secsOf its = [] then ⟨(mainOf its).toArray, []⟩
      else
        ⟨(Instr.jump .always (((secsOf its).flatMap Closed.Load.render).length + 1) ::
            ((secsOf its).flatMap Closed.Load.render ++ mainOf its)).toArray,
          ((Closed.Load.secSpans 1 (secsOf its)).map fun p => (p.1, p.2.1)).reverse⟩ := by
  unfold Loader.load
  simp only [(classify_items its h).1, routineSegment_items, mainSegment_items its h]
  by_cases hs : secsOf its = []
  · simp [hs]
  · obtain ⟨sec0, rest, hsecs⟩ := List.exists_cons_of_ne_nil hs
    have hne : ((secsOf its).flatMap Closed.Load.render).isEmpty = false := by
      rw [hsecs]; simp [List.flatMap_cons, Closed.Load.render]
    have htab : Loader.routineTable ((secsOf its).flatMap Closed.Load.render) =
        (Closed.Load.secSpans 1 (secsOf its)).map (fun p => (p.1, p.2.1)) := by
      have hsec : ∀ sec ∈ secsOf its, ∀ x ∈ sec.2, Closed.isRoutine x = none := by
        intro sec hsec x hx
        have : Item.sec sec.1 sec.2 ∈ its := by
          clear hs hsecs hne h
          induction its with
          | nil => simp [secsOf] at hsec
          | cons it r ih =>
            cases it with
            | main c => simp only [secsOf] at hsec; simp [ih hsec]
            | sec n b =>
              simp only [secsOf, List.mem_cons] at hsec
              rcases hsec with rfl | hsec
              · simp
              · simp [ih hsec]
        exact isRoutine_plain (List.all_eq_true.mp (h.sec _ _ this) x hx)
      have := Closed.Load.routineTable_secs (secsOf its) 0 hsec
      simp only [Nat.zero_add] at this
      exact this
    simp only [hne, hs, if_false, htab]
    rfl

/-! ## where the routine bodies are, and what the routine table says -/

/-- two lists related element by element -/
inductive Par {α β : Type} (P : α → β → Prop) : List α → List β → Prop
  | nil : Par P [] []
  | cons {a : α} {b : β} {l1 : List α} {l2 : List β} : P a b → Par P l1 l2 → Par P (a :: l1) (b :: l2)

theorem find_rev_forall2 {α β : Type} {P : α → β → Prop} {ka : α → String} {kb : β → String}
    (hk : ∀ a b, P a b → ka a = kb b) {l1 : List α} {l2 : List β} (h : Par P l1 l2)
    (name : String) :
    (l1.reverse.find? (fun a => ka a == name) = none ∧
        l2.reverse.find? (fun b => kb b == name) = none) ∨
      ∃ a b, l1.reverse.find? (fun a => ka a == name) = some a ∧
        l2.reverse.find? (fun b => kb b == name) = some b ∧ P a b := by
  induction h with
  | nil => left; simp
  | @cons a b l1 l2 hab _ ih =>
    simp only [List.reverse_cons, List.find?_append]
    rcases ih with ⟨h1, h2⟩ | ⟨a', b', h1, h2, hp⟩
    · rw [h1, h2]
      by_cases hn : (ka a == name) = true
      · right
        exact ⟨a, b, by simp [hn], by simp [← hk a b hab, hn], hab⟩
      · left
        simp [hn, ← hk a b hab]
    · right
      exact ⟨a', b', by simp [h1], by simp [h2], hp⟩

/-- the sections laid out from address `off` of `code`: the table entry of each points at its body,
which is followed by its `END` -/
theorem spans_forall2 {δ : Type} (g : δ → String × List Instr) (code : Array Instr) :
    ∀ (ds : List δ) (off : Nat),
      (∀ j, j < ((ds.map g).flatMap Closed.Load.render).length →
        code[off + j]? = ((ds.map g).flatMap Closed.Load.render)[j]?) →
      Par (fun d (p : String × Nat) => (g d).1 = p.1 ∧
          ∀ j, (hj : j < ((g d).2 ++ [Instr.end_ (g d).1]).length) →
            code[p.2 + j]? = some (((g d).2 ++ [Instr.end_ (g d).1])[j]))
        ds ((Closed.Load.secSpans off (ds.map g)).map fun p => (p.1, p.2.1)) := by
  intro ds
  induction ds with
  | nil => intro off _; exact .nil
  | cons d rest ih =>
    intro off hcode
    have hlen : ((d :: rest).map g).flatMap Closed.Load.render =
        .routine (g d).1 :: (((g d).2 ++ [.end_ (g d).1]) ++ (rest.map g).flatMap Closed.Load.render) := by
      simp [List.flatMap_cons, Closed.Load.render]
    rw [hlen] at hcode
    simp only [List.map_cons, Closed.Load.secSpans]
    refine .cons ⟨rfl, ?_⟩ ?_
    · intro j hj
      have := hcode (1 + j) (by simp only [List.length_cons, List.length_append] at hj ⊢; omega)
      rw [Nat.add_comm 1 j, List.getElem?_cons_succ, List.getElem?_append_left hj,
        List.getElem?_eq_getElem hj] at this
      rw [← this]; congr 1; omega
    · refine ih (off + ((g d).2.length + 2)) ?_
      intro j hj
      have := hcode (((g d).2.length + 1 + j) + 1) (by
        simp only [List.length_cons, List.length_append, List.length_nil]; omega)
      rw [List.getElem?_cons_succ, List.getElem?_append_right (by simp)] at this
      simp only [List.length_append, List.length_cons, List.length_nil, Nat.zero_add,
        Nat.add_sub_cancel_left] at this
      rw [← this]; congr 1; omega

/-! ## scripts whose routine definitions are at the top level -/

def defOf : Stmt → Option (String × List String × Block)
  | .defRoutine n ps body => some (n, ps, body)
  | _ => none

theorem defOf_some {st : Stmt} {d : String × List String × Block} (h : defOf st = some d) :
    st = .defRoutine d.1 d.2.1 d.2.2 := by
  cases st <;> simp [defOf] at h
  subst h; rfl

/-- a top-level statement: a routine definition whose body is in the fragment (and ends with a
`return` if the routine may be called for its value), or a statement of the fragment -/
def TopStmt (V : String → Prop) (st : Stmt) : Prop :=
  match defOf st with
  | some (n, _, body) => FragBlock V body ∧ (V n → EndsRet body)
  | none => FragStmt V st

def TopBlock (V : String → Prop) : Block → Prop
  | .nil => True
  | .cons st rest => TopStmt V st ∧ TopBlock V rest

def itemOf (st : Stmt) : Item :=
  match defOf st with
  | some (n, _, body) => .sec n ((genBlock body).map Closed.gi)
  | none => .main ((genStmt st).map Closed.gi)

def itemsOf : Block → List Item
  | .nil => []
  | .cons st rest => itemOf st :: itemsOf rest

theorem progOf_itemsOf : ∀ (b : Block), progOf (itemsOf b) = (genBlock b).map Closed.gi
  | .nil => rfl
  | .cons st rest => by
    have ih := progOf_itemsOf rest
    simp only [progOf, itemsOf, List.flatMap_cons, genBlock, List.map_append] at ih ⊢
    rw [ih]
    congr 1
    cases hd : defOf st with
    | none => simp only [itemOf, hd, Item.code]
    | some d =>
      rw [defOf_some hd]
      simp [itemOf, defOf, Item.code, Closed.Load.render, genStmt, ins, Closed.gi, List.map_append]

/-- a statement of the fragment defines no routines -/
theorem collect_cons_frag (st : Stmt) (rest : Block) (h : FragStmt V st) :
    Sem.collect (.cons st rest) = Sem.collect rest := by
  cases st with
  | defRoutine n ps body => exact absurd h (by simp [FragStmt])
  | ite c t e =>
    cases e with
    | none =>
      have ht := collect_frag t h.2.1
      simp only [Sem.collect, ht, List.nil_append]
    | some e =>
      have ht := collect_frag t h.2.1
      have he := collect_frag e h.2.2
      simp only [Sem.collect, ht, he, List.nil_append]
  | repeat_ hd body =>
    have hb := collect_frag body h.2
    simp only [Sem.collect, hb, List.nil_append]
  | action k w ops =>
    have ho := collectOps_frag ops h
    simp only [Sem.collect, ho, List.nil_append]
  | _ => simp only [Sem.collect]

/-- the code of a routine as the loader sees it -/
def secOfDef (d : String × Sem.Routine) : String × List Instr :=
  (d.1, (genBlock d.2.body).map Closed.gi)

theorem secsOf_itemsOf : ∀ (b : Block), TopBlock V b →
    secsOf (itemsOf b) = (Sem.collect b).map secOfDef ∧
      ∀ d ∈ Sem.collect b, FragBlock V d.2.body ∧ (V d.1 → EndsRet d.2.body)
  | .nil, _ => ⟨rfl, by simp [Sem.collect]⟩
  | .cons st rest, h => by
    have ih := secsOf_itemsOf rest h.2
    have h1 := h.1
    cases hd : defOf st with
    | none =>
      simp only [TopStmt, hd] at h1
      rw [collect_cons_frag st rest h1]
      simp only [itemsOf, itemOf, hd, secsOf]
      exact ih
    | some d =>
      obtain ⟨n, ps, body⟩ := d
      have := defOf_some hd
      subst this
      simp only [TopStmt, defOf] at h1
      simp only [itemsOf, itemOf, defOf, secsOf, Sem.collect, List.map_cons, secOfDef, ih.1,
        List.mem_cons, true_and]
      rintro d (rfl | hd')
      · exact h1
      · exact ih.2 d hd'

/-! ## the items of a script are as `load_items` wants them -/

/-- no `break` marker is left (what `Gen.genProgram` checks) -/
def NoBrk (c : Code) : Prop := ∀ g ∈ c, g ≠ G.brk

theorem NoBrk.left {a b : Code} (h : NoBrk (a ++ b)) : NoBrk a := fun g hg => h g (by simp [hg])
theorem NoBrk.right {a b : Code} (h : NoBrk (a ++ b)) : NoBrk b := fun g hg => h g (by simp [hg])

theorem resolve_noBrk (c : Code) (h : NoBrk c) (pc : Nat) (ex : Int) :
    resolve c pc ex = c.map Closed.gi := by
  induction c generalizing pc with
  | nil => rfl
  | cons g r ih =>
    have hr := ih (fun g' hg' => h g' (by simp [hg'])) (pc + 1)
    cases g with
    | brk => exact absurd rfl (h .brk (by simp))
    | i x => simp only [resolve, hr, List.map_cons, Closed.gi]

theorem noBrk_of_mapM (c : Code) (prog : List Instr)
    (h : (c.mapM fun g => match g with | .i x => some x | .brk => none) = some prog) : NoBrk c := by
  induction c generalizing prog with
  | nil => intro g hg; simp at hg
  | cons g rest ih =>
    cases g with
    | brk => simp [List.mapM_cons] at h
    | i x =>
      simp only [List.mapM_cons, Option.pure_def, Option.bind_eq_bind, Option.bind_some] at h
      cases hr : rest.mapM (fun g => match g with | .i x => some x | .brk => none) with
      | none => simp [hr] at h
      | some p' =>
        intro g hg
        rcases List.mem_cons.mp hg with rfl | hg
        · simp
        · exact ih p' hr g hg

theorem all_map_gi {c : Code} (h : nr c = true) : (c.map Closed.gi).all Instr.plainI = true := by
  induction c with
  | nil => rfl
  | cons g r ih =>
    simp only [nr, List.all_cons, Bool.and_eq_true] at h
    have := ih (by simpa [nr] using h.2)
    cases g with
    | brk => simp only [List.map_cons, List.all_cons, this, Closed.gi, Instr.plainI, Bool.and_self]
    | i x => simp only [List.map_cons, List.all_cons, this, Closed.gi, h.1, Bool.and_self]

/-- closed code (in the sense of the checker's scanner, `Closed.ClosedB`) without routine markers:
its jumps stay inside it -/
theorem jclosed_of_closed {K : List String} {c : Code} {a : Wf.Abs}
    (h : Closed.ClosedB false false K c (none, a) (none, a))
    (hp : (c.map Closed.gi).all Instr.plainI = true) : JClosed (c.map Closed.gi) := by
  intro k cnd off hk
  rw [List.getElem?_map] at hk
  cases hg : c[k]? with
  | none => simp [hg] at hk
  | some g =>
    simp only [hg, Option.map_some, Option.some.injEq] at hk
    cases g with
    | brk => exact absurd (h.brks k hg).1 (by simp)
    | i x =>
      simp only [Closed.gi] at hk
      subst hk
      have hrun : (Closed.run false K c (none, a) k).1 = none := by
        have h1 := Closed.classify_run h.ok hg
        rw [classify_plain _ hp] at h1
        cases hst : (Closed.run false K c (none, a) k).1 with
        | none => rfl
        | some n =>
          rw [hst] at h1
          have hk' : k < c.length := by
            rcases Nat.lt_or_ge k c.length with h' | h'
            · exact h'
            · rw [List.getElem?_eq_none h'] at hg; cases hg
          simp [Closed.cbit, List.getElem?_replicate, hk'] at h1
      have := h.jumps k cnd off hg hrun
      exact ⟨this.1, by simpa using this.2.1⟩

theorem ItemsOK.cons {it : Item} {r : List Item} (hr : ItemsOK r)
    (hm : ∀ c, it = .main c → c.all Instr.plainI = true ∧ JClosed c)
    (hs : ∀ n b, it = .sec n b → b.all Instr.plainI = true) : ItemsOK (it :: r) := by
  constructor
  · intro c hc
    rcases List.mem_cons.mp hc with h | h
    · exact hm c h.symm
    · exact hr.main c h
  · intro n b hb
    rcases List.mem_cons.mp hb with h | h
    · exact hs n b h.symm
    · exact hr.sec n b h

theorem itemsOK_of {K : List String} : ∀ (b : Block), TopBlock V b →
    Closed.wsBlock K false false false b = true → ItemsOK (itemsOf b)
  | .nil, _, _ => ⟨fun c hc => by simp [itemsOf] at hc, fun n b hb => by simp [itemsOf] at hb⟩
  | .cons st rest, h, hws => by
    simp only [Closed.wsBlock, Bool.and_eq_true] at hws
    have ih := itemsOK_of rest h.2 hws.2
    have h1 := h.1
    simp only [itemsOf]
    refine ih.cons ?_ ?_
    · intro c hc
      cases hd : defOf st with
      | some d => simp [itemOf, hd] at hc
      | none =>
        simp only [itemOf, hd, Item.main.injEq] at hc
        subst hc
        simp only [TopStmt, hd] at h1
        have hp := all_map_gi (nr_genStmt st h1)
        exact ⟨hp, jclosed_of_closed
          (Closed.closed_stmt st false false false hws.1 Wf.Abs.empty Closed.Entry.empty) hp⟩
    · intro n b hb
      cases hd : defOf st with
      | none => simp [itemOf, hd] at hb
      | some d =>
        obtain ⟨n', ps, body⟩ := d
        simp only [itemOf, hd, Item.sec.injEq] at hb
        simp only [TopStmt, hd] at h1
        rw [← hb.2]
        exact all_map_gi (nr_genBlock body h1.1)

/-- the bodies of the definitions have no `break` marker left if the script has none -/
theorem noBrk_defs : ∀ (b : Block), TopBlock V b → NoBrk (genBlock b) →
    ∀ d ∈ Sem.collect b, NoBrk (genBlock d.2.body)
  | .nil, _, _ => by simp [Sem.collect]
  | .cons st rest, h, hn => by
    rw [genBlock] at hn
    have ih := noBrk_defs rest h.2 hn.right
    have h1 := h.1
    cases hd : defOf st with
    | none =>
      simp only [TopStmt, hd] at h1
      rw [collect_cons_frag st rest h1]
      exact ih
    | some d =>
      obtain ⟨n, ps, body⟩ := d
      have := defOf_some hd
      subst this
      simp only [Sem.collect, List.mem_cons]
      rintro d (rfl | hd')
      · have := hn.left
        rw [genStmt] at this
        exact this.left.right
      · exact ih d hd'

/-- **the routines of a loaded script.**  In the image the loader makes of a script whose routine
definitions are at the top level, the routine table leads, for every name, to the code of the
body of the LAST definition of that name (as `Sem.run` has it), followed by its `END`. -/
theorem routinesAt_top (b : Block) (hb : TopBlock V b) (hok : ItemsOK (itemsOf b))
    (hnb : NoBrk (genBlock b)) :
    RoutinesAt V (Loader.load (progOf (itemsOf b))) (Sem.collect b).reverse := by
  obtain ⟨hsecs, hfrag⟩ := secsOf_itemsOf b hb
  rw [load_items _ hok]
  by_cases hs : secsOf (itemsOf b) = []
  · rw [if_pos hs]
    have : Sem.collect b = [] := by
      rw [hsecs] at hs
      exact List.map_eq_nil_iff.mp hs
    rw [this]
    exact fun name => rfl
  · rw [if_neg hs]
    generalize himg : Image.mk _ _ = img
    have hcode : ∀ j, j < (((Sem.collect b).map secOfDef).flatMap Closed.Load.render).length →
        img.code[1 + j]? = (((Sem.collect b).map secOfDef).flatMap Closed.Load.render)[j]? := by
      intro j hj
      subst himg
      rw [← hsecs] at hj ⊢
      simp only []
      rw [List.getElem?_toArray, Nat.add_comm 1 j, List.getElem?_cons_succ,
        List.getElem?_append_left hj]
    have hpar := spans_forall2 secOfDef img.code (Sem.collect b) 1 hcode
    intro name
    rcases find_rev_forall2 (ka := fun d => d.1) (kb := fun p => p.1)
      (fun d p hp => by simpa [secOfDef] using hp.1) hpar name with ⟨h1, h2⟩ | ⟨d, p, h1, h2, hp⟩
    · rw [h1]
      simp only [Image.routine?]
      subst himg
      simp only [← hsecs] at h2
      simp only [h2, Option.map_none]
    · rw [h1]
      obtain ⟨n, rt⟩ := d
      have hmem : (n, rt) ∈ Sem.collect b :=
        List.mem_reverse.mp (List.mem_of_find?_eq_some h1)
      refine ⟨(hfrag _ hmem).1, ?_, p.2, n, ?_, ?_⟩
      · have hname : n = name := by
          have := List.find?_some h1
          simpa using this
        rw [← hname]
        exact (hfrag _ hmem).2
      · simp only [Image.routine?]
        subst himg
        simp only [← hsecs] at h2
        simp only [h2, Option.map_some]
      · rw [resolve_noBrk _ (noBrk_defs b hb hnb _ hmem)]
        intro k hk
        exact hp.2 k hk

/-! ## helpers for concrete scripts -/

/-- a block of the fragment is a top-level block (without definitions) -/
theorem topBlock_of_frag : ∀ (b : Block), FragBlock V b → TopBlock V b
  | .nil, _ => trivial
  | .cons st rest, h => by
    refine ⟨?_, topBlock_of_frag rest h.2⟩
    cases hd : defOf st with
    | none => simp only [TopStmt, hd]; exact h.1
    | some d =>
      have := h.1
      rw [defOf_some hd] at this
      exact absurd this (by simp [FragStmt])

theorem genBlock_of_genProgram {b : Block} {code : List Instr} (h : genProgram b = some code) :
    genBlock b = ins code := by
  have hn := noBrk_of_mapM _ _ h
  have hr := resolve_of_mapM _ _ h 0 (0 : Nat)
  rw [resolve_noBrk _ hn] at hr
  rw [← hr]
  generalize genBlock b = c at hn
  induction c with
  | nil => rfl
  | cons g r ih =>
    have := ih fun g' hg' => hn g' (by simp [hg'])
    cases g with
    | brk => exact absurd rfl (hn .brk (by simp))
    | i x => simp only [List.map_cons, Closed.gi, Closed.ins_cons, ← this]

/-- the compiled script with a definition in front -/
theorem genProgram_cons_def {n : String} {ps : List String} {body rest : Block} {bc rc : List Instr}
    (hb : genProgram body = some bc) (hr : genProgram rest = some rc) :
    genProgram (.cons (.defRoutine n ps body) rest) =
      some ([Instr.routine n] ++ bc ++ [Instr.end_ n] ++ rc) := by
  apply genProgram_of_ins
  rw [genBlock, genStmt, genBlock_of_genProgram hb, genBlock_of_genProgram hr]
  simp only [Closed.ins_append]

end Sim
end Bardolph
