import Bardolph.Model.Vm
/-!
Control abstraction of the VM model (used by `Props/C05.lean`).

The control state of a VM state is its program counter and the *shapes* of its frames
(`loop`, `pend`, `call ret`).  This file proves, instruction by instruction, how
`Vm.execInstr` and `Vm.step` act on the control state:

* a data instruction leaves it alone (`Same`), whatever status it ends in, and if it faults
  the fault is not one of the control faults (`ctlFault`);
* each control instruction changes it in exactly one way, or raises exactly its own control
  fault when the frame on top has the wrong shape.
-/
namespace Bardolph
namespace Ctl
open Vm

inductive FShape where
  | loop
  | pend
  | call (ret : Nat)
  deriving DecidableEq, Repr, Inhabited

def shapeOf : Frame → FShape
  | .loop _ _ => .loop
  | .pending _ => .pend
  | .call _ ret => .call ret

/-- the frame shapes of a state, top first -/
def shapes (s : State) : List FShape := s.stack.map shapeOf

/-- the messages of the faults that mean "control went wrong" -/
def ctlFault (w : String) : Bool :=
  w == "pc negative" || w == "END_LOOP without loop frame" || w == "return outside a routine" ||
  w == "JSR without CTX" || w == "PARAM without CTX" || w == "ROUTINE executed" ||
  w == "indirect jump" || "unknown routine ".toList.isPrefixOf w.toList ||
  "bad instruction ".toList.isPrefixOf w.toList

theorem ctlFault_unknown (n : String) : ctlFault ("unknown routine " ++ n) = true := by
  simp [ctlFault, String.toList_append]

theorem ctlFault_bad (n : String) : ctlFault ("bad instruction " ++ n) = true := by
  simp [ctlFault, String.toList_append]

/-- statuses a data instruction may end in: still running, an uninterpreted operation, or a
fault that is not a control fault -/
def dataStatus : Status → Bool
  | .running => true
  | .halted => false
  | .uninterpreted _ => true
  | .fault w => !ctlFault w

/-- `s'` has the control state of `s`, and a data status if `s` had one -/
structure Same (s s' : State) : Prop where
  pc : s'.pc = s.pc
  sh : shapes s' = shapes s
  st : dataStatus s.status = true → dataStatus s'.status = true

theorem Same.rfl {s : State} : Same s s := ⟨_root_.rfl, _root_.rfl, id⟩

theorem Same.trans {s t u : State} (h₁ : Same s t) (h₂ : Same t u) : Same s u :=
  ⟨h₂.pc.trans h₁.pc, h₂.sh.trans h₁.sh, fun h => h₂.st (h₁.st h)⟩

/-- closes `Same s s'` when `s'` is `s` with non-control fields changed / a literal data fault -/
macro "same_leaf" : tactic =>
  `(tactic| first
    | exact ⟨rfl, rfl, id⟩
    | exact ⟨rfl, rfl, fun _ => rfl⟩
    | exact ⟨rfl, rfl, fun _ => by decide⟩)

theorem same_setReg (s : State) (r : Reg) (v : Val) : Same s (s.setReg r v) := by same_leaf
theorem same_emit (s : State) (e : Event) : Same s (s.emit e) := by same_leaf
theorem same_updLight (s : State) (n : String) (f : Light → Light) : Same s (s.updLight n f) := by
  same_leaf

theorem same_sendColor (s : State) (n : String) (raw : List Val) (dur : Val) :
    Same s (s.sendColor n raw dur) := by
  unfold State.sendColor; split <;> same_leaf

theorem same_sendPower (s : State) (n : String) (p : Int) (dur : Val) :
    Same s (s.sendPower n p dur) := by
  unfold State.sendPower; split <;> same_leaf

theorem same_foldl {α : Type} (f : State → α → State) (hf : ∀ s a, Same s (f s a)) (xs : List α)
    (s : State) : Same s (xs.foldl f s) := by
  induction xs generalizing s with
  | nil => exact Same.rfl
  | cons x xs ih => exact (hf s x).trans (ih _)

theorem same_colorMultiple (s : State) (names : List String) : Same s (s.colorMultiple names) := by
  unfold State.colorMultiple
  split
  · apply same_foldl
    intro st n
    split
    · exact same_sendColor ..
    · exact Same.rfl
  · same_leaf

theorem same_powerMultiple (s : State) (names : List String) : Same s (s.powerMultiple names) := by
  unfold State.powerMultiple
  split
  · apply same_foldl
    intro st n
    split
    · exact same_sendPower ..
    · exact Same.rfl
  · same_leaf

theorem same_storeColor (s : State) (c : List Val) : Same s (s.storeColor c) := by
  unfold State.storeColor
  split
  · split <;> same_leaf
  · same_leaf

theorem same_doColor (s : State) : Same s s.doColor := by
  unfold State.doColor
  repeat' (first | split | dsimp only)
  all_goals first
    | same_leaf
    | exact same_colorMultiple ..

theorem same_doPower (s : State) : Same s s.doPower := by
  unfold State.doPower
  repeat' (first | split | dsimp only)
  all_goals first
    | same_leaf
    | exact same_powerMultiple ..

theorem same_doGetColor (s : State) : Same s s.doGetColor := by
  unfold State.doGetColor
  repeat' (first | split | dsimp only)
  all_goals first
    | same_leaf
    | exact (same_emit ..).trans (same_storeColor ..)

theorem same_switchMode (s : State) (m : UnitMode) : Same s (s.switchMode m) := by
  unfold State.switchMode
  repeat' (first | split | dsimp only)
  all_goals first
    | same_leaf
    | exact (same_setReg ..).trans (same_storeColor ..)
    | exact (((same_setReg ..).trans (same_storeColor ..)).trans (same_setReg ..)).trans
        (same_setReg ..)

theorem same_doOp (s : State) (o : Operator) : Same s (s.doOp o) := by
  unfold State.doOp
  repeat' (first | split | dsimp only)
  all_goals same_leaf

/-! ### variables -/

theorem shapes_setActivation (st : List Frame) (d : Dict) :
    (setActivation st d).map shapeOf = st.map shapeOf := by
  induction st with
  | nil => rfl
  | cons f rest ih => cases f <;> simp [setActivation, shapeOf, ih]

theorem same_putVariable (s : State) (n : String) (v : Val) : Same s (s.putVariable n v) := by
  unfold State.putVariable
  repeat' (first | split | dsimp only)
  all_goals first
    | same_leaf
    | exact ⟨rfl, shapes_setActivation .., id⟩
    | (refine ⟨rfl, ?_, id⟩; simp_all [shapes, shapeOf])

theorem same_putLoopVar (s : State) (l : LoopVar) (v : Val) : Same s (s.putLoopVar l v) := by
  unfold State.putLoopVar
  split
  · refine ⟨rfl, ?_, id⟩; simp_all [shapes, shapeOf]
  · same_leaf

theorem same_put (s : State) (d : Dst) (v : Val) : Same s (s.put d v) := by
  cases d with
  | reg r => exact same_setReg ..
  | var n => exact same_putVariable ..
  | loopVar l => exact same_putLoopVar ..

/-! ### instructions -/

/-- instructions that touch the control state (or are never executed in a checked image) -/
def isCtl : Instr → Bool
  | .jump .. | .loop | .endLoop | .ctx | .param .. | .jsr _ | .ret | .end_ _ | .endMatrix
  | .routine _ | .bad _ | .stop => true
  | _ => false

theorem exec_data (img : Image) (s : State) (i : Instr) (h : isCtl i = false) :
    Same s (execInstr img s i) := by
  cases i <;> (try (simp [isCtl] at h; done)) <;> simp only [execInstr]
  all_goals repeat' (first | split | dsimp only)
  all_goals first
    | same_leaf
    | exact same_doColor ..
    | exact same_doPower ..
    | exact same_doGetColor ..
    | exact same_doOp ..
    | exact same_put ..
    | exact same_switchMode ..
    | exact same_setReg ..
    | exact same_emit ..
    | (refine Same.trans ?_ (same_put ..); same_leaf)

/-- `step` does not advance the pc after these -/
def keepsPc : Instr → Bool
  | .end_ _ | .endMatrix | .jsr _ | .jump _ _ => true
  | _ => false

theorem step_eq {img : Image} {s : State} {i : Instr} (hst : s.status = .running)
    (hpc : 0 ≤ s.pc) (hc : img.code[s.pc.toNat]? = some i) (hi : i ≠ .stop) :
    step img s =
      if (execInstr img s i).status != .running then execInstr img s i
      else if keepsPc i then execInstr img s i
      else { execInstr img s i with pc := (execInstr img s i).pc + 1 } := by
  unfold step
  have h1 : ¬ s.pc < 0 := by omega
  simp only [hst, h1, hc]
  cases i <;> simp_all [keepsPc]

theorem step_running {img : Image} {s : State} {i : Instr} (hst : s.status = .running)
    (hpc : 0 ≤ s.pc) (hc : img.code[s.pc.toNat]? = some i) (hi : i ≠ .stop)
    (hr : (execInstr img s i).status = .running) :
    step img s = if keepsPc i then execInstr img s i
      else { execInstr img s i with pc := (execInstr img s i).pc + 1 } := by
  rw [step_eq hst hpc hc hi]; simp [hr]

theorem step_stopped {img : Image} {s : State} {i : Instr} (hst : s.status = .running)
    (hpc : 0 ≤ s.pc) (hc : img.code[s.pc.toNat]? = some i) (hi : i ≠ .stop)
    (hr : (execInstr img s i).status ≠ .running) : step img s = execInstr img s i := by
  rw [step_eq hst hpc hc hi]; simp [hr]

theorem step_halts {img : Image} {s : State} (hst : s.status = .running) (hpc : 0 ≤ s.pc)
    (hc : img.code[s.pc.toNat]? = none) : step img s = { s with status := .halted } := by
  unfold step
  have h1 : ¬ s.pc < 0 := by omega
  simp [hst, h1, hc]

/-- what a step from `s` ended in: still running with control state `(pc', sh')`, or stopped
on a data status (not a control fault, not `halted`) with the control state of `s` -/
def Outcome (s s' : State) (pc' : Int) (sh' : List FShape) : Prop :=
  (s'.status = .running ∧ s'.pc = pc' ∧ shapes s' = sh') ∨
  (s'.status ≠ .running ∧ dataStatus s'.status = true ∧ s'.pc = s.pc ∧ shapes s' = shapes s)

section
variable {img : Image} {s : State}

theorem step_data {i : Instr} (hst : s.status = .running) (hpc : 0 ≤ s.pc)
    (hc : img.code[s.pc.toNat]? = some i) (hd : isCtl i = false) :
    Outcome s (step img s) (s.pc + 1) (shapes s) := by
  have hs := exec_data img s i hd
  have hi : i ≠ .stop := by rintro rfl; simp [isCtl] at hd
  have hk : keepsPc i = false := by cases i <;> simp_all [isCtl, keepsPc]
  by_cases hr : (execInstr img s i).status = .running
  · rw [step_running hst hpc hc hi hr]
    simp only [hk]
    exact .inl ⟨hr, by simp [hs.pc], hs.sh⟩
  · rw [step_stopped hst hpc hc hi hr]
    exact .inr ⟨hr, hs.st (by simp [hst, dataStatus]), hs.pc, hs.sh⟩

theorem step_jump {c : JumpCond} {off : Int} (hst : s.status = .running) (hpc : 0 ≤ s.pc)
    (hc : img.code[s.pc.toNat]? = some (.jump c off)) (hind : c ≠ .indirect) :
    Outcome s (step img s) (s.pc + off) (shapes s) ∨
      (c ≠ .always ∧ Outcome s (step img s) (s.pc + 1) (shapes s)) := by
  have hi : Instr.jump c off ≠ .stop := by simp
  have hb : (c == JumpCond.indirect) = false := by simpa using hind
  have he : execInstr img s (.jump c off) = { s with pc := s.pc + off } ∨
      (c ≠ .always ∧ execInstr img s (.jump c off) = { s with pc := s.pc + 1 }) := by
    simp only [execInstr, hb]
    cases c <;> simp at hind ⊢ <;> cases (s.regs Reg.result).truthy <;> simp
  rcases he with he | ⟨hc', he⟩
  · have hr : (execInstr img s (.jump c off)).status = .running := by rw [he]; exact hst
    rw [step_running hst hpc hc hi hr, he]
    exact .inl (.inl ⟨hst, rfl, rfl⟩)
  · have hr : (execInstr img s (.jump c off)).status = .running := by rw [he]; exact hst
    rw [step_running hst hpc hc hi hr, he]
    exact .inr ⟨hc', .inl ⟨hst, rfl, rfl⟩⟩

theorem step_loop (hst : s.status = .running) (hpc : 0 ≤ s.pc)
    (hc : img.code[s.pc.toNat]? = some .loop) :
    Outcome s (step img s) (s.pc + 1) (.loop :: shapes s) := by
  have hr : (execInstr img s .loop).status = .running := hst
  rw [step_running hst hpc hc (by simp) hr]
  exact .inl ⟨hst, rfl, rfl⟩

theorem step_ctx (hst : s.status = .running) (hpc : 0 ≤ s.pc)
    (hc : img.code[s.pc.toNat]? = some .ctx) :
    Outcome s (step img s) (s.pc + 1) (.pend :: shapes s) := by
  have hr : (execInstr img s .ctx).status = .running := hst
  rw [step_running hst hpc hc (by simp) hr]
  exact .inl ⟨hst, rfl, rfl⟩

theorem step_endMatrix (hst : s.status = .running) (hpc : 0 ≤ s.pc)
    (hc : img.code[s.pc.toNat]? = some .endMatrix) :
    Outcome s (step img s) (s.pc + 1) (shapes s) := by
  have hr : (execInstr img s .endMatrix).status = .running := hst
  rw [step_running hst hpc hc (by simp) hr]
  exact .inl ⟨hst, rfl, rfl⟩

theorem stack_of_loop {r : List FShape} (h : shapes s = .loop :: r) :
    ∃ v ht rest, s.stack = .loop v ht :: rest ∧ rest.map shapeOf = r := by
  unfold shapes at h
  match hs : s.stack, h with
  | .loop v ht :: rest, h => exact ⟨v, ht, rest, rfl, by simpa [shapeOf] using h⟩
  | .pending _ :: _, h => simp [shapeOf] at h
  | .call _ _ :: _, h => simp [shapeOf] at h
  | [], h => simp at h

theorem stack_of_pend {r : List FShape} (h : shapes s = .pend :: r) :
    ∃ ps rest, s.stack = .pending ps :: rest ∧ rest.map shapeOf = r := by
  unfold shapes at h
  match hs : s.stack, h with
  | .pending ps :: rest, h => exact ⟨ps, rest, rfl, by simpa [shapeOf] using h⟩
  | .loop _ _ :: _, h => simp [shapeOf] at h
  | .call _ _ :: _, h => simp [shapeOf] at h
  | [], h => simp at h

theorem step_endLoop {r : List FShape} (hst : s.status = .running) (hpc : 0 ≤ s.pc)
    (hc : img.code[s.pc.toNat]? = some .endLoop) (hsh : shapes s = .loop :: r) :
    Outcome s (step img s) (s.pc + 1) r := by
  obtain ⟨v, ht, rest, hs, hrest⟩ := stack_of_loop hsh
  have he : execInstr img s .endLoop = { s with stack := rest, eval := trimEval s.eval ht } := by
    simp only [execInstr, hs]
  have hr : (execInstr img s .endLoop).status = .running := by rw [he]; exact hst
  rw [step_running hst hpc hc (by simp) hr, he]
  exact .inl ⟨hst, rfl, hrest⟩

theorem step_param {n : String} {src : Src} {r : List FShape} (hst : s.status = .running)
    (hpc : 0 ≤ s.pc) (hc : img.code[s.pc.toNat]? = some (.param n src))
    (hsh : shapes s = .pend :: r) : Outcome s (step img s) (s.pc + 1) (shapes s) := by
  obtain ⟨ps, rest, hs, hrest⟩ := stack_of_pend hsh
  have he : execInstr img s (.param n src) =
      { s with stack := .pending (ps.put n (s.read src)) :: rest } := by
    simp only [execInstr, hs]
  have hr : (execInstr img s (.param n src)).status = .running := by rw [he]; exact hst
  rw [step_running hst hpc hc (by simp) hr, he]
  refine .inl ⟨hst, rfl, ?_⟩
  simp [shapes, hs, shapeOf, keepsPc]

/-- a built-in that exists never answers "unknown routine" (nor any other control fault) -/
theorem callBuiltin_fault {name : String} {args : List Val} {d : Nat} {w : String}
    (hb : builtinParams name ≠ none) (h : callBuiltin name args d = .fault w) :
    ctlFault w = false := by
  unfold callBuiltin at h
  split at h
  all_goals repeat' (first | split at h | dsimp only at h)
  all_goals first
    | (cases h; done)
    | (injection h with h; subst h; decide)
    | skip
  cases hn : builtinParams name <;> simp_all

theorem step_jsr_user {name : String} {addr : Nat} {r : List FShape} (hst : s.status = .running)
    (hpc : 0 ≤ s.pc) (hc : img.code[s.pc.toNat]? = some (.jsr name))
    (hsh : shapes s = .pend :: r) (hu : img.routine? name = some addr) :
    Outcome s (step img s) addr (.call (s.pc + 1).toNat :: r) := by
  obtain ⟨ps, rest, hs, hrest⟩ := stack_of_pend hsh
  have he : execInstr img s (.jsr name) =
      { s with stack := .call ps (s.pc + 1).toNat :: rest, pc := addr } := by
    simp only [execInstr, hs, hu]
  have hr : (execInstr img s (.jsr name)).status = .running := by rw [he]; exact hst
  rw [step_running hst hpc hc (by simp) hr, he]
  refine .inl ⟨hst, rfl, ?_⟩
  simp [shapes, shapeOf, keepsPc, hrest]

theorem step_jsr_builtin {name : String} {r : List FShape} (hst : s.status = .running)
    (hpc : 0 ≤ s.pc) (hc : img.code[s.pc.toNat]? = some (.jsr name))
    (hsh : shapes s = .pend :: r) (hu : img.routine? name = none)
    (hb : builtinParams name ≠ none) : Outcome s (step img s) (s.pc + 1) r := by
  obtain ⟨ps, rest, hs, hrest⟩ := stack_of_pend hsh
  obtain ⟨names, hn⟩ := Option.ne_none_iff_exists'.mp hb
  have hi : Instr.jsr name ≠ .stop := by simp
  cases hcb : callBuiltin name (names.map fun n => (ps.get n).getD .none) s.draws with
  | val v =>
    have he : execInstr img s (.jsr name) =
        { ((if name == "random" then { s with draws := s.draws + 1 } else s).setReg .result v)
          with stack := rest, pc := s.pc + 1 } := by
      simp only [execInstr, hs, hu, hn, hcb]
      split <;> rfl
    have ht : (if name == "random" then { s with draws := s.draws + 1 } else s).status
        = .running := by split <;> exact hst
    have hr : (execInstr img s (.jsr name)).status = .running := by
      rw [he]; exact ht
    rw [step_running hst hpc hc hi hr, he]
    exact .inl ⟨ht, rfl, hrest⟩
  | fault w =>
    have he : execInstr img s (.jsr name) = s.fault w := by
      simp only [execInstr, hs, hu, hn, hcb]
    have hr : (execInstr img s (.jsr name)).status ≠ .running := by rw [he]; simp [State.fault]
    rw [step_stopped hst hpc hc hi hr, he]
    refine .inr ⟨by simp [State.fault], ?_, rfl, rfl⟩
    simp [State.fault, dataStatus, callBuiltin_fault hb hcb]
  | uninterpreted w =>
    have he : execInstr img s (.jsr name) = { s with status := .uninterpreted w } := by
      simp only [execInstr, hs, hu, hn, hcb]
    have hr : (execInstr img s (.jsr name)).status ≠ .running := by rw [he]; simp
    rw [step_stopped hst hpc hc hi hr, he]
    exact .inr ⟨by simp, rfl, rfl, rfl⟩

theorem popLoops_of_shapes (st : List Frame) (ls : List FShape) (ret : Nat) (r : List FShape)
    (hl : ∀ x ∈ ls, x = .loop) (h : st.map shapeOf = ls ++ .call ret :: r) :
    ∃ d rest, popLoops st = .call d ret :: rest ∧ rest.map shapeOf = r := by
  induction ls generalizing st with
  | nil =>
    match st, h with
    | .call d ret' :: rest, h =>
      simp [shapeOf] at h
      exact ⟨d, rest, by simp [popLoops, h.1], h.2⟩
    | .loop _ _ :: _, h => simp [shapeOf] at h
    | .pending _ :: _, h => simp [shapeOf] at h
    | [], h => simp at h
  | cons x ls ih =>
    have hx : x = .loop := hl x (by simp)
    subst hx
    match st, h with
    | .loop _ _ :: rest, h =>
      simp [shapeOf] at h
      obtain ⟨d, rest', h1, h2⟩ := ih rest (fun y hy => hl y (by simp [hy])) h
      exact ⟨d, rest', by simp [popLoops, h1], h2⟩
    | .call _ _ :: _, h => simp [shapeOf] at h
    | .pending _ :: _, h => simp [shapeOf] at h
    | [], h => simp at h

theorem doReturn_of_shapes {ls : List FShape} {ret : Nat} {r : List FShape}
    (hl : ∀ x ∈ ls, x = .loop) (h : shapes s = ls ++ .call ret :: r) :
    s.doReturn.status = s.status ∧ s.doReturn.pc = ret ∧ shapes s.doReturn = r := by
  obtain ⟨d, rest, hp, hrest⟩ := popLoops_of_shapes s.stack ls ret r hl h
  unfold State.doReturn
  rw [hp]
  exact ⟨rfl, rfl, hrest⟩

theorem step_ret {ls : List FShape} {ret : Nat} {r : List FShape} (hst : s.status = .running)
    (hpc : 0 ≤ s.pc) (hc : img.code[s.pc.toNat]? = some .ret)
    (hl : ∀ x ∈ ls, x = .loop) (hsh : shapes s = ls ++ .call ret :: r) :
    Outcome s (step img s) (ret + 1) r := by
  obtain ⟨h1, h2, h3⟩ := doReturn_of_shapes hl hsh
  have hr : (execInstr img s .ret).status = .running := by simp only [execInstr, h1, hst]
  rw [step_running hst hpc hc (by simp) hr]
  simp only [execInstr, keepsPc]
  exact .inl ⟨by simpa [hst] using h1, by simp [h2], h3⟩

theorem step_end {nm : String} {ls : List FShape} {ret : Nat} {r : List FShape}
    (hst : s.status = .running)
    (hpc : 0 ≤ s.pc) (hc : img.code[s.pc.toNat]? = some (.end_ nm))
    (hl : ∀ x ∈ ls, x = .loop) (hsh : shapes s = ls ++ .call ret :: r) :
    Outcome s (step img s) ret r := by
  obtain ⟨h1, h2, h3⟩ := doReturn_of_shapes hl hsh
  have hr : (execInstr img s (.end_ nm)).status = .running := by simp only [execInstr, h1, hst]
  rw [step_running hst hpc hc (by simp) hr]
  simp only [execInstr, keepsPc]
  exact .inl ⟨by simpa [hst] using h1, h2, h3⟩

end

end Ctl
end Bardolph
