import Bardolph.Proofs.SimTop
/-!
The loader's main segment of generated code, with routine definitions nested anywhere.

`mloc c` is what `Loader.mainSegment` makes of a piece of code `c` taken by itself: the items
outside routine sections, every (non-indirect) jump given the distance between the new positions
of its source and its target.  For code whose jumps stay inside it (`JC`) this is also what the
loader makes of the piece inside any larger program (`mctx_closed`), so `mloc` can be computed
piece by piece (`InCtx`), and the three shapes with jumps across sub-blocks — `genIf` with and
without `else`, `assembleLoop` with its patched `break`s — are mapped to themselves
(`mloc_genIf_none`, `mloc_genIf_some`, `mloc_assembleLoop`).
-/
namespace Bardolph
namespace Sim
open Vm VmSteps Sem Gen
open Loader (mainPos)

/-! ## the main part of a list, polymorphic -/

def mainAuxP {α : Type} (f : α → Nat → α) : List α → List Bool → Nat → List α
  | x :: xs, b :: bs, i => if b then mainAuxP f xs bs (i + 1) else f x i :: mainAuxP f xs bs (i + 1)
  | _, _, _ => []

section P
variable {α : Type} (f : α → Nat → α)

theorem mainAuxP_nil (bs : List Bool) (i : Nat) : mainAuxP f [] bs i = [] := by
  cases bs <;> rfl

theorem mainAuxP_append (xs ys : List α) (bs cs : List Bool) (i : Nat) (h : bs.length = xs.length) :
    mainAuxP f (xs ++ ys) (bs ++ cs) i = mainAuxP f xs bs i ++ mainAuxP f ys cs (i + xs.length) := by
  induction xs generalizing bs i with
  | nil =>
    cases bs with
    | nil => simp [mainAuxP]
    | cons _ _ => simp at h
  | cons x r ih =>
    cases bs with
    | nil => simp at h
    | cons b bs =>
      have := ih bs (i + 1) (by simpa using h)
      have e : i + 1 + r.length = i + (r.length + 1) := by omega
      cases b <;> simp [mainAuxP, this, e]

theorem mainAuxP_true (xs : List α) (i : Nat) :
    mainAuxP f xs (List.replicate xs.length true) i = [] := by
  induction xs generalizing i with
  | nil => simp [mainAuxP]
  | cons x r ih => simp [mainAuxP, List.replicate_succ, ih]

theorem mainAuxP_congr (g : α → Nat → α) (xs : List α) (bs : List Bool) (i j : Nat)
    (h : ∀ k x, xs[k]? = some x → bs[k]? = some false → f x (i + k) = g x (j + k)) :
    mainAuxP f xs bs i = mainAuxP g xs bs j := by
  induction xs generalizing bs i j with
  | nil => simp [mainAuxP_nil]
  | cons x r ih =>
    cases bs with
    | nil => simp [mainAuxP]
    | cons b bs =>
      have hr := ih bs (i + 1) (j + 1) fun k y hy hb => by
        have := h (k + 1) y (by simpa using hy) (by simpa using hb)
        have e1 : i + 1 + k = i + (k + 1) := by omega
        have e2 : j + 1 + k = j + (k + 1) := by omega
        rw [e1, e2]; exact this
      cases b with
      | true => simp [mainAuxP, hr]
      | false =>
        have h0 := h 0 x (by simp) (by simp)
        simp only [Nat.add_zero] at h0
        simp [mainAuxP, hr, h0]

theorem mainAuxP_length (xs : List α) (bs : List Bool) (i : Nat) (h : bs.length = xs.length) :
    (mainAuxP f xs bs i).length = mainPos bs xs.length := by
  induction xs generalizing bs i with
  | nil => simp [mainAuxP_nil]
  | cons x0 xs ih =>
    cases bs with
    | nil => simp at h
    | cons b bs =>
      have := ih (bs := bs) (i := i + 1) (by simpa using h)
      rw [List.length_cons, Closed.Load.mainPos_cons_succ]
      cases b <;> simp [mainAuxP, this] <;> omega

end P

theorem mainAuxP_map (fG : G → Nat → G) (fI : Instr → Nat → Instr)
    (h : ∀ x i, Closed.gi (fG (.i x) i) = fI x i) (xs : List Instr) (bs : List Bool) (i : Nat) :
    (mainAuxP fG (ins xs) bs i).map Closed.gi = Closed.Load.mainAux fI xs bs i := by
  induction xs generalizing bs i with
  | nil => cases bs <;> simp [mainAuxP, Closed.Load.mainAux, ins]
  | cons x r ih =>
    cases bs with
    | nil => simp [mainAuxP, Closed.Load.mainAux, ins]
    | cons b bs =>
      have := ih bs (i + 1)
      cases b <;> simp [Closed.ins_cons, mainAuxP, Closed.Load.mainAux, this, h]

/-! ## `mainPos` -/

theorem mainPos_prefix (bs cs : List Bool) (j : Nat) (hj : j ≤ bs.length) :
    mainPos (bs ++ cs) j = mainPos bs j := by
  simp only [mainPos]
  rw [List.take_append_of_le_length hj]

theorem mainPos_full_append (bs cs : List Bool) (j : Nat) :
    mainPos (bs ++ cs) (bs.length + j) = mainPos bs bs.length + mainPos cs j :=
  mainPos_append bs cs j

/-! ## relocation at the level of generated code (`break` markers stay) -/

def relocI (n : Nat) (bits : List Bool) (x : Instr) (i : Nat) : Instr :=
  match x with
  | .jump c off =>
    if c != .indirect && (i : Int) + off ≥ 0 && (i : Int) + off ≤ n then
      .jump c ((mainPos bits ((i : Int) + off).toNat : Int) - (mainPos bits i : Int))
    else .jump c off
  | x => x

theorem reloc_eq (prog : List Instr) (cls : List Bool) :
    Closed.Load.reloc prog cls = relocI prog.length cls := by
  funext x i
  cases x <;> rfl

def relocG (n : Nat) (bits : List Bool) : G → Nat → G
  | .i x, i => .i (relocI n bits x i)
  | .brk, _ => .brk

/-- the classification of a piece of code taken by itself -/
def clsG (c : Code) : List Bool := Loader.classify none (c.map Closed.gi)

@[simp] theorem length_clsG (c : Code) : (clsG c).length = c.length := by simp [clsG]

/-- the main part of a piece of code taken by itself -/
def mloc (c : Code) : Code := mainAuxP (relocG c.length (clsG c)) c (clsG c) 0

theorem length_mloc (c : Code) : (mloc c).length = mainPos (clsG c) c.length :=
  mainAuxP_length _ _ _ _ (length_clsG c)

/-- the jumps outside routine sections stay inside the code (or lead to its end) -/
def JC (c : Code) : Prop :=
  ∀ (k : Nat) (cnd : JumpCond) (off : Int), c[k]? = some (.i (.jump cnd off)) →
    (clsG c)[k]? = some false → 0 ≤ (k : Int) + off ∧ (k : Int) + off ≤ c.length

theorem clsG_append {X : Code} (hX : Closed.Neutral X) (Y : Code) : clsG (X ++ Y) = clsG X ++ clsG Y := by
  simp only [clsG, List.map_append, Closed.classify_append]
  rw [hX]

/-- a piece of code `X` with closed jumps, inside a program of length `n` whose classification
is `B ++ clsG X ++ C`: the loader treats it as it would treat `X` alone -/
theorem mctx_closed {X : Code} (hX : JC X) (n o : Nat) (B C : List Bool) (hB : B.length = o)
    (hn : o + X.length ≤ n) :
    mainAuxP (relocG n (B ++ (clsG X ++ C))) X (clsG X) o = mloc X := by
  unfold mloc
  apply mainAuxP_congr
  intro k x hx hb
  cases x with
  | brk => rfl
  | i x =>
    cases x with
    | jump cnd off =>
      obtain ⟨h0, h1⟩ := hX k cnd off hx hb
      have hk : k < X.length := by
        rcases Nat.lt_or_ge k X.length with h | h
        · exact h
        · rw [List.getElem?_eq_none h] at hx; cases hx
      simp only [relocG, relocI, Nat.zero_add]
      have c1 : (decide (((o + k : Nat) : Int) + off ≥ 0)) = true := by simp; omega
      have c2 : (decide (((o + k : Nat) : Int) + off ≤ (n : Int))) = true := by simp; omega
      have c3 : (decide (((k : Nat) : Int) + off ≥ 0)) = true := by simp; omega
      have c4 : (decide (((k : Nat) : Int) + off ≤ (X.length : Int))) = true := by simp; omega
      simp only [c1, c2, c3, c4, Bool.and_true]
      by_cases hc : (cnd != JumpCond.indirect) = true
      · simp only [hc, if_true]
        have e1 : (((o + k : Nat) : Int) + off).toNat = B.length + ((k : Int) + off).toNat := by omega
        have e2 : o + k = B.length + k := by omega
        rw [e1, e2, mainPos_full_append, mainPos_full_append,
          mainPos_prefix _ _ _ (by simp; omega), mainPos_prefix _ _ _ (by simp; omega)]
        congr 2
        omega
      · simp only [hc]
        rfl
    | _ => rfl

/-! ## walking through a program piece by piece -/

/-- the piece `X` sits at offset `o` of a program of length `n` classified as `bits` -/
def InCtx (n : Nat) (bits : List Bool) (o : Nat) (X : Code) : Prop :=
  ∃ B C, bits = B ++ (clsG X ++ C) ∧ B.length = o ∧ o + X.length ≤ n

theorem InCtx.self (W : Code) : InCtx W.length (clsG W) 0 W :=
  ⟨[], [], by simp, rfl, by simp⟩

theorem InCtx.left {n : Nat} {bits : List Bool} {o : Nat} {X Y : Code} (h : InCtx n bits o (X ++ Y))
    (hX : Closed.Neutral X) : InCtx n bits o X := by
  obtain ⟨B, C, hb, hB, hn⟩ := h
  refine ⟨B, clsG Y ++ C, ?_, hB, by simp at hn; omega⟩
  rw [hb, clsG_append hX, List.append_assoc]

theorem InCtx.right {n : Nat} {bits : List Bool} {o : Nat} {X Y : Code} (h : InCtx n bits o (X ++ Y))
    (hX : Closed.Neutral X) : InCtx n bits (o + X.length) Y := by
  obtain ⟨B, C, hb, hB, hn⟩ := h
  refine ⟨B ++ clsG X, C, ?_, by simp [hB], by simp at hn; omega⟩
  rw [hb, clsG_append hX, List.append_assoc, List.append_assoc]

/-- the contribution of the piece to the main segment -/
def mctx (n : Nat) (bits : List Bool) (X : Code) (o : Nat) : Code :=
  mainAuxP (relocG n bits) X (clsG X) o

theorem mloc_eq_mctx (W : Code) : mloc W = mctx W.length (clsG W) W 0 := rfl

theorem mctx_append (n : Nat) (bits : List Bool) {X : Code} (hX : Closed.Neutral X) (Y : Code) (o : Nat) :
    mctx n bits (X ++ Y) o = mctx n bits X o ++ mctx n bits Y (o + X.length) := by
  unfold mctx
  rw [clsG_append hX, mainAuxP_append _ _ _ _ _ _ (length_clsG X)]

theorem InCtx.closed {n : Nat} {bits : List Bool} {o : Nat} {X : Code} (h : InCtx n bits o X)
    (hX : JC X) : mctx n bits X o = mloc X := by
  obtain ⟨B, C, hb, hB, hn⟩ := h
  rw [hb]
  exact mctx_closed hX n o B C hB hn

/-- the new position of the end of the piece -/
theorem InCtx.pos {n : Nat} {bits : List Bool} {o : Nat} {X : Code} (h : InCtx n bits o X) :
    mainPos bits (o + X.length) = mainPos bits o + (mloc X).length := by
  obtain ⟨B, C, hb, hB, hn⟩ := h
  rw [hb, ← hB]
  have e : B.length = B.length + 0 := rfl
  rw [mainPos_full_append]
  conv => rhs; rw [e, mainPos_full_append]
  simp only [Closed.Load.mainPos_zero, Nat.add_zero]
  rw [length_mloc, ← length_clsG X, mainPos_prefix _ _ _ (Nat.le_refl _)]

/-- a single jump as a piece -/
theorem mctx_jump (n : Nat) (bits : List Bool) (cnd : JumpCond) (off : Int) (o : Nat)
    (hc : cnd ≠ .indirect) (h0 : 0 ≤ (o : Int) + off) (h1 : (o : Int) + off ≤ n) :
    mctx n bits [G.i (.jump cnd off)] o =
      [G.i (.jump cnd ((mainPos bits ((o : Int) + off).toNat : Int) - (mainPos bits o : Int)))] := by
  have hb : (cnd != JumpCond.indirect) = true := by simpa using hc
  have c1 : (decide (((o : Nat) : Int) + off ≥ 0)) = true := by simp; omega
  have c2 : (decide (((o : Nat) : Int) + off ≤ (n : Int))) = true := by simp; omega
  simp [mctx, clsG, Loader.classify, Closed.gi, mainAuxP, relocG, relocI, hb, c1, c2]

/-! ## code without routine markers -/

theorem mainAuxP_false {α : Type} (f : α → Nat → α) (xs : List α) (i : Nat)
    (h : ∀ k x, xs[k]? = some x → f x (i + k) = x) :
    mainAuxP f xs (List.replicate xs.length false) i = xs := by
  induction xs generalizing i with
  | nil => simp [mainAuxP]
  | cons x r ih =>
    have h0 := h 0 x (by simp)
    have hr := ih (i + 1) fun k y hy => by
      have := h (k + 1) y (by simpa using hy)
      rw [← this]; congr 1; omega
    simp only [Nat.add_zero] at h0
    simp [mainAuxP, List.replicate_succ, hr, h0]

theorem clsG_plain {c : Code} (h : (c.map Closed.gi).all Instr.plainI = true) :
    clsG c = List.replicate c.length false := by
  rw [clsG, classify_plain _ h]; simp

theorem neutral_plain {c : Code} (h : (c.map Closed.gi).all Instr.plainI = true) : Closed.Neutral c :=
  cend_plain _ h

/-- code without routine markers whose jumps stay inside it is left as it is -/
theorem mloc_plain {c : Code} (h : (c.map Closed.gi).all Instr.plainI = true) (hj : JC c) :
    mloc c = c := by
  unfold mloc
  rw [clsG_plain h]
  apply mainAuxP_false
  intro k x hx
  cases x with
  | brk => rfl
  | i x =>
    cases x with
    | jump cnd off =>
      have hk : k < c.length := by
        rcases Nat.lt_or_ge k c.length with h' | h'
        · exact h'
        · rw [List.getElem?_eq_none h'] at hx; cases hx
      obtain ⟨h0, h1⟩ := hj k cnd off hx (by rw [clsG_plain h]; simp [hk])
      simp only [relocG, relocI, Nat.zero_add]
      split
      · rw [mainPos_plain _ _ (by omega), mainPos_plain _ _ (by omega)]
        congr 2
        omega
      · rfl
    | _ => rfl

theorem neutral_jump (cnd : JumpCond) (off : Int) : Closed.Neutral [G.i (.jump cnd off)] := rfl

theorem length_mloc_jump (cnd : JumpCond) (off : Int) : (mloc [G.i (.jump cnd off)]).length = 1 := by
  rw [length_mloc]
  rfl

/-! ## `break` patching commutes with the loader -/

theorem length_patchRec (c : Code) (b t : Nat) : (patchRec c b t).length = c.length := by
  induction c generalizing b with
  | nil => rfl
  | cons g r ih => cases g <;> simp [patchRec, ih]

theorem classify_patchRec (st : Option String) (c : Code) (b t : Nat) :
    Loader.classify st ((patchRec c b t).map Closed.gi) = Loader.classify st (c.map Closed.gi) := by
  induction c generalizing st b with
  | nil => rfl
  | cons g r ih =>
    cases g with
    | brk =>
      simp only [patchRec, List.map_cons, Closed.gi, Closed.classify_cons, ih]
      cases st <;> rfl
    | i x => simp only [patchRec, List.map_cons, Closed.classify_cons, ih]

theorem clsG_patchRec (c : Code) (b t : Nat) : clsG (patchRec c b t) = clsG c :=
  classify_patchRec none c b t

theorem mainPos_step (pre : List Bool) (b : Bool) (cb : List Bool) :
    mainPos (pre ++ b :: cb) (pre.length + 1) =
      mainPos (pre ++ b :: cb) pre.length + (if b then 0 else 1) := by
  have e : pre.length = pre.length + 0 := rfl
  rw [mainPos_full_append, Closed.Load.mainPos_cons_succ]
  conv => rhs; rw [e, mainPos_full_append]
  simp only [Closed.Load.mainPos_zero]
  omega

theorem mainAuxP_patch (n : Nat) (bits C : List Bool) (t : Nat) (ht : t ≤ n) :
    ∀ (c : Code) (cb pre : List Bool), bits = pre ++ (cb ++ C) → cb.length = c.length →
      pre.length + c.length = t →
      mainAuxP (relocG n bits) (patchRec c pre.length t) cb pre.length =
        patchRec (mainAuxP (relocG n bits) c cb pre.length) (mainPos bits pre.length) (mainPos bits t) := by
  intro c
  induction c with
  | nil => intro cb pre _ _ _; simp [patchRec, mainAuxP_nil]
  | cons g r ih =>
    intro cb pre hb hl hn
    cases cb with
    | nil => simp at hl
    | cons b cb =>
      have hrec := ih cb (pre ++ [b]) (by rw [hb]; simp) (by simpa using hl)
        (by simp at hn ⊢; omega)
      have hpos : mainPos bits (pre.length + 1) = mainPos bits pre.length + (if b then 0 else 1) := by
        rw [hb]; exact mainPos_step pre b (cb ++ C)
      simp only [List.length_append, List.length_cons, List.length_nil, Nat.zero_add] at hrec
      simp only [List.length_cons] at hn
      cases b with
      | true =>
        simp only [if_true, Nat.add_zero] at hpos
        rw [hpos] at hrec
        cases g with
        | brk => simp only [patchRec, mainAuxP, if_true]; exact hrec
        | i x => simp only [patchRec, mainAuxP, if_true]; exact hrec
      | false =>
        simp only [Bool.false_eq_true, if_false] at hpos
        rw [hpos] at hrec
        cases g with
        | brk =>
          simp only [patchRec, mainAuxP, Bool.false_eq_true, if_false, relocG, hrec, List.cons.injEq,
            and_true, G.i.injEq]
          have c1 : (decide (((pre.length : Nat) : Int) + ((t : Int) - (pre.length : Int)) ≥ 0)) = true := by
            simp; omega
          have c2 : (decide (((pre.length : Nat) : Int) + ((t : Int) - (pre.length : Int)) ≤ (n : Int))) = true := by
            simp; omega
          simp only [relocI, c1, c2, Bool.and_true]
          have e : (((pre.length : Nat) : Int) + ((t : Int) - (pre.length : Int))).toNat = t := by omega
          rw [e]
          rfl
        | i x =>
          simp only [patchRec, mainAuxP, Bool.false_eq_true, if_false, relocG, hrec]

/-- a piece whose `break` markers have been patched into jumps to its end -/
theorem InCtx.patch {n : Nat} {bits : List Bool} {o : Nat} {c : Code} (h : InCtx n bits o c) :
    mctx n bits (patchRec c o (o + c.length)) o =
      patchRec (mctx n bits c o) (mainPos bits o) (mainPos bits (o + c.length)) := by
  obtain ⟨B, C, hb, hB, hn⟩ := h
  subst hB
  unfold mctx
  rw [clsG_patchRec]
  exact mainAuxP_patch n bits C (B.length + c.length) hn c (clsG c) B hb (length_clsG c) rfl

theorem mloc_patch (c : Code) :
    mloc (patchRec c 0 c.length) = patchRec (mloc c) 0 (mloc c).length := by
  have := (InCtx.self c).patch
  simp only [Nat.zero_add, Closed.Load.mainPos_zero] at this
  rw [mloc_eq_mctx, length_patchRec, clsG_patchRec, this, mloc_eq_mctx]
  congr 1
  exact (length_mloc c).symm

theorem cend_patchRec (st : Option String) (c : Code) (b t : Nat) :
    Closed.cend st ((patchRec c b t).map Closed.gi) = Closed.cend st (c.map Closed.gi) := by
  induction c generalizing st b with
  | nil => rfl
  | cons g r ih =>
    cases g with
    | brk =>
      simp only [patchRec, List.map_cons, Closed.gi, Closed.cend, ih]
      cases st <;> rfl
    | i x => simp only [patchRec, List.map_cons, Closed.cend, ih]

theorem neutral_patchRec {c : Code} (h : Closed.Neutral c) (b t : Nat) :
    Closed.Neutral (patchRec c b t) := by
  unfold Closed.Neutral at *
  rw [cend_patchRec]; exact h

/-! ## the shapes with jumps across sub-blocks -/

theorem mloc_genIf_none {cond T : Code} (hc1 : Closed.Neutral cond) (hc2 : JC cond) (hT : JC T) :
    mloc (genIf cond T none) = genIf (mloc cond) (mloc T) none := by
  simp only [genIf, List.append_assoc]
  generalize hW : cond ++ ([G.i (.jump .ifFalse ((T.length : Int) + 1))] ++ T) = W
  have h0 : InCtx W.length (clsG W) 0 (cond ++ ([G.i (.jump .ifFalse ((T.length : Int) + 1))] ++ T)) := by
    rw [hW]; exact InCtx.self W
  have hm : mloc W = mctx W.length (clsG W)
      (cond ++ ([G.i (.jump .ifFalse ((T.length : Int) + 1))] ++ T)) 0 := by rw [hW]; rfl
  rw [hm]
  generalize W.length = n at h0
  generalize clsG W = bits at h0
  have hA := h0.left hc1
  have hR := h0.right hc1
  have hJ := hR.left (neutral_jump _ _)
  have hT' := hR.right (neutral_jump _ _)
  have hn : 0 + cond.length + 1 + T.length ≤ n := by
    obtain ⟨_, _, _, _, h⟩ := hT'
    simpa using h
  have p1 := hA.pos
  have p2 := hJ.pos
  have p3 := hT'.pos
  rw [length_mloc_jump] at p2
  simp only [List.length_cons, List.length_nil] at p2 p3 hn
  rw [mctx_append _ _ hc1, mctx_append _ _ (neutral_jump _ _), hA.closed hc2, hT'.closed hT,
    mctx_jump _ _ _ _ _ (by simp) (by omega) (by omega)]
  have e : (((0 + cond.length : Nat) : Int) + ((T.length : Int) + 1)).toNat =
      0 + cond.length + (0 + 1) + T.length := by omega
  rw [e, p3, p2]
  have e2 : ((mainPos bits (0 + cond.length) + 1 + (mloc T).length : Nat) : Int) -
      (mainPos bits (0 + cond.length) : Int) = ((mloc T).length : Int) + 1 := by omega
  rw [e2]

theorem mloc_genIf_some {cond T E : Code} (hc1 : Closed.Neutral cond) (hc2 : JC cond)
    (hT1 : Closed.Neutral T) (hT : JC T) (hE : JC E) :
    mloc (genIf cond T (some E)) = genIf (mloc cond) (mloc T) (some (mloc E)) := by
  simp only [genIf, List.append_assoc]
  generalize hW : cond ++ ([G.i (.jump .ifFalse ((T.length : Int) + 2))] ++
    (T ++ ([G.i (.jump .always ((E.length : Int) + 1))] ++ E))) = W
  have h0 : InCtx W.length (clsG W) 0 (cond ++ ([G.i (.jump .ifFalse ((T.length : Int) + 2))] ++
      (T ++ ([G.i (.jump .always ((E.length : Int) + 1))] ++ E)))) := by
    rw [hW]; exact InCtx.self W
  have hm : mloc W = mctx W.length (clsG W) (cond ++ ([G.i (.jump .ifFalse ((T.length : Int) + 2))] ++
      (T ++ ([G.i (.jump .always ((E.length : Int) + 1))] ++ E)))) 0 := by rw [hW]; rfl
  rw [hm]
  generalize W.length = n at h0
  generalize clsG W = bits at h0
  have hA := h0.left hc1
  have hR := h0.right hc1
  have hJ := hR.left (neutral_jump _ _)
  have hR2 := hR.right (neutral_jump _ _)
  have hT' := hR2.left hT1
  have hR3 := hR2.right hT1
  have hJ2 := hR3.left (neutral_jump _ _)
  have hE' := hR3.right (neutral_jump _ _)
  have hn : 0 + cond.length + 1 + T.length + 1 + E.length ≤ n := by
    obtain ⟨_, _, _, _, h⟩ := hE'
    simpa using h
  have p2 := hJ.pos
  have p3 := hT'.pos
  have p4 := hJ2.pos
  have p5 := hE'.pos
  rw [length_mloc_jump] at p2 p4
  simp only [List.length_cons, List.length_nil] at p2 p3 p4 p5 hn
  rw [mctx_append _ _ hc1, mctx_append _ _ (neutral_jump _ _), mctx_append _ _ hT1,
    mctx_append _ _ (neutral_jump _ _), hA.closed hc2, hT'.closed hT, hE'.closed hE,
    mctx_jump _ _ _ _ _ (by simp) (by omega) (by omega),
    mctx_jump _ _ _ _ _ (by simp) (by simp only [List.length_cons, List.length_nil]; omega)
      (by simp only [List.length_cons, List.length_nil]; omega)]
  simp only [List.length_cons, List.length_nil]
  have e1 : (((0 + cond.length : Nat) : Int) + ((T.length : Int) + 2)).toNat =
      0 + cond.length + (0 + 1) + T.length + (0 + 1) := by omega
  have e2 : (((0 + cond.length + (0 + 1) + T.length : Nat) : Int) + ((E.length : Int) + 1)).toNat =
      0 + cond.length + (0 + 1) + T.length + (0 + 1) + E.length := by omega
  rw [e1, e2, p5, p4, p3, p2]
  have e3 : ((mainPos bits (0 + cond.length) + 1 + (mloc T).length + 1 : Nat) : Int) -
      (mainPos bits (0 + cond.length) : Int) = ((mloc T).length : Int) + 2 := by omega
  have e4 : ((mainPos bits (0 + cond.length) + 1 + (mloc T).length + 1 + (mloc E).length : Nat) : Int) -
      ((mainPos bits (0 + cond.length) + 1 + (mloc T).length : Nat) : Int) =
        ((mloc E).length : Int) + 1 := by omega
  rw [e3, e4]

theorem mctx_single (n : Nat) (bits : List Bool) (x : Instr) (o : Nat)
    (h1 : Instr.plainI x = true) (h2 : ∀ c off, x ≠ .jump c off) :
    mctx n bits [G.i x] o = [G.i x] := by
  cases x <;> first
    | exact absurd rfl (h2 _ _)
    | (simp [Instr.plainI] at h1; done)
    | simp [mctx, clsG, Loader.classify, Closed.gi, mainAuxP, relocG, relocI]

/-- a loop whose pieces are closed: the loader's main part of it is the loop around the main part
of the body -/
theorem mloc_assembleLoop (pre test bodyPre post : List Instr) (body : Code)
    (hH : Closed.Neutral (ins ([Instr.loop] ++ pre))) (hH2 : JC (ins ([Instr.loop] ++ pre)))
    (hH3 : mloc (ins ([Instr.loop] ++ pre)) = ins ([Instr.loop] ++ pre))
    (hT : Closed.Neutral (ins test)) (hT2 : JC (ins test)) (hT3 : mloc (ins test) = ins test)
    (hB : Closed.Neutral (ins bodyPre)) (hB2 : JC (ins bodyPre))
    (hB3 : mloc (ins bodyPre) = ins bodyPre)
    (hP : Closed.Neutral (ins post)) (hP2 : JC (ins post)) (hP3 : mloc (ins post) = ins post)
    (hb : Closed.Neutral body) (hb2 : JC body) :
    mloc (assembleLoop pre test bodyPre body post) =
      assembleLoop pre test bodyPre (mloc body) post := by
  simp only [assembleLoop, patchBreaks_eq, List.append_assoc]
  generalize ins ([Instr.loop] ++ pre) = H at *
  generalize ins test = Tt at *
  generalize ins bodyPre = BP at *
  generalize ins post = PO at *
  -- the unpatched loop
  generalize hjf : G.i (Instr.jump .ifFalse (((BP ++ (body ++ PO)).length : Int) + 2)) = jf
  generalize hjb : G.i (Instr.jump .always ((H.length : Int) -
    ((H.length + Tt.length + 1 + (BP ++ (body ++ PO)).length : Nat) : Int))) = jb
  generalize hcode : H ++ (Tt ++ ([jf] ++ (BP ++ (body ++ (PO ++ [jb]))))) = code
  have hlen : H.length + Tt.length + 1 + (BP ++ (body ++ PO)).length + 1 = code.length := by
    rw [← hcode]; simp; omega
  have hnj : Closed.Neutral [jf] := by rw [← hjf]; exact neutral_jump _ _
  have hnb : Closed.Neutral [jb] := by rw [← hjb]; exact neutral_jump _ _
  have hncode : Closed.Neutral code := by
    rw [← hcode]
    exact hH.append (hT.append (Closed.Neutral.append hnj (hB.append (hb.append (hP.append hnb)))))
  rw [hlen]
  generalize hW : patchRec code 0 code.length ++ [G.i Instr.endLoop] = W
  have h0 : InCtx W.length (clsG W) 0 (patchRec code 0 code.length ++ [G.i Instr.endLoop]) := by
    rw [hW]; exact InCtx.self W
  have hm : mloc W = mctx W.length (clsG W) (patchRec code 0 code.length ++ [G.i Instr.endLoop]) 0 := by
    rw [hW]; rfl
  rw [hm]
  generalize W.length = n at h0
  generalize clsG W = bits at h0
  have hnp := neutral_patchRec hncode 0 code.length
  have hX := h0.left hnp
  -- the same context holds the unpatched code
  have hC : InCtx n bits 0 code := by
    obtain ⟨B, C, h1, h2, h3⟩ := hX
    exact ⟨B, C, by rw [h1, clsG_patchRec], h2, by rw [length_patchRec] at h3; exact h3⟩
  rw [mctx_append _ _ hnp, mctx_single _ _ _ _ rfl (by intro c off h; cases h)]
  have hpatch := hC.patch
  simp only [Nat.zero_add] at hpatch
  rw [hpatch]
  -- the pieces
  rw [← hcode] at hC
  have hA1 := hC.left hH
  have hR1 := hC.right hH
  have hA2 := hR1.left hT
  have hR2 := hR1.right hT
  have hA3 := hR2.left hnj
  have hR3 := hR2.right hnj
  have hA4 := hR3.left hB
  have hR4 := hR3.right hB
  have hA5 := hR4.left hb
  have hR5 := hR4.right hb
  have hA6 := hR5.left hP
  have hA7 := hR5.right hP
  have hn : 0 + H.length + Tt.length + 1 + BP.length + body.length + PO.length + 1 ≤ n := by
    obtain ⟨_, _, _, _, h⟩ := hA7
    simpa using h
  have hcl : code.length = 0 + H.length + Tt.length + 1 + BP.length + body.length + PO.length + 1 := by
    rw [← hlen]; simp; omega
  have q1 := hA1.pos
  have q2 := hA2.pos
  have q3 := hA3.pos
  have q4 := hA4.pos
  have q5 := hA5.pos
  have q6 := hA6.pos
  have q7 := hA7.pos
  have l3 : (mloc [jf]).length = 1 := by rw [← hjf]; exact length_mloc_jump _ _
  have l7 : (mloc [jb]).length = 1 := by rw [← hjb]; exact length_mloc_jump _ _
  rw [l3] at q3
  rw [l7] at q7
  rw [hH3] at q1
  rw [hT3] at q2
  rw [hB3] at q4
  rw [hP3] at q6
  simp only [List.length_cons, List.length_nil, Closed.Load.mainPos_zero] at q1 q2 q3 q4 q5 q6 q7
  have hsplit : mctx n bits (H ++ (Tt ++ ([jf] ++ (BP ++ (body ++ (PO ++ [jb])))))) 0 =
      H ++ (Tt ++ (mctx n bits [jf] (0 + H.length + Tt.length) ++ (BP ++ (mloc body ++
        (PO ++ mctx n bits [jb] (0 + H.length + Tt.length + [jf].length + BP.length + body.length +
          PO.length)))))) := by
    rw [mctx_append _ _ hH, mctx_append _ _ hT, mctx_append _ _ hnj, mctx_append _ _ hB,
      mctx_append _ _ hb, mctx_append _ _ hP, hA1.closed hH2, hA2.closed hT2, hA4.closed hB2,
      hA5.closed hb2, hA6.closed hP2, hH3, hT3, hB3, hP3]
  rw [hcode] at hsplit
  rw [hsplit]
  simp only [List.length_cons, List.length_nil]
  rw [← hjf, ← hjb,
    mctx_jump _ _ _ _ _ (by simp) (by simp only [List.length_append]; omega)
      (by simp only [List.length_append]; omega),
    mctx_jump _ _ _ _ _ (by simp) (by simp only [List.length_append]; omega)
      (by simp only [List.length_append]; omega)]
  have e1 : (((0 + H.length + Tt.length : Nat) : Int) + (((BP ++ (body ++ PO)).length : Int) + 2)).toNat =
      0 + H.length + Tt.length + (0 + 1) + BP.length + body.length + PO.length + (0 + 1) := by
    simp only [List.length_append]; omega
  have e2 : (((0 + H.length + Tt.length + (0 + 1) + BP.length + body.length + PO.length : Nat) : Int) +
      ((H.length : Int) - ((H.length + Tt.length + 1 + (BP ++ (body ++ PO)).length : Nat) : Int))).toNat =
      0 + H.length := by
    simp only [List.length_append]; omega
  rw [e1, e2, hcl]
  simp only [List.length_append] at *
  rw [q7, q6, q5, q4, q3, q2, q1]
  simp only [Closed.Load.mainPos_zero]
  have a1 : ((0 + H.length + Tt.length + 1 + BP.length + (mloc body).length + PO.length + 1 : Nat) : Int) -
      ((0 + H.length + Tt.length : Nat) : Int) =
        ((BP.length + ((mloc body).length + PO.length) : Nat) : Int) + 2 := by omega
  have a2 : ((0 + H.length : Nat) : Int) -
      ((0 + H.length + Tt.length + 1 + BP.length + (mloc body).length + PO.length : Nat) : Int) =
        (H.length : Int) - ((H.length + Tt.length + 1 + (BP.length + ((mloc body).length + PO.length)) : Nat) : Int) := by
    omega
  have a3 : 0 + H.length + Tt.length + 1 + BP.length + (mloc body).length + PO.length + 1 =
      H.length + Tt.length + 1 + (BP.length + ((mloc body).length + PO.length)) + 1 := by omega
  rw [a1, a2, a3]

/-! ## from the checker's closedness to `JC` / `Neutral` / plain -/

theorem jc_of_closed {inR il : Bool} {K : List String} {c : Code} {a : Wf.Abs} {sb : Closed.St}
    (h : Closed.ClosedB inR il K c (none, a) sb) : JC c := by
  intro k cnd off hk hb
  have hrun : (Closed.run inR K c (none, a) k).1 = none := by
    have h1 := Closed.classify_run h.ok hk
    rw [show Loader.classify (none, a).1 (c.map Closed.gi) = clsG c from rfl, hb] at h1
    cases hst : (Closed.run inR K c (none, a) k).1 with
    | none => rfl
    | some n =>
      rw [hst] at h1
      simp [Closed.cbit] at h1
  have := h.jumps k cnd off hk hrun
  exact ⟨this.1, this.2.1⟩

theorem plain_of_markerFree {c : Code} (h : Closed.MarkerFree c) :
    (c.map Closed.gi).all Instr.plainI = true := by
  rw [List.all_eq_true]
  intro x hx
  obtain ⟨g, hg, rfl⟩ := List.mem_map.mp hx
  have := h g hg
  cases hgi : Closed.gi g <;> simp_all [Closed.isRoutine, Closed.isEnd, Instr.plainI]

/-- a piece of straight-line code that the checker accepts in every state -/
theorem ci_piece {K : List String} {xs : List Instr} (h : ∀ inR, Closed.CI inR K xs) :
    Closed.Neutral (ins xs) ∧ JC (ins xs) ∧ mloc (ins xs) = ins xs := by
  have hc := h false Wf.Abs.empty false (none, Wf.Abs.empty)
  have hj := jc_of_closed hc
  exact ⟨hc.neutral, hj, mloc_plain (plain_of_markerFree (Closed.markerFree_ins (h true))) hj⟩

/-- the same for `LOOP` followed by such a piece -/
theorem ci_piece_loop {K : List String} {xs : List Instr} (h : ∀ inR, Closed.CI inR K xs) :
    Closed.Neutral (ins ([Instr.loop] ++ xs)) ∧ JC (ins ([Instr.loop] ++ xs)) ∧
      mloc (ins ([Instr.loop] ++ xs)) = ins ([Instr.loop] ++ xs) := by
  obtain ⟨_, hj, _⟩ := ci_piece h
  have hp := plain_of_markerFree (Closed.markerFree_ins (h true))
  have e : ins ([Instr.loop] ++ xs) = G.i Instr.loop :: ins xs := rfl
  rw [e]
  have hp2 : ((G.i Instr.loop :: ins xs).map Closed.gi).all Instr.plainI = true := by
    simp only [List.map_cons, List.all_cons, hp, Bool.and_true]; rfl
  have hj2 : JC (G.i Instr.loop :: ins xs) := by
    intro k cnd off hk _
    cases k with
    | zero => simp at hk
    | succ k =>
      simp only [List.getElem?_cons_succ] at hk
      have hk' : k < (ins xs).length := by
        rcases Nat.lt_or_ge k (ins xs).length with h' | h'
        · exact h'
        · rw [List.getElem?_eq_none h'] at hk; cases hk
      obtain ⟨h0, h1⟩ := hj k cnd off hk (by
        rw [clsG_plain hp, List.getElem?_replicate]
        simp only [Closed.length_ins] at hk'
        simp [hk'])
      simp only [List.length_cons]
      omega
  exact ⟨neutral_plain hp2, hj2, mloc_plain hp2 hj2⟩

theorem mloc_append {X Y : Code} (hX1 : Closed.Neutral X) (hX : JC X) (hY : JC Y) :
    mloc (X ++ Y) = mloc X ++ mloc Y := by
  generalize hW : X ++ Y = W
  have h0 : InCtx W.length (clsG W) 0 (X ++ Y) := by rw [hW]; exact InCtx.self W
  have hm : mloc W = mctx W.length (clsG W) (X ++ Y) 0 := by rw [hW]; rfl
  rw [hm, mctx_append _ _ hX1, (h0.left hX1).closed hX, (h0.right hX1).closed hY]

/-- a routine section has no main part -/
theorem mloc_section (n : String) {body : Code} (h : Closed.MarkerFree body) :
    mloc (ins [Instr.routine n] ++ body ++ ins [Instr.end_ n]) = [] := by
  have hp := plain_of_markerFree h
  have hc := (classify_sec n (body.map Closed.gi) hp).1
  have e : (ins [Instr.routine n] ++ body ++ ins [Instr.end_ n]).map Closed.gi =
      Closed.Load.render (n, body.map Closed.gi) := by
    simp [ins, Closed.gi, Closed.Load.render]
  unfold mloc
  rw [clsG, e, hc]
  have hl : (ins [Instr.routine n] ++ body ++ ins [Instr.end_ n]).length = (body.map Closed.gi).length + 2 := by
    simp [ins]
  rw [← hl]
  exact mainAuxP_true _ _ _

/-! ## routine definitions replaced by a statement that does nothing and compiles to nothing -/

mutual
  /-- `time at` without a pattern: no code, no effect — stands where a definition stood -/
  def stripS : Stmt → Stmt
    | .defRoutine _ _ _ => .timeAt []
    | .ite c t none => .ite c (stripB t) none
    | .ite c t (some e) => .ite c (stripB t) (some (stripB e))
    | .repeat_ h body => .repeat_ h (stripB body)
    | .action k w ops => .action k w (stripOps ops)
    | .setReg r v => .setReg r v
    | .units m => .units m
    | .actAll k => .actAll k
    | .setDefault w => .setDefault w
    | .get v => .get v
    | .wait => .wait
    | .timeAt ps => .timeAt ps
    | .assign n v => .assign n v
    | .defMacro n v => .defMacro n v
    | .call f ps as => .call f ps as
    | .ret v => .ret v
    | .brk => .brk
    | .print v => .print v
    | .println v => .println v
    | .printf fmt as => .printf fmt as
    | .stage rows cols cf => .stage rows cols cf
  def stripB : Block → Block
    | .nil => .nil
    | .cons st rest => .cons (stripS st) (stripB rest)
  def stripOp : Operand_ → Operand_
    | .matrixBlock n body => .matrixBlock n (stripB body)
    | .light n => .light n
    | .group n => .group n
    | .location n => .location n
    | .zone n r => .zone n r
    | .matrixInline n rows cols cf => .matrixInline n rows cols cf
  def stripOps : Operands → Operands
    | .nil => .nil
    | .cons o rest => .cons (stripOp o) (stripOps rest)
end

theorem JC.append {X Y : Code} (hX1 : Closed.Neutral X) (hX : JC X) (hY : JC Y) : JC (X ++ Y) := by
  intro k cnd off hk hb
  rw [clsG_append hX1] at hb
  rcases Nat.lt_or_ge k X.length with h | h
  · rw [List.getElem?_append_left h] at hk
    rw [List.getElem?_append_left (by simp [h])] at hb
    obtain ⟨h0, h1⟩ := hX k cnd off hk hb
    simp only [List.length_append]
    omega
  · rw [List.getElem?_append_right h] at hk
    rw [List.getElem?_append_right (by simp [h]), length_clsG] at hb
    obtain ⟨h0, h1⟩ := hY (k - X.length) cnd off hk hb
    simp only [List.length_append]
    omega

/-- straight-line code without jumps and without routine markers -/
theorem piece_nojump (xs : List Instr) (hp : xs.all Instr.plainI = true)
    (hj : ∀ x ∈ xs, ∀ c off, x ≠ Instr.jump c off) :
    Closed.Neutral (ins xs) ∧ JC (ins xs) ∧ mloc (ins xs) = ins xs := by
  have hp' : ((ins xs).map Closed.gi).all Instr.plainI = true := by
    have : (ins xs).map Closed.gi = xs := by simp [ins, Function.comp_def, Closed.gi]
    rw [this]; exact hp
  have hjc : JC (ins xs) := by
    intro k cnd off hk _
    rw [Closed.getElem?_ins] at hk
    cases hx : xs[k]? with
    | none => simp [hx] at hk
    | some x =>
      simp only [hx, Option.map_some, Option.some.injEq, G.i.injEq] at hk
      exact absurd hk (hj x (List.mem_of_getElem? hx) cnd off)
  exact ⟨neutral_plain hp', hjc, mloc_plain hp' hjc⟩

theorem mloc_append3 {A B C : Code} (hA1 : Closed.Neutral A) (hA : JC A) (hB1 : Closed.Neutral B)
    (hB : JC B) (hC : JC C) : mloc (A ++ B ++ C) = mloc A ++ mloc B ++ mloc C := by
  rw [List.append_assoc, mloc_append hA1 hA (JC.append hB1 hB hC), mloc_append hB1 hB hC,
    List.append_assoc]

variable {V : String → Prop} {K : List String}

theorem mloc_leaf {s : Stmt} {il im : Bool} (hs : stripS s = s)
    (h : Closed.wsStmt K false il im s = true) (hf : FragStmt V (stripS s)) :
    mloc (genStmt s) = genStmt (stripS s) := by
  rw [hs] at hf ⊢
  exact mloc_plain (all_map_gi (nr_genStmt s hf))
    (jc_of_closed (Closed.closed_stmt s false il im h ⟨[], im⟩ ⟨rfl, rfl⟩))

mutual
  theorem mloc_stmt : ∀ (s : Stmt) (il im : Bool), Closed.wsStmt K false il im s = true →
      FragStmt V (stripS s) → mloc (genStmt s) = genStmt (stripS s)
    | .defRoutine n ps body, il, im, h, _ => by
      simp only [Closed.wsStmt, Bool.and_eq_true] at h
      rw [genStmt, stripS, genStmt]
      exact mloc_section n (Closed.markerFree_block h.2)
    | .ite c t none, il, im, h, hf => by
      simp only [Closed.wsStmt, Bool.and_eq_true] at h
      simp only [stripS, FragStmt] at hf
      obtain ⟨hn, hj, hm⟩ := ci_piece (K := K) (xs := genRv c (.to result)) fun _ => Closed.ci_rv h.1.1 _
      have ht := Closed.closed_block t false il im h.1.2 ⟨[], im⟩ ⟨rfl, rfl⟩
      rw [genStmt, stripS, genStmt, mloc_genIf_none hn hj (jc_of_closed ht), hm,
        mloc_block t il im h.1.2 hf.2.1]
    | .ite c t (some e), il, im, h, hf => by
      simp only [Closed.wsStmt, Bool.and_eq_true] at h
      simp only [stripS, FragStmt] at hf
      obtain ⟨hn, hj, hm⟩ := ci_piece (K := K) (xs := genRv c (.to result)) fun _ => Closed.ci_rv h.1.1 _
      have ht := Closed.closed_block t false il im h.1.2 ⟨[], im⟩ ⟨rfl, rfl⟩
      have he := Closed.closed_block e false il im h.2 ⟨[], im⟩ ⟨rfl, rfl⟩
      rw [genStmt, stripS, genStmt, mloc_genIf_some hn hj ht.neutral (jc_of_closed ht) (jc_of_closed he),
        hm, mloc_block t il im h.1.2 hf.2.1, mloc_block e il im h.2 hf.2.2]
    | .repeat_ hd body, il, im, h, hf => by
      simp only [Closed.wsStmt, Bool.and_eq_true] at h
      simp only [stripS, FragStmt] at hf
      obtain ⟨pre, test, bp, post, e, h1, h2, h3, h4⟩ := Closed.genLoop_parts h.1
      have hb := Closed.closed_block body false true im h.2 (Closed.loopA ⟨[], im⟩)
        (Closed.Entry.loop ⟨rfl, rfl⟩)
      obtain ⟨a1, a2, a3⟩ := ci_piece_loop h1
      obtain ⟨b1, b2, b3⟩ := ci_piece h2
      obtain ⟨c1, c2, c3⟩ := ci_piece h3
      obtain ⟨d1, d2, d3⟩ := ci_piece h4
      rw [genStmt, stripS, genStmt, e, e,
        mloc_assembleLoop pre test bp post _ a1 a2 a3 b1 b2 b3 c1 c2 c3 d1 d2 d3 hb.neutral (jc_of_closed hb),
        mloc_block body true im h.2 hf.2]
    | .setReg r v, il, im, h, hf => mloc_leaf (by rw [stripS]) h hf
    | .units m, il, im, h, hf => mloc_leaf (by rw [stripS]) h hf
    | .actAll k, il, im, h, hf => mloc_leaf (by rw [stripS]) h hf
    | .setDefault w, il, im, h, hf => mloc_leaf (by rw [stripS]) h hf
    | .action k w ops, il, im, h, hf => by
      have ho : Closed.wsOperands K false im ops = true := by simpa [Closed.wsStmt] using h
      simp only [stripS, FragStmt] at hf
      have hc := Closed.closed_operands k ops false im ho ⟨[], im⟩ ⟨rfl, rfl⟩ il (none, ⟨[], im⟩)
      have hpre : ∀ (P : List Instr), P.all Instr.plainI = true →
          (∀ x ∈ P, ∀ c off, x ≠ Instr.jump c off) →
          mloc (ins P ++ ins (if w = true then [Instr.wait] else []) ++ genOperands k ops) =
            ins P ++ ins (if w = true then [Instr.wait] else []) ++ genOperands k (stripOps ops) := by
        intro P h1 h2
        obtain ⟨a1, a2, a3⟩ := piece_nojump P h1 h2
        obtain ⟨b1, b2, b3⟩ := piece_nojump (if w = true then [Instr.wait] else [])
          (by cases w <;> rfl) (by cases w <;> simp)
        rw [mloc_append3 a1 a2 b1 b2 (jc_of_closed hc), a3, b3, mloc_operands k ops im ho hf]
      cases k
      · rw [genStmt, stripS, genStmt]; exact hpre _ rfl (by simp)
      · rw [genStmt, stripS, genStmt]; exact hpre _ rfl (by simp)
      · rw [genStmt, stripS, genStmt]; exact hpre _ rfl (by simp)
    | .get v, il, im, h, hf => mloc_leaf (by rw [stripS]) h hf
    | .wait, il, im, h, hf => mloc_leaf (by rw [stripS]) h hf
    | .timeAt ps, il, im, h, hf => mloc_leaf (by rw [stripS]) h hf
    | .assign n v, il, im, h, hf => mloc_leaf (by rw [stripS]) h hf
    | .defMacro n v, il, im, h, hf => mloc_leaf (by rw [stripS]) h hf
    | .call f ps as, il, im, h, hf => mloc_leaf (by rw [stripS]) h hf
    | .ret v, il, im, h, hf => mloc_leaf (by rw [stripS]) h hf
    | .brk, il, im, h, hf => mloc_leaf (by rw [stripS]) h hf
    | .print v, il, im, h, hf => mloc_leaf (by rw [stripS]) h hf
    | .println v, il, im, h, hf => mloc_leaf (by rw [stripS]) h hf
    | .printf fmt as, il, im, h, hf => mloc_leaf (by rw [stripS]) h hf
    | .stage rows cols cf, il, im, h, hf => mloc_leaf (by rw [stripS]) h hf
  theorem mloc_block : ∀ (b : Block) (il im : Bool), Closed.wsBlock K false il im b = true →
      FragBlock V (stripB b) → mloc (genBlock b) = genBlock (stripB b)
    | .nil, il, im, h, hf => by rw [genBlock, stripB, genBlock]; rfl
    | .cons s rest, il, im, h, hf => by
      simp only [Closed.wsBlock, Bool.and_eq_true] at h
      simp only [stripB, FragBlock] at hf
      have hs := Closed.closed_stmt s false il im h.1 ⟨[], im⟩ ⟨rfl, rfl⟩
      have hr := Closed.closed_block rest false il im h.2 ⟨[], im⟩ ⟨rfl, rfl⟩
      rw [genBlock, stripB, genBlock, mloc_append hs.neutral (jc_of_closed hs) (jc_of_closed hr),
        mloc_stmt s il im h.1 hf.1, mloc_block rest il im h.2 hf.2]
  theorem mloc_operand : ∀ (o : Operand_) (im : Bool), Closed.wsOperand K false im o = true →
      FragOperand V (stripOp o) → mloc (genOperand o) = genOperand (stripOp o)
    | .matrixBlock n body, im, h, hf => by
      simp only [Closed.wsOperand, Bool.and_eq_true] at h
      simp only [stripOp, FragOperand] at hf
      have hb := Closed.closed_block body false false true h.2 ⟨[], true⟩ ⟨rfl, rfl⟩
      obtain ⟨a1, a2, a3⟩ := piece_nojump [genName n, Instr.matrix]
        (by cases n <;> rfl) (by intro x hx; cases n <;> simp [genName] at hx <;> rcases hx with rfl | rfl <;> simp)
      obtain ⟨b1, b2, b3⟩ := piece_nojump
        [Instr.endMatrix, genName n, Instr.moveq (.operand .matrixLight) (.reg .operand)]
        (by cases n <;> rfl)
        (by intro x hx; cases n <;> simp [genName] at hx <;> rcases hx with rfl | rfl | rfl <;> simp)
      rw [genOperand, stripOp, genOperand, mloc_append3 a1 a2 hb.neutral (jc_of_closed hb) b2, a3, b3,
        mloc_block body false true h.2 hf]
    | .light n, im, h, hf => by
      rw [stripOp] at hf ⊢
      exact mloc_plain (all_map_gi (nr_genOperand _ hf))
        (jc_of_closed (Closed.closed_operand _ false im h ⟨[], im⟩ ⟨rfl, rfl⟩ false (none, ⟨[], im⟩)))
    | .group n, im, h, hf => by
      rw [stripOp] at hf ⊢
      exact mloc_plain (all_map_gi (nr_genOperand _ hf))
        (jc_of_closed (Closed.closed_operand _ false im h ⟨[], im⟩ ⟨rfl, rfl⟩ false (none, ⟨[], im⟩)))
    | .location n, im, h, hf => by
      rw [stripOp] at hf ⊢
      exact mloc_plain (all_map_gi (nr_genOperand _ hf))
        (jc_of_closed (Closed.closed_operand _ false im h ⟨[], im⟩ ⟨rfl, rfl⟩ false (none, ⟨[], im⟩)))
    | .zone n r, im, h, hf => by
      rw [stripOp] at hf ⊢
      exact mloc_plain (all_map_gi (nr_genOperand _ hf))
        (jc_of_closed (Closed.closed_operand _ false im h ⟨[], im⟩ ⟨rfl, rfl⟩ false (none, ⟨[], im⟩)))
    | .matrixInline n rows cols cf, im, h, hf => by
      rw [stripOp] at hf ⊢
      exact mloc_plain (all_map_gi (nr_genOperand _ hf))
        (jc_of_closed (Closed.closed_operand _ false im h ⟨[], im⟩ ⟨rfl, rfl⟩ false (none, ⟨[], im⟩)))
  theorem mloc_operands (k : ActKind) : ∀ (ops : Operands) (im : Bool),
      Closed.wsOperands K false im ops = true → FragOperands V (stripOps ops) →
      mloc (genOperands k ops) = genOperands k (stripOps ops)
    | .nil, im, h, hf => by rw [genOperands, stripOps, genOperands]; rfl
    | .cons o rest, im, h, hf => by
      simp only [Closed.wsOperands, Bool.and_eq_true] at h
      simp only [stripOps, FragOperands] at hf
      have ho := Closed.closed_operand o false im h.1 ⟨[], im⟩ ⟨rfl, rfl⟩ false (none, ⟨[], im⟩)
      have hr := Closed.closed_operands k rest false im h.2 ⟨[], im⟩ ⟨rfl, rfl⟩ false (none, ⟨[], im⟩)
      obtain ⟨b1, b2, b3⟩ := piece_nojump [opcodeOf k] (by cases k <;> rfl)
        (by intro x hx; cases k <;> simp [opcodeOf] at hx <;> subst hx <;> simp)
      rw [genOperands, stripOps, genOperands, mloc_append3 ho.neutral (jc_of_closed ho) b1 b2 (jc_of_closed hr),
        b3, mloc_operand o im h.1 hf.1, mloc_operands k rest im h.2 hf.2]
end

end Sim
end Bardolph
