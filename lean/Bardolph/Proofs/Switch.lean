import Bardolph.Proofs.Rounding
/-!
Lemmas about unit switching (`_switch_unit_mode`) used by the C14 theorems: what a `set`
transmits after a switch, expressed through `rnd16` (clamp to 0…65535 and round), and the
colour-level round trip through `colorsys`.
-/
namespace Bardolph.Units
open Bardolph.Generated.Units

/-- clamp to 0…65535 and round: what `param_16` and `make_raw` both do -/
def rnd16 (x : Rat) : Int := roundHalfEven (clampQ 0 65535 x)

theorem param16_eq_rnd16 (x : Rat) : param16 x = rnd16 x := by
  simp [param16, paramN_eq, param16Lo, param16Hi, rnd16]

theorem rnd16_range (x : Rat) : IsU16 (rnd16 x) := by
  rw [← param16_eq_rnd16]; exact param16_range x

theorem rnd16_int {n : Int} (h : IsU16 n) : rnd16 (n : Rat) = n := by
  rw [← param16_eq_rnd16]; exact param16_int h

theorem rnd16_idem (x : Rat) : rnd16 ((rnd16 x : Int) : Rat) = rnd16 x := rnd16_int (rnd16_range x)

theorem makeRaw_eq (q : Rat) : makeRaw q = ((rnd16 (q * 65535) : Int) : Rat) := by
  unfold makeRaw rnd16 clampQ
  simp only [g2rLo, g2rScale, g2rHi]
  push_cast
  rfl

theorem param16_makeRaw (q : Rat) : param16 (makeRaw q) = rnd16 (q * 65535) := by
  rw [makeRaw_eq, param16_eq_rnd16, rnd16_idem]

theorem rnd16_small {x : Rat} (h : x < 1 / 2) : rnd16 x = 0 := by
  unfold rnd16
  by_cases h0 : x ≤ 0
  · rw [clampQ_of_le (by norm_num) h0]
    exact roundHalfEven_intCast 0
  · rw [clampQ_of_mem (by linarith) (by linarith)]
    exact roundHalfEven_eq_of_close (n := 0) (by push_cast; linarith) (by push_cast; linarith)

theorem rnd16_big {x : Rat} (h : 65535 - 1 / 2 < x) : rnd16 x = 65535 := by
  unfold rnd16
  by_cases h0 : 65535 ≤ x
  · rw [clampQ_of_ge (by norm_num) h0]
    exact roundHalfEven_intCast 65535
  · rw [clampQ_of_mem (by linarith) (by linarith)]
    exact roundHalfEven_eq_of_close (n := 65535) (by push_cast; linarith) (by push_cast; linarith)

/-- hue 65535 and hue 0 are the same angle -/
def HueSame (a b : Int) : Prop := a = b ∨ (a = 0 ∧ b = 65535) ∨ (a = 65535 ∧ b = 0)

theorem HueSame.symm {a b : Int} (h : HueSame a b) : HueSame b a := by
  rcases h with h | ⟨h1, h2⟩ | ⟨h1, h2⟩
  · exact Or.inl h.symm
  · exact Or.inr (Or.inr ⟨h2, h1⟩)
  · exact Or.inr (Or.inl ⟨h2, h1⟩)

/-- degrees in 0…360 → raw, as transmitted -/
theorem hue_step (d : Rat) (h0 : 0 ≤ d) (h1 : d ≤ 360) :
    HueSame (param16 (hueToRaw d)) (rnd16 (d / 360 * 65535)) := by
  have he := eps_val
  unfold hueToRaw
  simp only [l2rWrapLo, l2rWrapHi, l2rHueZero, l2rHueModulus, l2rHueDivisor, l2rHueScale]
  push_cast
  split_ifs with h
  · rw [param16_zero]
    rcases h with ⟨_, h2⟩ | ⟨h2, _⟩
    · left
      exact (rnd16_small (by rw [he] at h2; linarith)).symm
    · right; left
      exact ⟨rfl, rnd16_big (by rw [he] at h2; linarith)⟩
  · left
    have hlt : d < 360 := by
      by_contra hc
      have : d = 360 := le_antisymm h1 (not_lt.mp hc)
      apply h
      right
      rw [this, he]
      constructor <;> norm_num
    rw [pyMod_of_mem (by norm_num) h0 hlt, param16_eq_rnd16]

/-- percent → raw, as transmitted -/
theorem pct_step (p : Rat) : param16 (pctToRaw p) = rnd16 (p / 100 * 65535) := by
  have he := eps_val
  unfold pctToRaw
  simp only [pctZero, pctDivisor, pctScale]
  push_cast
  split_ifs with h
  · rw [param16_zero]
    exact (rnd16_small (by have := h.2; rw [he] at this; linarith)).symm
  · exact param16_eq_rnd16 _

/-! ## `_as_raw_color` after a switch -/

/-- `_as_raw_color` for a colour held in the units `m` -/
def toRaw (m : Mode) (c : Color) : Color :=
  match m with
  | .raw => c
  | .rgb => rgbToRaw c
  | .logical => logicalToRaw c

theorem asRawColor_eq (r : Regs) : asRawColor r = toRaw r.unitMode r.getColor := by
  cases hm : r.unitMode <;> simp [asRawColor, toRaw, hm]

theorem getColor_switch (r : Regs) (dst : Mode) (h : r.unitMode ≠ dst) :
    (switchUnitMode r dst).getColor = convert r.unitMode dst r.getColor ∧
    (switchUnitMode r dst).unitMode = dst := by
  cases hm : r.unitMode <;> cases dst <;>
    simp_all [switchUnitMode, Regs.getColor, Regs.storeColor]

theorem asRawColor_switch (r : Regs) (dst : Mode) (h : r.unitMode ≠ dst) :
    asRawColor (switchUnitMode r dst) = toRaw dst (convert r.unitMode dst r.getColor) := by
  obtain ⟨h1, h2⟩ := getColor_switch r dst h
  rw [asRawColor_eq, h1, h2]

/-! ## The colour-level round trip -/

theorem rgbToHsv_grey (v : Rat) : rgbToHsv v v v = (0, 0, v) := by
  simp [rgbToHsv, rmax, rmin]

theorem colourOfHsb_hue_full (s b : Rat) : colourOfHsb 65535 s b = colourOfHsb 0 s b := by
  unfold colourOfHsb
  rw [show (65535 : Rat) / 65535 = 1 by norm_num, show (0 : Rat) / 65535 = 0 by norm_num]
  exact hsvToRgb_hue_one _ _

theorem colourOfHsb_hueSame {a b : Int} (h : HueSame a b) (s v : Rat) :
    colourOfHsb (a : Rat) s v = colourOfHsb (b : Rat) s v := by
  rcases h with h | ⟨h1, h2⟩ | ⟨h1, h2⟩
  · rw [h]
  · rw [h1, h2]; push_cast; exact (colourOfHsb_hue_full s v).symm
  · rw [h1, h2]; push_cast; exact colourOfHsb_hue_full s v

theorem unit_of_rnd16 (x : Rat) : 0 ≤ ((rnd16 x : Int) : Rat) / 65535 ∧ ((rnd16 x : Int) : Rat) / 65535 ≤ 1 := by
  obtain ⟨h0, h1⟩ := rnd16_range x
  have a : (0 : Rat) ≤ ((rnd16 x : Int) : Rat) := by exact_mod_cast h0
  have b : ((rnd16 x : Int) : Rat) ≤ 65535 := by exact_mod_cast h1
  constructor
  · positivity
  · rw [div_le_one (by norm_num)]; exact b

/-- hsv → rgb → hsv, rounded to 16 bits, denotes the same colour as hsv rounded to 16 bits
(`0 ≤ h ≤ 1`, `0 ≤ s ≤ 1`, `0 ≤ v`): identical integers when the colour has a hue
(`s > 0`, `v > 0`, `h < 1`), and the same grey / black / wrapped hue otherwise -/
theorem roundtrip_colour (h s v : Rat) (hh0 : 0 ≤ h) (hh1 : h ≤ 1) (hs0 : 0 ≤ s) (hs1 : s ≤ 1)
    (hv0 : 0 ≤ v) :
    colourOfHsb (rnd16 ((rgbToHsv (hsvToRgb h s v).1 (hsvToRgb h s v).2.1 (hsvToRgb h s v).2.2).1 * 65535))
      (rnd16 ((rgbToHsv (hsvToRgb h s v).1 (hsvToRgb h s v).2.1 (hsvToRgb h s v).2.2).2.1 * 65535))
      (rnd16 ((rgbToHsv (hsvToRgb h s v).1 (hsvToRgb h s v).2.1 (hsvToRgb h s v).2.2).2.2 * 65535)) =
    colourOfHsb (rnd16 (h * 65535)) (rnd16 (s * 65535)) (rnd16 (v * 65535)) := by
  have z : rnd16 (0 * 65535) = 0 := by rw [zero_mul]; exact rnd16_int ⟨by norm_num, by norm_num⟩
  by_cases hs : s = 0
  · subst hs
    rw [hsvToRgb_sat_zero, rgbToHsv_grey, z]
    unfold colourOfHsb
    push_cast
    rw [zero_div, hsvToRgb_sat_zero, hsvToRgb_sat_zero]
  by_cases hv : v = 0
  · subst hv
    rw [hsvToRgb_val_zero h s hh0 hh1, rgbToHsv_grey, z]
    unfold colourOfHsb
    push_cast
    rw [zero_div]
    obtain ⟨a0, a1⟩ := unit_of_rnd16 (h * 65535)
    rw [hsvToRgb_val_zero _ _ (le_refl 0) (by norm_num), hsvToRgb_val_zero _ _ a0 a1]
  have hs' : 0 < s := lt_of_le_of_ne hs0 (Ne.symm hs)
  have hv' : 0 < v := lt_of_le_of_ne hv0 (Ne.symm hv)
  by_cases h1 : h = 1
  · subst h1
    rw [hsvToRgb_hue_one, rgbToHsv_hsvToRgb 0 s v (le_refl 0) (by norm_num) hs' hs1 hv', z]
    rw [show (1 : Rat) * 65535 = ((65535 : Int) : Rat) by norm_num,
      rnd16_int ⟨by norm_num, by norm_num⟩]
    push_cast
    exact (colourOfHsb_hue_full _ _).symm
  · rw [rgbToHsv_hsvToRgb h s v hh0 (lt_of_le_of_ne hh1 h1) hs' hs1 hv']

end Bardolph.Units
