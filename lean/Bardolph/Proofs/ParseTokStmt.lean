import Bardolph.Proofs.ParseTokRv
/-! `Spec` for the statement routines of the parser model, bottom up. -/
namespace Bardolph.ParseTok
open Bardolph

variable {t : Bool}

/-- a loop started with fuel `rvFuel`, of rank 0 -/
theorem spec_loop_wrapper {g : Nat → M α} (hs : ∀ f, Spec false (g f)) (hf : ∀ f, Fin 0 f (g f)) :
    Spec t (fun st => g (rvFuel st) st) :=
  ⟨fun st h => ((hs (rvFuel st)).run st h).strengthen
    (hf (rvFuel st) st h (by unfold rvFuel; omega))⟩

/-! ## Statements without nested statements -/

theorem spec_rangeRegs (a b : Reg) : Spec t (rangeRegs a b) := by
  unfold rangeRegs; spec_steps [spec_rvalueTop _ _]

theorem spec_stringToReg (r : Reg) : Spec t (stringToReg r) := by
  unfold stringToReg; spec_steps

theorem spec_timePatternsMore : ∀ f, Spec false (timePatternsMore f) := by
  intro f
  induction f with
  | zero => unfold timePatternsMore; exact Spec.outOfFuel
  | succ f ih => unfold timePatternsMore; spec_steps

theorem fin_timePatternsMore : ∀ f, Fin 0 f (timePatternsMore f) := by
  intro f
  induction f with
  | zero => intro st _ hb; omega
  | succ f ih =>
    unfold timePatternsMore
    refine Fin.of_getSt_bind (fun s hi hb => ?_)
    by_cases hc : (s.cur.ty == TT.or_) = true
    · rw [if_pos hc]
      have hne : s.cur.ty ≠ .eof := by
        have : s.cur.ty = .or_ := by simpa using hc
        rw [this]; decide
      refine fin_strict_step spec_skipToken (fun a s1 e => skipToken_strict hi e hne)
        (fun _ => ?_) hi hb
      fin_steps [Fin.call ih (by omega), spec_timePatternsMore f]
    · rw [if_neg hc]; intro he; cases he

theorem spec_timePatternsLoop : Spec t timePatternsLoop :=
  spec_loop_wrapper spec_timePatternsMore fin_timePatternsMore

theorem spec_processTimePatterns : Spec t processTimePatterns := by
  unfold processTimePatterns; spec_steps [spec_timePatternsLoop]

theorem spec_timeStmt : Spec t timeStmt := by
  unfold timeStmt; spec_steps [spec_processTimePatterns, spec_rvalueTop _ _]

theorem spec_getColor : Spec t getColor := by unfold getColor; spec_steps [spec_rvalueTop _ _]
theorem spec_pauseStmt : Spec t pauseStmt := by unfold pauseStmt; spec_steps
theorem spec_breakpointStmt : Spec t breakpointStmt := by unfold breakpointStmt; spec_steps
theorem spec_outRvalue : Spec t outRvalue := by unfold outRvalue; spec_steps [spec_rvalueTop _ _]
theorem spec_printStmt : Spec t printStmt := by unfold printStmt; spec_steps [spec_outRvalue]
theorem spec_printlnStmt : Spec t printlnStmt := by unfold printlnStmt; spec_steps [spec_printStmt]

theorem spec_outRvalues : ∀ n, Spec t (outRvalues n) := by
  intro n
  induction n with
  | zero => unfold outRvalues; spec_steps
  | succ n ih => unfold outRvalues; spec_steps [spec_outRvalue]

theorem spec_assignment : Spec t assignment := by
  unfold assignment; spec_steps [spec_rvalueTop _ _]

theorem spec_returnStmt : Spec t returnStmt := by
  unfold returnStmt; spec_steps [spec_rvalueTop _ _]

theorem spec_markStmt : Spec t markStmt := by unfold markStmt; spec_steps [spec_callRoutine]
theorem spec_allOperand : Spec t allOperand := by unfold allOperand; spec_steps
theorem spec_defaultOperand : Spec t defaultOperand := by unfold defaultOperand; spec_steps
theorem spec_varOperand : Spec t varOperand := by unfold varOperand; spec_steps
theorem spec_operandKind : Spec t operandKind := by unfold operandKind; spec_steps
theorem spec_zoneRange : Spec t zoneRange := by unfold zoneRange; spec_steps [spec_rangeRegs _ _]
theorem spec_matrixRange (w : String) (a b : Reg) : Spec t (matrixRange w a b) := by
  unfold matrixRange; spec_steps [spec_rangeRegs _ _]

theorem strict_rangeRegs (a b : Reg) : Strict (rangeRegs a b) := by
  unfold rangeRegs
  exact Strict.bind_left (spec_rvalueTop _ _) (strict_rvalueTop _ _)
    (fun _ => by spec_steps [spec_rvalueTop _ _])

theorem strict_matrixRange (w : String) (a b : Reg) : Strict (matrixRange w a b) := by
  unfold matrixRange
  refine Strict.bind_right spec_skipToken (fun _ => Strict.bind_right spec_getSt (fun _ => ?_))
  exact Strict.ite (Strict.tokenError _ _) (strict_rangeRegs _ _)

theorem spec_inlineMore : ∀ f r c, Spec false (inlineMore f r c) := by
  intro f
  induction f with
  | zero => intro r c; unfold inlineMore; exact Spec.outOfFuel
  | succ f ih => intro r c; unfold inlineMore; spec_steps [spec_matrixRange _ _ _, ih _ _]

theorem fin_inlineMore : ∀ f r c, Fin 0 f (inlineMore f r c) := by
  intro f
  induction f with
  | zero => intro r c st _ hb; omega
  | succ f ih =>
    intro r c
    unfold inlineMore
    have key : ∀ (w : String) (a b : Reg) (r' c' : Bool), Fin 0 (f + 1) (do
        matrixRange w a b
        inlineMore f r' c') := fun w a b r' c' =>
      Fin.bind_strict (Fin.of_spec (spec_matrixRange _ _ _)) (spec_matrixRange _ _ _)
        (strict_matrixRange _ _ _) (fun _ => Fin.call (ih _ _) (by omega))
    fin_steps [key _ _ _ _ _]

theorem spec_inlineLoop : Spec t inlineLoop :=
  spec_loop_wrapper (fun f => spec_inlineMore f false false) (fun f => fin_inlineMore f false false)
theorem spec_inlineOperand : Spec t inlineOperand := by
  unfold inlineOperand; spec_steps [spec_inlineLoop]

theorem spec_detectLoopType : Spec t detectLoopType := by unfold detectLoopType; spec_steps

theorem spec_orElseFail_tokenError {m : M α} (hm : Spec t m) (a b : String) :
    Spec t (orElseFail m (tokenError a b)) := by
  refine ⟨fun st h => ?_⟩
  have h1 := hm.run st h
  unfold orElseFail
  cases hr : m st with
  | ok x s => rw [hr] at h1; exact h1
  | raised k s => rw [hr] at h1; exact h1
  | oof => rw [hr] at h1; exact h1
  | fail s =>
    rw [hr] at h1
    show FailPost st (s.addError _)
    obtain ⟨new, hne, he, hl⟩ := h1.errors
    refine ⟨h1.suffix, new ++ [(s.cur.line, a ++ s.cur.str ++ b)], by simp, ?_, ?_⟩
    · simp [St.addError, he]
    · intro e he'
      rcases List.mem_append.mp he' with h2 | h2
      · exact hl e h2
      · simp at h2; subst h2
        exact .inr ⟨s.cur, h1.suffix.subset (by simp [St.toks]), rfl⟩

theorem spec_pushLightNames (lt : LoopType) (o : Operand) : Spec t (pushLightNames lt o) := by
  unfold pushLightNames
  spec_steps [spec_orElseFail_tokenError (spec_rvalueTop _ _) _ _]

theorem spec_modifyInner : Spec t (modifySt fun st => { st with inner := #[] }) :=
  spec_modifySt_same fun _ => ⟨rfl, rfl, rfl, rfl, rfl⟩

theorem spec_preLoopItem (lt : LoopType) : Spec t (preLoopItem lt) := by
  unfold preLoopItem
  spec_steps [spec_modifyInner, spec_pushLightNames _ _, spec_rvalueTop _ _]

theorem spec_preLoopAnd : Spec t preLoopAnd := by unfold preLoopAnd; spec_steps

theorem strict_preLoopItem (lt : LoopType) : Strict (preLoopItem lt) := by
  unfold preLoopItem
  refine Strict.bind_right spec_modifyInner (fun _ => Strict.of_getSt_bind (fun s a st' hi he => ?_))
  have hskip : ∀ o, s.cur.ty ≠ .eof → (do skipToken; pushLightNames lt o) s = .ok a st' →
      st'.rest.length < s.rest.length := by
    intro o hne he
    obtain ⟨_, s1, e1, e2⟩ := bind_ok_inv he
    have l1 := skipToken_strict hi e1 hne
    have l2 := ok_of_spec (t := false) (spec_pushLightNames lt o)
      (ok_of_spec (t := false) spec_skipToken hi e1).1 e2
    omega
  cases hty : s.cur.ty
  all_goals rw [hty] at he
  all_goals dsimp only at he
  all_goals first
    | exact Strict.bind_left (spec_rvalueTop _ _) (strict_rvalueTop _ _)
        (fun _ => spec_emitListTo _ _) s a st' hi he
    | exact hskip _ (by rw [hty]; decide) he

theorem spec_preLoopList (lt : LoopType) : ∀ f, Spec false (preLoopList lt f) := by
  intro f
  induction f with
  | zero => unfold preLoopList; exact Spec.outOfFuel
  | succ f ih => unfold preLoopList; spec_steps [spec_preLoopItem _, spec_preLoopAnd]

theorem fin_preLoopList (lt : LoopType) : ∀ f, Fin 0 f (preLoopList lt f) := by
  intro f
  induction f with
  | zero => intro st _ hb; omega
  | succ f ih =>
    unfold preLoopList
    refine Fin.bind (Fin.of_spec spec_getSt) spec_getSt (fun st => ?_)
    refine Fin.ite (Fin.of_spec (Spec.pure _)) ?_
    refine Fin.bind_strict (Fin.of_spec (spec_preLoopItem _)) (spec_preLoopItem _)
      (strict_preLoopItem _) (fun _ => ?_)
    fin_steps [Fin.call ih (by omega), spec_preLoopList lt f, spec_preLoopAnd]

theorem spec_preLoopListTop (lt : LoopType) : Spec t (preLoopListTop lt) :=
  spec_loop_wrapper (spec_preLoopList lt) (fin_preLoopList lt)

theorem spec_preLoopAs : Spec t preLoopAs := by unfold preLoopAs; spec_steps
theorem spec_calcCounter : Spec t calcCounter := by
  unfold calcCounter; spec_steps [spec_ifTrueStart, spec_ifElse _, spec_ifEnd _]
theorem spec_calcIncr : Spec t calcIncr := by
  unfold calcIncr; spec_steps [spec_ifTrueStart, spec_ifElse _, spec_ifEnd _]
theorem spec_indexVarRange (lt : LoopType) (v : String) : Spec t (indexVarRange lt v) := by
  unfold indexVarRange; spec_steps [spec_rvalueTop _ _, spec_calcCounter, spec_calcIncr]
theorem spec_cycleVarRange (lt : LoopType) (v : String) : Spec t (cycleVarRange lt v) := by
  unfold cycleVarRange
  spec_steps [spec_rvalueTop _ _, spec_ifTrueStart, spec_ifElse _, spec_ifEnd _]
theorem spec_preLoopWith (info : LoopInfo) : Spec t (preLoopWith info) := by
  unfold preLoopWith
  spec_steps [spec_preLoopListTop _, spec_indexVarRange _ _, spec_cycleVarRange _ _]
theorem spec_preLoop (lt : LoopType) : Spec t (preLoop lt) := by
  unfold preLoop
  spec_steps [spec_rvalueTop _ _, spec_preLoopListTop _, spec_preLoopAs, spec_preLoopWith _]
theorem spec_loopTest (lt : LoopType) : Spec t (loopTest lt) := by
  unfold loopTest; spec_steps [spec_rvalueTop _ _]
theorem spec_loopPost (info : LoopInfo) : Spec t (loopPost info) := by
  unfold loopPost; spec_steps

theorem spec_declParam (r n : String) : Spec t (declParam r n) := by
  unfold declParam; spec_steps

theorem declParam_strict {r n : String} {st st' : St} {a : Unit} (hi : Inv st)
    (he : declParam r n st = .ok a st') (hne : st.cur.ty ≠ .eof) :
    st'.rest.length < st.rest.length := by
  unfold declParam at he
  obtain ⟨_, s1, e1, e2⟩ := bind_ok_inv he
  obtain ⟨_, s2, e3, e4⟩ := bind_ok_inv e2
  have i1 := ok_of_spec (t := false) (spec_addParam r n) hi e1
  have i2 := ok_of_spec (t := false) (spec_addVariable n) i1.1 e3
  have c1 : s1.cur = st.cur ∧ s1.rest = st.rest := by
    unfold addParam modifySt at e1
    cases e1
    dsimp only
    cases st.getRoutine r <;> exact ⟨rfl, rfl⟩
  have c2 : s2.cur = s1.cur ∧ s2.rest = s1.rest := by
    unfold addVariable modifySt at e3
    cases e3
    dsimp only
    cases s1.inRoutine <;> exact ⟨rfl, rfl⟩
  have := skipToken_strict i2.1 e4 (by rw [c2.1, c1.1]; exact hne)
  rw [c2.2, c1.2] at this
  exact this

theorem spec_paramDeclMore (r : String) : ∀ f, Spec false (paramDeclMore r f) := by
  intro f
  induction f with
  | zero => unfold paramDeclMore; exact Spec.outOfFuel
  | succ f ih => unfold paramDeclMore; spec_steps [spec_declParam _ _]

theorem fin_paramDeclMore (r : String) : ∀ f, Fin 0 f (paramDeclMore r f) := by
  intro f
  induction f with
  | zero => intro st _ hb; omega
  | succ f ih =>
    unfold paramDeclMore
    refine Fin.of_getSt_bind (fun s hi hb => ?_)
    by_cases hc : (s.cur.ty == TT.name && !s.hasRoutine s.cur.str) = true
    · rw [if_pos hc]
      have hne : s.cur.ty ≠ .eof := by
        simp only [Bool.and_eq_true, beq_iff_eq] at hc
        rw [hc.1]; decide
      split
      all_goals dsimp only
      all_goals split
      all_goals first
        | (intro he; cases he; done)
        | exact fin_strict_step (spec_declParam _ _) (fun a s1 e => declParam_strict hi e hne)
            (fun _ => Fin.call ih (by omega)) hi hb
    · rw [if_neg hc]; intro he; cases he

theorem spec_paramDeclLoop (r : String) : Spec t (paramDeclLoop r) :=
  spec_loop_wrapper (spec_paramDeclMore r) (fin_paramDeclMore r)
theorem spec_paramDecl (r : String) : Spec t (paramDecl r) := by
  unfold paramDecl; spec_steps [spec_paramDeclLoop _, spec_declParam _ _]

theorem spec_operandName : Spec t operandName := by
  unfold operandName
  refine spec_bind_currentStr (fun v => ?_) ?_
  · spec_steps [spec_varOperand]
  · intro st hst hty
    have hn' : st.cur.ty ≠ TT.name := by
      rcases hty with h | h <;> (rw [h]; decide)
    simp [getSt_bind, hn']
    split <;> exact ⟨_, rfl⟩

theorem spec_printfRest : Spec t printfRest := by
  unfold printfRest
  refine spec_bind_currentStr (fun v => ?_) ?_
  · spec_steps [spec_outRvalues _]
  · intro st hst hty
    simp
    exact ⟨_, rfl⟩

theorem spec_printfStmt : Spec t printfStmt := by
  unfold printfStmt; spec_steps [spec_printfRest]

theorem spec_macroDefinition (name : String) (hn : nameLike name = true) :
    Spec t (macroDefinition name) := by
  unfold macroDefinition
  refine spec_bind_currentLiteral (fun v => ?_) ?_
  · spec_steps [spec_addMacro _ _ hn]
  · intro st hst hty
    have hk0 := hst.toks st.cur (by simp [St.toks])
    have hk : nameLike st.cur.content = false := by
      rcases hty with h | h <;> (simp only [tokOk, h] at hk0; simpa using hk0)
    have hs : st.cur.str = st.cur.content := by
      rcases hty with h | h <;> simp [Tok.str, h, TT.hasString]
    have hm : st.getMacro st.cur.str = none := by
      cases hg : st.getMacro st.cur.str with
      | none => rfl
      | some s =>
        exfalso
        simp only [St.getMacro, St.globalOfType, Table.get] at hg
        by_cases hloc : (List.lookup st.cur.str st.locals).isSome = true
        · simp [hloc] at hg
        simp only [hloc] at hg
        cases hl : List.lookup st.cur.str st.globals with
        | none => rw [hl] at hg; cases hg
        | some s' =>
          rw [hl] at hg
          by_cases hkind : (s'.kind == SymKind.macro) = true
          · have := hst.macros _ _ hl (by simpa using hkind)
            rw [hs, hk] at this
            cases this
          · simp only [hkind] at hg
            cases hg
    simp [bind_run, getSt, hm, tokenError, triggerError]
    exact ⟨_, rfl⟩


theorem good_setReg {st : St} (h : Inv st) (hty : st.cur.ty = .register) : (setReg st).Good t st := by
  unfold setReg
  rw [getSt_bind]
  cases hr : regOfName st.cur.str with
  | none => exact (spec_tokenError _ _).run st h
  | some r =>
    have : (st.cur.ty == TT.default) = false := by rw [hty]; rfl
    simp only [this, Bool.false_eq_true, if_false]
    refine Spec.run ?_ st h
    spec_steps [spec_stringToReg _, spec_rvalueTop _ _, spec_timeStmt]

theorem good_breakStmt {st : St} (h : Inv st) : (breakStmt st).Good t st := by
  unfold breakStmt
  rw [getSt_bind]
  cases hl : st.loops with
  | nil => simp [St.inLoop, hl]; exact (spec_triggerError _).run st h
  | cons top r =>
    cases top with
    | none => simp [St.inLoop, hl]; exact (spec_triggerError _).run st h
    | some l =>
      simp [St.inLoop, hl, bind_run, offset, emit, emitTo, modifySt, addBreak]
      have key : ∀ s1 : St, s1.cur = st.cur → s1.rest = st.rest → s1.globals = st.globals →
          s1.errors = st.errors → shape s1.loops = shape st.loops → (nextToken s1).Good t st :=
        fun s1 a b c d e => Res.Good.after (okPost_of_shape h a b c d e)
          (spec_nextToken.run s1 (inv_of_eq h a b c))
      exact key _ rfl rfl rfl rfl (by simp [shape, hl])

/-! ## Statements with nested statements -/

theorem spec_repeatBody {body : M Unit} (hb : Spec t body) : Spec t (repeatBody body) := by
  unfold repeatBody
  spec_steps [spec_detectLoopType, spec_preLoop _, spec_loopTest _, spec_ifTrueStart,
    spec_loopPost _, spec_jumpBack _, spec_ifEnd _]

theorem spec_routineHead (name : String) (w : Bool) : Spec t (routineHead name w) := by
  unfold routineHead; spec_steps [spec_paramDecl _]

theorem goodX_closeLoop {st : St} (h : Inv st) {sh : List Bool}
    (hs : shape st.loops = true :: sh) : (closeLoop st).GoodX t st sh := by
  unfold closeLoop
  cases hl : st.loops with
  | nil => simp [shape, hl] at hs
  | cons top r =>
    cases top with
    | none => simp [shape, hl] at hs
    | some l =>
      simp [bind_run, fixBreakAddrs, hl, emit, emitTo, modifySt, exitLoop]
      refine ⟨⟨inv_of_eq h rfl rfl rfl, ?_, rfl⟩, ?_⟩
      · exact List.suffix_refl _
      · simp [shape, hl] at hs ⊢; exact hs

theorem shape_resume_false {l : List (Option (List Nat))} {sh : List Bool}
    (h : shape l = false :: sh) : shape (resumeLoops l) = sh := by
  cases l with
  | nil => simp [shape] at h
  | cons top r =>
    cases top with
    | some x => simp [shape] at h
    | none => simpa [shape, resumeLoops] using h

theorem spec_routinePart (name : String) (w : Bool) {body : M Unit} (hb : Spec t body) :
    Spec t (routinePart name w body) := by
  refine ⟨fun st h => Res.GoodX.toGood ?_⟩
  unfold routinePart
  refine goodX_bind (sh1 := false :: shape st.loops) ?_ ?_
  · exact ⟨⟨inv_of_eq h rfl rfl rfl, List.suffix_refl _, rfl⟩, rfl⟩
  intro _ s1 h1 hs1
  refine goodX_bind (sh1 := false :: shape st.loops) ?_ ?_
  · have := ((spec_routineHead (t := t) name w).run s1 h1.inv).toX
    rw [hs1] at this; exact this
  intro _ s2 h2 hs2
  have hbody := hb.run s2 h2.inv
  unfold andFinally
  cases hr : body s2 with
  | ok a s3 =>
    rw [hr] at hbody
    refine ⟨⟨inv_of_eq hbody.inv rfl rfl rfl, hbody.suffix, hbody.errors⟩, ?_⟩
    apply shape_resume_false
    show shape s3.loops = _
    rw [hbody.shape, hs2]
  | fail s3 =>
    rw [hr] at hbody
    exact ⟨hbody.suffix, hbody.errors⟩
  | raised k s3 => rw [hr] at hbody; exact hbody
  | oof => rw [hr] at hbody; exact hbody

theorem spec_blockOperand {body : M Unit} (hb : Spec t body) : Spec t (blockOperand body) := by
  refine ⟨fun st h => Res.GoodX.toGood ?_⟩
  unfold blockOperand
  refine goodX_bind (sh1 := false :: shape st.loops) ?_ ?_
  · exact ⟨⟨inv_of_eq h rfl rfl rfl, List.suffix_refl _, rfl⟩, rfl⟩
  intro _ s1 h1 hs1
  refine goodX_bind (sh1 := false :: shape st.loops) ?_ ?_
  · have := (hb.run s1 h1.inv).toX
    rw [hs1] at this; exact this
  intro _ s2 h2 hs2
  exact ⟨⟨inv_of_eq h2.inv rfl rfl rfl, List.suffix_refl _, rfl⟩, shape_resume_false hs2⟩

theorem spec_definitionRest (name : String) (hn : nameLike name = true) {body : M Unit}
    (hb : Spec t body) : Spec t (definitionRest name body) := by
  unfold definitionRest
  spec_steps [spec_routinePart _ _ hb, spec_macroDefinition _ hn]

theorem spec_repeatRest {body : M Unit} (hb : Spec t body) : Spec t (repeatRest body) := by
  refine ⟨fun st h => Res.GoodX.toGood ?_⟩
  unfold repeatRest
  refine goodX_bind (sh1 := true :: shape st.loops) ?_ ?_
  · exact ⟨⟨inv_of_eq h rfl rfl rfl, List.suffix_refl _, rfl⟩, rfl⟩
  intro _ s2 h2 hs2
  refine goodX_bind (sh1 := true :: shape st.loops) ?_ ?_
  · have := ((spec_repeatBody hb).run s2 h2.inv).toX
    rw [hs2] at this; exact this
  intro _ s3 h3 hs3
  exact goodX_closeLoop h3.inv hs3

theorem spec_getSt_bind_pt {f : St → M β} (h : ∀ s, Inv s → (f s s).Good t s) :
    Spec t (getSt >>= f) := ⟨fun st hst => by rw [getSt_bind]; exact h st hst⟩

theorem spec_definitionNamed {body : M Unit} (hb : Spec t body) :
    Spec t (definitionNamed body) := by
  unfold definitionNamed
  refine spec_getSt_bind_pt (fun st h => ?_)
  by_cases hty : st.cur.ty = .name
  · have hne : (st.cur.ty != TT.name) = false := by rw [hty]; rfl
    simp only [hne, Bool.false_eq_true, if_false]
    have hk := h.toks st.cur (by simp [St.toks])
    simp only [tokOk, hty] at hk
    have hs : st.cur.str = st.cur.content := by simp [Tok.str, hty, TT.hasString]
    refine Spec.run ?_ st h
    spec_steps [spec_definitionRest _ (by rw [hs]; exact hk) hb]
  · have hne : (st.cur.ty != TT.name) = true := by simpa using hty
    simp only [hne, if_true]
    exact (spec_tokenError _ _).run st h

theorem spec_stmtFamily : ∀ f,
    Spec false (command f) ∧ Spec false (commandSeq f) ∧ Spec false (compoundMore f) ∧
    Spec false (ifStmt f) ∧ Spec false (repeatStmt f) ∧ Spec false (definition f) ∧
    (∀ o, Spec false (action f o)) ∧ (∀ o, Spec false (operandThenMore f o)) ∧
    Spec false (operand f) ∧ Spec false (matrixOperandList f) := by
  intro f
  induction f with
  | zero =>
    refine ⟨?_, ?_, ?_, ?_, ?_, ?_, ?_, ?_, ?_, ?_⟩ <;> intros <;>
      first
      | (unfold command; exact Spec.outOfFuel)
      | (unfold commandSeq; exact Spec.outOfFuel)
      | (unfold compoundMore; exact Spec.outOfFuel)
      | (unfold ifStmt; exact Spec.outOfFuel)
      | (unfold repeatStmt; exact Spec.outOfFuel)
      | (unfold definition; exact Spec.outOfFuel)
      | (unfold action; exact Spec.outOfFuel)
      | (unfold operandThenMore; exact Spec.outOfFuel)
      | (unfold operand; exact Spec.outOfFuel)
      | (unfold matrixOperandList; exact Spec.outOfFuel)
  | succ f ih =>
    obtain ⟨ihC, ihS, ihM, ihI, ihR, ihD, ihA, ihT, ihO, ihX⟩ := ih
    refine ⟨?_, ?_, ?_, ?_, ?_, ?_, ?_, ?_, ?_, ?_⟩
    · -- command
      unfold command
      refine spec_getSt_bind_pt (fun st h => ?_)
      cases hty : st.cur.ty
      all_goals dsimp only
      all_goals first
        | exact good_setReg h hty
        | exact good_breakStmt h
        | (refine Spec.run ?_ st h
           spec_steps [spec_assignment, spec_breakpointStmt, spec_getColor, spec_markStmt,
             spec_callRoutine, spec_pauseStmt, spec_printStmt, spec_printfStmt, spec_printlnStmt,
             spec_returnStmt, spec_setUnits, spec_waitStmt, ihA _])
    · unfold commandSeq; spec_steps
    · unfold compoundMore; spec_steps
    · unfold ifStmt
      spec_steps [spec_rvalueTop _ _, spec_ifTrueStart, spec_ifElse _, spec_ifEnd _]
    · unfold repeatStmt; spec_steps [spec_repeatRest ihS]
    · unfold definition; spec_steps [spec_definitionNamed ihS]
    · intro o; unfold action
      spec_steps [spec_modifySt_same fun _ => ⟨rfl, rfl, rfl, rfl, rfl⟩, spec_allOperand,
        spec_defaultOperand, ihT _]
    · intro o; unfold operandThenMore
      spec_steps [spec_modifySt_same fun _ => ⟨rfl, rfl, rfl, rfl, rfl⟩, ihT _]
    · unfold operand
      spec_steps [spec_operandKind, spec_operandName, spec_zoneRange]
    · unfold matrixOperandList
      spec_steps [spec_blockOperand ihS, spec_inlineOperand]

end Bardolph.ParseTok
