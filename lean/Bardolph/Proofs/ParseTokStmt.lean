import Bardolph.Proofs.ParseTokPrim
/-! `Spec` for the routines of the parser model, bottom up. -/
namespace Bardolph.ParseTok
open Bardolph

/-- decompose a `do` block along its binds, tests and matches; closes the primitive leaves and
those that are instances of the given lemmas -/
syntax "spec_steps" ("[" term,* "]")? : tactic
macro_rules
  | `(tactic| spec_steps) => `(tactic| spec_steps [])
  | `(tactic| spec_steps [$ts,*]) => `(tactic| repeat' (first
    | assumption
    | with_reducible exact Spec.pure _
    | with_reducible exact spec_getSt
    | with_reducible exact spec_emit _
    | with_reducible exact spec_emitTo _ _
    | with_reducible exact spec_emitList _
    | with_reducible exact spec_emitListTo _ _
    | with_reducible exact spec_offset
    | with_reducible exact spec_patch _ _
    | with_reducible exact spec_takeInner
    | with_reducible exact spec_triggerError _
    | with_reducible exact spec_tokenError _ _
    | with_reducible exact spec_timeSpecError
    | with_reducible exact spec_syntaxError
    | with_reducible exact spec_nextToken
    | with_reducible exact spec_skipToken
    | with_reducible exact spec_addVariable _
    | with_reducible exact spec_addRoutine _ _
    | with_reducible exact spec_addParam _ _
    | with_reducible exact Spec.outOfFuel
    $[| with_reducible exact $ts]*
    | with_reducible refine Spec.bind ?_ (fun _ => ?_)
    | with_reducible apply Spec.ite
    | split
    | (show Spec _; dsimp only)))

theorem spec_ifTrueStart : Spec ifTrueStart := by unfold ifTrueStart; spec_steps
theorem spec_ifElse (m : Marker) : Spec (ifElse m) := by unfold ifElse; spec_steps
theorem spec_ifEnd (m : Marker) : Spec (ifEnd m) := by unfold ifEnd; spec_steps
theorem spec_jumpBack (n : Nat) : Spec (jumpBack n) := by unfold jumpBack; spec_steps
theorem spec_waitStmt : Spec waitStmt := by unfold waitStmt; spec_steps
theorem spec_setUnits : Spec setUnits := by unfold setUnits; spec_steps

theorem spec_deliverConst (c d cg) : Spec (deliverConst c d cg) := by
  unfold deliverConst; spec_steps
theorem spec_deliverSrc (c d cg) : Spec (deliverSrc c d cg) := by unfold deliverSrc; spec_steps

theorem spec_rvalueValue (u d cg v) : Spec (rvalueValue u d cg v) := by
  unfold rvalueValue
  spec_steps [spec_deliverConst _ _ _, spec_deliverSrc _ _ _]

theorem spec_rvalueSimple (dest : Dest) (cg : CG) : Spec (rvalueSimple dest cg) := by
  unfold rvalueSimple
  refine Spec.bind spec_getSt (fun s => ?_)
  refine Spec.bind (by spec_steps) (fun _ => ?_)
  refine spec_bind_currentConstant (fun v => spec_rvalueValue _ _ _ v) ?_
  intro st hst hty
  unfold rvalueValue
  by_cases hu : s.cur.isMark "-" = true
  · simp [hu, triggerError]; exact ⟨_, rfl⟩
  · simp [hu, getSt_bind, hty, tokenError, triggerError]; exact ⟨_, rfl⟩

/-! ## The rvalue family -/

theorem spec_rvFamily : ∀ f,
    (∀ d cg, Spec (rvalue f d cg)) ∧ (∀ b, Spec (callNamed f b)) ∧
    (∀ ps, Spec (callParams f ps)) ∧ Spec (expression f) ∧ (∀ p, Spec (climb f p)) ∧
    (∀ op, Spec (inner f op)) ∧ Spec (atom f) := by
  intro f
  induction f with
  | zero =>
    refine ⟨?_, ?_, ?_, ?_, ?_, ?_, ?_⟩ <;> intros <;>
      first
      | (unfold rvalue; exact Spec.outOfFuel)
      | (unfold callNamed; exact Spec.outOfFuel)
      | (unfold callParams; exact Spec.outOfFuel)
      | (unfold expression; exact Spec.outOfFuel)
      | (unfold climb; exact Spec.outOfFuel)
      | (unfold inner; exact Spec.outOfFuel)
      | (unfold atom; exact Spec.outOfFuel)
  | succ f ih =>
    obtain ⟨ihR, ihN, ihP, ihE, ihC, ihI, ihA⟩ := ih
    refine ⟨?_, ?_, ?_, ?_, ?_, ?_, ?_⟩
    · intro d cg
      unfold rvalue
      spec_steps [spec_rvalueSimple _ _, ihN _]
    · intro b
      unfold callNamed
      spec_steps [ihP _]
    · intro ps
      cases ps with
      | nil => unfold callParams; spec_steps
      | cons p ps => unfold callParams; spec_steps [ihR _ _, ihP _]
    · unfold expression; spec_steps [ihC _]
    · intro p; unfold climb; spec_steps [ihC _, ihI _]
    · intro op; unfold inner; spec_steps [ihC _, ihI _]
    · unfold atom; spec_steps [ihR _ _]

theorem spec_rvalueTop (d : Dest) (cg : CG) : Spec (rvalueTop d cg) :=
  ⟨fun st h => ((spec_rvFamily (rvFuel st)).1 d cg).run st h⟩

theorem spec_callRoutine : Spec callRoutine := by
  refine ⟨fun st h => ?_⟩
  unfold callRoutine
  split
  · exact Res.Good.after (advance_spec h).2.1
      (((spec_rvFamily (rvFuel st)).2.1 true).run _ (advance_spec h).2.1.inv)
  · exact ((spec_rvFamily (rvFuel st)).2.1 false).run st h

theorem inv_of_eq {st st' : St} (h : Inv st) (hc : st'.cur = st.cur) (hr : st'.rest = st.rest)
    (hg : st'.globals = st.globals) : Inv st' := by
  have ht : st'.toks = st.toks := by simp [St.toks, hc, hr]
  exact ⟨by rw [ht]; exact h.toks, by rw [ht]; exact h.lastEof, by rw [hg]; exact h.macros⟩

theorem okPost_of_shape {st st' : St} (h : Inv st) (hc : st'.cur = st.cur)
    (hr : st'.rest = st.rest) (hg : st'.globals = st.globals) (he : st'.errors = st.errors)
    (hs : shape st'.loops = shape st.loops) : OkPost st st' := by
  have ht : st'.toks = st.toks := by simp [St.toks, hc, hr]
  exact ⟨inv_of_eq h hc hr hg, by rw [ht]; exact List.suffix_refl _, he, hs⟩

/-! ## Statements without nested statements -/

theorem spec_rangeRegs (a b : Reg) : Spec (rangeRegs a b) := by
  unfold rangeRegs; spec_steps [spec_rvalueTop _ _]

theorem spec_stringToReg (r : Reg) : Spec (stringToReg r) := by
  unfold stringToReg; spec_steps

theorem spec_timePatternsMore : ∀ f, Spec (timePatternsMore f) := by
  intro f
  induction f with
  | zero => unfold timePatternsMore; exact Spec.outOfFuel
  | succ f ih => unfold timePatternsMore; spec_steps

theorem spec_timePatternsLoop : Spec timePatternsLoop :=
  ⟨fun st h => (spec_timePatternsMore _).run st h⟩

theorem spec_processTimePatterns : Spec processTimePatterns := by
  unfold processTimePatterns; spec_steps [spec_timePatternsLoop]

theorem spec_timeStmt : Spec timeStmt := by
  unfold timeStmt; spec_steps [spec_processTimePatterns, spec_rvalueTop _ _]

theorem spec_getColor : Spec getColor := by unfold getColor; spec_steps [spec_rvalueTop _ _]
theorem spec_pauseStmt : Spec pauseStmt := by unfold pauseStmt; spec_steps
theorem spec_breakpointStmt : Spec breakpointStmt := by unfold breakpointStmt; spec_steps
theorem spec_outRvalue : Spec outRvalue := by unfold outRvalue; spec_steps [spec_rvalueTop _ _]
theorem spec_printStmt : Spec printStmt := by unfold printStmt; spec_steps [spec_outRvalue]
theorem spec_printlnStmt : Spec printlnStmt := by unfold printlnStmt; spec_steps [spec_printStmt]

theorem spec_outRvalues : ∀ n, Spec (outRvalues n) := by
  intro n
  induction n with
  | zero => unfold outRvalues; spec_steps
  | succ n ih => unfold outRvalues; spec_steps [spec_outRvalue]

theorem spec_assignment : Spec assignment := by
  unfold assignment; spec_steps [spec_rvalueTop _ _]

theorem spec_returnStmt : Spec returnStmt := by
  unfold returnStmt; spec_steps [spec_rvalueTop _ _]

theorem spec_markStmt : Spec markStmt := by unfold markStmt; spec_steps [spec_callRoutine]
theorem spec_allOperand : Spec allOperand := by unfold allOperand; spec_steps
theorem spec_defaultOperand : Spec defaultOperand := by unfold defaultOperand; spec_steps
theorem spec_varOperand : Spec varOperand := by unfold varOperand; spec_steps
theorem spec_zoneRange : Spec zoneRange := by unfold zoneRange; spec_steps [spec_rangeRegs _ _]
theorem spec_matrixRange (w : String) (a b : Reg) : Spec (matrixRange w a b) := by
  unfold matrixRange; spec_steps [spec_rangeRegs _ _]

theorem spec_inlineMore : ∀ f r c, Spec (inlineMore f r c) := by
  intro f
  induction f with
  | zero => intro r c; unfold inlineMore; exact Spec.outOfFuel
  | succ f ih => intro r c; unfold inlineMore; spec_steps [spec_matrixRange _ _ _, ih _ _]

theorem spec_inlineLoop : Spec inlineLoop := ⟨fun st h => (spec_inlineMore _ _ _).run st h⟩
theorem spec_inlineOperand : Spec inlineOperand := by
  unfold inlineOperand; spec_steps [spec_inlineLoop]

theorem spec_detectLoopType : Spec detectLoopType := by unfold detectLoopType; spec_steps

theorem spec_orElseFail_tokenError {m : M α} (hm : Spec m) (a b : String) :
    Spec (orElseFail m (tokenError a b)) := by
  refine ⟨fun st h => ?_⟩
  have h1 := hm.run st h
  unfold orElseFail
  cases hr : m st with
  | ok x s => rw [hr] at h1; exact h1
  | raised k s => rw [hr] at h1; exact h1
  | oof => trivial
  | fail s =>
    rw [hr] at h1
    show FailPost st (s.addError _)
    obtain ⟨new, hne, he, hl⟩ := h1.errors
    refine ⟨h1.suffix, new ++ [(s.cur.line, a ++ s.cur.str ++ b)], by simp, ?_, ?_⟩
    · simp [St.addError, he]
    · intro e he'
      rcases List.mem_append.mp he' with h2 | h2
      · exact hl e h2
      · simp at h2; subst h2
        exact .inr ⟨s.cur, h1.suffix.subset (by simp [St.toks]), rfl⟩

theorem spec_pushLightNames (lt : LoopType) (o : Operand) : Spec (pushLightNames lt o) := by
  unfold pushLightNames
  spec_steps [spec_orElseFail_tokenError (spec_rvalueTop _ _) _ _]

theorem spec_modifyInner : Spec (modifySt fun st => { st with inner := #[] }) :=
  spec_modifySt_same fun _ => ⟨rfl, rfl, rfl, rfl, rfl⟩

theorem spec_preLoopItem (lt : LoopType) : Spec (preLoopItem lt) := by
  unfold preLoopItem
  spec_steps [spec_modifyInner, spec_pushLightNames _ _, spec_rvalueTop _ _]

theorem spec_preLoopAnd : Spec preLoopAnd := by unfold preLoopAnd; spec_steps

theorem spec_preLoopList (lt : LoopType) : ∀ f, Spec (preLoopList lt f) := by
  intro f
  induction f with
  | zero => unfold preLoopList; exact Spec.outOfFuel
  | succ f ih => unfold preLoopList; spec_steps [spec_preLoopItem _, spec_preLoopAnd]

theorem spec_preLoopListTop (lt : LoopType) : Spec (preLoopListTop lt) :=
  ⟨fun st h => (spec_preLoopList lt _).run st h⟩

theorem spec_preLoopAs : Spec preLoopAs := by unfold preLoopAs; spec_steps
theorem spec_calcCounter : Spec calcCounter := by
  unfold calcCounter; spec_steps [spec_ifTrueStart, spec_ifElse _, spec_ifEnd _]
theorem spec_calcIncr : Spec calcIncr := by
  unfold calcIncr; spec_steps [spec_ifTrueStart, spec_ifElse _, spec_ifEnd _]
theorem spec_indexVarRange (lt : LoopType) (v : String) : Spec (indexVarRange lt v) := by
  unfold indexVarRange; spec_steps [spec_rvalueTop _ _, spec_calcCounter, spec_calcIncr]
theorem spec_cycleVarRange (lt : LoopType) (v : String) : Spec (cycleVarRange lt v) := by
  unfold cycleVarRange
  spec_steps [spec_rvalueTop _ _, spec_ifTrueStart, spec_ifElse _, spec_ifEnd _]
theorem spec_preLoopWith (info : LoopInfo) : Spec (preLoopWith info) := by
  unfold preLoopWith
  spec_steps [spec_preLoopListTop _, spec_indexVarRange _ _, spec_cycleVarRange _ _]
theorem spec_preLoop (lt : LoopType) : Spec (preLoop lt) := by
  unfold preLoop
  spec_steps [spec_rvalueTop _ _, spec_preLoopListTop _, spec_preLoopAs, spec_preLoopWith _]
theorem spec_loopTest (lt : LoopType) : Spec (loopTest lt) := by
  unfold loopTest; spec_steps [spec_rvalueTop _ _]
theorem spec_loopPost (info : LoopInfo) : Spec (loopPost info) := by
  unfold loopPost; spec_steps

theorem spec_paramDeclMore (r : String) : ∀ f, Spec (paramDeclMore r f) := by
  intro f
  induction f with
  | zero => unfold paramDeclMore; exact Spec.outOfFuel
  | succ f ih => unfold paramDeclMore; spec_steps
theorem spec_paramDeclLoop (r : String) : Spec (paramDeclLoop r) :=
  ⟨fun st h => (spec_paramDeclMore r _).run st h⟩
theorem spec_paramDecl (r : String) : Spec (paramDecl r) := by
  unfold paramDecl; spec_steps [spec_paramDeclLoop _]

theorem spec_operandName : Spec operandName := by
  unfold operandName
  refine spec_bind_currentStr (fun v => ?_) ?_
  · spec_steps [spec_varOperand]
  · intro st hst hty
    simp [getSt_bind, hty]
    split <;> exact ⟨_, rfl⟩

theorem spec_printfStmt : Spec printfStmt := by
  unfold printfStmt
  refine Spec.bind spec_skipToken (fun _ => ?_)
  refine spec_bind_currentStr (fun v => ?_) ?_
  · spec_steps [spec_outRvalues _]
  · intro st hst hty
    simp
    exact ⟨_, rfl⟩

theorem spec_macroDefinition (name : String) (hn : nameLike name = true) :
    Spec (macroDefinition name) := by
  unfold macroDefinition
  refine spec_bind_currentLiteral (fun v => ?_) ?_
  · spec_steps [spec_addMacro _ _ hn]
  · intro st hst hty
    have hk := hst.toks st.cur (by simp [St.toks])
    simp only [tokOk, hty] at hk
    have hs : st.cur.str = st.cur.content := by simp [Tok.str, hty, TT.hasString]
    have hm : st.getMacro st.cur.str = none := by
      cases hg : st.getMacro st.cur.str with
      | none => rfl
      | some s =>
        exfalso
        simp only [St.getMacro, St.globalOfType, Table.get] at hg
        split at hg
        · rename_i s' hl
          split at hg
          · rename_i hkind
            have := hst.macros _ _ hl (by simpa using hkind)
            rw [hs] at this
            simp [this] at hk
          · cases hg
        · cases hg
    simp [bind_run, getSt, hm, tokenError, triggerError]
    exact ⟨_, rfl⟩


theorem good_setReg {st : St} (h : Inv st) (hty : st.cur.ty = .register) : (setReg st).Good st := by
  unfold setReg
  rw [getSt_bind]
  cases hr : regOfName st.cur.str with
  | none => exact (spec_tokenError _ _).run st h
  | some r =>
    have : (st.cur.ty == TT.default) = false := by rw [hty]; rfl
    simp only [this, Bool.false_eq_true, if_false]
    refine Spec.run ?_ st h
    spec_steps [spec_stringToReg _, spec_rvalueTop _ _, spec_timeStmt]

theorem good_breakStmt {st : St} (h : Inv st) : (breakStmt st).Good st := by
  unfold breakStmt
  rw [getSt_bind]
  cases hl : st.loops with
  | nil => simp [St.inLoop, hl]; exact (spec_triggerError _).run st h
  | cons top r =>
    cases top with
    | none => simp [St.inLoop, hl]; exact (spec_triggerError _).run st h
    | some l =>
      simp [St.inLoop, hl, bind_run, offset, emit, emitTo, modifySt, addBreak]
      have key : ∀ s1 : St, s1.cur = st.cur → s1.rest = st.rest → s1.globals = st.globals →
          s1.errors = st.errors → shape s1.loops = shape st.loops → (nextToken s1).Good st :=
        fun s1 a b c d e => Res.Good.after (okPost_of_shape h a b c d e)
          (spec_nextToken.run s1 (inv_of_eq h a b c))
      exact key _ rfl rfl rfl rfl (by simp [shape, hl])

/-! ## Statements with nested statements -/

theorem spec_repeatBody {body : M Unit} (hb : Spec body) : Spec (repeatBody body) := by
  unfold repeatBody
  spec_steps [spec_detectLoopType, spec_preLoop _, spec_loopTest _, spec_ifTrueStart,
    spec_loopPost _, spec_jumpBack _, spec_ifEnd _]

theorem spec_routineHead (name : String) (w : Bool) : Spec (routineHead name w) := by
  unfold routineHead; spec_steps [spec_paramDecl _]

theorem goodX_closeLoop {st : St} (h : Inv st) {sh : List Bool}
    (hs : shape st.loops = true :: sh) : (closeLoop st).GoodX st sh := by
  unfold closeLoop
  cases hl : st.loops with
  | nil => simp [shape, hl] at hs
  | cons top r =>
    cases top with
    | none => simp [shape, hl] at hs
    | some l =>
      simp [bind_run, fixBreakAddrs, hl, emit, emitTo, modifySt, exitLoop]
      refine ⟨⟨inv_of_eq h rfl rfl rfl, ?_, rfl⟩, ?_⟩
      · exact List.suffix_refl _
      · simp [shape, hl] at hs ⊢; exact hs

theorem shape_resume_false {l : List (Option (List Nat))} {sh : List Bool}
    (h : shape l = false :: sh) : shape (resumeLoops l) = sh := by
  cases l with
  | nil => simp [shape] at h
  | cons top r =>
    cases top with
    | some x => simp [shape] at h
    | none => simpa [shape, resumeLoops] using h

theorem spec_routinePart (name : String) (w : Bool) {body : M Unit} (hb : Spec body) :
    Spec (routinePart name w body) := by
  refine ⟨fun st h => Res.GoodX.toGood ?_⟩
  unfold routinePart
  refine goodX_bind (sh1 := false :: shape st.loops) ?_ ?_
  · exact ⟨⟨inv_of_eq h rfl rfl rfl, List.suffix_refl _, rfl⟩, rfl⟩
  intro _ s1 h1 hs1
  refine goodX_bind (sh1 := false :: shape st.loops) ?_ ?_
  · have := ((spec_routineHead name w).run s1 h1.inv).toX
    rw [hs1] at this; exact this
  intro _ s2 h2 hs2
  have hbody := hb.run s2 h2.inv
  unfold andFinally
  cases hr : body s2 with
  | ok a s3 =>
    rw [hr] at hbody
    refine ⟨⟨inv_of_eq hbody.inv rfl rfl rfl, hbody.suffix, hbody.errors⟩, ?_⟩
    apply shape_resume_false
    show shape s3.loops = _
    rw [hbody.shape, hs2]
  | fail s3 =>
    rw [hr] at hbody
    exact ⟨hbody.suffix, hbody.errors⟩
  | raised k s3 => rw [hr] at hbody; exact hbody
  | oof => trivial

theorem spec_blockOperand {body : M Unit} (hb : Spec body) : Spec (blockOperand body) := by
  refine ⟨fun st h => Res.GoodX.toGood ?_⟩
  unfold blockOperand
  refine goodX_bind (sh1 := false :: shape st.loops) ?_ ?_
  · exact ⟨⟨inv_of_eq h rfl rfl rfl, List.suffix_refl _, rfl⟩, rfl⟩
  intro _ s1 h1 hs1
  refine goodX_bind (sh1 := false :: shape st.loops) ?_ ?_
  · have := (hb.run s1 h1.inv).toX
    rw [hs1] at this; exact this
  intro _ s2 h2 hs2
  exact ⟨⟨inv_of_eq h2.inv rfl rfl rfl, List.suffix_refl _, rfl⟩, shape_resume_false hs2⟩

theorem spec_definitionRest (name : String) (hn : nameLike name = true) {body : M Unit}
    (hb : Spec body) : Spec (definitionRest name body) := by
  unfold definitionRest
  spec_steps [spec_routinePart _ _ hb, spec_macroDefinition _ hn]

theorem spec_getSt_bind_pt {f : St → M β} (h : ∀ s, Inv s → (f s s).Good s) :
    Spec (getSt >>= f) := ⟨fun st hst => by rw [getSt_bind]; exact h st hst⟩

theorem spec_stmtFamily : ∀ f,
    Spec (command f) ∧ Spec (commandSeq f) ∧ Spec (compoundMore f) ∧ Spec (ifStmt f) ∧
    Spec (repeatStmt f) ∧ Spec (definition f) ∧ (∀ o, Spec (action f o)) ∧
    (∀ o, Spec (operandThenMore f o)) ∧ Spec (operand f) ∧ Spec (matrixOperandList f) := by
  intro f
  induction f with
  | zero =>
    refine ⟨?_, ?_, ?_, ?_, ?_, ?_, ?_, ?_, ?_, ?_⟩ <;> intros <;>
      first
      | (unfold command; exact Spec.outOfFuel)
      | (unfold commandSeq; exact Spec.outOfFuel)
      | (unfold compoundMore; exact Spec.outOfFuel)
      | (unfold ifStmt; exact Spec.outOfFuel)
      | (unfold repeatStmt; exact Spec.outOfFuel)
      | (unfold definition; exact Spec.outOfFuel)
      | (unfold action; exact Spec.outOfFuel)
      | (unfold operandThenMore; exact Spec.outOfFuel)
      | (unfold operand; exact Spec.outOfFuel)
      | (unfold matrixOperandList; exact Spec.outOfFuel)
  | succ f ih =>
    obtain ⟨ihC, ihS, ihM, ihI, ihR, ihD, ihA, ihT, ihO, ihX⟩ := ih
    refine ⟨?_, ?_, ?_, ?_, ?_, ?_, ?_, ?_, ?_, ?_⟩
    · -- command
      unfold command
      refine spec_getSt_bind_pt (fun st h => ?_)
      cases hty : st.cur.ty
      all_goals dsimp only
      all_goals first
        | exact good_setReg h hty
        | exact good_breakStmt h
        | (refine Spec.run ?_ st h
           spec_steps [spec_assignment, spec_breakpointStmt, spec_getColor, spec_markStmt,
             spec_callRoutine, spec_pauseStmt, spec_printStmt, spec_printfStmt, spec_printlnStmt,
             spec_returnStmt, spec_setUnits, spec_waitStmt, ihA _])
    · unfold commandSeq; spec_steps
    · unfold compoundMore; spec_steps
    · unfold ifStmt
      spec_steps [spec_rvalueTop _ _, spec_ifTrueStart, spec_ifElse _, spec_ifEnd _]
    · -- repeatStmt
      refine ⟨fun st h => Res.GoodX.toGood ?_⟩
      unfold repeatStmt
      refine goodX_bind (spec_skipToken.run st h).toX ?_
      intro _ s1 h1 hs1
      refine goodX_bind (sh1 := true :: shape st.loops) ?_ ?_
      · exact ⟨⟨inv_of_eq h1.inv rfl rfl rfl, List.suffix_refl _, rfl⟩, by simp [shape] at hs1 ⊢; exact hs1⟩
      intro _ s2 h2 hs2
      refine goodX_bind (sh1 := true :: shape st.loops) ?_ ?_
      · have := ((spec_repeatBody ihS).run s2 h2.inv).toX
        rw [hs2] at this; exact this
      intro _ s3 h3 hs3
      exact goodX_closeLoop h3.inv hs3
    · -- definition
      unfold definition
      refine Spec.bind spec_skipToken (fun _ => ?_)
      refine spec_getSt_bind_pt (fun st h => ?_)
      by_cases hty : st.cur.ty = .name
      · have hne : (st.cur.ty != TT.name) = false := by rw [hty]; rfl
        simp only [hne, Bool.false_eq_true, if_false]
        have hk := h.toks st.cur (by simp [St.toks])
        simp only [tokOk, hty] at hk
        have hs : st.cur.str = st.cur.content := by simp [Tok.str, hty, TT.hasString]
        refine Spec.run ?_ st h
        spec_steps [spec_definitionRest _ (by rw [hs]; exact hk) ihS]
      · have hne : (st.cur.ty != TT.name) = true := by simpa using hty
        simp only [hne, if_true]
        exact (spec_tokenError _ _).run st h
    · intro o; unfold action
      spec_steps [spec_modifySt_same fun _ => ⟨rfl, rfl, rfl, rfl, rfl⟩, spec_allOperand,
        spec_defaultOperand, ihT _]
    · intro o; unfold operandThenMore
      spec_steps [spec_modifySt_same fun _ => ⟨rfl, rfl, rfl, rfl, rfl⟩, ihT _]
    · unfold operand
      spec_steps [spec_operandName, spec_zoneRange]
    · unfold matrixOperandList
      spec_steps [spec_blockOperand ihS, spec_inlineOperand]

end Bardolph.ParseTok
