import Bardolph.Proofs.SimLoops
import Bardolph.Model.Loader
/-!
The code of the fragment contains no routine markers (`ROUTINE` / `END`), and the loader
(`Loader.load`) leaves such code exactly as it is: the image is the program, no routine table.
-/
namespace Bardolph
namespace Sim
open Vm VmSteps Sem Gen

variable {V : String → Prop}

/-- not a routine marker (`ROUTINE` / `END`): what the loader looks for -/
def Instr.plainI : Instr → Bool
  | .routine _ => false
  | .end_ _ => false
  | _ => true

def nr (c : Code) : Bool := c.all fun g => match g with | .i x => Instr.plainI x | .brk => true

theorem nr_append (a b : Code) : nr (a ++ b) = (nr a && nr b) := by simp [nr, List.all_append]

theorem nr_ins (xs : List Instr) : nr (ins xs) = xs.all Instr.plainI := by
  simp [nr, ins, List.all_map]
  rfl

theorem nr_genExpr {e : Expr} (he : Pure e) : (genExpr e).all Instr.plainI = true := by
  induction he with
  | lit v => simp [genExpr, pushLit, Instr.plainI]
  | var n => simp [genExpr, Instr.plainI]
  | reg r _ => simp [genExpr, Instr.plainI]
  | un m e _ ih => cases m <;> simp [genExpr, ih, Instr.plainI]
  | bin op a b _ _ iha ihb => simp [genExpr, iha, ihb, Instr.plainI]
  | paren e _ ih => simpa [genExpr] using ih

theorem nr_genRv {v : Rv} (hv : RvOK v) (d : Dst) : (genRv v (.to d)).all Instr.plainI = true := by
  cases v with
  | lit x => simp [genRv, Instr.plainI]
  | var n => simp [genRv, Instr.plainI]
  | reg r => simp only [genRv]; split <;> simp [Instr.plainI]
  | expr e => simp [genRv, nr_genExpr hv, Instr.plainI]
  | call _ _ _ => exact absurd hv (by simp [RvOK])


/-! ### value positions with calls -/

mutual
  theorem nrC_genExpr : ∀ (e : Expr), ExprC V e → (genExpr e).all Instr.plainI = true
    | .lit v, _ => by simp [genExpr, pushLit, Instr.plainI]
    | .var n, _ => by simp [genExpr, Instr.plainI]
    | .reg r, _ => by simp [genExpr, Instr.plainI]
    | .call f ps as, h => by
      have := nrC_genCall f ps as h.2.2
      simp only [genExpr, List.all_append, this, Bool.true_and]; rfl
    | .un m e, h => by
      have := nrC_genExpr e h
      cases m <;> simp [genExpr, this, Instr.plainI]
    | .bin op a b, h => by
      have h1 := nrC_genExpr a h.1
      have h2 := nrC_genExpr b h.2
      simp [genExpr, h1, h2, Instr.plainI]
    | .paren e, h => by simpa [genExpr] using nrC_genExpr e h
  theorem nrC_genRv : ∀ (v : Rv) (d : Dst), RvC V v → (genRv v (.to d)).all Instr.plainI = true
    | .lit x, d, _ => by simp [genRv, Instr.plainI]
    | .var n, d, _ => by simp [genRv, Instr.plainI]
    | .reg r, d, _ => by simp only [genRv]; split <;> simp [Instr.plainI]
    | .expr e, d, h => by
      have := nrC_genExpr e h
      simp [genRv, this, Instr.plainI]
    | .call f ps as, d, h => by
      have := nrC_genCall f ps as h.2.2
      simp only [genRv, List.all_append, this, Bool.true_and]
      split <;> simp [Instr.plainI]
  theorem nrC_genCall : ∀ (f : String) (ps : List String) (as : Args), ArgsC V as →
      (genCall f ps as).all Instr.plainI = true
    | f, ps, as, h => by
      have := nrC_genParams ps as h
      simp only [genCall, List.all_append, this, Bool.and_true]; rfl
  theorem nrC_genParams : ∀ (ps : List String) (as : Args), ArgsC V as →
      (genParams ps as).all Instr.plainI = true
    | [], _, _ => by simp only [genParams]; rfl
    | _ :: _, .nil, _ => by simp only [genParams]; rfl
    | p :: ps, .cons a rest, h => by
      have h1 := nrC_genRv a Gen.result h.1
      have h2 := nrC_genParams ps rest h.2
      simp only [genParams, List.all_append, h1, h2, Bool.true_and, Bool.and_true]; rfl
end

theorem nr_genOutArgs : ∀ (as : Args), ArgsOK as → (genOutArgs as).all Instr.plainI = true
  | .nil, _ => by simp [genOutArgs]
  | .cons a rest, h => by
    simp [genOutArgs, nr_genRv h.1, nr_genOutArgs rest h.2, Instr.plainI]

theorem nr_genRange (a b : Reg) {r : Range} (hr : RangeOK V r) : (genRange a b r).all Instr.plainI = true := by
  obtain ⟨h1, h2⟩ := hr
  simp only [genRange, List.all_append, nrC_genRv r.first _ h1, Bool.true_and]
  cases hl : r.last with
  | none => simp [Instr.plainI]
  | some l => rw [hl] at h2; simpa using nrC_genRv l _ h2

theorem nr_genMatrixRanges {rows cols : Option Range} (hr : ORangeOK V rows) (hc : ORangeOK V cols) (cf : Bool) :
    (genMatrixRanges rows cols cf).all Instr.plainI = true := by
  have h1 : (match rows with | some x => genRange .firstRow .lastRow x | none => []).all Instr.plainI = true := by
    cases rows with
    | none => rfl
    | some r => exact nr_genRange _ _ hr
  have h2 : (match cols with | some x => genRange .firstColumn .lastColumn x | none => []).all Instr.plainI = true := by
    cases cols with
    | none => rfl
    | some r => exact nr_genRange _ _ hc
  simp only [genMatrixRanges, List.all_append]
  cases cf <;> cases rows <;> cases cols <;> simp_all [Instr.plainI]

theorem nr_patchRec (c : Code) (b t : Nat) : nr (patchRec c b t) = nr c := by
  induction c generalizing b with
  | nil => rfl
  | cons g rest ih =>
    cases g with
    | brk => simp [patchRec, nr, Instr.plainI] at ih ⊢; exact ih _
    | i x => simp only [patchRec, nr, List.all_cons] at ih ⊢; rw [ih]

theorem nr_assembleLoop (pre test bodyPre : List Instr) (body : Code) (post : List Instr)
    (h1 : pre.all Instr.plainI = true) (h2 : test.all Instr.plainI = true)
    (h3 : bodyPre.all Instr.plainI = true) (h4 : nr body = true) (h5 : post.all Instr.plainI = true) :
    nr (assembleLoop pre test bodyPre body post) = true := by
  unfold assembleLoop
  have h1' : ([Instr.loop] ++ pre).all Instr.plainI = true := by
    simp only [List.all_append, h1]; rfl
  simp only [patchBreaks_eq, nr_append, nr_patchRec, nr_ins, h1', h2, h3, h4, h5]
  simp [nr, Instr.plainI]


theorem all_indexVarRange (v : String) (a b : Rv) (w : Bool) (ha : RvC V a) (hb : RvC V b) :
    (indexVarRange v a b w).all Instr.plainI = true := by
  simp only [indexVarRange, List.all_append, nrC_genRv a _ ha, nrC_genRv b _ hb, Bool.true_and]
  cases w <;> rfl

theorem all_cycleVarRange (v : String) (start : Option Rv) (hs : WithOK V (.cycle v start)) :
    (cycleVarRange v start).all Instr.plainI = true := by
  cases start with
  | none => rfl
  | some r =>
    have hr : RvC V r := hs
    simp only [cycleVarRange, List.all_append, nrC_genRv r _ hr, Bool.true_and]
    rfl

theorem all_withClause (w : Option WithClause) (hw : OWithOK V w) : (withClause w).all Instr.plainI = true := by
  cases w with
  | none => rfl
  | some wc =>
    cases wc with
    | fromTo v a b => exact all_indexVarRange v a b false hw.1 hw.2
    | cycle v start => exact all_cycleVarRange v start hw

theorem all_loopPost (v : Option String) : (loopPost v).all Instr.plainI = true := by
  cases v <;> rfl

theorem all_iterItem {i : IterItem} (hi : ItemOK V i) : (iterItem i).all Instr.plainI = true := by
  cases i with
  | all => rfl
  | light n => simp only [iterItem, List.all_append, nrC_genRv n _ (show RvC V n from hi), Bool.true_and]; rfl
  | group n => simp only [iterItem, List.all_append, nrC_genRv n _ (show RvC V n from hi), Bool.true_and]; rfl
  | location n => simp only [iterItem, List.all_append, nrC_genRv n _ (show RvC V n from hi), Bool.true_and]; rfl

theorem all_iterItems (items : List IterItem) (h : ∀ i ∈ items, ItemOK V i) :
    (iterItems items).all Instr.plainI = true := by
  induction items with
  | nil => rfl
  | cons i rest ih =>
    rw [iterItems_cons, List.all_append, ih (fun j hj => h j (by simp [hj])), all_iterItem (h i (by simp))]
    rfl

theorem nr_genLoop {hd : LoopHdr} (hh : LoopHdrOK V hd) (body : Code) (hb : nr body = true) :
    nr (genLoop hd body) = true := by
  cases hd with
  | forever => exact nr_assembleLoop _ _ _ _ _ rfl rfl rfl hb rfl
  | while_ c => exact nr_assembleLoop _ _ _ _ _ rfl (nrC_genRv c _ hh) rfl hb rfl
  | count n => exact nr_assembleLoop _ _ _ _ _ (nrC_genRv n _ hh) rfl rfl hb rfl
  | range v a b =>
    exact nr_assembleLoop _ _ _ _ _ (all_indexVarRange v a b true hh.1 hh.2) rfl rfl hb rfl
  | interp n v a b =>
    refine nr_assembleLoop _ _ _ _ _ ?_ rfl rfl hb rfl
    rw [List.all_append, nrC_genRv n _ hh.1, all_indexVarRange v a b false hh.2.1 hh.2.2]; rfl
  | cycle n v start =>
    refine nr_assembleLoop _ _ _ _ _ ?_ rfl rfl hb rfl
    rw [List.all_append, nrC_genRv n _ hh.1, all_cycleVarRange v start hh.2]; rfl
  | all lv w =>
    refine nr_assembleLoop _ _ _ _ _ ?_ rfl rfl hb (all_loopPost _)
    rw [List.all_append, List.all_append, all_withClause w hh]; rfl
  | groups lv w =>
    refine nr_assembleLoop _ _ _ _ _ ?_ rfl rfl hb (all_loopPost _)
    rw [List.all_append, List.all_append, all_withClause w hh]; rfl
  | locations lv w =>
    refine nr_assembleLoop _ _ _ _ _ ?_ rfl rfl hb (all_loopPost _)
    rw [List.all_append, List.all_append, all_withClause w hh]; rfl
  | iter items lv w =>
    refine nr_assembleLoop _ _ _ _ _ ?_ rfl rfl hb (all_loopPost _)
    rw [List.all_append, List.all_append, all_withClause w hh.2, all_iterItems items hh.1]; rfl

theorem nr_genRv_simple {a : Rv} (ha : SimpleArg a) (d : Dst) : (genRv a (.to d)).all Instr.plainI = true := by
  cases ha with
  | lit v => simp only [genRv]; rfl
  | var n => simp only [genRv]; rfl
  | reg r => simp only [genRv]; split <;> rfl

theorem nr_genParams : ∀ (ps : List String) (as : Args), SimpleArgs as →
    (genParams ps as).all Instr.plainI = true
  | [], _, _ => by simp only [genParams]; rfl
  | _ :: _, .nil, _ => by simp only [genParams]; rfl
  | p :: ps, .cons a rest, h => by
    cases h with
    | cons ha hrest =>
      simp only [genParams, List.all_append, nr_genRv_simple ha, nr_genParams ps rest hrest,
        Bool.true_and, Bool.and_true]; rfl

theorem plain_genName (n : NameSpec) : Instr.plainI (genName n) = true := by cases n <;> rfl
theorem plain_opcodeOf (k : ActKind) : Instr.plainI (opcodeOf k) = true := by cases k <;> rfl

theorem nr_single (x : Instr) (h : Instr.plainI x = true) : nr [G.i x] = true := by
  simp only [nr, List.all_cons, List.all_nil, Bool.and_true]; exact h

theorem all_timePatterns (rest : List TP.Pat) :
    (rest.map fun q => Instr.timePattern false (.pat q)).all Instr.plainI = true := by
  induction rest with
  | nil => rfl
  | cons q rest ih => simp only [List.map_cons, List.all_cons, ih, Bool.and_true]; rfl

mutual
  theorem nr_genStmt : ∀ (st : Stmt), FragStmt V st → nr (genStmt st) = true
    | .setReg r v, h => by simp only [genStmt, nr_ins]; exact nrC_genRv v _ h.2
    | .units m, _ => by simp only [genStmt, nr_ins]; rfl
    | .actAll k, _ => by cases k <;> (simp only [genStmt, nr_ins]; rfl)
    | .setDefault w, _ => by cases w <;> (simp only [genStmt, nr_ins]; rfl)
    | .action k w ops, h => by
      have := nr_genOperands k ops h
      cases k <;> cases w <;> (simp only [genStmt, nr_append, nr_ins, this, Bool.and_true]; rfl)
    | .get name, h => by
      simp only [genStmt, nr_ins, List.all_append, nrC_genRv name _ h, Bool.true_and]; rfl
    | .wait, _ => by simp only [genStmt, nr_ins]; rfl
    | .timeAt ps, _ => by
      cases ps with
      | nil => simp only [genStmt, nr_ins]; rfl
      | cons p rest =>
        simp only [genStmt, nr_ins, List.all_cons, all_timePatterns, Bool.and_true]; rfl
    | .assign n v, h => by simp only [genStmt, nr_ins]; exact nrC_genRv v _ h
    | .defMacro n v, _ => by simp only [genStmt, nr_ins]; rfl
    | .defRoutine _ _ _, h => absurd h (by simp [FragStmt])
    | .call g ps as, h => by
      simp only [genStmt, nr_ins]; exact nrC_genCall g ps as h.1
    | .ret none, _ => by simp only [genStmt, nr_ins]; rfl
    | .ret (some rv), h => by
      have h : RvC V rv := h
      simp only [genStmt, nr_ins, List.all_append, nrC_genRv rv _ h, Bool.true_and]; rfl
    | .ite c t none, h => by
      simp only [genStmt, genIf, nr_append, nr_ins, nrC_genRv c _ h.1, nr_genBlock t h.2.1, Bool.true_and,
        Bool.and_true]
      exact nr_single _ rfl
    | .ite c t (some e), h => by
      simp only [genStmt, genIf, nr_append, nr_ins, nrC_genRv c _ h.1, nr_genBlock t h.2.1,
        nr_genBlock e h.2.2, Bool.and_true, nr_single _ (rfl : Instr.plainI (.jump _ _) = true)]
    | .repeat_ hd body, h => by
      simp only [genStmt]
      exact nr_genLoop h.1 _ (nr_genBlock body h.2)
    | .brk, _ => by simp only [genStmt]; rfl
    | .print v, h => by
      simp only [genStmt, nr_ins, List.all_append, nrC_genRv v _ h, Bool.true_and]; rfl
    | .println none, _ => by simp only [genStmt, nr_ins]; rfl
    | .println (some rv), h => by
      have h : RvC V rv := h
      simp only [genStmt, nr_ins, List.all_append, nrC_genRv rv _ h, Bool.true_and]; rfl
    | .printf fmt as, h => by
      simp only [genStmt, nr_ins, List.all_append, nr_genOutArgs as h.1, Bool.true_and]; rfl
    | .stage rows cols cf, h => by
      simp only [genStmt, nr_ins, List.all_append, nr_genMatrixRanges h.1 h.2, Bool.true_and]; rfl
  theorem nr_genBlock : ∀ (b : Block), FragBlock V b → nr (genBlock b) = true
    | .nil, _ => by simp only [genBlock]; rfl
    | .cons st rest, h => by
      simp only [genBlock, nr_append, nr_genStmt st h.1, nr_genBlock rest h.2, Bool.and_true]
  theorem nr_genOperand : ∀ (o : Operand_), FragOperand V o → nr (genOperand o) = true
    | .light n, _ => by
      simp only [genOperand, nr_ins, List.all_cons, plain_genName, Bool.true_and]; rfl
    | .group n, _ => by
      simp only [genOperand, nr_ins, List.all_cons, plain_genName, Bool.true_and]; rfl
    | .location n, _ => by
      simp only [genOperand, nr_ins, List.all_cons, plain_genName, Bool.true_and]; rfl
    | .zone n r, h => by
      simp only [genOperand, nr_ins, List.all_append, List.all_cons, plain_genName, nr_genRange _ _ h,
        Bool.true_and, List.all_nil, Bool.and_true]; rfl
    | .matrixInline n rows cols cf, h => by
      simp only [genOperand, nr_ins, List.all_append, List.all_cons, plain_genName,
        nr_genMatrixRanges h.1 h.2, Bool.true_and, List.all_nil, Bool.and_true]; rfl
    | .matrixBlock n body, h => by
      simp only [genOperand, nr_append, nr_ins, List.all_cons, plain_genName, nr_genBlock body h,
        Bool.true_and, List.all_nil, Bool.and_true]; rfl
  theorem nr_genOperands (k : ActKind) : ∀ (ops : Operands), FragOperands V ops → nr (genOperands k ops) = true
    | .nil, _ => by simp only [genOperands]; rfl
    | .cons o rest, h => by
      simp only [genOperands, nr_append, nr_ins, nr_genOperand o h.1, nr_genOperands k rest h.2,
        List.all_cons, plain_opcodeOf, List.all_nil, Bool.and_true]
end


/-! ## the loader leaves code without routine markers alone -/

theorem classify_plain (prog : List Instr) (h : prog.all Instr.plainI = true) :
    Loader.classify none prog = List.replicate prog.length false := by
  induction prog with
  | nil => rfl
  | cons x rest ih =>
    simp only [List.all_cons, Bool.and_eq_true] at h
    have := ih h.2
    cases x <;> simp_all [Loader.classify, Instr.plainI, List.replicate_succ]

theorem mainPos_plain (n i : Nat) (hi : i ≤ n) : Loader.mainPos (List.replicate n false) i = i := by
  simp [Loader.mainPos, List.take_replicate, Nat.min_eq_left hi]

theorem zip_filter_false (prog : List Instr) :
    ((prog.zip (List.replicate prog.length false)).filter (·.2 == true)) = [] := by
  rw [List.filter_eq_nil_iff]
  intro x hx
  have := (List.of_mem_zip hx).2
  simp only [List.mem_replicate] at this
  simp [this.2]


theorem mainSegment_plain (prog : List Instr) :
    Loader.mainSegment prog (List.replicate prog.length false) = prog := by
  unfold Loader.mainSegment
  have hf : ((prog.zip (List.replicate prog.length false)).zipIdx.filter (fun x => x.1.2 == false)) =
      (prog.zip (List.replicate prog.length false)).zipIdx := by
    rw [List.filter_eq_self]
    intro x hx
    obtain ⟨⟨a, b⟩, k⟩ := x
    have h1 := List.mem_zipIdx hx
    have h2 : (a, b) ∈ prog.zip (List.replicate prog.length false) := by
      have := h1.2.2
      rw [this]
      exact List.getElem_mem _
    have := (List.of_mem_zip h2).2
    simp only [List.mem_replicate] at this
    simp [this.2]
  rw [hf]
  apply List.ext_getElem
  · simp only [List.length_map, List.length_zipIdx, List.length_zip, List.length_replicate, Nat.min_self]
  · intro i h1 h2
    simp only [List.getElem_map, List.getElem_zipIdx, List.getElem_zip, Nat.zero_add]
    generalize hx : prog[i] = x
    cases x with
    | jump c off =>
      dsimp only
      split
      · rename_i hcond
        simp only [Bool.and_eq_true, decide_eq_true_eq] at hcond
        obtain ⟨⟨_, hge⟩, hle⟩ := hcond
        have hi : i ≤ prog.length := Nat.le_of_lt h2
        have ht : ((i : Int) + off).toNat ≤ prog.length := by omega
        rw [mainPos_plain _ _ ht, mainPos_plain _ _ hi]
        congr 1
        omega
      · rfl
    | _ => rfl

theorem load_plain (prog : List Instr) (h : prog.all Instr.plainI = true) :
    Loader.load prog = ⟨prog.toArray, []⟩ := by
  unfold Loader.load
  simp only [classify_plain prog h, mainSegment_plain]
  have : Loader.routineSegment prog (List.replicate prog.length false) = [] := by
    unfold Loader.routineSegment
    rw [zip_filter_false]; rfl
  simp [this]


theorem all_resolve (c : Code) (pc : Nat) (ex : Int) : (resolve c pc ex).all Instr.plainI = nr c := by
  induction c generalizing pc with
  | nil => rfl
  | cons g rest ih =>
    cases g with
    | brk => simp only [resolve, List.all_cons, ih, nr]; rfl
    | i x => simp only [resolve, List.all_cons, ih, nr]

/-- a compiled script of the fragment is loaded as it is -/
theorem load_fragment (b : Block) (hb : FragBlock V b) (code : List Instr)
    (hcode : Gen.genProgram b = some code) : Loader.load code = ⟨code.toArray, []⟩ := by
  apply load_plain
  have hres : resolve (genBlock b) 0 (0 : Nat) = code := resolve_of_mapM _ _ hcode 0 _
  rw [← hres, all_resolve]
  exact nr_genBlock b hb

mutual
  /-- a block of the fragment defines no routines -/
  theorem collect_frag : ∀ (b : Block), FragBlock V b → Sem.collect b = []
    | .nil, _ => by rw [Sem.collect]
    | .cons st rest, h => by
      have hr := collect_frag rest h.2
      cases st with
      | defRoutine n ps body => exact absurd h.1 (by simp [FragStmt])
      | ite c t e =>
        cases e with
        | none =>
          have ht := collect_frag t h.1.2.1
          simp only [Sem.collect, ht, hr, List.append_nil]
        | some e =>
          have ht := collect_frag t h.1.2.1
          have he := collect_frag e h.1.2.2
          simp only [Sem.collect, ht, he, hr, List.append_nil]
      | repeat_ hd body =>
        have hb := collect_frag body h.1.2
        simp only [Sem.collect, hb, hr, List.append_nil]
      | action k w ops =>
        have ho := collectOps_frag ops h.1
        simp only [Sem.collect, ho, hr, List.append_nil]
      | _ => simp only [Sem.collect, hr]
  theorem collectOps_frag : ∀ (ops : Operands), FragOperands V ops → Sem.collectOps ops = []
    | .nil, _ => by rw [Sem.collectOps]
    | .cons o rest, h => by
      have hr := collectOps_frag rest h.2
      cases o with
      | matrixBlock n body =>
        have hb := collect_frag body h.1
        simp only [Sem.collectOps, hb, hr, List.append_nil]
      | _ => simp only [Sem.collectOps, hr]
end


end Sim


end Bardolph
