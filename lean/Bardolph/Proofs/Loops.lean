import Bardolph.Proofs.VmSteps
import Bardolph.Props.C02
import Bardolph.Props.C03
/-!
Helpers for the C04 theorems (`Props/C04.lean`):

* layout of the code `Gen.assembleLoop` emits and what `Gen.patchBreaks` does to it;
* a symbolic executor for the straight-line pieces of loop-control code (`PUSH`/`PUSHQ`/`OP`
  groups ended by a `POP`), and step lemmas for `LOOP`, `END_LOOP`, `JUMP`, `MOVE`, `MOVEQ`;
* loop-variable records (`getLV`/`setLV`), reading a variable back after assigning it;
* arithmetic of the values loop control computes.
-/
namespace Bardolph
namespace Loops
open Vm VmSteps Gen

/-! ## 1. layout of an assembled loop -/

/-- the code of a loop whose body has no pending `break` marker, as a plain instruction list:
`LOOP; pre; test; JUMP IF_FALSE →END_LOOP; inner; JUMP ALWAYS →test; END_LOOP` -/
def loopCode (pre test inner : List Instr) : List Instr :=
  [Instr.loop] ++ pre ++ test ++ [Instr.jump .ifFalse (inner.length + 2)] ++ inner ++
    [Instr.jump .always (-((test.length + 1 + inner.length : Nat) : Int))] ++ [Instr.endLoop]

/-- what `patchBreaks` does to one item at index `k` -/
def patchOne (base target : Nat) (g : G) (k : Nat) : G :=
  match g with
  | .brk => G.i (.jump .always ((target : Int) - ((base + k : Nat) : Int)))
  | x => x

theorem patchBreaks_getElem? (code : Code) (base target k : Nat) :
    (patchBreaks code base target)[k]? = code[k]?.map fun g => patchOne base target g k := by
  unfold patchBreaks
  rw [List.getElem?_map, List.getElem?_zipIdx]
  cases h : code[k]? with
  | none => rfl
  | some g =>
    simp only [Option.map_some, Nat.zero_add]
    cases g <;> rfl

theorem patchBreaks_length (code : Code) (base target : Nat) :
    (patchBreaks code base target).length = code.length := by
  simp [patchBreaks]

/-- patching leaves no marker -/
theorem patchBreaks_no_brk (code : Code) (base target k : Nat) :
    (patchBreaks code base target)[k]? ≠ some G.brk := by
  rw [patchBreaks_getElem?]
  cases h : code[k]? with
  | none => simp
  | some g => cases g <;> simp [patchOne]

theorem patchBreaks_ins (xs : List Instr) (base target : Nat) :
    patchBreaks (ins xs) base target = ins xs := by
  apply List.ext_getElem?
  intro k
  rw [patchBreaks_getElem?]
  simp only [ins, List.getElem?_map]
  cases xs[k]? <;> rfl

theorem ins_append (a b : List Instr) : ins (a ++ b) = ins a ++ ins b := by simp [ins]
theorem ins_length (a : List Instr) : (ins a).length = a.length := by simp [ins]

/-- the unpatched code `assembleLoop` builds before closing the loop -/
def rawLoop (pre test bodyPre : List Instr) (body : Code) (post : List Instr) : Code :=
  ins ([Instr.loop] ++ pre) ++ ins test ++
    [G.i (.jump .ifFalse ((ins bodyPre ++ body ++ ins post).length + 2))] ++
    (ins bodyPre ++ body ++ ins post) ++
    [G.i (.jump .always (((ins ([Instr.loop] ++ pre)).length : Int) -
      (((ins ([Instr.loop] ++ pre)).length + (ins test).length + 1 +
        (ins bodyPre ++ body ++ ins post).length : Nat) : Int)))]

/-- index of `END_LOOP` in the assembled loop -/
def endIdx (pre test bodyPre : List Instr) (body : Code) (post : List Instr) : Nat :=
  1 + pre.length + test.length + 1 + (bodyPre.length + body.length + post.length) + 1

/-- index of the first body item in the assembled loop -/
def bodyIdx (pre test bodyPre : List Instr) : Nat :=
  1 + pre.length + test.length + 1 + bodyPre.length

theorem assembleLoop_eq (pre test bodyPre : List Instr) (body : Code) (post : List Instr) :
    assembleLoop pre test bodyPre body post =
      patchBreaks (rawLoop pre test bodyPre body post) 0 (endIdx pre test bodyPre body post) ++
        [G.i .endLoop] := by
  unfold assembleLoop rawLoop endIdx
  simp only [ins_length, List.length_append, List.length_cons, List.length_nil]

theorem rawLoop_length (pre test bodyPre : List Instr) (body : Code) (post : List Instr) :
    (rawLoop pre test bodyPre body post).length = endIdx pre test bodyPre body post := by
  simp [rawLoop, endIdx, ins_length]
  omega

theorem assembleLoop_length (pre test bodyPre : List Instr) (body : Code) (post : List Instr) :
    (assembleLoop pre test bodyPre body post).length = endIdx pre test bodyPre body post + 1 := by
  rw [assembleLoop_eq, List.length_append, patchBreaks_length, rawLoop_length]
  rfl

/-- the last item of an assembled loop is its `END_LOOP` -/
theorem assembleLoop_endLoop (pre test bodyPre : List Instr) (body : Code) (post : List Instr) :
    (assembleLoop pre test bodyPre body post)[endIdx pre test bodyPre body post]? =
      some (G.i .endLoop) := by
  rw [assembleLoop_eq, List.getElem?_append_right (by rw [patchBreaks_length, rawLoop_length]; omega),
    patchBreaks_length, rawLoop_length]
  simp

/-- an assembled loop contains no `break` marker: all of them have been patched -/
theorem assembleLoop_no_brk (pre test bodyPre : List Instr) (body : Code) (post : List Instr)
    (k : Nat) : (assembleLoop pre test bodyPre body post)[k]? ≠ some G.brk := by
  rw [assembleLoop_eq]
  by_cases hk : k < (patchBreaks (rawLoop pre test bodyPre body post) 0
      (endIdx pre test bodyPre body post)).length
  · rw [List.getElem?_append_left hk]
    exact patchBreaks_no_brk _ _ _ _
  · rw [List.getElem?_append_right (by omega)]
    generalize k - _ = j
    cases j <;> simp

theorem rawLoop_body (pre test bodyPre : List Instr) (body : Code) (post : List Instr) (j : Nat)
    (hj : j < body.length) :
    (rawLoop pre test bodyPre body post)[bodyIdx pre test bodyPre + j]? = body[j]? := by
  unfold rawLoop bodyIdx
  have h1 : (ins ([Instr.loop] ++ pre) ++ ins test ++
      [G.i (.jump .ifFalse ((ins bodyPre ++ body ++ ins post).length + 2))]).length =
      1 + pre.length + test.length + 1 := by
    simp [ins_length]; omega
  rw [List.append_assoc _ (ins bodyPre ++ body ++ ins post),
    List.getElem?_append_right (by rw [h1]; omega), h1]
  rw [List.getElem?_append_left (by simp [ins_length]; omega)]
  rw [List.append_assoc, List.getElem?_append_right (by simp [ins_length]; omega)]
  rw [List.getElem?_append_left (by simp [ins_length]; omega)]
  congr 1
  simp [ins_length]; omega

/-- **where a `break` goes.**  In the code of a loop assembled from any prologue, test and
body, an item at position `j` of the body sits at index `bodyIdx + j`; a `break` marker there
has become `JUMP ALWAYS d` with `(bodyIdx + j) + d` the index of this loop's `END_LOOP`, and
an instruction (in particular a jump an inner loop's own `assembleLoop` produced from its own
markers) is unchanged. -/
theorem assembleLoop_body (pre test bodyPre : List Instr) (body : Code) (post : List Instr)
    (j : Nat) (hj : j < body.length) :
    (assembleLoop pre test bodyPre body post)[bodyIdx pre test bodyPre + j]? =
      some (match body[j] with
        | .brk => G.i (.jump .always ((endIdx pre test bodyPre body post : Int) -
            ((bodyIdx pre test bodyPre + j : Nat) : Int)))
        | x => x) := by
  rw [assembleLoop_eq, List.getElem?_append_left (by
    rw [patchBreaks_length, rawLoop_length]; unfold endIdx bodyIdx; omega)]
  rw [patchBreaks_getElem?, rawLoop_body _ _ _ _ _ _ hj, List.getElem?_eq_getElem hj]
  simp only [Option.map_some, patchOne, Nat.zero_add]

/-- with a marker-free body the assembled loop is the plain code `loopCode` -/
theorem assembleLoop_ins (pre test bodyPre b post : List Instr) :
    assembleLoop pre test bodyPre (ins b) post = ins (loopCode pre test (bodyPre ++ b ++ post)) := by
  rw [assembleLoop_eq]
  have : rawLoop pre test bodyPre (ins b) post =
      ins ([Instr.loop] ++ pre ++ test ++
        [Instr.jump .ifFalse ((bodyPre ++ b ++ post).length + 2)] ++ (bodyPre ++ b ++ post) ++
        [Instr.jump .always (-((test.length + 1 + (bodyPre ++ b ++ post).length : Nat) : Int))]) := by
    unfold rawLoop
    simp only [ins_append, ins_length, List.length_append]
    simp only [ins, List.map_cons, List.map_nil, List.length_cons, List.length_nil,
      List.append_assoc, List.cons_append, List.nil_append]
    have e : ((0 + 1 + pre.length : Nat) : Int) -
        ((0 + 1 + pre.length + test.length + 1 + (bodyPre.length + b.length + post.length) : Nat) : Int) =
        -((test.length + 1 + (bodyPre.length + b.length + post.length) : Nat) : Int) := by omega
    rw [e]
  rw [this, patchBreaks_ins]
  simp [loopCode, ins]

/-! ### markers inside nested `if`s -/

/-- `BrkAt c j`: position `j` of `c` is a `break` marker reached through any nesting of
concatenation and `genIf` branches (not through an inner loop, which has none left) -/
inductive BrkAt : Code → Nat → Prop
  | here : BrkAt [G.brk] 0
  | appendLeft {a : Code} {j : Nat} (b : Code) : BrkAt a j → BrkAt (a ++ b) j
  | appendRight {b : Code} {j : Nat} (a : Code) : BrkAt b j → BrkAt (a ++ b) (a.length + j)
  | ifThen {t : Code} {j : Nat} (cond : Code) (e : Option Code) :
      BrkAt t j → BrkAt (genIf cond t e) (cond.length + 1 + j)
  | ifElse {e : Code} {j : Nat} (cond t : Code) :
      BrkAt e j → BrkAt (genIf cond t (some e)) (cond.length + 1 + t.length + 1 + j)

theorem BrkAt.lt {c : Code} {j : Nat} (h : BrkAt c j) : j < c.length := by
  induction h with
  | here => simp
  | appendLeft b _ ih => simp; omega
  | appendRight a _ ih => simp; omega
  | ifThen cond e _ ih => cases e <;> simp [genIf] <;> omega
  | ifElse cond t _ ih => simp [genIf]; omega

theorem BrkAt.get {c : Code} {j : Nat} (h : BrkAt c j) : c[j]? = some G.brk := by
  induction h with
  | here => rfl
  | appendLeft b h ih => rw [List.getElem?_append_left h.lt]; exact ih
  | appendRight a _ ih => rw [List.getElem?_append_right (by omega)]; simpa using ih
  | @ifThen t j cond e h ih =>
    have hl := h.lt
    cases e with
    | none =>
      simp only [genIf]
      rw [List.getElem?_append_right (by simp)]
      simpa using ih
    | some e =>
      simp only [genIf]
      rw [List.append_assoc, List.append_assoc, List.getElem?_append_right (by simp)]
      rw [List.getElem?_append_left (by simp; omega)]
      simpa using ih
  | @ifElse e j cond t h ih =>
    simp only [genIf]
    rw [List.getElem?_append_right (by simp; omega)]
    have : cond.length + 1 + t.length + 1 + j -
        (cond ++ [G.i (.jump .ifFalse (t.length + 2))] ++ t ++
          [G.i (.jump .always (e.length + 1))]).length = j := by
      simp; omega
    rw [this]; exact ih

/-! ## 2. loop-variable records -/

/-- the value of a hidden loop variable in a loop frame's record (`None` when absent) -/
def getLV (vars : List (LoopVar × Val)) (l : LoopVar) : Val :=
  ((vars.find? (·.1 == l)).map (·.2)).getD .none

/-- storing a hidden loop variable -/
def setLV (vars : List (LoopVar × Val)) (l : LoopVar) (v : Val) : List (LoopVar × Val) :=
  if vars.any (·.1 == l) then vars.map fun (k, x) => if k == l then (k, v) else (k, x)
  else vars ++ [(l, v)]

theorem getLoopVar_eq {s : State} {vars : List (LoopVar × Val)} {h : Nat} {rest : List Frame}
    (hst : s.stack = .loop vars h :: rest) (l : LoopVar) : s.getLoopVar l = getLV vars l := by
  simp [State.getLoopVar, hst, getLV]

theorem putLoopVar_eq {s : State} {vars : List (LoopVar × Val)} {h : Nat} {rest : List Frame}
    (hst : s.stack = .loop vars h :: rest) (l : LoopVar) (v : Val) :
    s.putLoopVar l v = { s with stack := .loop (setLV vars l v) h :: rest } := by
  simp [State.putLoopVar, hst, setLV]

theorem getLV_nil (l : LoopVar) : getLV [] l = .none := rfl

theorem getLV_cons (k : LoopVar) (x : Val) (vars : List (LoopVar × Val)) (l : LoopVar) :
    getLV ((k, x) :: vars) l = if k = l then x else getLV vars l := by
  unfold getLV
  by_cases h : k = l
  · simp [h]
  · have : (k == l) = false := by simpa using h
    simp [this, h]

/-- the record with `l` overwritten wherever it occurs -/
def updLV (vars : List (LoopVar × Val)) (l : LoopVar) (v : Val) : List (LoopVar × Val) :=
  vars.map fun (k, x) => if k == l then (k, v) else (k, x)

theorem getLV_updLV (vars : List (LoopVar × Val)) (l l' : LoopVar) (v : Val) :
    getLV (updLV vars l v) l' =
      if l' = l then (if vars.any (·.1 == l) then v else .none) else getLV vars l' := by
  induction vars with
  | nil => simp [updLV, getLV_nil]
  | cons p vars ih =>
    obtain ⟨k, x⟩ := p
    unfold updLV at ih ⊢
    by_cases hk : k = l
    · subst hk
      simp only [List.map_cons, beq_self_eq_true, if_true, getLV_cons, List.any_cons, Bool.true_or]
      by_cases h : k = l'
      · simp [h]
      · have h' : ¬ l' = k := fun e => h e.symm
        simp only [h, h', if_false, ih]
    · have hk' : (k == l) = false := by simpa using hk
      simp only [List.map_cons, hk', Bool.false_eq_true, if_false, getLV_cons, List.any_cons,
        Bool.false_or, ih]
      by_cases h : k = l'
      · have : ¬ l' = l := fun e => hk (h.trans e)
        simp [h, this]
      · simp [h]

theorem getLV_append_single (vars : List (LoopVar × Val)) (l l' : LoopVar) (v : Val) :
    getLV (vars ++ [(l, v)]) l' =
      if vars.any (·.1 == l') then getLV vars l' else if l = l' then v else .none := by
  induction vars with
  | nil => simp [getLV_cons, getLV_nil]
  | cons p vars ih =>
    obtain ⟨k, x⟩ := p
    simp only [List.cons_append, getLV_cons, List.any_cons, ih]
    by_cases h : k = l'
    · simp [h]
    · have : (k == l') = false := by simpa using h
      simp only [h, if_false]
      rw [this, Bool.false_or]

theorem getLV_absent (vars : List (LoopVar × Val)) (l : LoopVar)
    (h : ¬ (vars.any (·.1 == l)) = true) : getLV vars l = .none := by
  induction vars with
  | nil => rfl
  | cons p vars ih =>
    obtain ⟨k, x⟩ := p
    simp only [List.any_cons, Bool.or_eq_true, not_or] at h
    have hk : ¬ k = l := by simpa using h.1
    rw [getLV_cons, if_neg hk]
    exact ih (by simpa using h.2)

theorem getLV_setLV_self (vars : List (LoopVar × Val)) (l : LoopVar) (v : Val) :
    getLV (setLV vars l v) l = v := by
  unfold setLV
  split
  · rename_i h
    have := getLV_updLV vars l l v
    unfold updLV at this
    rw [this]; simp [h]
  · rename_i h
    rw [getLV_append_single]; simp [h]

theorem getLV_setLV_other (vars : List (LoopVar × Val)) (l l' : LoopVar) (v : Val) (hne : l' ≠ l) :
    getLV (setLV vars l v) l' = getLV vars l' := by
  unfold setLV
  split
  · have := getLV_updLV vars l l' v
    unfold updLV at this
    rw [this]; simp [hne]
  · rw [getLV_append_single]
    have hne' : ¬ l = l' := fun e => hne e.symm
    simp only [hne', if_false]
    split
    · rfl
    · rename_i h
      exact (getLV_absent vars l' h).symm

/-! ## 3. single steps of loop-control instructions -/

/-- instructions after which `Machine.run` does not advance the program counter itself -/
def setsPc : Instr → Bool
  | .end_ _ | .endMatrix | .jsr _ | .jump _ _ => true
  | _ => false

theorem step_unfold (img : Image) (s : State) (pc : Nat) (i : Instr)
    (hs : s.status = .running) (hpc : s.pc = (pc : Int)) (hi : img.code[pc]? = some i)
    (hstop : i ≠ .stop) :
    step img s =
      (let s' := execInstr img s i
       if s'.status != .running then s'
       else if setsPc i then s' else { s' with pc := s'.pc + 1 }) := by
  unfold step
  have h0 : ¬ (s.pc < 0) := by omega
  have h1 : s.pc.toNat = pc := by omega
  rw [if_neg (by simp [hs]), if_neg h0, h1, hi]
  cases i <;> first | exact absurd rfl hstop | rfl

/-- `JUMP`: relative to the jump itself when taken, else the next instruction -/
theorem step_jump (img : Image) (s : State) (pc : Nat) (c : JumpCond) (off : Int)
    (hs : s.status = .running) (hpc : s.pc = (pc : Int))
    (hi : img.code[pc]? = some (.jump c off)) (hc : c ≠ .indirect) :
    step img s = { s with pc :=
      if (match c with
          | .always => true
          | .ifFalse => !(s.regs .result).truthy
          | .ifTrue => (s.regs .result).truthy
          | .indirect => false) then (pc : Int) + off else (pc : Int) + 1 } := by
  rw [step_unfold img s pc _ hs hpc hi (by simp)]
  cases c with
  | indirect => exact absurd rfl hc
  | always => simp [execInstr, hs, hpc, setsPc]
  | ifFalse => cases hr : (s.regs .result).truthy <;> simp [execInstr, hs, hpc, hr, setsPc]
  | ifTrue => cases hr : (s.regs .result).truthy <;> simp [execInstr, hs, hpc, hr, setsPc]

theorem step_jump_always (img : Image) (s : State) (pc : Nat) (off : Int)
    (hs : s.status = .running) (hpc : s.pc = (pc : Int))
    (hi : img.code[pc]? = some (.jump .always off)) :
    step img s = { s with pc := (pc : Int) + off } := by
  rw [step_jump img s pc _ _ hs hpc hi (by simp)]
  simp

theorem step_jump_ifFalse (img : Image) (s : State) (pc : Nat) (off : Int)
    (hs : s.status = .running) (hpc : s.pc = (pc : Int))
    (hi : img.code[pc]? = some (.jump .ifFalse off)) :
    step img s = { s with pc := if (s.regs .result).truthy then (pc : Int) + 1 else (pc : Int) + off } := by
  rw [step_jump img s pc _ _ hs hpc hi (by simp)]
  cases (s.regs .result).truthy <;> simp

theorem step_loop (img : Image) (s : State) (pc : Nat)
    (hs : s.status = .running) (hpc : s.pc = (pc : Int)) (hi : img.code[pc]? = some .loop) :
    step img s = { s with pc := (pc : Int) + 1, stack := .loop [] s.eval.length :: s.stack } := by
  rw [step_unfold img s pc _ hs hpc hi (by simp)]
  simp [execInstr, hs, hpc, setsPc]

theorem step_endLoop (img : Image) (s : State) (pc : Nat) (vars : List (LoopVar × Val)) (h : Nat)
    (rest : List Frame)
    (hs : s.status = .running) (hpc : s.pc = (pc : Int)) (hi : img.code[pc]? = some .endLoop)
    (hst : s.stack = .loop vars h :: rest) :
    step img s = { s with pc := (pc : Int) + 1, stack := rest, eval := trimEval s.eval h } := by
  rw [step_unfold img s pc _ hs hpc hi (by simp)]
  simp [execInstr, hs, hpc, hst, setsPc]

/-- `MOVEQ v d`, `d` not the unit-mode register: the VM's store routine -/
theorem step_moveq (img : Image) (s : State) (pc : Nat) (v : Val) (d : Dst)
    (hs : s.status = .running) (hpc : s.pc = (pc : Int))
    (hi : img.code[pc]? = some (.moveq v d)) (hd : d ≠ .reg .unitMode)
    (hr : (s.put d v).status = .running) :
    step img s = { s.put d v with pc := (s.put d v).pc + 1 } := by
  have hex : execInstr img s (.moveq v d) = s.put d v := by
    cases d with
    | reg r =>
      cases r <;> first | exact absurd rfl hd | rfl
    | var n => rfl
    | loopVar l => rfl
  rw [step_unfold img s pc _ hs hpc hi (by simp)]
  simp [hex, hr, setsPc]

theorem step_move (img : Image) (s : State) (pc : Nat) (src : Src) (d : Dst)
    (hs : s.status = .running) (hpc : s.pc = (pc : Int))
    (hi : img.code[pc]? = some (.move src d))
    (hr : (s.put d (s.read src)).status = .running) :
    step img s = { s.put d (s.read src) with pc := (s.put d (s.read src)).pc + 1 } := by
  rw [step_unfold img s pc _ hs hpc hi (by simp)]
  simp [execInstr, hr, setsPc]

/-! ## 4. straight-line arithmetic: `PUSH`/`PUSHQ`/`OP` runs -/

/-- what `PUSH src` puts on the evaluation stack, `none` when it faults (the value is `None`) -/
def pushVal (rd : Src → Val) (src : Src) : Option Val :=
  match src with
  | .lit v => some v
  | .reg r => match rd (.reg r) with | .none => none | v => some v
  | .var n => match rd (.var n) with | .none => none | v => some v
  | .loopVar l => match rd (.loopVar l) with | .none => none | v => some v

/-- one instruction of a postfix run on the evaluation stack `stk`, values read through `rd` -/
def pfStep (rd : Src → Val) (stk : List Val) (i : Instr) : Option (List Val) :=
  match i with
  | .pushq v => some (v :: stk)
  | .push src => (pushVal rd src).map (· :: stk)
  | .op o =>
    match stk with
    | y :: x :: rest => (binVal o x y).map (· :: rest)
    | _ => none
  | _ => none

def pfRun (rd : Src → Val) : List Instr → List Val → Option (List Val)
  | [], stk => some stk
  | i :: is, stk => (pfStep rd stk i).bind (pfRun rd is)

theorem exec_push (img : Image) (s : State) (src : Src) (v : Val)
    (h : pushVal s.read src = some v) :
    execInstr img s (.push src) = { s with eval := v :: s.eval } := by
  cases src with
  | lit x => simp [pushVal] at h; subst h; rfl
  | reg r =>
    simp only [pushVal] at h
    simp only [execInstr]
    split at h
    · simp at h
    · rename_i hne
      simp only [Option.some.injEq] at h; subst h
      split
      · rename_i h0; exact absurd h0 (by intro e; exact hne e)
      · rfl
  | var n =>
    simp only [pushVal] at h
    simp only [execInstr]
    split at h
    · simp at h
    · rename_i hne
      simp only [Option.some.injEq] at h; subst h
      split
      · rename_i h0; exact absurd h0 (by intro e; exact hne e)
      · rfl
  | loopVar l =>
    simp only [pushVal] at h
    simp only [execInstr]
    split at h
    · simp at h
    · rename_i hne
      simp only [Option.some.injEq] at h; subst h
      split
      · rename_i h0; exact absurd h0 (by intro e; exact hne e)
      · rfl

theorem step_push' (img : Image) (s : State) (pc : Nat) (src : Src) (v : Val)
    (hs : s.status = .running) (hpc : s.pc = (pc : Int))
    (hi : img.code[pc]? = some (.push src)) (h : pushVal s.read src = some v) :
    step img s = { s with pc := (pc : Int) + 1, eval := v :: s.eval } := by
  rw [step_unfold img s pc _ hs hpc hi (by simp), exec_push img s src v h]
  simp [hs, hpc, setsPc]

theorem read_pc_eval (s : State) (p : Int) (e : List Val) (src : Src) :
    ({ s with pc := p, eval := e } : State).read src = s.read src := by
  cases src <;> rfl

/-- **postfix runs.**  A run of `PUSH`/`PUSHQ`/`OP` instructions whose stack evaluation
`pfRun` succeeds executes in as many steps and changes nothing but `pc` and the evaluation
stack. -/
theorem run_pf (img : Image) (rd : Src → Val) (code : List Instr) :
    ∀ (s : State) (pc : Nat) (stk' : List Val),
      s.status = .running → s.pc = (pc : Int) → CodeAt img pc code →
      (∀ src, s.read src = rd src) → pfRun rd code s.eval = some stk' →
      run img code.length s = { s with pc := (pc : Int) + code.length, eval := stk' } := by
  induction code with
  | nil =>
    intro s pc stk' hs hpc _ _ h
    simp only [pfRun, Option.some.injEq] at h
    subst h
    simp [run, ← hpc]
  | cons i is ih =>
    intro s pc stk' hs hpc hc hrd h
    simp only [pfRun] at h
    cases h1 : pfStep rd s.eval i with
    | none => simp [h1] at h
    | some stk1 =>
      simp only [h1, Option.bind_some] at h
      have hstep : step img s = { s with pc := (pc : Int) + 1, eval := stk1 } := by
        cases i with
        | pushq v =>
          simp only [pfStep, Option.some.injEq] at h1; subst h1
          exact step_pushq img s pc v hs hpc hc.head
        | push src =>
          simp only [pfStep] at h1
          cases h2 : pushVal rd src with
          | none => simp [h2] at h1
          | some v =>
            simp only [h2, Option.map_some, Option.some.injEq] at h1; subst h1
            have : pushVal s.read src = some v := by
              have e : s.read = rd := funext hrd
              rw [e]; exact h2
            exact step_push' img s pc src v hs hpc hc.head this
        | op o =>
          simp only [pfStep] at h1
          split at h1
          · rename_i y x rest hev
            cases h2 : binVal o x y with
            | none => simp [h2] at h1
            | some r =>
              simp only [h2, Option.map_some, Option.some.injEq] at h1; subst h1
              exact step_binop img s pc o x y r rest hs hpc hc.head hev h2
          · simp at h1
        | _ => simp [pfStep] at h1
      rw [List.length_cons, Nat.add_comm, run_add, run_one _ _ hs, hstep]
      have := ih { s with pc := (pc : Int) + 1, eval := stk1 } (pc + 1) stk' hs (by simp)
        hc.tail (fun src => by rw [read_pc_eval]; exact hrd src) h
      rw [this]
      apply State.ext' <;> simp
      omega

/-- a postfix run ended by `POP d`: the value computed is stored by the VM's store routine -/
theorem run_pf_pop (img : Image) (rd : Src → Val) (pf : List Instr) (d : Dst) (s : State)
    (pc : Nat) (r : Val)
    (hs : s.status = .running) (hpc : s.pc = (pc : Int)) (hc : CodeAt img pc (pf ++ [.pop d]))
    (hrd : ∀ src, s.read src = rd src) (h : pfRun rd pf s.eval = some (r :: s.eval)) :
    run img (pf ++ [Instr.pop d]).length s =
      (let t := ({ s with pc := (pc : Int) + pf.length }).put d r
       if t.status = .running then { t with pc := t.pc + 1 } else t) := by
  rw [List.length_append, run_add, run_pf img rd pf s pc _ hs hpc hc.left hrd h]
  simp only [List.length_cons, List.length_nil]
  rw [run_one _ _ (by exact hs),
    step_pop img _ (pc + pf.length) d r s.eval (by exact hs) (by simp) hc.right.head (by rfl)]

theorem putVariable_status (s : State) (n : String) (v : Val) :
    (s.putVariable n v).status = s.status := by
  unfold State.putVariable
  repeat' split
  all_goals rfl

theorem putVariable_pc (s : State) (n : String) (v : Val) :
    (s.putVariable n v).pc = s.pc := by
  unfold State.putVariable
  repeat' split
  all_goals rfl

/-! ## 5. numbers -/

/-- `Num v q fl`: `v` is a Python number with exact value `q`; `fl` tells a float from an int
(a bool counts as an int) -/
def Num (v : Val) (q : Rat) (fl : Bool) : Prop := v.asNum = some (q, fl)

theorem Num.int (i : Int) : Num (.int i) i false := rfl
theorem Num.num (q : Rat) : Num (.num q) q true := rfl

theorem Num.ne_none {v : Val} {q : Rat} {fl : Bool} (h : Num v q fl) : v = .none → False := by
  intro e; subst e; simp [Num, Val.asNum] at h

theorem Num.integral {v : Val} {q : Rat} (h : Num v q false) : ∃ i : Int, q = (i : Rat) := by
  cases v <;> simp [Num, Val.asNum] at h
  · rename_i i; exact ⟨i, h.symm⟩
  · rename_i b; cases b
    · exact ⟨0, by simp at h; simp [← h]⟩
    · exact ⟨1, by simp at h; simp [← h]⟩

theorem Num.unique {v : Val} {q q' : Rat} {fl fl' : Bool} (h : Num v q fl) (h' : Num v q' fl') :
    q = q' ∧ fl = fl' := by
  unfold Num at h h'; rw [h] at h'; simpa using h'

theorem mkNum_num (q : Rat) (fl : Bool) (hint : fl = false → ∃ i : Int, q = (i : Rat)) :
    Num (Val.mkNum q fl) q fl := by
  cases fl with
  | true => rfl
  | false =>
    obtain ⟨i, rfl⟩ := hint rfl
    simp [Num, Val.mkNum, Val.asNum, Rat.num_intCast]

theorem or_false_both {a b : Bool} (h : (a || b) = false) : a = false ∧ b = false := by
  cases a <;> cases b <;> simp_all

theorem num_add {a b : Val} {x y : Rat} {fx fy : Bool} (ha : Num a x fx) (hb : Num b y fy) :
    Val.add a b = some (Val.mkNum (x + y) (fx || fy)) ∧ Num (Val.mkNum (x + y) (fx || fy)) (x + y) (fx || fy) := by
  constructor
  · unfold Num at ha hb
    cases a <;> simp [Val.asNum] at ha <;> cases b <;> simp [Val.asNum] at hb <;>
      simp [Val.add, Val.asNum, ha, hb] <;> simp [← ha, ← hb]
  · apply mkNum_num
    intro hf
    obtain ⟨h1, h2⟩ := or_false_both hf
    subst h1; subst h2
    obtain ⟨i, rfl⟩ := ha.integral
    obtain ⟨j, rfl⟩ := hb.integral
    exact ⟨i + j, by rw [Rat.intCast_add]⟩

theorem num_sub {a b : Val} {x y : Rat} {fx fy : Bool} (ha : Num a x fx) (hb : Num b y fy) :
    Val.sub a b = some (Val.mkNum (x - y) (fx || fy)) ∧ Num (Val.mkNum (x - y) (fx || fy)) (x - y) (fx || fy) := by
  constructor
  · unfold Num at ha hb
    simp [Val.sub, ha, hb]
  · apply mkNum_num
    intro hf
    obtain ⟨h1, h2⟩ := or_false_both hf
    subst h1; subst h2
    obtain ⟨i, rfl⟩ := ha.integral
    obtain ⟨j, rfl⟩ := hb.integral
    exact ⟨i - j, by rw [Rat.intCast_sub]⟩

theorem num_mul {a b : Val} {x y : Rat} {fx fy : Bool} (ha : Num a x fx) (hb : Num b y fy) :
    Val.mul a b = some (Val.mkNum (x * y) (fx || fy)) ∧ Num (Val.mkNum (x * y) (fx || fy)) (x * y) (fx || fy) := by
  constructor
  · unfold Num at ha hb
    cases a <;> simp [Val.asNum] at ha <;> cases b <;> simp [Val.asNum] at hb <;>
      simp [Val.mul, Val.asNum, ha, hb] <;> simp [← ha, ← hb]
  · apply mkNum_num
    intro hf
    obtain ⟨h1, h2⟩ := or_false_both hf
    subst h1; subst h2
    obtain ⟨i, rfl⟩ := ha.integral
    obtain ⟨j, rfl⟩ := hb.integral
    exact ⟨i * j, by rw [Rat.intCast_mul]⟩

theorem num_div {a b : Val} {x y : Rat} {fx fy : Bool} (ha : Num a x fx) (hb : Num b y fy)
    (hy : y ≠ 0) : Val.div a b = some (.num (x / y)) := by
  unfold Num at ha hb
  simp [Val.div, ha, hb, hy]

theorem num_div_zero {a b : Val} {x : Rat} {fx fy : Bool} (ha : Num a x fx) (hb : Num b 0 fy) :
    Val.div a b = none := by
  unfold Num at ha hb
  simp [Val.div, ha, hb]

theorem num_not_str {a : Val} {x : Rat} {fx : Bool} (ha : Num a x fx) (s : String) : a ≠ .str s := by
  intro e; subst e; simp [Num, Val.asNum] at ha

theorem num_gt {a b : Val} {x y : Rat} {fx fy : Bool} (ha : Num a x fx) (hb : Num b y fy) :
    Val.cmp .gt a b = some (.bool (decide (y < x))) := by
  unfold Num at ha hb
  have : Val.cmp .gt a b = some (.bool ((if x < y then Ordering.lt else if x == y then .eq else .gt) == .gt)) := by
    cases a <;> simp [Val.asNum] at ha <;> cases b <;> simp [Val.asNum] at hb <;>
      simp [Val.cmp, Val.asNum, ha, hb] <;> simp [← ha, ← hb]
  rw [this]
  congr 2
  by_cases h1 : x < y
  · have : ¬ y < x := by grind
    simp [h1, this]
  · by_cases h2 : x = y
    · subst h2; simp [h1]
    · have : y < x := by grind
      simp [h1, h2, this]

theorem num_lt {a b : Val} {x y : Rat} {fx fy : Bool} (ha : Num a x fx) (hb : Num b y fy) :
    Val.cmp .lt a b = some (.bool (decide (x < y))) := by
  unfold Num at ha hb
  have : Val.cmp .lt a b = some (.bool ((if x < y then Ordering.lt else if x == y then .eq else .gt) == .lt)) := by
    cases a <;> simp [Val.asNum] at ha <;> cases b <;> simp [Val.asNum] at hb <;>
      simp [Val.cmp, Val.asNum, ha, hb] <;> simp [← ha, ← hb]
  rw [this]
  congr 2
  by_cases h1 : x < y
  · simp [h1]
  · by_cases h2 : x = y
    · subst h2; simp [h1]
    · simp [h1, h2]

theorem beq_decide {α : Type} [BEq α] [LawfulBEq α] [DecidableEq α] (a b : α) :
    (a == b) = decide (a = b) := by
  rw [Bool.eq_iff_iff]; simp

theorem num_beq_int {a : Val} {x : Rat} {fx : Bool} (ha : Num a x fx) (j : Int) :
    Val.beq a (.int j) = decide (x = (j : Rat)) := by
  unfold Num at ha
  cases a <;> simp [Val.asNum] at ha
  · rename_i i
    obtain ⟨rfl, _⟩ := ha
    simp [Val.beq, Rat.intCast_inj, beq_decide]
  · rename_i q
    obtain ⟨rfl, _⟩ := ha
    simp [Val.beq, beq_decide]
  · rename_i b
    obtain ⟨rfl, _⟩ := ha
    cases b
    · have : ((0 : Rat) = (j : Rat)) ↔ (0 : Int) = j := by
        rw [← Rat.intCast_inj (a := 0) (b := j)]; simp
      simp [Val.beq, this, beq_decide]
    · have : ((1 : Rat) = (j : Rat)) ↔ (1 : Int) = j := by
        rw [← Rat.intCast_inj (a := 1) (b := j)]; simp
      simp [Val.beq, this, beq_decide]

/-! ## 5b. pass counts -/

/-- number of passes of a counted loop whose counter starts at `n`: one while the remaining
count is positive (the same function as `passes` in `Sem.execLoop`) -/
def passes (n : Rat) : Nat := if n ≤ 0 then 0 else n.ceil.toNat

theorem passes_nonpos {c : Rat} (h : c ≤ 0) : passes c = 0 := by simp [passes, h]

theorem passes_pos {c : Rat} (h : 0 < c) : passes c = passes (c - 1) + 1 := by
  have hc : ¬ c ≤ 0 := by grind
  have h0 : (0 : Int) < c.ceil := Rat.lt_ceil_iff.2 (by simpa using h)
  unfold passes
  rw [if_neg hc]
  by_cases h1 : c - 1 ≤ 0
  · rw [if_pos h1]
    have : c.ceil ≤ 1 := Rat.ceil_le_iff.2 (by simp; grind)
    omega
  · rw [if_neg h1, Rat.ceil_sub_one]
    omega

theorem passes_intCast (i : Int) : passes (i : Rat) = i.toNat := by
  unfold passes
  split
  · rename_i h
    have : ((i : Int) : Rat) ≤ ((0 : Int) : Rat) := by simpa using h
    have := Rat.intCast_le_intCast.1 this
    omega
  · rw [Rat.ceil_intCast]

theorem passes_natCast (n : Nat) : passes (n : Rat) = n := by
  rw [← Rat.intCast_natCast, passes_intCast]; simp


/-! ## 6. groups `PUSH a; PUSH b; OP o; POP d` -/

theorem pfRun3 (rd : Src → Val) (stk : List Val) (a b : Instr) (o : Operator) (x y r : Val)
    (ha : pfStep rd stk a = some (x :: stk)) (hb : pfStep rd (x :: stk) b = some (y :: x :: stk))
    (ho : binVal o x y = some r) : pfRun rd [a, b, .op o] stk = some (r :: stk) := by
  simp only [pfRun, ha, hb, Option.bind_some]
  simp [pfStep, ho]

theorem pfStep_pushq (rd : Src → Val) (stk : List Val) (v : Val) :
    pfStep rd stk (.pushq v) = some (v :: stk) := rfl

theorem pfStep_push_lv (s : State) (stk : List Val) (l : LoopVar) (v : Val)
    (hv : s.getLoopVar l = v) (hne : v = .none → False) :
    pfStep s.read stk (.push (.loopVar l)) = some (v :: stk) := by
  simp only [pfStep, pushVal, State.read, hv]
  rfl

theorem pfStep_push_var (s : State) (stk : List Val) (n : String) (v : Val)
    (hv : s.getVariable n = v) (hne : v = .none → False) :
    pfStep s.read stk (.push (.var n)) = some (v :: stk) := by
  simp only [pfStep, pushVal, State.read, hv]
  rfl

theorem pfStep_push_reg (s : State) (stk : List Val) (r : Reg) (v : Val)
    (hv : s.regs r = v) (hne : v = .none → False) :
    pfStep s.read stk (.push (.reg r)) = some (v :: stk) := by
  simp only [pfStep, pushVal, State.read, hv]
  rfl

/-- a postfix run stored in a hidden loop variable -/
theorem run_pf_lv (img : Image) (pf : List Instr) (l : LoopVar) (s : State) (pc : Nat) (r : Val)
    (vars : List (LoopVar × Val)) (h : Nat) (rest : List Frame)
    (hs : s.status = .running) (hpc : s.pc = (pc : Int))
    (hc : CodeAt img pc (pf ++ [.pop (.loopVar l)])) (hst : s.stack = .loop vars h :: rest)
    (hr : pfRun s.read pf s.eval = some (r :: s.eval)) :
    run img (pf.length + 1) s =
      { s with pc := (pc : Int) + pf.length + 1, stack := .loop (setLV vars l r) h :: rest } := by
  have := run_pf_pop img s.read pf (.loopVar l) s pc r hs hpc hc (fun _ => rfl) hr
  rw [show pf.length + 1 = (pf ++ [Instr.pop (.loopVar l)]).length by simp, this]
  have hst' : ({ s with pc := (pc : Int) + pf.length } : State).stack = .loop vars h :: rest := hst
  simp only [State.put, putLoopVar_eq hst']
  simp [hs]

/-- a postfix run stored in a register -/
theorem run_pf_reg (img : Image) (pf : List Instr) (r' : Reg) (s : State) (pc : Nat) (r : Val)
    (hs : s.status = .running) (hpc : s.pc = (pc : Int))
    (hc : CodeAt img pc (pf ++ [.pop (.reg r')]))
    (hr : pfRun s.read pf s.eval = some (r :: s.eval)) :
    run img (pf.length + 1) s =
      { s with pc := (pc : Int) + pf.length + 1,
               regs := fun x => if x = r' then r else s.regs x } := by
  have := run_pf_pop img s.read pf (.reg r') s pc r hs hpc hc (fun _ => rfl) hr
  rw [show pf.length + 1 = (pf ++ [Instr.pop (.reg r')]).length by simp, this]
  simp only [State.put, State.setReg]
  simp [hs]

theorem putVariable_with_pc (s : State) (p : Int) (n : String) (v : Val) :
    ({ s with pc := p } : State).putVariable n v = { s.putVariable n v with pc := p } := by
  unfold State.putVariable
  simp only
  split
  · split
    · split <;> rfl
    · split
      · rfl
      · split <;> rfl
  · split
    · rfl
    · split <;> rfl
  · rfl

/-- a postfix run stored in a script variable -/
theorem run_pf_var (img : Image) (pf : List Instr) (n : String) (s : State) (pc : Nat) (r : Val)
    (hs : s.status = .running) (hpc : s.pc = (pc : Int))
    (hc : CodeAt img pc (pf ++ [.pop (.var n)]))
    (hr : pfRun s.read pf s.eval = some (r :: s.eval)) :
    run img (pf.length + 1) s = { s.putVariable n r with pc := (pc : Int) + pf.length + 1 } := by
  have := run_pf_pop img s.read pf (.var n) s pc r hs hpc hc (fun _ => rfl) hr
  rw [show pf.length + 1 = (pf ++ [Instr.pop (.var n)]).length by simp, this]
  simp only [State.put, putVariable_with_pc]
  simp [hs, putVariable_status]


theorem run_trans {img : Image} {a b : Nat} {s t u : State} (h1 : run img a s = t)
    (h2 : run img b t = u) : run img (a + b) s = u := by
  rw [run_add, h1, h2]

/-- `a; b; OP o; POP <loop variable>` with `a`, `b` pushes -/
theorem run_group_lv (img : Image) (a b : Instr) (o : Operator) (l : LoopVar) (s : State) (pc : Nat)
    (x y r : Val) (vars : List (LoopVar × Val)) (h : Nat) (rest : List Frame)
    (hs : s.status = .running) (hpc : s.pc = (pc : Int))
    (hc : CodeAt img pc [a, b, .op o, .pop (.loopVar l)]) (hst : s.stack = .loop vars h :: rest)
    (ha : pfStep s.read s.eval a = some (x :: s.eval))
    (hb : pfStep s.read (x :: s.eval) b = some (y :: x :: s.eval)) (ho : binVal o x y = some r) :
    run img 4 s = { s with pc := (pc : Int) + 4, stack := .loop (setLV vars l r) h :: rest } := by
  have := run_pf_lv img [a, b, .op o] l s pc r vars h rest hs hpc hc hst
    (pfRun3 s.read s.eval a b o x y r ha hb ho)
  simp only [List.length_cons, List.length_nil] at this
  rw [this]
  apply State.ext' <;> simp
  omega

/-- `a; b; OP o; POP <register>` -/
theorem run_group_reg (img : Image) (a b : Instr) (o : Operator) (r' : Reg) (s : State) (pc : Nat)
    (x y r : Val) (hs : s.status = .running) (hpc : s.pc = (pc : Int))
    (hc : CodeAt img pc [a, b, .op o, .pop (.reg r')])
    (ha : pfStep s.read s.eval a = some (x :: s.eval))
    (hb : pfStep s.read (x :: s.eval) b = some (y :: x :: s.eval)) (ho : binVal o x y = some r) :
    run img 4 s = { s with pc := (pc : Int) + 4,
                           regs := fun q => if q = r' then r else s.regs q } := by
  have := run_pf_reg img [a, b, .op o] r' s pc r hs hpc hc
    (pfRun3 s.read s.eval a b o x y r ha hb ho)
  simp only [List.length_cons, List.length_nil] at this
  rw [this]
  apply State.ext' <;> simp
  omega

/-- `a; b; OP o; POP <variable>` -/
theorem run_group_var (img : Image) (a b : Instr) (o : Operator) (n : String) (s : State) (pc : Nat)
    (x y r : Val) (hs : s.status = .running) (hpc : s.pc = (pc : Int))
    (hc : CodeAt img pc [a, b, .op o, .pop (.var n)])
    (ha : pfStep s.read s.eval a = some (x :: s.eval))
    (hb : pfStep s.read (x :: s.eval) b = some (y :: x :: s.eval)) (ho : binVal o x y = some r) :
    run img 4 s = { s.putVariable n r with pc := (pc : Int) + 4 } := by
  have := run_pf_var img [a, b, .op o] n s pc r hs hpc hc
    (pfRun3 s.read s.eval a b o x y r ha hb ho)
  simp only [List.length_cons, List.length_nil] at this
  rw [this]
  apply State.ext' <;> simp
  omega

/-! ## 7. script variables under a loop frame -/

/-- the nearest frame that is not a loop frame, if there is one, is an entered routine
activation — not a frame between `CTX` and `JSR` (loops are statements; they never run while
a parameter list is being filled) -/
def ScopeOk (st : List Frame) : Prop :=
  LoopsOnly st ∨ ∃ loops locals ret rest, LoopsOnly loops ∧ st = loops ++ .call locals ret :: rest

theorem loopsOnly_cons_loop {vars : List (LoopVar × Val)} {h : Nat} {l : List Frame}
    (hl : LoopsOnly l) : LoopsOnly (.loop vars h :: l) := by
  intro f hf
  simp only [List.mem_cons] at hf
  rcases hf with rfl | hf
  · rfl
  · exact hl f hf

theorem ScopeOk.cons_loop {vars : List (LoopVar × Val)} {h : Nat} {st : List Frame}
    (hs : ScopeOk st) : ScopeOk (.loop vars h :: st) := by
  rcases hs with hl | ⟨loops, locals, ret, rest, hl, rfl⟩
  · exact .inl (loopsOnly_cons_loop hl)
  · exact .inr ⟨.loop vars h :: loops, locals, ret, rest, loopsOnly_cons_loop hl, rfl⟩

theorem ScopeOk.tail {vars : List (LoopVar × Val)} {h : Nat} {st : List Frame}
    (hs : ScopeOk (.loop vars h :: st)) : ScopeOk st := by
  rcases hs with hl | ⟨loops, locals, ret, rest, hl, he⟩
  · exact .inl hl.cons.2
  · cases loops with
    | nil => simp at he
    | cons f loops =>
      simp only [List.cons_append, List.cons.injEq] at he
      exact .inr ⟨loops, locals, ret, rest, hl.cons.2, he.2⟩

theorem ScopeOk.retop {vars vars' : List (LoopVar × Val)} {h h' : Nat} {st : List Frame}
    (hs : ScopeOk (.loop vars h :: st)) : ScopeOk (.loop vars' h' :: st) := hs.tail.cons_loop

theorem activation_cons_loop (vars : List (LoopVar × Val)) (h : Nat) (st : List Frame) :
    activation (.loop vars h :: st) = activation st := rfl

/-- what a name denotes does not depend on `pc`, registers, or the innermost loop frame's
hidden variables -/
theorem getVariable_retop (s t : State) (vars vars' : List (LoopVar × Val)) (h h' : Nat)
    (rest : List Frame) (n : String) (hs : s.stack = .loop vars h :: rest)
    (ht : t.stack = .loop vars' h' :: rest) (hc : t.constants = s.constants)
    (hg : t.globals = s.globals) : t.getVariable n = s.getVariable n := by
  simp only [State.getVariable, hs, ht, hc, hg, activation_cons_loop]

/-- **assign, then read.**  Under `ScopeOk`, for a name that is not a macro: the value just
assigned is what the name denotes; the innermost loop frame stays on top; macros, status, `pc`,
registers and the evaluation stack are untouched; the scope stays well-formed. -/
theorem putVariable_get (s : State) (n : String) (v : Val) (hc : s.constants.get n = none)
    (hok : ScopeOk s.stack) :
    (s.putVariable n v).getVariable n = v ∧ ScopeOk (s.putVariable n v).stack ∧
    (s.putVariable n v).constants = s.constants ∧
    (∀ vars h rest, s.stack = .loop vars h :: rest →
      ∃ rest', (s.putVariable n v).stack = .loop vars h :: rest') := by
  rcases hok with hl | ⟨loops, locals, ret, rest, hl, hst⟩
  · rw [C03_toplevel_assign s n v hl]
    refine ⟨?_, .inl hl, rfl, fun vars h rest hs => ⟨rest, hs⟩⟩
    simp [State.getVariable, hc, activation_only_loops s.stack hl, Dict.get_put_self]
  · have htop : ∀ (locals' : Dict) vars h rest0, s.stack = .loop vars h :: rest0 →
        ∃ rest', loops ++ Frame.call locals' ret :: rest = .loop vars h :: rest' := by
      intro locals' vars h rest0 hs
      rw [hst] at hs
      cases loops with
      | nil => simp at hs
      | cons f loops =>
        simp only [List.cons_append, List.cons.injEq] at hs
        exact ⟨loops ++ Frame.call locals' ret :: rest, by simp [hs.1]⟩
    by_cases hn : locals.has n = true
    · rw [C03_param_private s loops locals ret rest n v hl hst hn]
      refine ⟨?_, .inr ⟨loops, _, ret, rest, hl, rfl⟩, rfl, fun vars h rest0 hs => htop _ vars h rest0 hs⟩
      exact C03_param_hides_global _ loops (locals.put n v) ret rest n v hl rfl hc
        (Dict.get_put_self locals n v)
    · have hn : locals.has n = false := by simpa using hn
      by_cases hg : s.globals.has n = true
      · rw [C03_global_assign s loops locals ret rest n v hl hst hn hg]
        refine ⟨?_, .inr ⟨loops, locals, ret, rest, hl, hst⟩, rfl, fun vars h rest0 hs => ⟨rest0, hs⟩⟩
        have hnone : locals.get n = none := by
          cases hget : locals.get n with
          | none => rfl
          | some x =>
            have := (Dict.has_iff_get locals n).2 ⟨x, hget⟩
            rw [hn] at this; simp at this
        rw [C03_nonlocal_reads_global { s with globals := s.globals.put n v } loops locals ret rest n hl hst hc hnone]
        simp [Dict.get_put_self]
      · have hg : s.globals.has n = false := by simpa using hg
        rw [C03_new_name_is_local s loops locals ret rest n v hl hst hn hg]
        refine ⟨?_, .inr ⟨loops, _, ret, rest, hl, rfl⟩, rfl, fun vars h rest0 hs => htop _ vars h rest0 hs⟩
        have hput : locals.put n v = locals ++ [(n, v)] := by
          have : locals.any (·.1 == n) = false := hn
          simp [Dict.put, this]
        exact C03_param_hides_global _ loops (locals ++ [(n, v)]) ret rest n v hl rfl hc
          (by rw [← hput]; exact Dict.get_put_self locals n v)


/-! ## 8. loops from their test on -/

/-- an assembled loop from its test on: `test; JUMP IF_FALSE →END_LOOP; inner; JUMP →test; END_LOOP` -/
def loopTail (test inner : List Instr) : List Instr :=
  test ++ [Instr.jump .ifFalse (inner.length + 2)] ++ inner ++
    [Instr.jump .always (-((test.length + 1 + inner.length : Nat) : Int))] ++ [Instr.endLoop]

theorem loopCode_eq (pre test inner : List Instr) :
    loopCode pre test inner = [Instr.loop] ++ pre ++ loopTail test inner := by
  simp [loopCode, loopTail]

theorem loopTail_length (test inner : List Instr) :
    (loopTail test inner).length = test.length + 1 + inner.length + 2 := by
  simp [loopTail]; omega

/-- where the pieces of a loop are, given where its test starts -/
theorem loopTail_parts {img : Image} {top : Nat} {test b post : List Instr}
    (h : CodeAt img top (loopTail test (b ++ post))) :
    CodeAt img top test ∧
    img.code[top + test.length]? = some (.jump .ifFalse ((b.length + post.length : Nat) + 2)) ∧
    CodeAt img (top + test.length + 1) b ∧
    CodeAt img (top + test.length + 1 + b.length) post ∧
    img.code[top + test.length + 1 + b.length + post.length]? =
      some (.jump .always (-((test.length + 1 + (b.length + post.length) : Nat) : Int))) ∧
    img.code[top + test.length + 1 + b.length + post.length + 1]? = some .endLoop := by
  unfold loopTail at h
  have h1 := h.left.left.left.left
  have h2 := h.left.left.left.right.head
  have h3 := h.left.left.right
  have h4 := h.left.right.head
  have h5 := h.right.head
  simp only [List.length_append, List.length_cons, List.length_nil] at h2 h3 h4 h5
  refine ⟨h1, h2, ?_, ?_, ?_, ?_⟩
  · have := h3.left
    simpa [Nat.add_assoc] using this
  · have := h3.right
    simpa [Nat.add_assoc] using this
  · simpa [Nat.add_assoc] using h4
  · simpa [Nat.add_assoc] using h5

theorem loopCode_parts {img : Image} {P0 : Nat} {pre test inner : List Instr}
    (hc : CodeAt img P0 (loopCode pre test inner)) :
    img.code[P0]? = some .loop ∧ CodeAt img (P0 + 1) pre ∧
    CodeAt img (P0 + 1 + pre.length) (loopTail test inner) ∧
    (loopCode pre test inner).length = 1 + pre.length + (loopTail test inner).length := by
  rw [loopCode_eq] at hc
  refine ⟨?_, ?_, ?_, ?_⟩
  · have := hc.left.left.head; simpa using this
  · have := hc.left.right; simpa using this
  · have := hc.right
    have e : P0 + ([Instr.loop] ++ pre).length = P0 + 1 + pre.length := by simp; omega
    rw [e] at this
    exact this
  · rw [loopCode_eq]; simp; omega

/-! ## 9. more single steps and small facts -/

/-- the counter stays a number when decreased -/
theorem num_dec {cv : Val} {c : Rat} {fl : Bool} (hn : Num cv c fl) :
    ∃ cv', Val.sub cv (.int 1) = some cv' ∧ Num cv' (c - 1) fl := by
  obtain ⟨h1, h2⟩ := num_sub hn (Num.int 1)
  refine ⟨_, h1, ?_⟩
  simpa using h2

theorem passes_zero_iff {c : Rat} : passes c = 0 ↔ c ≤ 0 := by
  constructor
  · intro h
    apply Classical.byContradiction
    intro hc
    have : 0 < c := by grind
    rw [passes_pos this] at h
    omega
  · exact passes_nonpos

theorem natCast_succ_rat (k : Nat) : ((k + 1 : Nat) : Rat) = (k : Rat) + 1 := by
  simp [Rat.natCast_add]

theorem _root_.Bardolph.VmSteps.CodeAt.slice {img : Image} {pc : Nat} {code : List Instr} (h : CodeAt img pc code)
    (i n : Nat) : CodeAt img (pc + i) ((code.drop i).take n) := by
  intro k hk
  simp only [List.length_take, List.length_drop] at hk
  have := h (i + k) (by omega)
  rw [Nat.add_assoc, this]
  simp [List.getElem_take, List.getElem_drop]

theorem _root_.Bardolph.VmSteps.CodeAt.get {img : Image} {pc : Nat} {code : List Instr} (h : CodeAt img pc code)
    (i : Nat) (hi : i < code.length) : img.code[pc + i]? = some code[i] := h i hi

/-- `MOVEQ v <loop variable>` -/
theorem run_moveq_lv (img : Image) (s : State) (pc : Nat) (l : LoopVar) (v : Val)
    (vars : List (LoopVar × Val)) (h : Nat) (rest : List Frame)
    (hs : s.status = .running) (hpc : s.pc = (pc : Int))
    (hi : img.code[pc]? = some (.moveq v (.loopVar l))) (hst : s.stack = .loop vars h :: rest) :
    run img 1 s = { s with pc := (pc : Int) + 1, stack := .loop (setLV vars l v) h :: rest } := by
  have hput : s.put (.loopVar l) v = { s with stack := .loop (setLV vars l v) h :: rest } := by
    simp only [State.put, putLoopVar_eq hst]
  rw [run_one _ _ hs, step_moveq img s pc v (.loopVar l) hs hpc hi (by simp) (by rw [hput]; exact hs), hput]
  simp [hpc]

/-- `MOVE <loop variable> <variable>` -/
theorem run_move_lv_var (img : Image) (s : State) (pc : Nat) (l : LoopVar) (n : String)
    (vars : List (LoopVar × Val)) (h : Nat) (rest : List Frame)
    (hs : s.status = .running) (hpc : s.pc = (pc : Int))
    (hi : img.code[pc]? = some (.move (.loopVar l) (.var n))) (hst : s.stack = .loop vars h :: rest) :
    run img 1 s = { s.putVariable n (getLV vars l) with pc := (pc : Int) + 1 } := by
  rw [run_one _ _ hs, step_move img s pc _ _ hs hpc hi (by simpa [State.put, putVariable_status] using hs)]
  simp [State.put, State.read, getLoopVar_eq hst, putVariable_pc, hpc]

theorem run_jump_always (img : Image) (s : State) (pc : Nat) (off : Int)
    (hs : s.status = .running) (hpc : s.pc = (pc : Int))
    (hi : img.code[pc]? = some (.jump .always off)) :
    run img 1 s = { s with pc := (pc : Int) + off } := by
  rw [run_one _ _ hs, step_jump_always img s pc off hs hpc hi]

theorem run_jump_ifFalse (img : Image) (s : State) (pc : Nat) (off : Int)
    (hs : s.status = .running) (hpc : s.pc = (pc : Int))
    (hi : img.code[pc]? = some (.jump .ifFalse off)) :
    run img 1 s = { s with pc := if (s.regs .result).truthy then (pc : Int) + 1 else (pc : Int) + off } := by
  rw [run_one _ _ hs, step_jump_ifFalse img s pc off hs hpc hi]

theorem Num.cast {v : Val} {q q' : Rat} {f f' : Bool} (h : Num v q f) (hq : q = q') (hf : f = f') :
    Num v q' f' := by subst hq; subst hf; exact h

theorem run_pushq (img : Image) (s : State) (pc : Nat) (v : Val)
    (hs : s.status = .running) (hpc : s.pc = (pc : Int)) (hi : img.code[pc]? = some (.pushq v)) :
    run img 1 s = { s with pc := (pc : Int) + 1, eval := v :: s.eval } := by
  rw [run_one _ _ hs, step_pushq img s pc v hs hpc hi]

theorem pfRun_append (rd : Src → Val) (a b : List Instr) (stk : List Val) :
    pfRun rd (a ++ b) stk = (pfRun rd a stk).bind (pfRun rd b) := by
  induction a generalizing stk with
  | nil => simp [pfRun]
  | cons i is ih =>
    simp only [List.cons_append, pfRun]
    cases pfStep rd stk i with
    | none => simp
    | some s1 => simp [ih]

/-- a postfix run ended by `POP <loop variable>`, whatever it leaves below the value -/
theorem run_pf_lv' (img : Image) (pf : List Instr) (l : LoopVar) (s : State) (pc : Nat) (r : Val)
    (stk' : List Val) (vars : List (LoopVar × Val)) (h : Nat) (rest : List Frame)
    (hs : s.status = .running) (hpc : s.pc = (pc : Int))
    (hc : CodeAt img pc (pf ++ [.pop (.loopVar l)])) (hst : s.stack = .loop vars h :: rest)
    (hr : pfRun s.read pf s.eval = some (r :: stk')) :
    run img (pf.length + 1) s =
      { s with pc := (pc : Int) + pf.length + 1, eval := stk',
               stack := .loop (setLV vars l r) h :: rest } := by
  rw [run_add, run_pf img s.read pf s pc _ hs hpc hc.left (fun _ => rfl) hr, run_one _ _ (by exact hs),
    step_pop img _ (pc + pf.length) (.loopVar l) r stk' (by exact hs) (by simp) hc.right.head (by rfl)]
  have hst' : ({ s with pc := (pc : Int) + pf.length, eval := stk' } : State).stack = .loop vars h :: rest := hst
  simp only [State.put, putLoopVar_eq hst']
  simp [hs]

/-- `MOVE src <loop variable>` -/
theorem run_move_lv (img : Image) (s : State) (pc : Nat) (src : Src) (l : LoopVar)
    (vars : List (LoopVar × Val)) (h : Nat) (rest : List Frame)
    (hs : s.status = .running) (hpc : s.pc = (pc : Int))
    (hi : img.code[pc]? = some (.move src (.loopVar l))) (hst : s.stack = .loop vars h :: rest) :
    run img 1 s = { s with pc := (pc : Int) + 1, stack := .loop (setLV vars l (s.read src)) h :: rest } := by
  have hput : s.put (.loopVar l) (s.read src) =
      { s with stack := .loop (setLV vars l (s.read src)) h :: rest } := by
    simp only [State.put, putLoopVar_eq hst]
  rw [run_one _ _ hs, step_move img s pc src (.loopVar l) hs hpc hi (by rw [hput]; exact hs), hput]
  simp [hpc]

/-- **operands that need no code of their own** — a literal, a variable, a register
(`SimpleArg`): `genRv a → <loop variable>` is one instruction that stores what `a` denotes in
the current state (`s.read a.src`) -/
theorem run_simple_lv (img : Image) (s : State) (pc : Nat) (a : Rv) (ha : SimpleArg a) (l : LoopVar)
    (vars : List (LoopVar × Val)) (h : Nat) (rest : List Frame)
    (hs : s.status = .running) (hpc : s.pc = (pc : Int))
    (hc : CodeAt img pc (genRv a (.to (.loopVar l)))) (hst : s.stack = .loop vars h :: rest) :
    (genRv a (.to (.loopVar l))).length = 1 ∧
    run img 1 s =
      { s with pc := (pc : Int) + 1, stack := .loop (setLV vars l (s.read a.src)) h :: rest } := by
  cases ha with
  | lit v =>
    have hc' : CodeAt img pc [Instr.moveq v (.loopVar l)] := by simpa [genRv] using hc
    exact ⟨by simp [genRv], run_moveq_lv img s pc l v vars h rest hs hpc hc'.head hst⟩
  | var n =>
    have hc' : CodeAt img pc [Instr.move (.var n) (.loopVar l)] := by simpa [genRv] using hc
    exact ⟨by simp [genRv], run_move_lv img s pc (.var n) l vars h rest hs hpc hc'.head hst⟩
  | reg r =>
    have hc' : CodeAt img pc [Instr.move (.reg r) (.loopVar l)] := by simpa [genRv] using hc
    exact ⟨by simp [genRv], run_move_lv img s pc (.reg r) l vars h rest hs hpc hc'.head hst⟩

/-- what a simple operand denotes does not depend on `pc` or the innermost loop frame's hidden
variables -/
theorem read_simple_retop (a : Rv) (ha : SimpleArg a) (s t : State)
    (vars vars' : List (LoopVar × Val)) (h h' : Nat) (rest : List Frame)
    (hs : s.stack = .loop vars h :: rest) (ht : t.stack = .loop vars' h' :: rest)
    (hc : t.constants = s.constants) (hg : t.globals = s.globals) (hr : t.regs = s.regs) :
    t.read a.src = s.read a.src := by
  cases ha with
  | lit v => rfl
  | var n => exact getVariable_retop s t vars vars' h h' rest n hs ht hc hg
  | reg r => simp [Rv.src, State.read, hr]

theorem genRv_simple_length (a : Rv) (ha : SimpleArg a) (l : LoopVar) :
    (genRv a (.to (.loopVar l))).length = 1 := by
  cases ha <;> simp [genRv]

theorem add_int_int (i j : Int) : Val.add (.int i) (.int j) = some (.int (i + j)) := by
  have := (num_add (Num.int i) (Num.int j)).1
  rw [this]
  simp [Val.mkNum, ← Rat.intCast_add, Rat.num_intCast]

/-! ## 10. `sortNames` sorts, `dedupSorted` removes duplicates -/

/-- one insertion step of `Vm.sortNames` -/
def insName (x : String) (acc : List String) : List String :=
  acc.takeWhile (· < x) ++ [x] ++ acc.dropWhile (· < x)

theorem insName_cons (x a : String) (acc : List String) :
    insName x (a :: acc) = if a < x then a :: insName x acc else x :: a :: acc := by
  unfold insName
  by_cases h : a < x
  · simp [h]
  · simp [h]

theorem insName_perm (x : String) (acc : List String) : (insName x acc).Perm (x :: acc) := by
  unfold insName
  have h := List.takeWhile_append_dropWhile (p := (· < x)) (l := acc)
  calc acc.takeWhile (· < x) ++ [x] ++ acc.dropWhile (· < x)
      = acc.takeWhile (· < x) ++ x :: acc.dropWhile (· < x) := by simp
    _ |>.Perm (x :: (acc.takeWhile (· < x) ++ acc.dropWhile (· < x))) := List.perm_middle
    _ = x :: acc := by rw [h]

theorem mem_insName (x y : String) (acc : List String) : y ∈ insName x acc ↔ y = x ∨ y ∈ acc := by
  rw [(insName_perm x acc).mem_iff]; simp

theorem insName_sorted (x : String) (acc : List String) (h : acc.Pairwise (· ≤ ·)) :
    (insName x acc).Pairwise (· ≤ ·) := by
  induction acc with
  | nil => simp [insName]
  | cons a acc ih =>
    rw [insName_cons]
    rw [List.pairwise_cons] at h
    split
    · rename_i hlt
      rw [List.pairwise_cons]
      refine ⟨?_, ih h.2⟩
      intro y hy
      rcases (mem_insName x y acc).1 hy with rfl | hy
      · exact fun hgt => String.lt_asymm hlt hgt
      · exact h.1 y hy
    · rename_i hge
      rw [List.pairwise_cons, List.pairwise_cons]
      refine ⟨?_, h.1, h.2⟩
      intro y hy
      rcases List.mem_cons.1 hy with rfl | hy
      · exact hge
      · exact String.le_trans hge (h.1 y hy)

theorem sortNames_eq (xs : List String) : sortNames xs = xs.foldl (fun acc x => insName x acc) [] := rfl

theorem foldl_ins_sorted (xs acc : List String) (h : acc.Pairwise (· ≤ ·)) :
    (xs.foldl (fun acc x => insName x acc) acc).Pairwise (· ≤ ·) := by
  induction xs generalizing acc with
  | nil => exact h
  | cons x xs ih => exact ih _ (insName_sorted x acc h)

theorem foldl_ins_perm (xs acc : List String) :
    (xs.foldl (fun acc x => insName x acc) acc).Perm (xs ++ acc) := by
  induction xs generalizing acc with
  | nil => exact .refl _
  | cons x xs ih =>
    refine (ih (insName x acc)).trans ?_
    refine ((insName_perm x acc).append_left xs).trans ?_
    simp

theorem mem_dedupSorted (xs : List String) (y : String) : y ∈ dedupSorted xs ↔ y ∈ xs := by
  induction xs using dedupSorted.induct with
  | case1 => simp [dedupSorted]
  | case2 a => simp [dedupSorted]
  | case3 a b rest hab ih =>
    simp only [dedupSorted, hab, if_true, ih]
    have : a = b := by simpa using hab
    subst this; simp
  | case4 a b rest hab ih =>
    simp only [dedupSorted, hab, List.mem_cons, Bool.false_eq_true, if_false]
    rw [ih]; simp

theorem dedupSorted_strict (xs : List String) (h : xs.Pairwise (· ≤ ·)) :
    (dedupSorted xs).Pairwise (· < ·) := by
  induction xs using dedupSorted.induct with
  | case1 => simp [dedupSorted]
  | case2 a => simp [dedupSorted]
  | case3 a b rest hab ih =>
    simp only [dedupSorted, hab, if_true]
    exact ih (List.pairwise_cons.1 h).2
  | case4 a b rest hab ih =>
    simp only [dedupSorted, hab]
    rw [List.pairwise_cons] at h
    simp only [Bool.false_eq_true, if_false]
    rw [List.pairwise_cons]
    refine ⟨?_, ih h.2⟩
    intro y hy
    have hy' := (mem_dedupSorted (b :: rest) y).1 hy
    have hle : a ≤ y := h.1 y hy'
    have hne : a ≠ b := by simpa using hab
    -- a ≤ b ≤ y and a ≠ b
    have hab' : a ≤ b := h.1 b (by simp)
    have hlt : a < b := by
      apply Classical.byContradiction
      intro hn
      exact hne (String.le_antisymm hab' (String.not_lt.1 hn))
    rcases List.mem_cons.1 hy' with rfl | hyr
    · exact hlt
    · have hby : b ≤ y := (List.pairwise_cons.1 h.2).1 y hyr
      apply Classical.byContradiction
      intro hn
      have : y ≤ a := String.not_lt.1 hn
      exact (String.le_trans hby this) hlt

theorem strict_nodup (xs : List String) (h : xs.Pairwise (· < ·)) : xs.Nodup :=
  h.imp fun hlt => String.ne_of_lt hlt

end Loops
end Bardolph
