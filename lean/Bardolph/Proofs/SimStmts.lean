import Bardolph.Proofs.SimX
/-!
Statement-level simulation lemmas for C01 (`Props/C01Sim.lean`): the fragment of the language
covered, and for every statement form of the fragment "the code `Gen.genStmt` emits does what
`Sem.execStmt` says", given the same for the blocks nested in it.
-/
namespace Bardolph
namespace Sim
open Vm VmSteps Sem Gen

/-! ## the fragment -/

variable {V : String → Prop}

def RangeOK (V : String → Prop) (r : Range) : Prop :=
  RvC V r.first ∧ match r.last with
    | some l => RvC V l
    | none => True

def ORangeOK (V : String → Prop) : Option Range → Prop
  | none => True
  | some r => RangeOK V r

def ArgsOK : Args → Prop
  | .nil => True
  | .cons a rest => RvOK a ∧ ArgsOK rest

/-- the `with` clause of a loop: pure operands -/
def WithOK (V : String → Prop) : WithClause → Prop
  | .fromTo _ a b => RvC V a ∧ RvC V b
  | .cycle _ start => match start with | some r => RvC V r | none => True

def OWithOK (V : String → Prop) : Option WithClause → Prop
  | none => True
  | some wc => WithOK V wc

/-- the sources of `repeat in …`: pure names -/
def ItemOK (V : String → Prop) : IterItem → Prop
  | .all => True
  | .light n => RvC V n
  | .group n => RvC V n
  | .location n => RvC V n

def LoopHdrOK (V : String → Prop) : LoopHdr → Prop
  | .forever => True
  | .count n => RvC V n
  | .while_ c => RvC V c
  | .range _ a b => RvC V a ∧ RvC V b
  | .interp n v a b => RvC V n ∧ WithOK V (.fromTo v a b)
  | .cycle n v start => RvC V n ∧ WithOK V (.cycle v start)
  | .all _ w => OWithOK V w
  | .groups _ w => OWithOK V w
  | .locations _ w => OWithOK V w
  | .iter items _ w => (∀ i ∈ items, ItemOK V i) ∧ OWithOK V w

mutual
  /-- statements of the fragment -/
  def FragStmt (V : String → Prop) : Stmt → Prop
    | .setReg r v => SettableReg r ∧ RvC V v
    | .units _ => True
    | .actAll _ => True
    | .setDefault _ => True
    | .action _ _ ops => FragOperands V ops
    | .get name => RvC V name
    | .wait => True
    | .timeAt _ => True
    | .assign _ v => RvC V v
    | .defMacro _ _ => True
    | .defRoutine _ _ _ => False
    | .call _ ps as => ArgsC V as ∧ ps.Nodup
    | .ret v => (match v with | some rv => RvC V rv | none => True)
    | .ite c t e => RvC V c ∧ FragBlock V t ∧ (match e with | some b => FragBlock V b | none => True)
    | .repeat_ h body => LoopHdrOK V h ∧ FragBlock V body
    | .brk => True
    | .print v => RvC V v
    | .println v => (match v with | some rv => RvC V rv | none => True)
    | .printf fmt as =>
      ArgsOK as ∧ as.toList.length ≤ positionalCount (fmt.replace "\\n" "\n").toList ∧
        "result" ∉ fieldNames (fmt.replace "\\n" "\n").toList
    | .stage rows cols _ => ORangeOK V rows ∧ ORangeOK V cols
  def FragBlock (V : String → Prop) : Block → Prop
    | .nil => True
    | .cons s rest => FragStmt V s ∧ FragBlock V rest
  def FragOperand (V : String → Prop) : Operand_ → Prop
    | .light _ => True
    | .group _ => True
    | .location _ => True
    | .zone _ r => RangeOK V r
    | .matrixInline _ rows cols _ => ORangeOK V rows ∧ ORangeOK V cols
    | .matrixBlock _ body => FragBlock V body
  def FragOperands (V : String → Prop) : Operands → Prop
    | .nil => True
    | .cons o rest => FragOperand V o ∧ FragOperands V rest
end

/-- where control is after a piece of code: past it, or — after `break` — at the enclosing
loop's `END_LOOP` -/
def Target (pc len exit : Nat) : Outcome → Nat
  | .brk => exit
  | _ => pc + len

def StmtGoal (img : Image) (K : Ctx) (st : Stmt) (f : Nat) : Prop :=
  ∀ (σ σ' : S) (o : Outcome) (s : State) (pc exit : Nat) (stk : Stk),
    Sim K stk σ s → s.pc = (pc : Int) → CodeAt img pc (resolve (genStmt st) pc exit) →
    execStmt f st σ = (o, σ') → (o = .normal ∨ o = .brk) →
    Exec img s (At K (Target pc (genStmt st).length exit o) stk [] σ')

variable {img : Image} {K : Ctx}

/-- the value positions at every fuel up to `f` -/
def RvToGoals (V : String → Prop) (img : Image) (K : Ctx) (f : Nat) : Prop := ∀ g, g ≤ f → RvToGoal V img K g

/-! ### value positions (with calls) at statement level -/

/-- a failed evaluation is not one of the outcomes the theorem talks about -/
theorem errorC_excluded {v : Rv} {f : Nat} {σ : S} {o : Outcome}
    (hev : evalRv f v σ = .error o) (ho : o = .normal ∨ o = .brk) : False := by
  have := evalRvC_error hev
  rcases ho with rfl | rfl <;> simp at this

/-- … delivered in `result` (condition, printed value, returned value) -/
theorem rv_toResult {f : Nat} (ihRv : RvToGoal V img K f) (v : Rv) (hv : RvC V v) {stk : Stk} {σ σ' : S}
    {s : State} {pc : Nat} {x : Val} (h : Sim K stk σ s) (hpc : s.pc = (pc : Int))
    (hc : CodeAt img pc (genRv v (.to Gen.result))) (hev : evalRv f v σ = .ok (x, σ')) :
    Exec img s (fun t => At K (pc + (genRv v (.to Gen.result)).length) stk [] σ' t ∧ t.regs .result = x) := by
  refine (ihRv v hv Gen.result (by simp [Gen.result]) σ σ' x s pc stk h hpc hc hev
    (fun s0 h0 => h0.running)).mono fun t ⟨s0, h0, ht⟩ => ?_
  subst ht
  exact ⟨⟨rfl, (h0.setResult x).setPc _⟩, by simp [Gen.result, State.put, State.setReg]⟩

/-- … into a register -/
theorem rv_setReg {f : Nat} (ihRv : RvToGoal V img K f) (v : Rv) (hv : RvC V v) (r : Reg) (hr : SettableReg r)
    {stk : Stk} {σ σ' : S} {s : State} {pc : Nat} {x : Val} (h : Sim K stk σ s) (hpc : s.pc = (pc : Int))
    (hc : CodeAt img pc (genRv v (.to (.reg r)))) (hev : evalRv f v σ = .ok (x, σ')) :
    Exec img s (At K (pc + (genRv v (.to (.reg r))).length) stk [] (σ'.setReg r x)) := by
  refine (ihRv v hv (.reg r) (by simpa using hr.1) σ σ' x s pc stk h hpc hc hev
    (fun s0 h0 => h0.running)).mono fun t ⟨s0, h0, ht⟩ => ?_
  subst ht
  exact ⟨rfl, (h0.setReg r x hr).setPc _⟩

/-- … into a variable -/
theorem rv_assign {f : Nat} (ihRv : RvToGoal V img K f) (v : Rv) (hv : RvC V v) (n : String)
    {stk : Stk} {σ σ' : S} {s : State} {pc : Nat} {x : Val} (h : Sim K stk σ s) (hpc : s.pc = (pc : Int))
    (hc : CodeAt img pc (genRv v (.to (.var n)))) (hev : evalRv f v σ = .ok (x, σ')) :
    Exec img s (At K (pc + (genRv v (.to (.var n))).length) stk [] (σ'.assign n x)) := by
  refine (ihRv v hv (.var n) (by simp) σ σ' x s pc stk h hpc hc hev
    (fun s0 h0 => (h0.assign n x).running)).mono fun t ⟨s0, h0, ht⟩ => ?_
  subst ht
  exact ⟨rfl, (h0.assign n x).setPc _⟩

theorem stmt_setReg (f : Nat) (ihRv : RvToGoal V img K f) (r : Reg) (v : Rv) (hr : SettableReg r)
    (hv : RvC V v) : StmtGoal img K (.setReg r v) (f + 1) := by
  intro σ σ' o s pc exit stk sim hpc hc h ho
  simp only [genStmt, resolve_ins, ins_length] at hc ⊢
  simp only [execStmt] at h
  split at h
  · rename_i x σ1 hev
    simp only [Prod.mk.injEq] at h
    obtain ⟨rfl, rfl⟩ := h
    exact rv_setReg ihRv v hv r hr sim hpc hc hev
  · rename_i o' hev
    simp only [Prod.mk.injEq] at h
    obtain ⟨rfl, rfl⟩ := h
    exact (errorC_excluded hev ho).elim

theorem stmt_assign (f : Nat) (ihRv : RvToGoal V img K f) (n : String) (v : Rv) (hv : RvC V v) :
    StmtGoal img K (.assign n v) (f + 1) := by
  intro σ σ' o s pc exit stk sim hpc hc h ho
  simp only [genStmt, resolve_ins, ins_length] at hc ⊢
  simp only [execStmt] at h
  split at h
  · rename_i x σ1 hev
    simp only [Prod.mk.injEq] at h
    obtain ⟨rfl, rfl⟩ := h
    exact rv_assign ihRv v hv n sim hpc hc hev
  · rename_i o' hev
    simp only [Prod.mk.injEq] at h
    obtain ⟨rfl, rfl⟩ := h
    exact (errorC_excluded hev ho).elim


/-- a failed evaluation is not one of the outcomes the theorem talks about -/
theorem error_excluded {v : Rv} (hv : RvOK v) {f : Nat} {σ : S} {o : Outcome}
    (hev : evalRv f v σ = .error o) (ho : o = .normal ∨ o = .brk) : False := by
  have := evalRv_error hv f σ _ hev
  rcases ho with rfl | rfl <;> simp at this

theorem stmt_print (f : Nat) (ihRv : RvToGoal V img K f) (v : Rv) (hv : RvC V v) :
    StmtGoal img K (.print v) (f + 1) := by
  intro σ σ' o s pc exit stk sim hpc hc h ho
  simp only [genStmt, resolve_ins, ins_length] at hc ⊢
  simp only [execStmt] at h
  split at h
  · rename_i x σ1 hev
    simp only [Prod.mk.injEq] at h
    obtain ⟨rfl, rfl⟩ := h
    refine (rv_toResult ihRv v hv sim hpc hc.left hev).trans fun t ⟨ht, hres⟩ => ?_
    refine (exec_outRegister ht.2 ht.1 hc.right.head).trans fun t2 ht2 => ?_
    rw [hres] at ht2
    refine (exec_outPrint x _ ht2.2 ht2.1 hc.right.tail.head).mono fun t3 ht3 => ?_
    simpa [Target, List.length_append, Nat.add_assoc] using ht3
  · rename_i o' hev
    simp only [Prod.mk.injEq] at h
    obtain ⟨rfl, rfl⟩ := h
    exact (errorC_excluded hev ho).elim

theorem stmt_println (f : Nat) (ihRv : RvToGoal V img K f) (v : Option Rv)
    (hv : match v with | some rv => RvC V rv | none => True) :
    StmtGoal img K (.println v) (f + 1) := by
  intro σ σ' o s pc exit stk sim hpc hc h ho
  cases v with
  | none =>
    simp only [genStmt, resolve_ins, ins_length, List.nil_append] at hc ⊢
    simp only [execStmt, Prod.mk.injEq] at h
    obtain ⟨rfl, rfl⟩ := h
    exact exec_outPrintEnd _ sim hpc hc.head
  | some rv =>
    have hv : RvC V rv := hv
    simp only [genStmt, resolve_ins, ins_length] at hc ⊢
    simp only [execStmt] at h
    split at h
    · rename_i x σ1 hev
      simp only [Prod.mk.injEq] at h
      obtain ⟨rfl, rfl⟩ := h
      refine (rv_toResult ihRv rv hv sim hpc hc.left.left hev).trans fun t ⟨ht, hres⟩ => ?_
      refine (exec_outRegister ht.2 ht.1 hc.left.right.head).trans fun t2 ht2 => ?_
      rw [hres] at ht2
      refine (exec_outPrint x _ ht2.2 ht2.1 hc.left.right.tail.head).trans fun t3 ht3 => ?_
      have hi := hc.right.head
      simp only [List.length_append, List.length_cons, List.length_nil] at hi
      refine (exec_outPrintEnd _ ht3.2 (pc := pc + (genRv rv (.to result)).length + 1 + 1) ht3.1
        (by rw [← hi]; congr 1)).mono fun t4 ht4 => ?_
      simpa [Target, List.length_append, Nat.add_assoc] using ht4
    · rename_i o' hev
      simp only [Prod.mk.injEq] at h
      obtain ⟨rfl, rfl⟩ := h
      exact (errorC_excluded hev ho).elim

theorem stmt_defMacro (f : Nat) (n : String) (v : Val) : StmtGoal img K (.defMacro n v) (f + 1) := by
  intro σ σ' o s pc exit stk sim hpc hc h ho
  simp only [genStmt, resolve_ins, ins_length] at hc ⊢
  simp only [execStmt, Prod.mk.injEq] at h
  obtain ⟨rfl, rfl⟩ := h
  exact exec_constant n v sim hpc hc.head

theorem stmt_wait (f : Nat) : StmtGoal img K .wait (f + 1) := by
  intro σ σ' o s pc exit stk sim hpc hc h ho
  simp only [genStmt, resolve_ins, ins_length] at hc ⊢
  simp only [execStmt] at h
  have hn : o = .normal := by
    rcases ho with rfl | rfl
    · rfl
    · simp only [S.device] at h; split at h <;> simp at h
  subst hn
  exact exec_wait sim hpc hc.head h

theorem stmt_units (f : Nat) (m : UnitMode) : StmtGoal img K (.units m) (f + 1) := by
  intro σ σ' o s pc exit stk sim hpc hc h ho
  simp only [genStmt, resolve_ins, ins_length] at hc ⊢
  simp only [execStmt] at h
  have hn : o = .normal := by
    rcases ho with rfl | rfl
    · rfl
    · simp only [S.device] at h; split at h <;> simp at h
  subst hn
  exact exec_units m sim hpc hc.head h

theorem stmt_brk (f : Nat) : StmtGoal img K .brk (f + 1) := by
  intro σ σ' o s pc exit stk sim hpc hc h ho
  simp only [genStmt, resolve] at hc ⊢
  simp only [execStmt, Prod.mk.injEq] at h
  obtain ⟨rfl, rfl⟩ := h
  exact exec_jump .always _ exit (by simp) sim hpc hc.head (by simp; omega)

theorem stmt_timeAt (f : Nat) (ps : List TP.Pat) : StmtGoal img K (.timeAt ps) (f + 1) := by
  intro σ σ' o s pc exit stk sim hpc hc h ho
  simp only [genStmt, resolve_ins, ins_length] at hc ⊢
  simp only [execStmt] at h
  cases ps with
  | nil =>
    simp only [Prod.mk.injEq] at h
    obtain ⟨rfl, rfl⟩ := h
    exact Exec.done ⟨by simpa [Target] using hpc, sim⟩
  | cons p rest =>
    simp only [Prod.mk.injEq] at h
    obtain ⟨rfl, rfl⟩ := h
    simp only [] at hc
    apply Exec.step sim.running
    rw [step_eq _ (s.setReg .time (.pat p)) sim.running hpc hc.head rfl
      (by simp only [execInstr]) sim.running]
    have h1 := (sim.setReg .time (.pat p)).setPc (((pc + 1 : Nat) : Int))
    have e : (s.setReg .time (.pat p)).pc + 1 = ((pc + 1 : Nat) : Int) := by
      show s.pc + 1 = _
      rw [hpc]; omega
    rw [e]
    refine (exec_timePatterns rest p h1 rfl (by simp [S.setReg, State.setReg]) hc.tail).mono
      fun t ht => ⟨?_, ?_⟩
    · rw [ht.1]; simp [Target]; omega
    · have h2 := ht.2
      refine ⟨h2.running, h2.stack, h2.loops, h2.eval, h2.evok, h2.unnamed, h2.locals, h2.status, h2.umode, h2.globals,
        h2.constants, h2.lights, h2.trace, h2.defaultColor, h2.matrix, h2.draws, fun r hr => ?_⟩
      rw [← h2.regs r hr]
      simp only [S.setReg, State.setReg]
      split <;> simp_all

variable {img : Image} {K : Ctx} {stk : Stk} {un : List Val} {σ : S} {s : State} {pc : Nat}

/-! ### ranges -/

theorem evalRange_error {r : Range} (f : Nat) (a b : Reg) (σ : S) (o : Outcome)
    (h : evalRange f r a b σ = .error o) : o ≠ .normal ∧ o ≠ .brk ∧ o ≠ .ret := by
  cases f with
  | zero => simp [evalRange] at h; subst h; simp
  | succ f =>
    simp only [evalRange] at h
    split at h
    · rename_i o' he
      simp at h; subst h
      exact evalRvC_error he
    · split at h
      · simp at h
      · rename_i l hl
        split at h
        · rename_i o' he
          simp at h; subst h
          exact evalRvC_error he
        · simp at h

theorem exec_range {f : Nat} (ihRvs : RvToGoals V img K f) (r : Range) (hr : RangeOK V r) (a b : Reg)
    (ha : SettableReg a) (hb : SettableReg b)
    (h : Sim K stk σ s) (hpc : s.pc = (pc : Int)) (hc : CodeAt img pc (genRange a b r))
    {σ' : S} (hev : evalRange f r a b σ = .ok σ') :
    Exec img s (At K (pc + (genRange a b r).length) stk [] σ') := by
  cases f with
  | zero => simp [evalRange] at hev
  | succ f =>
    obtain ⟨h1, h2⟩ := hr
    simp only [evalRange] at hev
    simp only [genRange] at hc ⊢
    split at hev
    · simp at hev
    · rename_i x σ1 he1
      refine (rv_setReg (ihRvs f (Nat.le_succ f)) r.first h1 a ha h hpc hc.left he1).trans fun t ht => ?_
      split at hev
      · rename_i hl
        simp only [Except.ok.injEq] at hev
        subst hev
        rw [hl] at hc ⊢
        refine (exec_moveqReg .none b hb ht.2 ht.1 hc.right.head).mono fun t2 ht2 => ?_
        simpa [List.length_append, Nat.add_assoc] using ht2
      · rename_i l hl
        rw [hl] at h2 hc ⊢
        split at hev
        · simp at hev
        · rename_i y σ2 he2
          simp only [Except.ok.injEq] at hev
          subst hev
          refine (rv_setReg (ihRvs f (Nat.le_succ f)) l h2 b hb ht.2 ht.1 hc.right he2).mono fun t2 ht2 => ?_
          simpa [List.length_append, Nat.add_assoc] using ht2

def oCode (a b : Reg) : Option Range → List Instr
  | some x => genRange a b x
  | none => []

def oEval (f : Nat) (a b : Reg) (o : Option Range) (st : S) : Except Outcome S :=
  match o with
  | some r => evalRange f r a b st
  | none => .ok st

/-- an optional range (`rows`/`cols` of a matrix operand) -/
theorem exec_orange {f : Nat} (ihRvs : RvToGoals V img K f) (o : Option Range) (ho : ORangeOK V o) (a b : Reg)
    (ha : SettableReg a)
    (hb : SettableReg b) (h : Sim K stk σ s) (hpc : s.pc = (pc : Int))
    (hc : CodeAt img pc (oCode a b o)) {σ' : S} (hev : oEval f a b o σ = .ok σ') :
    Exec img s (At K (pc + (oCode a b o).length) stk [] σ') := by
  cases o with
  | none =>
    simp only [oEval, Except.ok.injEq] at hev
    subst hev
    exact Exec.done ⟨by simpa [oCode] using hpc, h⟩
  | some r => exact exec_range ihRvs r ho a b ha hb h hpc hc hev

theorem exec_clear (o : Option Range) (a b : Reg) (ha : SettableReg a) (hb : SettableReg b)
    (h : SimU K stk un σ s) (hpc : s.pc = (pc : Int))
    (hc : CodeAt img pc (if o.isNone then [Instr.moveq .none (.reg a), .moveq .none (.reg b)] else [])) :
    Exec img s (At K (pc + (if o.isNone then [Instr.moveq .none (.reg a), .moveq .none (.reg b)] else []).length)
      stk un (if o.isNone then (σ.setReg a .none).setReg b .none else σ)) := by
  cases o with
  | some r => exact Exec.done ⟨by simpa using hpc, h⟩
  | none =>
    simp only [Option.isNone_none, if_true] at hc ⊢
    refine (exec_moveqReg .none a ha h hpc hc.head).trans fun t ht => ?_
    exact exec_moveqReg .none b hb ht.2 ht.1 hc.tail.head


theorem evalMatrixRanges_error {rows cols : Option Range}
    (f : Nat) (cf : Bool) (σ : S) (o : Outcome)
    (h : evalMatrixRanges f rows cols cf σ = .error o) : o ≠ .normal ∧ o ≠ .brk ∧ o ≠ .ret := by
  cases f with
  | zero => simp [evalMatrixRanges] at h; subst h; simp
  | succ f =>
    have hR : ∀ st o, (match rows with | some r => evalRange f r .firstRow .lastRow st | none => .ok st)
        = .error o → o ≠ .normal ∧ o ≠ .brk ∧ o ≠ .ret := by
      intro st o h
      cases rows with
      | none => simp at h
      | some r => exact evalRange_error f _ _ st o h
    have hC : ∀ st o, (match cols with | some r => evalRange f r .firstColumn .lastColumn st | none => .ok st)
        = .error o → o ≠ .normal ∧ o ≠ .brk ∧ o ≠ .ret := by
      intro st o h
      cases cols with
      | none => simp at h
      | some r => exact evalRange_error f _ _ st o h
    simp only [evalMatrixRanges] at h
    split at h
    · rename_i o' hb
      simp at h; subst h
      cases cf with
      | true =>
        simp only [if_true] at hb
        split at hb
        · exact hR _ _ hb
        · rename_i o2 h2
          simp at hb; subst hb
          exact hC _ _ h2
      | false =>
        simp only [Bool.false_eq_true, if_false] at hb
        split at hb
        · exact hC _ _ hb
        · rename_i o2 h2
          simp at hb; subst hb
          exact hR _ _ h2
    · simp at h

/-- the ranges of a matrix stage: `MOVEQ matrix operand`, rows and columns in source order,
absent ranges cleared -/
theorem exec_matrixRanges {f : Nat} (ihRvs : RvToGoals V img K f) (rows cols : Option Range) (cf : Bool)
    (hr : ORangeOK V rows)
    (hcl : ORangeOK V cols) (h : Sim K stk σ s) (hpc : s.pc = (pc : Int))
    (hc : CodeAt img pc (genMatrixRanges rows cols cf))
    {σ' : S}
    (hev : evalMatrixRanges f rows cols cf (σ.setReg .operand (.operand .matrix)) = .ok σ') :
    Exec img s (At K (pc + (genMatrixRanges rows cols cf).length) stk [] σ') := by
  cases f with
  | zero => simp [evalMatrixRanges] at hev
  | succ f =>
    simp only [evalMatrixRanges] at hev
    simp only [genMatrixRanges] at hc ⊢
    refine (exec_moveqReg (.operand .matrix) .operand (by decide) h hpc hc.left.left.left.head).trans
      fun t0 ht0 => ?_
    split at hev
    · simp at hev
    · rename_i σ1 hboth
      simp only [Except.ok.injEq] at hev
      subst hev
      have hc1 := hc.left.left.right
      have hc2 := hc.left.right
      have hc3 := hc.right
      simp only [List.length_append, List.length_cons, List.length_nil] at hc1 hc2 hc3 ⊢
      cases cf with
      | true =>
        simp only [if_true, List.length_append] at hboth hc1 hc2 hc3 ⊢
        split at hboth
        · rename_i σa ha
          refine (exec_orange (fun g hg => ihRvs g (Nat.le_succ_of_le hg)) cols hcl .firstColumn .lastColumn (by decide) (by decide) ht0.2 ht0.1
            (show CodeAt img (pc + 1) (oCode .firstColumn .lastColumn cols) from hc1.left)
            (show oEval f .firstColumn .lastColumn cols _ = _ from ha)).trans fun t1 ht1 => ?_
          refine (exec_orange (fun g hg => ihRvs g (Nat.le_succ_of_le hg)) rows hr .firstRow .lastRow (by decide) (by decide) ht1.2 ht1.1
            (show CodeAt img _ (oCode .firstRow .lastRow rows) from hc1.right)
            (show oEval f .firstRow .lastRow rows _ = _ from hboth)).trans fun t2 ht2 => ?_
          have e2 : pc + 1 + (oCode .firstColumn .lastColumn cols).length +
              (oCode .firstRow .lastRow rows).length =
            pc + (0 + 1 + ((oCode .firstColumn .lastColumn cols).length +
              (oCode .firstRow .lastRow rows).length)) := by omega
          rw [e2] at ht2
          refine (exec_clear rows .firstRow .lastRow (by decide) (by decide) ht2.2 ht2.1 hc2).trans
            fun t3 ht3 => ?_
          rw [Nat.add_assoc] at ht3
          refine (exec_clear cols .firstColumn .lastColumn (by decide) (by decide) ht3.2 ht3.1 hc3).mono
            fun t4 ht4 => ?_
          rw [Nat.add_assoc] at ht4
          exact ht4
        · simp at hboth
      | false =>
        simp only [Bool.false_eq_true, if_false, List.length_append] at hboth hc1 hc2 hc3 ⊢
        split at hboth
        · rename_i σa ha
          refine (exec_orange (fun g hg => ihRvs g (Nat.le_succ_of_le hg)) rows hr .firstRow .lastRow (by decide) (by decide) ht0.2 ht0.1
            (show CodeAt img (pc + 1) (oCode .firstRow .lastRow rows) from hc1.left)
            (show oEval f .firstRow .lastRow rows _ = _ from ha)).trans fun t1 ht1 => ?_
          refine (exec_orange (fun g hg => ihRvs g (Nat.le_succ_of_le hg)) cols hcl .firstColumn .lastColumn (by decide) (by decide) ht1.2 ht1.1
            (show CodeAt img _ (oCode .firstColumn .lastColumn cols) from hc1.right)
            (show oEval f .firstColumn .lastColumn cols _ = _ from hboth)).trans fun t2 ht2 => ?_
          have e2 : pc + 1 + (oCode .firstRow .lastRow rows).length +
              (oCode .firstColumn .lastColumn cols).length =
            pc + (0 + 1 + ((oCode .firstRow .lastRow rows).length +
              (oCode .firstColumn .lastColumn cols).length)) := by omega
          rw [e2] at ht2
          refine (exec_clear rows .firstRow .lastRow (by decide) (by decide) ht2.2 ht2.1 hc2).trans
            fun t3 ht3 => ?_
          rw [Nat.add_assoc] at ht3
          refine (exec_clear cols .firstColumn .lastColumn (by decide) (by decide) ht3.2 ht3.1 hc3).mono
            fun t4 ht4 => ?_
          rw [Nat.add_assoc] at ht4
          exact ht4
        · simp at hboth


/-! ### commands -/

theorem device_outcome {σ σ' : S} {hd : State → State} {o : Outcome}
    (h : σ.device hd = (o, σ')) (ho : o = .normal ∨ o = .brk) : o = .normal := by
  rcases ho with rfl | rfl
  · rfl
  · simp only [S.device] at h; split at h <;> simp at h

/-- the command instruction of `set` / `on` / `off` -/
theorem exec_fire (k : ActKind) (h : SimU K stk un σ s) (hpc : s.pc = (pc : Int))
    (hi : img.code[pc]? = some (opcodeOf k)) {σ' : S}
    (hdev : σ.device (if k == .set then State.doColor else State.doPower) = (.normal, σ')) :
    Exec img s (At K (pc + 1) stk un σ') := by
  cases k with
  | set => exact exec_color h hpc hi hdev
  | on => exact exec_power h hpc hi hdev
  | off => exact exec_power h hpc hi hdev

theorem stmt_stage (f : Nat) (ihRvs : RvToGoals V img K f) (rows cols : Option Range) (cf : Bool)
    (hr : ORangeOK V rows)
    (hcl : ORangeOK V cols) : StmtGoal img K (.stage rows cols cf) (f + 1) := by
  intro σ σ' o s pc exit stk sim hpc hc h ho
  simp only [genStmt, resolve_ins, ins_length] at hc ⊢
  simp only [execStmt] at h
  split at h
  · rename_i o' he
    simp only [Prod.mk.injEq] at h
    obtain ⟨rfl, rfl⟩ := h
    have := evalMatrixRanges_error f cf _ _ he
    rcases ho with rfl | rfl <;> simp at this
  · rename_i σ1 he
    have hn := device_outcome h ho
    subst hn
    refine (exec_matrixRanges ihRvs rows cols cf hr hcl sim hpc hc.left he).trans fun t ht => ?_
    refine (exec_color ht.2 ht.1 hc.right.head h).mono fun t2 ht2 => ?_
    simpa [Target, List.length_append, Nat.add_assoc] using ht2

theorem stmt_setDefault_wait (f : Nat) : StmtGoal img K (.setDefault true) (f + 1) := by
  intro σ σ' o s pc exit stk sim hpc hc h ho
  simp only [genStmt, resolve_ins, ins_length, ↓reduceIte, List.cons_append, List.nil_append] at hc ⊢
  simp only [execStmt, ↓reduceIte] at h
  split at h
  · rename_i σ2 hw
    have hn := device_outcome h ho
    subst hn
    refine (exec_wait sim hpc hc.head hw).trans fun t ht => ?_
    refine (exec_moveqReg _ .operand (by decide) ht.2 ht.1 hc.tail.head).trans fun t2 ht2 => ?_
    exact exec_color ht2.2 ht2.1 hc.tail.tail.head h
  · rename_i hne
    have hn := device_outcome h ho
    subst hn
    exact absurd h (by
      intro h'
      cases hd : (σ.device fun vm => execInstr default vm Instr.wait) with
      | mk o1 s1 =>
        rw [hd] at h'
        simp only [Prod.mk.injEq] at h'
        obtain ⟨rfl, rfl⟩ := h'
        exact hne _ hd)


/-- `set default` inside a matrix block: no `WAIT` -/
theorem stmt_setDefault_nowait (f : Nat) : StmtGoal img K (.setDefault false) (f + 1) := by
  intro σ σ' o s pc exit stk sim hpc hc h ho
  simp only [genStmt, resolve_ins, ins_length, Bool.false_eq_true, ↓reduceIte, List.nil_append] at hc ⊢
  simp only [execStmt, Bool.false_eq_true, ↓reduceIte] at h
  have hn := device_outcome h ho
  subst hn
  refine (exec_moveqReg _ .operand (by decide) sim hpc hc.head).trans fun t2 ht2 => ?_
  exact exec_color ht2.2 ht2.1 hc.tail.head h

theorem stmt_setDefault (f : Nat) (w : Bool) : StmtGoal img K (.setDefault w) (f + 1) := by
  cases w
  · exact stmt_setDefault_nowait f
  · exact stmt_setDefault_wait f

/-- the source-level state after the optional `MOVEQ … power` of `on` / `off` -/
def powerSet (k : ActKind) (σ : S) : S :=
  match k with
  | .on => σ.setReg .power (.bool true)
  | .off => σ.setReg .power (.bool false)
  | .set => σ

def powerCode (k : ActKind) : List Instr :=
  match k with
  | .on => [.moveq (.bool true) (.reg .power)]
  | .off => [.moveq (.bool false) (.reg .power)]
  | .set => []

theorem exec_powerSet (k : ActKind) (h : SimU K stk un σ s) (hpc : s.pc = (pc : Int))
    (hc : CodeAt img pc (powerCode k)) :
    Exec img s (At K (pc + (powerCode k).length) stk un (powerSet k σ)) := by
  cases k with
  | set => exact Exec.done ⟨by simpa [powerCode] using hpc, h⟩
  | on => exact exec_moveqReg _ .power (by decide) h hpc hc.head
  | off => exact exec_moveqReg _ .power (by decide) h hpc hc.head

/-- `match r with | (.normal, s2) => k s2 | r => r` has a `normal`/`break` result only through
its first arm when `r` comes from a handler -/
theorem device_then {σ : S} {hd : State → State} {o : Outcome} {σ' : S} {k : S → Outcome × S}
    (h : (match σ.device hd with
          | (.normal, s2) => k s2
          | r => r) = (o, σ')) (ho : o = .normal ∨ o = .brk) :
    ∃ s2, σ.device hd = (.normal, s2) ∧ k s2 = (o, σ') := by
  cases hdv : σ.device hd with
  | mk o1 s1 =>
    rw [hdv] at h
    cases o1 with
    | normal => exact ⟨s1, rfl, h⟩
    | _ =>
      simp only [Prod.mk.injEq] at h
      obtain ⟨rfl, rfl⟩ := h
      have := device_outcome hdv ho
      simp at this

theorem stmt_actAll (f : Nat) (k : ActKind) : StmtGoal img K (.actAll k) (f + 1) := by
  intro σ σ' o s pc exit stk sim hpc hc h ho
  simp only [genStmt, resolve_ins, ins_length] at hc ⊢
  simp only [execStmt] at h
  obtain ⟨s2, hw, hfire⟩ := device_then (σ := powerSet k σ) (k := fun s2 =>
    (s2.setReg .operand (.operand .all)).device (if k == .set then State.doColor else State.doPower))
    (by cases k <;> exact h) ho
  have hn := device_outcome hfire ho
  subst hn
  have hc' : CodeAt img pc (powerCode k ++ [.wait, .moveq (.operand .all) (.reg .operand), opcodeOf k]) := by
    cases k <;> exact hc
  suffices hgoal : Exec img s (At K (pc + (powerCode k ++
      [Instr.wait, .moveq (.operand .all) (.reg .operand), opcodeOf k]).length) stk [] σ') by
    cases k <;> exact hgoal
  refine (exec_powerSet k sim hpc hc'.left).trans fun t ht => ?_
  refine (exec_wait ht.2 ht.1 hc'.right.head hw).trans fun t2 ht2 => ?_
  refine (exec_moveqReg _ .operand (by decide) ht2.2 ht2.1 hc'.right.tail.head).trans fun t3 ht3 => ?_
  refine (exec_fire k ht3.2 ht3.1 hc'.right.tail.tail.head hfire).mono fun t4 ht4 => ?_
  simpa [Target, List.length_append, Nat.add_assoc] using ht4

theorem stmt_get (f : Nat) (ihRv : RvToGoal V img K f) (name : Rv) (hv : RvC V name) :
    StmtGoal img K (.get name) (f + 1) := by
  intro σ σ' o s pc exit stk sim hpc hc h ho
  simp only [genStmt, resolve_ins, ins_length] at hc ⊢
  simp only [execStmt] at h
  split at h
  · rename_i n σ1 hev
    have hn := device_outcome h ho
    subst hn
    refine (rv_toResult ihRv name hv sim hpc hc.left hev).trans fun t ⟨ht, hres⟩ => ?_
    refine (exec_moveResultName ht.2 ht.1 hc.right.head).trans fun t2 ⟨ht2, _⟩ => ?_
    rw [hres] at ht2
    have hsim : SimU K stk [] ((σ1.setReg .result n).setReg .name n) t2 := by
      have := ht2.2
      refine ⟨this.running, this.stack, this.loops, this.eval, this.evok, this.unnamed, this.locals, this.status, this.umode,
        this.globals, this.constants, this.lights, this.trace, this.defaultColor, this.matrix, this.draws,
        fun r hr => ?_⟩
      rw [← this.regs r hr]
      simp only [S.setReg, State.setReg]
      split
      · rfl
      · simp
    refine (exec_getColor hsim ht2.1 hc.right.tail.head h).mono fun t3 ht3 => ?_
    simpa [Target, List.length_append, Nat.add_assoc] using ht3
  · rename_i o' hev
    simp only [Prod.mk.injEq] at h
    obtain ⟨rfl, rfl⟩ := h
    exact (errorC_excluded hev ho).elim


/-! ### `printf` -/

theorem evalOutArgs_error :
    ∀ (f : Nat) (as : Args), ArgsOK as → ∀ (σ : S) (o : Outcome),
      evalOutArgs f as σ = .error o → o ≠ .normal ∧ o ≠ .brk ∧ o ≠ .ret := by
  intro f
  induction f with
  | zero => intro as _ σ o h; simp [evalOutArgs] at h; subst h; simp
  | succ f ih =>
    intro as has σ o h
    cases as with
    | nil => simp [evalOutArgs] at h
    | cons a rest =>
      simp only [evalOutArgs] at h
      split at h
      · rename_i o' he
        simp at h; subst h
        exact evalRv_error has.1 f _ _ he
      · split at h
        · rename_i o' he
          simp at h; subst h
          exact ih rest has.2 _ _ he
        · simp at h

/-- the arguments of `printf`: each value is computed into `result` and queued -/
theorem exec_outArgs :
    ∀ (f : Nat) (as : Args), ArgsOK as →
    ∀ (σ σ' : S) (vals : List Val) (s : State) (pc : Nat) (un : List Val),
      SimU K stk un σ s → s.pc = (pc : Int) → CodeAt img pc (genOutArgs as) →
      evalOutArgs f as σ = .ok (vals, σ') →
      σ' = σ ∧ vals.length = as.toList.length ∧
      Exec img s (At K (pc + (genOutArgs as).length) stk (un ++ vals) σ) := by
  intro f
  induction f with
  | zero => intro as _ σ σ' vals s pc un h hpc hc hev; simp [evalOutArgs] at hev
  | succ f ih =>
    intro as has σ σ' vals s pc un h hpc hc hev
    cases as with
    | nil =>
      simp only [evalOutArgs, Except.ok.injEq, Prod.mk.injEq] at hev
      obtain ⟨rfl, rfl⟩ := hev
      refine ⟨rfl, rfl, Exec.done ⟨by simpa [genOutArgs] using hpc, by simpa using h⟩⟩
    | cons a rest =>
      simp only [evalOutArgs] at hev
      simp only [genOutArgs] at hc ⊢
      split at hev
      · simp at hev
      · rename_i v σ1 he1
        split at hev
        · simp at hev
        · rename_i vs σ2 he2
          simp only [Except.ok.injEq, Prod.mk.injEq] at hev
          obtain ⟨rfl, rfl⟩ := hev
          obtain ⟨rfl, hex⟩ := exec_toResult a has.1 h hpc hc.left.left he1
          have hstep : Exec img s (At K (pc + (genRv a (.to result)).length + 1) stk (un ++ [v]) σ1) := by
            refine hex.trans fun t ⟨ht, hres⟩ => ?_
            have := exec_outRegister ht.2 ht.1 hc.left.right.head
            rw [hres] at this
            exact this
          have hc2 := hc.right
          simp only [List.length_append, List.length_cons, List.length_nil] at hc2
          have hrest := fun t (ht : At K (pc + (genRv a (.to result)).length + 1) stk (un ++ [v]) σ1 t) =>
            ih rest has.2 σ1 σ2 vs t _ (un ++ [v]) ht.2 ht.1 hc2 he2
          obtain ⟨t0, ht0⟩ : ∃ t0, At K (pc + (genRv a (.to result)).length + 1) stk (un ++ [v]) σ1 t0 := by
            obtain ⟨k, hk⟩ := hstep; exact ⟨_, hk⟩
          obtain ⟨rfl, hlen, _⟩ := hrest t0 ht0
          refine ⟨rfl, by simp [Args.toList, hlen], ?_⟩
          refine hstep.trans fun t ht => ?_
          obtain ⟨_, _, hex2⟩ := hrest t ht
          refine hex2.mono fun t2 ht2 => ?_
          simpa [List.length_append, Nat.add_assoc, Nat.add_comm 1, List.append_assoc] using ht2

theorem stmt_printf (f : Nat) (fmt : String) (as : Args) (has : ArgsOK as)
    (hcount : as.toList.length ≤ positionalCount (fmt.replace "\\n" "\n").toList)
    (hres : "result" ∉ fieldNames (fmt.replace "\\n" "\n").toList) :
    StmtGoal img K (.printf fmt as) (f + 1) := by
  intro σ σ' o s pc exit stk sim hpc hc h ho
  simp only [genStmt, resolve_ins, ins_length] at hc ⊢
  simp only [execStmt] at h
  split at h
  · rename_i o' he
    simp only [Prod.mk.injEq] at h
    obtain ⟨rfl, rfl⟩ := h
    have := evalOutArgs_error f as has _ _ he
    rcases ho with rfl | rfl <;> simp at this
  · rename_i vals σ1 he
    simp only [Prod.mk.injEq] at h
    obtain ⟨rfl, rfl⟩ := h
    obtain ⟨rfl, hlen, hex⟩ := exec_outArgs f as has σ σ1 vals s pc [] sim hpc hc.left he
    refine hex.trans fun t ht => ?_
    rw [List.nil_append] at ht
    refine (exec_outPrintf fmt ht.2 ht.1 hc.right.head (by rw [hlen]; exact hcount) hres).mono
      fun t2 ht2 => ⟨?_, ht2.2⟩
    rw [ht2.1]; simp [Target, List.length_append, Nat.add_assoc]


variable {img : Image} {K : Ctx}

/-- an instruction fetched at an address written differently -/
macro "idx " h:term : term =>
  `(by first | exact $h | (rw [← $h]; first | rfl | (congr 1 <;> omega)))

/-- code placed at an address written differently -/
macro "cat " h:term : term =>
  `(by first
      | exact $h
      | (have hh := $h
         simp only [List.length_append, List.length_cons, List.length_nil, Nat.add_assoc, Nat.zero_add, Nat.add_zero] at hh ⊢
         exact hh))

/-! ## blocks, operands -/

def BlockGoal (V : String → Prop) (img : Image) (K : Ctx) (f : Nat) : Prop :=
  ∀ b, FragBlock V b → ∀ (σ σ' : S) (o : Outcome) (s : State) (pc exit : Nat) (stk : Stk),
    Sim K stk σ s → s.pc = (pc : Int) → CodeAt img pc (resolve (genBlock b) pc exit) →
    execBlock f b σ = (o, σ') → (o = .normal ∨ o = .brk) →
    Exec img s (At K (Target pc (genBlock b).length exit o) stk [] σ')

def StmtsGoal (V : String → Prop) (img : Image) (K : Ctx) (f : Nat) : Prop := ∀ st, FragStmt V st → StmtGoal img K st f

def OperandGoal (V : String → Prop) (img : Image) (K : Ctx) (f : Nat) : Prop :=
  ∀ (k : ActKind) (op : Operand_), FragOperand V op →
  ∀ (σ σ' : S) (o : Outcome) (s : State) (pc exit : Nat) (stk : Stk),
    Sim K stk σ s → s.pc = (pc : Int) →
    CodeAt img pc (resolve (genOperand op ++ ins [opcodeOf k]) pc exit) →
    execOperand f k op σ = (o, σ') → (o = .normal ∨ o = .brk) →
    Exec img s (At K (Target pc ((genOperand op).length + 1) exit o) stk [] σ')

def OperandsGoal (V : String → Prop) (img : Image) (K : Ctx) (f : Nat) : Prop :=
  ∀ (k : ActKind) (ops : Operands), FragOperands V ops →
  ∀ (σ σ' : S) (o : Outcome) (s : State) (pc exit : Nat) (stk : Stk),
    Sim K stk σ s → s.pc = (pc : Int) →
    CodeAt img pc (resolve (genOperands k ops) pc exit) →
    execOperands f k ops σ = (o, σ') → (o = .normal ∨ o = .brk) →
    Exec img s (At K (Target pc (genOperands k ops).length exit o) stk [] σ')

theorem block_zero : BlockGoal V img K 0 := by
  intro b _ σ σ' o s pc exit stk _ _ _ h ho
  simp only [execBlock, Prod.mk.injEq] at h
  rcases ho with rfl | rfl <;> simp at h

theorem block_step (f : Nat) (ihS : StmtsGoal V img K f) (ihB : BlockGoal V img K f) : BlockGoal V img K (f + 1) := by
  intro b hb σ σ' o s pc exit stk sim hpc hc h ho
  cases b with
  | nil =>
    simp only [execBlock, Prod.mk.injEq] at h
    obtain ⟨rfl, rfl⟩ := h
    exact Exec.done ⟨by simpa [genBlock, Target] using hpc, sim⟩
  | cons st rest =>
    simp only [execBlock] at h
    simp only [genBlock, resolve_append] at hc
    simp only [genBlock, List.length_append]
    split at h
    · rename_i σ1 hst
      have h1 := ihS st hb.1 σ σ1 .normal s pc exit stk sim hpc hc.left hst (Or.inl rfl)
      refine h1.trans fun t ht => ?_
      have hcr := hc.right
      rw [resolve_length] at hcr
      have h2 := ihB rest hb.2 σ1 σ' o t _ exit stk ht.2 ht.1 hcr h ho
      refine h2.mono fun t2 ht2 => ?_
      cases o <;> simpa [Target, Nat.add_assoc] using ht2
    · rename_i hne
      cases hst : execStmt f st σ with
      | mk o1 σ1 =>
        rw [hst] at h
        simp only [Prod.mk.injEq] at h
        obtain ⟨rfl, rfl⟩ := h
        have hb' : o1 = .brk := by
          rcases ho with rfl | rfl
          · exact absurd hst (hne _)
          · rfl
        subst hb'
        have h1 := ihS st hb.1 σ σ1 .brk s pc exit stk sim hpc hc.left hst (Or.inr rfl)
        exact h1


/-- the source-level state after the name of an operand is set -/
def nameSet (n : NameSpec) (σ : S) : S :=
  match n with
  | .str x => σ.setReg .name (.str x)
  | .var x => σ.setReg .name (σ.lookup x)

theorem exec_nameSet {stk : Stk} {un : List Val} {σ : S} {s : State} {pc : Nat}
    (n : NameSpec) (h : SimU K stk un σ s) (hpc : s.pc = (pc : Int))
    (hi : img.code[pc]? = some (genName n)) :
    Exec img s (At K (pc + 1) stk un (nameSet n σ)) := by
  have := exec_genName n h hpc hi
  cases n <;> exact this

/-- `light`, `group`, `location` operands: name, operand kind, command -/
theorem operand_plain (k : ActKind) (n : NameSpec) (w : Operand)
    (σ σ' : S) (o : Outcome) (s : State) (pc : Nat) (stk : Stk)
    (sim : Sim K stk σ s) (hpc : s.pc = (pc : Int))
    (hc : CodeAt img pc ([genName n, .moveq (.operand w) (.reg .operand)] ++ [opcodeOf k]))
    (h : ((nameSet n σ).setReg .operand (.operand w)).device
      (if k == .set then State.doColor else State.doPower) = (o, σ'))
    (ho : o = .normal ∨ o = .brk) :
    Exec img s (At K (pc + 3) stk [] σ') ∧ o = .normal := by
  have hn := device_outcome h ho
  subst hn
  refine ⟨?_, rfl⟩
  refine (exec_nameSet n sim hpc hc.head).trans fun t ht => ?_
  refine (exec_moveqReg _ .operand (by decide) ht.2 ht.1 hc.tail.head).trans fun t2 ht2 => ?_
  exact exec_fire k ht2.2 ht2.1 hc.tail.tail.head h

theorem operand_zone (f : Nat) (ihRvs : RvToGoals V img K f) (k : ActKind) (n : NameSpec) (r : Range)
    (hr : RangeOK V r)
    (σ σ' : S) (o : Outcome) (s : State) (pc exit : Nat) (stk : Stk)
    (sim : Sim K stk σ s) (hpc : s.pc = (pc : Int))
    (hc : CodeAt img pc (resolve (genOperand (.zone n r) ++ ins [opcodeOf k]) pc exit))
    (h : execOperand (f + 1) k (.zone n r) σ = (o, σ')) (ho : o = .normal ∨ o = .brk) :
    Exec img s (At K (Target pc ((genOperand (.zone n r)).length + 1) exit o) stk [] σ') := by
  simp only [genOperand, resolve_append, resolve_ins, ins_length] at hc ⊢
  simp only [execOperand] at h
  split at h
  · rename_i o' he
    simp only [Prod.mk.injEq] at h
    obtain ⟨rfl, rfl⟩ := h
    have := evalRange_error f _ _ _ _ he
    rcases ho with rfl | rfl <;> simp at this
  · rename_i σ1 he
    have hn := device_outcome h ho
    subst hn
    refine (exec_nameSet n sim hpc hc.left.left.left.head).trans fun t ht => ?_
    refine (exec_range ihRvs r hr .firstZone .lastZone (by decide) (by decide) ht.2 ht.1
      hc.left.left.right (show evalRange f r .firstZone .lastZone (nameSet n σ) = .ok σ1 by
        cases n <;> exact he)).trans fun t2 ht2 => ?_
    have hc3 := hc.left.right.head
    have hc4 := hc.right.head
    simp only [List.length_append, List.length_cons, List.length_nil] at hc3 hc4
    refine (exec_moveqReg _ .operand (by decide) ht2.2 ht2.1 (idx hc3)).trans fun t3 ht3 => ?_
    refine (exec_fire k ht3.2 ht3.1 (idx hc4) h).mono fun t4 ht4 => ⟨?_, ht4.2⟩
    rw [ht4.1]; simp [Target, List.length_append]; omega


theorem nameSet_str (x : String) (σ : S) : nameSet (.str x) σ = σ.setReg .name (.str x) := rfl
theorem nameSet_var (x : String) (σ : S) : nameSet (.var x) σ = σ.setReg .name (σ.lookup x) := rfl

/-- sequencing in the source semantics: go on only after a normal outcome -/
def andThen (r : Outcome × S) (K : S → Outcome × S) : Outcome × S :=
  if r.1 != .normal then (r.1, r.2) else K r.2

theorem andThen_eq (r : Outcome × S) (K : S → Outcome × S) :
    (match r with
      | (.normal, s2) => K s2
      | r => r) = andThen r K := by
  obtain ⟨o, s⟩ := r
  cases o <;> simp [andThen]

theorem andThen_device {σ : S} {hd : State → State} {o : Outcome} {σ' : S} {K : S → Outcome × S}
    (h : andThen (σ.device hd) K = (o, σ')) (ho : o = .normal ∨ o = .brk) :
    ∃ s1, σ.device hd = (.normal, s1) ∧ K s1 = (o, σ') := by
  unfold andThen at h
  cases hdv : σ.device hd with
  | mk o1 s1 =>
    rw [hdv] at h
    by_cases hn : o1 = .normal
    · subst hn
      exact ⟨s1, rfl, by simpa using h⟩
    · have : (o1 != Outcome.normal) = true := by simpa using hn
      simp only [this, if_true, Prod.mk.injEq] at h
      obtain ⟨rfl, rfl⟩ := h
      exact absurd (device_outcome hdv ho) hn

/-- `execOperand` for a matrix operand given inline -/
theorem execOperand_matrixInline (f : Nat) (k : ActKind) (n : NameSpec) (rows cols : Option Range)
    (cf : Bool) (σ : S) :
    execOperand (f + 1) k (.matrixInline n rows cols cf) σ =
      andThen ((nameSet n σ).device fun vm => execInstr default vm .matrix) fun s1 =>
          match evalMatrixRanges f rows cols cf (s1.setReg .operand (.operand .matrix)) with
          | .error o => (o, s1)
          | .ok s2 =>
            match s2.device State.doColor with
            | (.normal, s3) => (s3.setReg .operand (.operand .matrixLight)).device
                (if k == .set then State.doColor else State.doPower)
            | r => r := by
  cases n <;> simp only [execOperand, nameSet] <;> rfl

theorem execOperand_matrixBlock (f : Nat) (k : ActKind) (n : NameSpec) (body : Block) (σ : S) :
    execOperand (f + 1) k (.matrixBlock n body) σ =
      andThen ((nameSet n σ).device fun vm => execInstr default vm .matrix) fun s1 =>
        match execBlock f body s1 with
        | (.normal, s2) => ((nameSet n s2).setReg .operand (.operand .matrixLight)).device
            (if k == .set then State.doColor else State.doPower)
        | r => r := by
  cases n <;> simp only [execOperand, nameSet] <;> rfl

theorem operand_matrixInline (f : Nat) (ihRvs : RvToGoals V img K f) (k : ActKind) (n : NameSpec)
    (rows cols : Option Range)
    (cf : Bool) (hr : ORangeOK V rows) (hcl : ORangeOK V cols)
    (σ σ' : S) (o : Outcome) (s : State) (pc exit : Nat) (stk : Stk)
    (sim : Sim K stk σ s) (hpc : s.pc = (pc : Int))
    (hc : CodeAt img pc (resolve (genOperand (.matrixInline n rows cols cf) ++ ins [opcodeOf k]) pc exit))
    (h : execOperand (f + 1) k (.matrixInline n rows cols cf) σ = (o, σ')) (ho : o = .normal ∨ o = .brk) :
    Exec img s (At K (Target pc ((genOperand (.matrixInline n rows cols cf)).length + 1) exit o) stk [] σ') := by
  simp only [genOperand, resolve_append, resolve_ins, ins_length] at hc ⊢
  rw [execOperand_matrixInline] at h
  obtain ⟨s1, hm, h⟩ := andThen_device h ho
  split at h
  · rename_i o' he
    simp only [Prod.mk.injEq] at h
    obtain ⟨rfl, rfl⟩ := h
    have := evalMatrixRanges_error f cf _ _ he
    rcases ho with rfl | rfl <;> simp at this
  · rename_i s2 he
    rw [andThen_eq] at h
    obtain ⟨s3, hcol, h⟩ := andThen_device h ho
    have hn := device_outcome h ho
    subst hn
    have hcl1 := hc.left.left.left
    have hcm := hc.left.left.right
    have hcr := hc.left.right
    have hcf := hc.right.head
    simp only [List.length_append, List.length_cons, List.length_nil] at hcm hcr hcf
    refine (exec_nameSet n sim hpc hcl1.head).trans fun t ht => ?_
    refine (exec_matrix ht.2 ht.1 hcl1.tail.head hm).trans fun t1 ht1 => ?_
    refine (exec_matrixRanges ihRvs rows cols cf hr hcl ht1.2 ht1.1 (by
      have : pc + 1 + 1 = pc + (0 + 1 + 1) := by omega
      rw [this]; exact hcm) he).trans fun t2 ht2 => ?_
    refine (exec_color ht2.2 ht2.1 (idx hcr.head) hcol).trans fun t3 ht3 => ?_
    refine (exec_endMatrix ht3.2 ht3.1 (idx hcr.tail.head)).trans fun t4 ht4 => ?_
    refine (exec_moveqReg _ .operand (by decide) ht4.2 ht4.1 (idx hcr.tail.tail.head)).trans fun t5 ht5 => ?_
    refine (exec_fire k ht5.2 ht5.1 (idx hcf) h).mono fun t6 ht6 => ⟨?_, ht6.2⟩
    rw [ht6.1]; simp [Target, List.length_append]; omega


theorem andThen_cases {r : Outcome × S} {K : S → Outcome × S} {o : Outcome} {σ' : S}
    (h : andThen r K = (o, σ')) :
    (∃ s2, r = (.normal, s2) ∧ K s2 = (o, σ')) ∨ (r = (o, σ') ∧ o ≠ .normal) := by
  obtain ⟨o1, s1⟩ := r
  unfold andThen at h
  by_cases hn : o1 = .normal
  · subst hn
    exact Or.inl ⟨s1, rfl, by simpa using h⟩
  · have : (o1 != Outcome.normal) = true := by simpa using hn
    simp only [this, if_true, Prod.mk.injEq] at h
    obtain ⟨rfl, rfl⟩ := h
    exact Or.inr ⟨rfl, hn⟩

theorem operand_matrixBlock (f : Nat) (ihB : BlockGoal V img K f) (k : ActKind) (n : NameSpec)
    (body : Block) (hb : FragBlock V body)
    (σ σ' : S) (o : Outcome) (s : State) (pc exit : Nat) (stk : Stk)
    (sim : Sim K stk σ s) (hpc : s.pc = (pc : Int))
    (hc : CodeAt img pc (resolve (genOperand (.matrixBlock n body) ++ ins [opcodeOf k]) pc exit))
    (h : execOperand (f + 1) k (.matrixBlock n body) σ = (o, σ')) (ho : o = .normal ∨ o = .brk) :
    Exec img s (At K (Target pc ((genOperand (.matrixBlock n body)).length + 1) exit o) stk [] σ') := by
  simp only [genOperand, resolve_append, resolve_ins, ins_length] at hc ⊢
  rw [execOperand_matrixBlock] at h
  obtain ⟨s1, hm, h⟩ := andThen_device h ho
  rw [andThen_eq] at h
  have hcl1 := hc.left.left.left
  have hcb := hc.left.left.right
  have hcr := hc.left.right
  have hcf := hc.right.head
  simp only [List.length_append, List.length_cons, List.length_nil, resolve_length] at hcb hcr hcf
  refine (exec_nameSet n sim hpc hcl1.head).trans fun t ht => ?_
  refine (exec_matrix ht.2 ht.1 hcl1.tail.head hm).trans fun t1 ht1 => ?_
  have e : pc + 1 + 1 = pc + (0 + 1 + 1) := by omega
  rw [e] at ht1
  rcases andThen_cases h with ⟨s2, hbody, hfire⟩ | ⟨hbody, hne⟩
  · have hn := device_outcome hfire ho
    subst hn
    refine (ihB body hb s1 s2 .normal t1 _ exit stk ht1.2 ht1.1 hcb hbody (Or.inl rfl)).trans
      fun t2 ht2 => ?_
    simp only [Target] at ht2
    refine (exec_endMatrix ht2.2 ht2.1 (idx hcr.head)).trans fun t3 ht3 => ?_
    refine (exec_nameSet n ht3.2 ht3.1 (idx hcr.tail.head)).trans fun t3' ht3' => ?_
    refine (exec_moveqReg _ .operand (by decide) ht3'.2 ht3'.1 (idx hcr.tail.tail.head)).trans fun t4 ht4 => ?_
    refine (exec_fire k ht4.2 ht4.1 (idx hcf) hfire).mono fun t5 ht5 => ⟨?_, ht5.2⟩
    rw [ht5.1]; simp [Target, List.length_append]; omega
  · have hb' : o = .brk := by
      rcases ho with rfl | rfl
      · exact absurd rfl hne
      · rfl
    subst hb'
    exact ihB body hb s1 σ' .brk t1 _ exit stk ht1.2 ht1.1 hcb hbody (Or.inr rfl)


theorem operand_zero : OperandGoal V img K 0 := by
  intro k op _ σ σ' o s pc exit stk _ _ _ h ho
  simp only [execOperand, Prod.mk.injEq] at h
  rcases ho with rfl | rfl <;> simp at h

theorem operand_step (f : Nat) (ihRvs : RvToGoals V img K f) (ihB : BlockGoal V img K f) :
    OperandGoal V img K (f + 1) := by
  intro k op hop σ σ' o s pc exit stk sim hpc hc h ho
  cases op with
  | light n =>
    simp only [genOperand, resolve_append, resolve_ins, ins_length] at hc ⊢
    have h' : ((nameSet n σ).setReg .operand (.operand .light)).device
        (if k == .set then State.doColor else State.doPower) = (o, σ') := by
      cases n <;> (simp only [execOperand] at h; exact h)
    obtain ⟨hex, rfl⟩ := operand_plain k n .light σ σ' o s pc stk sim hpc hc h' ho
    exact hex
  | group n =>
    simp only [genOperand, resolve_append, resolve_ins, ins_length] at hc ⊢
    have h' : ((nameSet n σ).setReg .operand (.operand .group)).device
        (if k == .set then State.doColor else State.doPower) = (o, σ') := by
      cases n <;> (simp only [execOperand] at h; exact h)
    obtain ⟨hex, rfl⟩ := operand_plain k n .group σ σ' o s pc stk sim hpc hc h' ho
    exact hex
  | location n =>
    simp only [genOperand, resolve_append, resolve_ins, ins_length] at hc ⊢
    have h' : ((nameSet n σ).setReg .operand (.operand .location)).device
        (if k == .set then State.doColor else State.doPower) = (o, σ') := by
      cases n <;> (simp only [execOperand] at h; exact h)
    obtain ⟨hex, rfl⟩ := operand_plain k n .location σ σ' o s pc stk sim hpc hc h' ho
    exact hex
  | zone n r => exact operand_zone f ihRvs k n r hop σ σ' o s pc exit stk sim hpc hc h ho
  | matrixInline n rows cols cf =>
    exact operand_matrixInline f ihRvs k n rows cols cf hop.1 hop.2 σ σ' o s pc exit stk sim hpc hc h ho
  | matrixBlock n body =>
    exact operand_matrixBlock f ihB k n body hop σ σ' o s pc exit stk sim hpc hc h ho

theorem operands_zero : OperandsGoal V img K 0 := by
  intro k op _ σ σ' o s pc exit stk _ _ _ h ho
  simp only [execOperands, Prod.mk.injEq] at h
  rcases ho with rfl | rfl <;> simp at h

theorem operands_step (f : Nat) (ihO : OperandGoal V img K f) (ihOs : OperandsGoal V img K f) :
    OperandsGoal V img K (f + 1) := by
  intro k ops hops σ σ' o s pc exit stk sim hpc hc h ho
  cases ops with
  | nil =>
    simp only [execOperands, Prod.mk.injEq] at h
    obtain ⟨rfl, rfl⟩ := h
    exact Exec.done ⟨by simpa [genOperands, Target] using hpc, sim⟩
  | cons op rest =>
    simp only [execOperands] at h
    have h : andThen (execOperand f k op σ) (fun s' => execOperands f k rest s') = (o, σ') := by
      rw [← andThen_eq]; exact h
    have hc' : CodeAt img pc (resolve (genOperand op ++ ins [opcodeOf k]) pc exit ++
        resolve (genOperands k rest) (pc + ((genOperand op).length + 1)) exit) := by
      have := hc
      simp only [genOperands, resolve_append, List.length_append, ins_length, List.length_cons,
        List.length_nil] at this ⊢
      exact this
    simp only [genOperands, List.length_append, ins_length, List.length_cons, List.length_nil]
    rcases andThen_cases h with ⟨σ1, hop, hrest⟩ | ⟨hop, hne⟩
    · refine (ihO k op hops.1 σ σ1 .normal s pc exit stk sim hpc hc'.left hop (Or.inl rfl)).trans
        fun t ht => ?_
      simp only [Target] at ht
      have hcr := hc'.right
      simp only [resolve_length, List.length_append, ins_length, List.length_cons, List.length_nil] at hcr
      refine (ihOs k rest hops.2 σ1 σ' o t _ exit stk ht.2 ht.1 hcr hrest ho).mono fun t2 ht2 => ?_
      cases o <;> simpa [Target, Nat.add_assoc] using ht2
    · have hb' : o = .brk := by
        rcases ho with rfl | rfl
        · exact absurd rfl hne
        · rfl
      subst hb'
      exact ihO k op hops.1 σ σ' .brk s pc exit stk sim hpc hc'.left hop (Or.inr rfl)

theorem stmt_action_wait (f : Nat) (ihOs : OperandsGoal V img K f) (k : ActKind) (ops : Operands)
    (hops : FragOperands V ops) : StmtGoal img K (.action k true ops) (f + 1) := by
  intro σ σ' o s pc exit stk sim hpc hc h ho
  simp only [execStmt, ↓reduceIte] at h
  have h' : andThen ((powerSet k σ).device fun vm => execInstr default vm .wait)
      (fun s2 => execOperands f k ops s2) = (o, σ') := by
    rw [← andThen_eq]
    cases k <;> exact h
  obtain ⟨σ2, hw, hrest⟩ := andThen_device h' ho
  have hc' : CodeAt img pc (powerCode k ++ [Instr.wait] ++
      resolve (genOperands k ops) (pc + ((powerCode k).length + 1)) exit) := by
    have := hc
    simp only [genStmt, resolve_append, resolve_ins, ins_length, List.length_append, List.length_cons,
      List.length_nil, ↓reduceIte] at this
    cases k <;> exact this
  suffices hgoal : Exec img s (At K (Target pc ((powerCode k).length + 1 + (genOperands k ops).length)
      exit o) stk [] σ') by
    simp only [genStmt, List.length_append, ins_length, List.length_cons, List.length_nil, ↓reduceIte]
    cases k <;> exact hgoal
  refine (exec_powerSet k sim hpc hc'.left.left).trans fun t ht => ?_
  refine (exec_wait ht.2 ht.1 hc'.left.right.head hw).trans fun t2 ht2 => ?_
  have hcr := hc'.right
  simp only [List.length_append, List.length_cons, List.length_nil] at hcr
  refine (ihOs k ops hops σ2 σ' o t2 _ exit stk ht2.2 (by rw [ht2.1]; congr 1) hcr hrest ho).mono
    fun t3 ht3 => ?_
  cases o <;> simpa [Target, Nat.add_assoc] using ht3

/-- a command inside a matrix block: the same without the `WAIT` -/
theorem stmt_action_nowait (f : Nat) (ihOs : OperandsGoal V img K f) (k : ActKind) (ops : Operands)
    (hops : FragOperands V ops) : StmtGoal img K (.action k false ops) (f + 1) := by
  intro σ σ' o s pc exit stk sim hpc hc h ho
  simp only [execStmt, Bool.false_eq_true, ↓reduceIte] at h
  have hrest : execOperands f k ops (powerSet k σ) = (o, σ') := by
    cases k <;> exact h
  have hc' : CodeAt img pc (powerCode k ++
      resolve (genOperands k ops) (pc + (powerCode k).length) exit) := by
    have := hc
    simp only [genStmt, resolve_append, resolve_ins, ins_length, List.length_append, List.length_cons,
      List.length_nil, Bool.false_eq_true, ↓reduceIte, List.append_nil, Nat.add_zero] at this
    cases k <;> exact this
  suffices hgoal : Exec img s (At K (Target pc ((powerCode k).length + (genOperands k ops).length)
      exit o) stk [] σ') by
    simp only [genStmt, List.length_append, ins_length, List.length_cons, List.length_nil,
      Bool.false_eq_true, ↓reduceIte, Nat.add_zero]
    cases k <;> exact hgoal
  refine (exec_powerSet k sim hpc hc'.left).trans fun t ht => ?_
  refine (ihOs k ops hops _ σ' o t _ exit stk ht.2 ht.1 hc'.right hrest ho).mono fun t3 ht3 => ?_
  cases o <;> simpa [Target, Nat.add_assoc] using ht3

theorem stmt_action (f : Nat) (ihOs : OperandsGoal V img K f) (k : ActKind) (w : Bool) (ops : Operands)
    (hops : FragOperands V ops) : StmtGoal img K (.action k w ops) (f + 1) := by
  cases w
  · exact stmt_action_nowait f ihOs k ops hops
  · exact stmt_action_wait f ihOs k ops hops


/-! ## `if` -/

theorem stmt_ite_none (f : Nat) (ihRv : RvToGoal V img K f) (ihB : BlockGoal V img K f) (c : Rv)
    (hcnd : RvC V c) (t : Block)
    (ht : FragBlock V t) : StmtGoal img K (.ite c t none) (f + 1) := by
  intro σ σ' o s pc exit stk sim hpc hc h ho
  simp only [genStmt, genIf, resolve_append, resolve_ins, ins_length, resolve, List.length_append,
    List.length_cons, List.length_nil] at hc ⊢
  simp only [execStmt] at h
  split at h
  · rename_i o' hev
    simp only [Prod.mk.injEq] at h
    obtain ⟨rfl, rfl⟩ := h
    exact (errorC_excluded hev ho).elim
  · rename_i x σ1 hev
    refine (rv_toResult ihRv c hcnd sim hpc hc.left.left hev).trans fun t0 ⟨ht0, hres⟩ => ?_
    have hj := hc.left.right.head
    by_cases hx : x.truthy = true
    · simp only [hx, if_true] at h
      refine (exec_jump .ifFalse _ (pc + (genRv c (.to result)).length + 1) (by simp) ht0.2 ht0.1 hj
        (by simp [hres, hx])).trans fun t1 ht1 => ?_
      refine (ihB t ht σ1 σ' o t1 _ exit stk ht1.2 ht1.1 (cat hc.right) h ho).mono fun t2 ht2 => ?_
      cases o <;> simpa [Target, Nat.add_assoc] using ht2
    · simp only [hx, Bool.false_eq_true, if_false, Prod.mk.injEq] at h
      obtain ⟨rfl, rfl⟩ := h
      refine (exec_jump .ifFalse _ (pc + ((genRv c (.to result)).length + 1 + (genBlock t).length))
        (by simp) ht0.2 ht0.1 hj (by simp [hres, hx]; omega)).mono fun t1 ht1 => ?_
      simpa [Target] using ht1

theorem stmt_ite_some (f : Nat) (ihRv : RvToGoal V img K f) (ihB : BlockGoal V img K f) (c : Rv)
    (hcnd : RvC V c) (t e : Block)
    (ht : FragBlock V t) (he : FragBlock V e) : StmtGoal img K (.ite c t (some e)) (f + 1) := by
  intro σ σ' o s pc exit stk sim hpc hc h ho
  simp only [genStmt, genIf, resolve_append, resolve_ins, ins_length, resolve, List.length_append,
    List.length_cons, List.length_nil] at hc ⊢
  simp only [execStmt] at h
  split at h
  · rename_i o' hev
    simp only [Prod.mk.injEq] at h
    obtain ⟨rfl, rfl⟩ := h
    exact (errorC_excluded hev ho).elim
  · rename_i x σ1 hev
    refine (rv_toResult ihRv c hcnd sim hpc hc.left.left.left.left hev).trans fun t0 ⟨ht0, hres⟩ => ?_
    have hj := hc.left.left.left.right.head
    have hct := hc.left.left.right
    have hj2 := hc.left.right.head
    have hce := hc.right
    simp only [resolve_length, List.length_append, List.length_cons, List.length_nil] at hct hj2 hce
    by_cases hx : x.truthy = true
    · simp only [hx, if_true] at h
      refine (exec_jump .ifFalse _ (pc + (genRv c (.to result)).length + 1) (by simp) ht0.2 ht0.1 hj
        (by simp [hres, hx])).trans fun t1 ht1 => ?_
      rcases ho with rfl | rfl
      · refine (ihB t ht σ1 σ' .normal t1 _ exit stk ht1.2 ht1.1 (cat hct) h (Or.inl rfl)).trans
          fun t2 ht2 => ?_
        simp only [Target] at ht2
        refine (exec_jump .always _ (pc + ((genRv c (.to result)).length + 1 + (genBlock t).length + 1 +
          (genBlock e).length)) (by simp) ht2.2 ht2.1 (idx hj2) (by simp; omega)).mono fun t3 ht3 => ?_
        simpa [Target] using ht3
      · refine (ihB t ht σ1 σ' .brk t1 _ exit stk ht1.2 ht1.1 (cat hct) h (Or.inr rfl)).mono
          fun t2 ht2 => ?_
        simpa [Target] using ht2
    · simp only [hx, Bool.false_eq_true, if_false] at h
      refine (exec_jump .ifFalse _ (pc + ((genRv c (.to result)).length + 1 + (genBlock t).length + 1))
        (by simp) ht0.2 ht0.1 hj (by simp [hres, hx]; omega)).trans fun t1 ht1 => ?_
      refine (ihB e he σ1 σ' o t1 _ exit stk ht1.2 ht1.1 (cat hce) h ho).mono fun t2 ht2 => ?_
      cases o <;> simpa [Target, Nat.add_assoc] using ht2


end Sim
end Bardolph
