#!/usr/bin/env python3
"""Run the repository's pinned test suite (guard off) and compare with BASELINE.json.
Exit 0 iff every stable-pass test of the baseline passes."""
import json
import os
import subprocess
import sys
import tempfile
import xml.etree.ElementTree as ET

base = json.load(open('/root/.vp/BASELINE.json'))
env = dict(os.environ)
env.pop('BARDOLPH_VERIF', None)
with tempfile.TemporaryDirectory() as tmp:
    junit = os.path.join(tmp, 'junit.xml')
    cmd = ['/venv/bin/python', '-m', 'pytest', '-ra', '-q', '-p', 'no:cacheprovider',
           '--timeout=900', '--continue-on-collection-errors', '--junitxml=' + junit]
    res = subprocess.run(cmd, cwd=os.environ.get('BARDOLPH_REPO', '/repo'), env=env, capture_output=True, text=True)
    passed = set()
    for tc in ET.parse(junit).getroot().iter('testcase'):
        if not list(tc):
            passed.add('{}::{}'.format(tc.get('classname'), tc.get('name')))
missing = [t for t in base['stable_pass'] if t not in passed]
print('baseline stable_pass={} passed_now={} missing={}'.format(
    len(base['stable_pass']), len(passed), len(missing)))
for t in missing:
    print('  NOT PASSING:', t)
if missing:
    print(res.stdout[-3000:])
sys.exit(1 if missing else 0)
