#!/usr/bin/env python3
"""Regenerate the table of seeded changes (seeded/README.md and DESIGN.md §11) from
seeded/*/meta.json and seeded/NOTES.json."""
import glob
import json
import os
import re

ROOT = os.path.dirname(os.path.dirname(os.path.abspath(__file__)))


def main():
    notes = json.load(open(os.path.join(ROOT, 'seeded', 'NOTES.json')))
    rows = []
    for f in sorted(glob.glob(os.path.join(ROOT, 'seeded', '*', 'meta.json'))):
        d = json.load(open(f))
        name = d['name']
        patch = open(os.path.join(os.path.dirname(f), 'patch.diff')).read()
        files = sorted({ln[6:].strip() for ln in patch.splitlines() if ln.startswith('+++ b/')})
        first = ''
        for ln in d.get('needs_to_manifest', '').splitlines():
            ln = ln.strip()
            if ln and not ln.startswith('#'):
                first = ln
                break
        title = ''
        for ln in d.get('needs_to_manifest', '').splitlines():
            if ln.startswith('# '):
                title = ln[2:].strip()
                break
        sigs = []
        for c, v in d.get('checks', {}).items():
            for x in v['violations'][:3]:
                s = x.get('signature') or ('unproved: ' + ','.join(map(str, x.get('no_longer_checks') or [])))
                sigs.append('{}: `{}`'.format(c, str(s)[:70]))
        rows.append((name, d['property'], ', '.join(files), title or first[:100],
                     ', '.join(d.get('caught_by') or []) or '**none**', '; '.join(sigs[:4]), notes.get(name, '')))
    out = ['| seeded change | files | what it is | caught by (quick tier, seed 0) | reported as |',
           '|---|---|---|---|---|']
    for name, prop, files, title, caught, sigs, note in rows:
        out.append('| `seeded/{}` | {} | {} | {} | {} |'.format(
            name, files.replace('bardolph/', ''), title.replace('|', '/')[:140], caught, sigs.replace('|', '/')))
    out.append('')
    out.append('Checks that had to be strengthened because a seeded change was first missed:')
    out.append('')
    for name, prop, files, title, caught, sigs, note in rows:
        if note:
            out.append('* `{}` — {}'.format(name, note))
    table = '\n'.join(out) + '\n'
    open(os.path.join(ROOT, 'seeded', 'README.md'), 'w').write(
        '# Seeded changes\n\nEach directory holds a change to the code under verification that compiles, passes the '
        'pinned 186 tests and breaks one property (`patch.diff`), a demonstration that fails with it and '
        'passes without (`demo.py`), the author\'s notes, and `meta.json` (what was run, which checks '
        'reported it). Produced by independent sub-agents that saw only the property text; confirmed with '
        '`tools/try_seeded.py`. None of these is ever committed to the repository.\n\n' + table)
    p = os.path.join(ROOT, 'DESIGN.md')
    s = open(p).read()
    begin, end = '<!-- seeded-table:begin -->', '<!-- seeded-table:end -->'
    if begin in s:
        s = re.sub(re.escape(begin) + '.*?' + re.escape(end), lambda m: begin + '\n' + table + end, s, flags=re.S)
        open(p, 'w').write(s)
    print(len(rows), 'seeded changes;', sum(1 for r in rows if r[4] == '**none**'), 'not caught')


if __name__ == '__main__':
    main()
