#!/bin/sh
# run every claimed check's quick tier with the given seed and summarise
cd "$(dirname "$0")/.." || exit 2
seed=${1:-0}
fail=0
for p in $(python3 -c "import json; print(' '.join(c['property_id'] for c in json.load(open('MANIFEST.json'))['checks']))"); do
  start=$(date +%s)
  out=$(VERIF_SEED=$seed timeout 3000 ./check "$p" --tier quick 2>&1); code=$?
  end=$(date +%s)
  line=$(echo "$out" | tail -1)
  echo "$p exit=$code $((end-start))s $line"
  if [ $code -ne 0 ]; then fail=1; echo "$out" | grep -E "VIOLATION|INFRA" | head -3; fi
done
exit $fail
