#!/usr/bin/env python3
"""After cherry-picking fix commits from a work branch onto /repo's main branch, rewrite the
commit hashes in known_findings.json's "fixed" lines to the hashes on main (matched by subject)."""
import json, re, subprocess, sys
REPO = '/repo'
def git(*a):
    return subprocess.run(['git', '-C', REPO] + list(a), capture_output=True, text=True)
main = {}
for line in git('log', '--format=%h\t%s').stdout.splitlines():
    h, s = line.split('\t', 1)
    main.setdefault(s, h)
path = '/verif/known_findings.json'
data = json.load(open(path))
out = []
for line in data['fixed']:
    m = re.match(r'(fixed: property=\S+ )(\S+)( .*)', line)
    if m:
        h = m.group(2)
        anc = git('merge-base', '--is-ancestor', h, 'HEAD').returncode == 0
        if not anc:
            subj = git('log', '-1', '--format=%s', h).stdout.strip()
            if subj in main:
                line = m.group(1) + main[subj] + m.group(3)
            else:
                print('NOT ON MAIN:', line[:100])
    out.append(line)
data['fixed'] = out
json.dump(data, open(path, 'w'), indent=1, ensure_ascii=False)
open(path, 'a').write('\n')
