#!/usr/bin/env python3
"""Re-run every recorded seeded change against the CURRENT checks (regression of the checks'
detection power): tools/rerun_seeded.py [name …].  Uses the revision recorded in meta.json when
the patch no longer applies to HEAD.  Prints one line per change; exit 1 if one is not caught."""
import glob
import json
import os
import subprocess
import sys

ROOT = os.path.dirname(os.path.dirname(os.path.abspath(__file__)))


def main():
    names = sys.argv[1:] or sorted(os.path.basename(os.path.dirname(f))
                                   for f in glob.glob(os.path.join(ROOT, 'seeded', '*', 'meta.json')))
    missed = []
    for name in names:
        d = os.path.join(ROOT, 'seeded', name)
        meta = json.load(open(os.path.join(d, 'meta.json')))
        checks = ','.join(meta.get('checks', {}).keys()) or meta['property']
        cmd = [sys.executable, os.path.join(ROOT, 'tools', 'try_seeded.py'), meta['property'], '--src', d,
               '--name', name, '--checks', checks]
        r = subprocess.run(cmd, capture_output=True, text=True)
        if 'PATCH DOES NOT APPLY' in r.stdout:
            # the code it changes has been rewritten by a later fix: running it against the old
            # revision would report the later fixes' defects, not this change — say so instead
            print(name, 'OBSOLETE: the patch does not apply to the current main (see seeded/NOTES.json)', flush=True)
            continue
        new = json.load(open(os.path.join(d, 'meta.json')))
        caught = new.get('caught_by') or []
        print(name, 'caught by', caught if r.returncode == 0 else 'ERROR: ' + r.stdout[-300:], flush=True)
        if not caught:
            missed.append(name)
    print('not caught:', missed)
    return 1 if missed else 0


if __name__ == '__main__':
    sys.exit(main())
