#!/bin/sh
# run every claimed check's thorough tier once (long); summary on stdout
cd "$(dirname "$0")/.." || exit 2
(cd lean && lake build >/dev/null 2>&1)
for p in $(python3 -c "import json; print(' '.join(c['property_id'] for c in json.load(open('MANIFEST.json'))['checks']))"); do
  start=$(date +%s)
  out=$(VERIF_SEED=${1:-0} timeout 5400 ./check "$p" --tier thorough 2>&1); code=$?
  end=$(date +%s)
  echo "$p exit=$code $((end-start))s $(echo "$out" | tail -1)"
  if [ $code -ne 0 ]; then echo "$out" | grep -E "VIOLATION|INFRA|KNOWN" | head -5; fi
done
