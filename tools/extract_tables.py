#!/usr/bin/env python3
"""Translator: regenerate the data tables of the Lean model from /repo's working tree.

Reads the Python sources with `ast` (never by importing them for the extraction itself),
writes `lean/Bardolph/Generated/*.lean` containing data only (numerals, strings, lists).
After the static extraction each section cross-checks itself against the live objects of
the running code (import of the real module) and refuses to emit a table that disagrees.

Usage: extract_tables.py [--repo /repo] [--out lean/Bardolph/Generated] [--section name]
Exit 0: tables written (files are only rewritten when their content changed, so that the
incremental `lake build` stays incremental).  Exit 3: extraction failed; a JSON report on
stdout says which section and why; the previous files are left in place.
"""
import ast
import json
import os
import sys

REPO = os.environ.get('BARDOLPH_REPO', '/repo')
HERE = os.path.dirname(os.path.abspath(__file__))
OUT = os.path.join(HERE, '..', 'lean', 'Bardolph', 'Generated')


class ExtractError(Exception):
    pass


def parse(rel):
    path = os.path.join(REPO, rel)
    with open(path) as f:
        return ast.parse(f.read(), path)


def find_class(tree, name):
    for node in ast.walk(tree):
        if isinstance(node, ast.ClassDef) and node.name == name:
            return node
    raise ExtractError('class {} not found'.format(name))


def find_func(tree, name):
    for node in ast.walk(tree):
        if isinstance(node, (ast.FunctionDef,)) and node.name == name:
            return node
    raise ExtractError('function {} not found'.format(name))


def class_assign(cls, name):
    for node in cls.body:
        if isinstance(node, ast.Assign):
            for tgt in node.targets:
                if isinstance(tgt, ast.Name) and tgt.id == name:
                    return node.value
    raise ExtractError('assignment {} not found in class {}'.format(name, cls.name))


def module_assign(tree, name):
    for node in tree.body:
        if isinstance(node, ast.Assign):
            for tgt in node.targets:
                if isinstance(tgt, ast.Name) and tgt.id == name:
                    return node.value
    raise ExtractError('module assignment {} not found'.format(name))


def const(node):
    try:
        return ast.literal_eval(node)
    except Exception:
        raise ExtractError('not a literal: ' + ast.dump(node)[:80])


def eval_const_expr(node):
    """Evaluate an expression built from literals and arithmetic only."""
    code = compile(ast.Expression(node), '<extract>', 'eval')
    for sub in ast.walk(node):
        if not isinstance(sub, (ast.Constant, ast.BinOp, ast.UnaryOp, ast.operator,
                                ast.unaryop, ast.Expression)):
            raise ExtractError('not a constant expression: ' + ast.dump(node)[:80])
    return eval(code, {'__builtins__': {}})


def range_args(call):
    """range(a, b) / range(b) / set(range(a, b)) -> (a, b)"""
    if isinstance(call, ast.Call) and getattr(call.func, 'id', None) == 'set':
        call = call.args[0]
    if not (isinstance(call, ast.Call) and getattr(call.func, 'id', None) == 'range'):
        raise ExtractError('not a range(): ' + ast.dump(call)[:80])
    args = [const(a) for a in call.args]
    if len(args) == 1:
        return 0, args[0]
    if len(args) == 2:
        return args[0], args[1]
    raise ExtractError('range with step')


def for_range(fn):
    for node in ast.walk(fn):
        if isinstance(node, ast.For):
            return range_args(node.iter)
    raise ExtractError('no for-range loop in ' + fn.name)


def compare_bound(fn, var):
    """find `0 <= var < N` in a return statement and return N"""
    for node in ast.walk(fn):
        if isinstance(node, ast.Compare) and len(node.ops) == 2:
            if (isinstance(node.comparators[0], ast.Name)
                    and node.comparators[0].id == var
                    and isinstance(node.ops[0], ast.LtE)
                    and isinstance(node.ops[1], ast.Lt)):
                if const(node.left) != 0:
                    raise ExtractError('lower bound is not 0 in ' + fn.name)
                return const(node.comparators[1])
    raise ExtractError('no `0 <= {} < N` in {}'.format(var, fn.name))


def in_string(fn, subscript_index):
    """find `<x>[i] in '<chars>'` and return chars"""
    for node in ast.walk(fn):
        if (isinstance(node, ast.Compare) and len(node.ops) == 1
                and isinstance(node.ops[0], ast.In)
                and isinstance(node.left, ast.Subscript)
                and isinstance(node.comparators[0], ast.Constant)
                and isinstance(node.comparators[0].value, str)):
            if const(node.left.slice) == subscript_index:
                return node.comparators[0].value
    raise ExtractError('no `x[{}] in "..."` in {}'.format(subscript_index, fn.name))


# ------------------------------------------------------------------ Lean rendering

def lean_str(s):
    out = ['"']
    for ch in s:
        if ch == '"':
            out.append('\\"')
        elif ch == '\\':
            out.append('\\\\')
        elif ch == '\n':
            out.append('\\n')
        elif ch == '\t':
            out.append('\\t')
        elif 32 <= ord(ch) < 127:
            out.append(ch)
        else:
            out.append('\\u{%x}' % ord(ch))
    out.append('"')
    return ''.join(out)


def lean_val(v):
    if isinstance(v, bool):
        return 'true' if v else 'false'
    if isinstance(v, int):
        return str(v) if v >= 0 else '({})'.format(v)
    if isinstance(v, str):
        return lean_str(v)
    if isinstance(v, (list, tuple)):
        if isinstance(v, tuple):
            return '(' + ', '.join(lean_val(x) for x in v) + ')'
        return '[' + ', '.join(lean_val(x) for x in v) + ']'
    raise ExtractError('cannot render {!r}'.format(v))


def lean_type(v):
    if isinstance(v, bool):
        return 'Bool'
    if isinstance(v, int):
        return 'Int' if v < 0 else 'Nat'
    if isinstance(v, str):
        return 'String'
    if isinstance(v, tuple):
        return ' × '.join(lean_type(x) for x in v)
    if isinstance(v, list):
        if not v:
            raise ExtractError('empty list needs explicit type')
        return 'List ({})'.format(lean_type(v[0]))
    raise ExtractError('no Lean type for {!r}'.format(v))


class Section:
    def __init__(self, name, doc):
        self.name = name
        self.doc = doc
        self.defs = []

    def add(self, ident, value, typ=None, comment=''):
        self.defs.append((ident, value, typ or lean_type(value), comment))

    def render(self):
        lines = ['/-! GENERATED by tools/extract_tables.py from /repo -- do not edit.',
                 self.doc, '-/', 'namespace Bardolph.Generated.' + self.name, '']
        for ident, value, typ, comment in self.defs:
            if comment:
                lines.append('/-- {} -/'.format(comment))
            lines.append('def {} : {} := {}'.format(ident, typ, lean_val(value)))
        lines += ['', 'end Bardolph.Generated.' + self.name, '']
        return '\n'.join(lines)

    def values(self):
        return {ident: value for ident, value, _, _ in self.defs}


# ------------------------------------------------------------------ sections

SECTIONS = {}


def load_sections():
    """every tools/sections/*.py defines `section(x)` -> (Section, live_check); the Lean
    file name / namespace is the Section's name"""
    import importlib.util
    d = os.path.join(HERE, 'sections')
    for fn in sorted(os.listdir(d)):
        if fn.endswith('.py') and not fn.startswith('_'):
            spec = importlib.util.spec_from_file_location('section_' + fn[:-3], os.path.join(d, fn))
            mod = importlib.util.module_from_spec(spec)
            spec.loader.exec_module(mod)
            SECTIONS[fn[:-3]] = mod.section


def run(names=None, out=OUT, check_live=True):
    report = {'ok': True, 'sections': {}}
    os.makedirs(out, exist_ok=True)
    for name in (names or sorted(SECTIONS)):
        try:
            section, live = SECTIONS[name](sys.modules[__name__])
            if check_live and live is not None:
                live(section.values())
            text = section.render()
            path = os.path.join(out, section.name + '.lean')
            old = None
            if os.path.exists(path):
                with open(path) as f:
                    old = f.read()
            if old != text:
                with open(path, 'w') as f:
                    f.write(text)
            report['sections'][section.name] = {'ok': True, 'changed': old != text,
                                        'values': section.values()}
        except Exception as ex:  # ExtractError, SyntaxError, ImportError ...
            report['ok'] = False
            report['sections'][name] = {
                'ok': False, 'error': '{}: {}'.format(type(ex).__name__, ex)}
    return report


def main():
    import argparse
    ap = argparse.ArgumentParser()
    ap.add_argument('--section', action='append')
    ap.add_argument('--out', default=OUT)
    ap.add_argument('--no-live', action='store_true')
    args = ap.parse_args()
    load_sections()
    report = run(args.section, args.out, not args.no_live)
    print(json.dumps(report, indent=1, default=str))
    sys.exit(0 if report['ok'] else 3)


if __name__ == '__main__':
    main()
