#!/usr/bin/env python3
"""Writes MANIFEST.json from the table below (kept here so that the manifest stays valid
and consistent with the checks that exist).  Run after adding or changing a check."""
import json
import os

ROOT = os.path.dirname(os.path.dirname(os.path.abspath(__file__)))

NOTE = ('Trusted base: Lean 4.33 kernel; axioms limited to propext/Classical.choice/Quot.sound '
        '(audited per theorem on every run); tools/extract_tables.py (translator, cross-checked '
        'against live objects); harness/*.py (correspondence, simulated devices, scheduler). '
        'CPython library semantics (re, str.format, float, threading) are modelled, not verified.')

def load_checks():
    """manifest.d/Cxx.json: {"text", "technique", "design_ref", optional "category", "note",
    "quick_cmd", "thorough_cmd"} — one file per claimed property"""
    checks = {}
    d = os.path.join(ROOT, 'manifest.d')
    for fn in sorted(os.listdir(d)):
        if fn.endswith('.json'):
            with open(os.path.join(d, fn)) as f:
                checks[fn[:-5]] = json.load(f)
    return checks


CHECKS = load_checks()

NOT_APPLICABLE = {}

ALL = ['C%02d' % i for i in range(1, 21)]


def main():
    checks = []
    for pid in ALL:
        if pid not in CHECKS:
            continue
        c = CHECKS[pid]
        checks.append({
            'property_id': pid,
            'quick_cmd': c.get('quick_cmd', './check {} --tier quick'.format(pid)),
            'thorough_cmd': c.get('thorough_cmd', './check {} --tier thorough'.format(pid)),
            'evidence_file': 'evidence/{}.json'.format(pid),
            'replay_cmd_template': './check {} --replay {{path}}'.format(pid),
            'engine': 'lean-model',
            'level_claimed': {'category': c.get('category', 'proof'), 'text': c['text'],
                              'design_ref': c['design_ref']},
            'level_note': c.get('note', NOTE),
            'technique': c['technique'],
        })
    na = []
    for pid in ALL:
        if pid in CHECKS:
            continue
        na.append({'property_id': pid,
                   'reason': NOT_APPLICABLE.get(
                       pid, 'not claimed yet: the Lean model and correspondence check for this '
                            'property are still being built (see DESIGN.md §8); the technique applies')})
    manifest = {
        'version': 1,
        'setup_cmd': 'cd lean && lake build',
        'hooks': {
            'guard': 'BARDOLPH_VERIF',
            'enable': 'no source hooks are needed: every observation point is reached by dependency '
                      'injection or by patching module attributes from the harness',
            'baseline_off_cmd': '/venv/bin/python tools/baseline.py',
            'source_commits': [],
            'add_only': True,
        },
        'engines': [{
            'name': 'lean-model',
            'path': 'lean/',
            'serves_properties': sorted(CHECKS),
            'kind_free_text': 'Lean 4 model + property theorems (lake project, no Mathlib), tables '
                              'regenerated from /repo by tools/extract_tables.py, executable model '
                              'driven by Driver.lean over a line protocol, Python correspondence '
                              'harness in harness/',
        }],
        'checks': checks,
        'not_applicable': na,
        'notes': 'Exit codes of every check: 0 held, 1 violation (VIOLATION line), 2 infrastructure '
                 'failure (tools missing, scheduler watchdog, time-out). A proof that no longer builds, a '
                 'model/implementation disagreement, or a failure of the harness itself after the Lean phase '
                 'with no failing input found ends with "VIOLATION ... no-failing-input-found" (exit 1). '
                 'Known findings: known_findings.json. VERIF_SEED, VERIF_TIER, VERIF_OUT_DIR (where evidence/ '
                 'and replays/ are written; default /verif) and BARDOLPH_REPO (the tree under test; default '
                 '/repo) are honoured.',
    }
    with open(os.path.join(ROOT, 'MANIFEST.json'), 'w') as f:
        json.dump(manifest, f, indent=1)
        f.write('\n')


if __name__ == '__main__':
    main()
