#!/usr/bin/env python3
"""Confirm and record a seeded defect produced by an independent sub-agent.

  tools/try_seeded.py C05 [--src /tmp/m/C05/out] [--checks C05,C01] [--name C05-a]

1. applies out/patch.diff in a scratch worktree of /repo's HEAD (outside /repo and /verif),
   runs the pinned test suite there (all 186 must pass) and the demonstration with and
   without the change (must exit 1 / 0);
2. applies the patch to /repo itself, runs the named checks' quick tier (default: the
   property's own check), records which report a VIOLATION, and undoes the patch;
3. stores patch.diff, demo.py, notes.md and meta.json under /verif/seeded/<name>/.
"""
import argparse
import json
import os
import shutil
import subprocess
import sys
import tempfile

ROOT = os.path.dirname(os.path.dirname(os.path.abspath(__file__)))


def sh(cmd, **kw):
    return subprocess.run(cmd, capture_output=True, text=True, **kw)


def main():
    ap = argparse.ArgumentParser()
    ap.add_argument('pid')
    ap.add_argument('--src')
    ap.add_argument('--checks')
    ap.add_argument('--name')
    ap.add_argument('--seed', default='0')
    ap.add_argument('--rev', default='HEAD', help='revision of /repo the change is applied to')
    args = ap.parse_args()
    src = args.src or '/tmp/m/{}/out'.format(args.pid)
    name = args.name or args.pid
    patch = os.path.join(src, 'patch.diff')
    demo = os.path.join(src, 'demo.py')
    meta = {'property': args.pid, 'name': name}
    tmp = tempfile.mkdtemp(prefix='seeded_')
    wt = os.path.join(tmp, 'repo')
    try:
        r = sh(['git', '-C', '/repo', 'worktree', 'add', '--detach', wt, args.rev])
        meta['applied_to'] = sh(['git', '-C', '/repo', 'rev-parse', '--short', args.rev]).stdout.strip()
        if r.returncode:
            print('worktree failed', r.stderr)
            return 2
        r = sh(['git', '-C', wt, 'apply', patch])
        meta['applies_to_head'] = r.returncode == 0
        if r.returncode:
            print('PATCH DOES NOT APPLY to current HEAD:', r.stderr[:300])
            return 2
        env = dict(os.environ, BARDOLPH_REPO=wt)
        r = sh(['/venv/bin/python', os.path.join(ROOT, 'tools', 'baseline.py')], env=env)
        meta['baseline_with_change'] = r.stdout.strip().splitlines()[0] if r.stdout else r.stderr[-200:]
        base_ok = r.returncode == 0
        r1 = sh(['/venv/bin/python', demo], env=env, cwd=tmp, timeout=300)
        meta['demo_with_change_exit'] = r1.returncode
        meta['demo_with_change_output'] = (r1.stdout + r1.stderr)[-600:]
        sh(['git', '-C', wt, 'checkout', '--', '.'])
        r0 = sh(['/venv/bin/python', demo], env=env, cwd=tmp, timeout=300)
        meta['demo_without_change_exit'] = r0.returncode
        print('baseline:', meta['baseline_with_change'], '| demo with change exit', r1.returncode,
              '| without', r0.returncode)
        meta['confirmed'] = bool(base_ok and r1.returncode != 0 and r0.returncode == 0)
        if not meta.get('confirmed'):
            print('NOT CONFIRMED:', json.dumps(meta, indent=1)[:1500])
            return 1
        return run_checks(args, meta, wt, patch, src, name)
    finally:
        sh(['git', '-C', '/repo', 'worktree', 'remove', '--force', wt])
        shutil.rmtree(tmp, ignore_errors=True)


def run_checks(args, meta, wt, patch, src, name):
    # run the checks against the changed tree: the same patch applied in the scratch worktree,
    # which the checks read through BARDOLPH_REPO (equivalent to applying it in /repo and undoing
    # it afterwards, without disturbing checks that are running against /repo meanwhile)
    checks = (args.checks or args.pid).split(',')
    r = sh(['git', '-C', wt, 'apply', patch])
    if r.returncode:
        print('re-apply failed', r.stderr)
        return 2
    results = {}
    try:
        for c in checks:
            out_dir = os.path.join(os.path.dirname(wt), 'out')
            env = dict(os.environ, VERIF_SEED=args.seed, BARDOLPH_REPO=wt, VERIF_OUT_DIR=out_dir)
            rr = sh([os.path.join(ROOT, 'check'), c, '--tier', 'quick'], cwd=ROOT, env=env, timeout=1200)
            lines = [ln for ln in rr.stdout.splitlines() if ln.startswith('VIOLATION')]
            detail = []
            for ln in lines:
                path = ln.split('replay=')[1].split()[0]
                try:
                    d = json.load(open(os.path.join(out_dir, path)))
                    detail.append({'line': ln, 'signature': d.get('signature'),
                                   'what': str(d.get('what'))[:300],
                                   'no_longer_checks': d.get('no_longer_checks')})
                except Exception as ex:  # noqa
                    detail.append({'line': ln, 'error': str(ex)})
            results[c] = {'exit': rr.returncode, 'violations': detail,
                          'summary': rr.stdout.strip().splitlines()[-1] if rr.stdout.strip() else rr.stderr[-300:]}
            print(c, 'exit', rr.returncode, [d.get('signature') or d.get('no_longer_checks') for d in detail])
    finally:
        sh(['git', '-C', wt, 'checkout', '--', '.'])
        # regenerate the tables from the clean tree again
        sh(['/venv/bin/python', os.path.join(ROOT, 'tools', 'extract_tables.py')])
    meta['checks'] = results
    meta['caught_by'] = [c for c, v in results.items() if v['exit'] == 1 and v['violations']]
    meta['what_was_run'] = ('scratch worktree: tools/baseline.py (186 tests) with the change, demo.py with and '
                            'without the change; then the patch applied in the scratch worktree and `BARDOLPH_REPO=<worktree> '
                            './check <id> --tier quick` for ' + ', '.join(checks) + ' (same effect as `git -C /repo apply`, '
                            'check, `git -C /repo checkout -- .`, without disturbing concurrent runs)')
    dst = os.path.join(ROOT, 'seeded', name)
    os.makedirs(dst, exist_ok=True)
    for f in ('patch.diff', 'demo.py', 'notes.md'):
        if os.path.exists(os.path.join(src, f)) and os.path.abspath(src) != os.path.abspath(dst):
            shutil.copy(os.path.join(src, f), os.path.join(dst, f))
    notes = os.path.join(src, 'notes.md')
    meta['needs_to_manifest'] = open(notes).read()[:1500] if os.path.exists(notes) else ''
    json.dump(meta, open(os.path.join(dst, 'meta.json'), 'w'), indent=1)
    print('stored in', dst, 'caught by', meta['caught_by'])
    return 0


if __name__ == '__main__':
    sys.exit(main())
