#!/bin/sh
# Re-run every recorded seeded change against the current checks, N shards in parallel, each in its
# own scratch clone of /verif (own lean/ build directory, so the regenerated tables do not clash).
#   tools/rerun_seeded_parallel.sh [N]      (results: one line per change on stdout)
N=${1:-4}
ROOT=$(cd "$(dirname "$0")/.." && pwd)
BASE=$(mktemp -d /tmp/rs_XXXX)
cd "$ROOT" || exit 2
names=$(ls seeded | grep -v '\.' | sort)
i=0
for s in $(seq 0 $((N-1))); do
  git worktree add -q --detach "$BASE/v$s" HEAD
  cp -r lean/.lake "$BASE/v$s/lean/" 2>/dev/null
  cp -r seeded "$BASE/v$s/" 2>/dev/null
done
k=0
for n in $names; do
  s=$((k % N)); k=$((k+1))
  echo "$n" >> "$BASE/list$s"
done
for s in $(seq 0 $((N-1))); do
  ( cd "$BASE/v$s" && python3 tools/rerun_seeded.py $(cat "$BASE/list$s") > "$BASE/out$s" 2>&1 ) &
done
wait
cat "$BASE"/out* | grep -v "^not caught: \[\]$" | sort
for s in $(seq 0 $((N-1))); do git worktree remove --force "$BASE/v$s"; done
rm -rf "$BASE"
