"""Operator tables of the expression parser (property C02):
Token.prec / Token.assoc / Token.is_binop (parser/token.py) and ExpressionParser._do_op."""
import ast


def section(x):
    s = x.Section('ExprTables', 'Operator precedence, associativity and VM operator of every '
                  'expression operator (bardolph/parser/token.py, expr_parser.py)')
    tree = x.parse('bardolph/parser/token.py')
    cls = x.find_class(tree, 'Token')
    prec_fn = x.find_func(cls, 'prec')
    prec = None
    for node in ast.walk(prec_fn):
        if isinstance(node, ast.Dict):
            prec = {x.const(k): x.const(v) for k, v in zip(node.keys, node.values)}
    if prec is None:
        raise x.ExtractError('no precedence dict in Token.prec')
    default = None
    for node in ast.walk(prec_fn):
        if isinstance(node, ast.Call) and getattr(node.func, 'attr', '') == 'get' and len(node.args) == 2:
            default = x.const(node.args[1])
    if default is None or default >= 0:
        raise x.ExtractError('Token.prec default is not a negative number')
    s.add('prec', sorted(prec.items()), comment='Token.prec')
    def call_args(fn, method):
        """constant / TokenTypes-member arguments of every `self.<method>(…)` call in fn"""
        out = []
        for node in ast.walk(fn):
            if isinstance(node, ast.Call) and isinstance(node.func, ast.Attribute) \
                    and node.func.attr == method:
                for a in node.args:
                    if isinstance(a, ast.Constant):
                        out.append(a.value)
                    elif isinstance(a, ast.Attribute):
                        out.append(a.attr.lower())
        return out

    assoc_fn = x.find_func(cls, 'assoc')
    right = call_args(assoc_fn, 'is_mark') + call_args(assoc_fn, 'is_a')
    if not right:
        raise x.ExtractError('no right-associative tokens in Token.assoc')
    s.add('rightAssoc', sorted(right), comment='contents giving Assoc.RIGHT')
    binop_fn = x.find_func(cls, 'is_binop')
    chars = ''.join(call_args(binop_fn, 'is_mark'))
    words = call_args(binop_fn, 'is_any')
    if not chars or not words:
        raise x.ExtractError('is_binop shape changed')
    s.add('binopChars', chars, comment="content in '...'")
    s.add('binopWords', sorted(words), comment='content in (...)')
    tree2 = x.parse('bardolph/parser/expr_parser.py')
    do_op = x.find_func(x.find_class(tree2, 'ExpressionParser'), '_do_op')
    table = None
    for node in ast.walk(do_op):
        if isinstance(node, ast.Dict):
            table = {x.const(k): v.attr for k, v in zip(node.keys, node.values)}
    if table is None:
        raise x.ExtractError('no operator dict in _do_op')
    s.add('operatorOf', sorted(table.items()), comment='symbol -> vm_codes.Operator member')

    def live(vals):
        import sys
        sys.path.insert(0, x.REPO)
        from bardolph.parser.token import Assoc, Token, TokenTypes
        def token_for(sym):
            if sym in ('==', '<=', '>=', '!=', '<', '>'):
                return Token(TokenTypes.COMPARE, sym)
            if sym in ('and', 'or', 'not'):
                return Token(TokenTypes[sym.upper()], sym)
            return Token(TokenTypes.MARK, sym)
        for sym, p in vals['prec']:
            tok = token_for(sym)
            if tok.prec != p:
                raise x.ExtractError('live prec of {} differs'.format(sym))
            if (tok.assoc is Assoc.RIGHT) != (sym in vals['rightAssoc']):
                raise x.ExtractError('live assoc of {} differs'.format(sym))
        for sym in ['+', '-', '*', '/', '%', '^', 'and', 'or', 'not', '(', ')']:
            tok = token_for(sym)
            want = (sym in vals['binopChars']) or (sym in vals['binopWords'])
            if bool(tok.is_binop) != want:
                raise x.ExtractError('live is_binop of {} differs'.format(sym))
    return s, live
