"""Operator tables of the expression parser (property C02):
Token.prec / Token.assoc / Token.is_binop (parser/token.py) and ExpressionParser._do_op."""
import ast


def section(x):
    s = x.Section('ExprTables', 'Operator precedence, associativity and VM operator of every '
                  'expression operator (bardolph/parser/token.py, expr_parser.py)')
    tree = x.parse('bardolph/parser/token.py')
    cls = x.find_class(tree, 'Token')
    prec_fn = x.find_func(cls, 'prec')
    prec = None
    for node in ast.walk(prec_fn):
        if isinstance(node, ast.Dict):
            prec = {x.const(k): x.const(v) for k, v in zip(node.keys, node.values)}
    if prec is None:
        raise x.ExtractError('no precedence dict in Token.prec')
    default = None
    for node in ast.walk(prec_fn):
        if isinstance(node, ast.Call) and getattr(node.func, 'attr', '') == 'get' and len(node.args) == 2:
            default = x.const(node.args[1])
    if default is None or default >= 0:
        raise x.ExtractError('Token.prec default is not a negative number')
    s.add('prec', sorted(prec.items()), comment='Token.prec')
    assoc_fn = x.find_func(cls, 'assoc')
    right = None
    for node in ast.walk(assoc_fn):
        if isinstance(node, ast.Compare) and isinstance(node.ops[0], ast.In):
            right = list(x.const(node.comparators[0]))
    if right is None:
        raise x.ExtractError('no right-associative tuple in Token.assoc')
    s.add('rightAssoc', sorted(right), comment='contents giving Assoc.RIGHT')
    binop_fn = x.find_func(cls, 'is_binop')
    chars = words = None
    for node in ast.walk(binop_fn):
        if isinstance(node, ast.Compare) and isinstance(node.ops[0], ast.In):
            val = x.const(node.comparators[0])
            if isinstance(val, str):
                chars = val
            else:
                words = list(val)
    if chars is None or words is None:
        raise x.ExtractError('is_binop shape changed')
    s.add('binopChars', chars, comment="content in '...'")
    s.add('binopWords', sorted(words), comment='content in (...)')
    tree2 = x.parse('bardolph/parser/expr_parser.py')
    do_op = x.find_func(x.find_class(tree2, 'ExpressionParser'), '_do_op')
    table = None
    for node in ast.walk(do_op):
        if isinstance(node, ast.Dict):
            table = {x.const(k): v.attr for k, v in zip(node.keys, node.values)}
    if table is None:
        raise x.ExtractError('no operator dict in _do_op')
    s.add('operatorOf', sorted(table.items()), comment='symbol -> vm_codes.Operator member')

    def live(vals):
        import sys
        sys.path.insert(0, x.REPO)
        from bardolph.parser.token import Assoc, Token, TokenTypes
        for sym, p in vals['prec']:
            tt = TokenTypes.COMPARE if sym in ('==', '<=', '>=', '!=', '<', '>') else TokenTypes.MARK
            tok = Token(tt, sym)
            if tok.prec != p:
                raise x.ExtractError('live prec of {} differs'.format(sym))
            if (tok.assoc is Assoc.RIGHT) != (sym in vals['rightAssoc']):
                raise x.ExtractError('live assoc of {} differs'.format(sym))
        for sym in ['+', '-', '*', '/', '%', '^', 'and', 'or', 'not', '(', ')', 'x', '5']:
            tok = Token(TokenTypes.MARK, sym)
            want = (sym in vals['binopChars']) or (sym in vals['binopWords'])
            if bool(tok.is_binop) != want:
                raise x.ExtractError('live is_binop of {} differs'.format(sym))
    return s, live
