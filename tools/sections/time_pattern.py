"""Constants of bardolph/lib/time_pattern.py (property C11)."""


def section(x):
    s = x.Section('TimePattern', 'Constants of bardolph/lib/time_pattern.py')
    tree = x.parse('bardolph/lib/time_pattern.py')
    cls = x.find_class(tree, 'TimePattern')
    s.add('regexSpec', x.const(x.class_assign(cls, 'REGEX_SPEC')), comment='TimePattern.REGEX_SPEC')
    lo, hi = x.range_args(x.class_assign(cls, 'HOURS_24'))
    if lo != 0:
        raise x.ExtractError('HOURS_24 does not start at 0')
    s.add('hours24', hi, comment='HOURS_24 = set(range(0, N))')
    lo, hi = x.range_args(x.class_assign(cls, 'MINUTES_60'))
    if lo != 0:
        raise x.ExtractError('MINUTES_60 does not start at 0')
    s.add('minutes60', hi, comment='MINUTES_60 = set(range(0, N))')
    lo, hi = x.for_range(x.find_func(cls, '_init_hour_set'))
    if lo != 0:
        raise x.ExtractError('hour loop does not start at 0')
    s.add('hourLoopEnd', hi, comment='for hour in range(0, N) in _init_hour_set')
    lo, hi = x.for_range(x.find_func(cls, '_init_minute_set'))
    if lo != 0:
        raise x.ExtractError('minute loop does not start at 0')
    s.add('minuteLoopEnd', hi, comment='for minute in range(0, N) in _init_minute_set')
    s.add('hourValidBound', x.compare_bound(x.find_func(cls, 'hours_valid'), 'int_hours'),
          comment='0 <= int_hours < N in hours_valid')
    s.add('minuteValidBound', x.compare_bound(x.find_func(cls, 'minutes_valid'), 'int_minutes'),
          comment='0 <= int_minutes < N in minutes_valid')
    s.add('hourTens', [int(c) for c in x.in_string(x.find_func(cls, 'hours_valid'), 0)],
          comment="hours[0] in '...' for the d* form")
    s.add('minuteTens', [int(c) for c in x.in_string(x.find_func(cls, 'minutes_valid'), 0)],
          comment="minutes[0] in '...' for the d* form")

    def live(vals):
        import sys
        sys.path.insert(0, x.REPO)
        from bardolph.lib.time_pattern import TimePattern as TP
        if TP.REGEX_SPEC != vals['regexSpec']:
            raise x.ExtractError('live REGEX_SPEC differs')
        if TP.HOURS_24 != set(range(vals['hours24'])):
            raise x.ExtractError('live HOURS_24 differs')
        if TP.MINUTES_60 != set(range(vals['minutes60'])):
            raise x.ExtractError('live MINUTES_60 differs')
        for n in range(0, 40):
            txt = '{:d}'.format(n)
            if TP.hours_valid(txt) != (n < vals['hourValidBound']):
                raise x.ExtractError('live hours_valid({}) differs'.format(txt))
        for n in range(0, 100):
            txt = '{:02d}'.format(n)
            if TP.minutes_valid(txt) != (n < vals['minuteValidBound']):
                raise x.ExtractError('live minutes_valid({}) differs'.format(txt))
        for d in range(10):
            if TP.hours_valid('{}*'.format(d)) != (d in vals['hourTens']):
                raise x.ExtractError('live hours_valid({}*) differs'.format(d))
            if TP.minutes_valid('{}*'.format(d)) != (d in vals['minuteTens']):
                raise x.ExtractError('live minutes_valid({}*) differs'.format(d))
    return s, live
