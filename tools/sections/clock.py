"""Literals of the timing code (properties C10, C09): bardolph/lib/clock.py,
Machine._wait in bardolph/vm/machine.py, units.time_raw."""
import ast


def _int_valued(x, v, what):
    if isinstance(v, bool) or not isinstance(v, (int, float)) or v != int(v) or v <= 0:
        raise x.ExtractError('{} is not a positive whole number: {!r}'.format(what, v))
    return int(v)


def section(x):
    s = x.Section('Clock', 'Literals of clock.py, Machine._wait and units.time_raw')

    # Machine._wait: `elif time > 0:` and `time /= 1000.0` under `unit_mode is UnitMode.RAW`
    mtree = x.parse('bardolph/vm/machine.py')
    wait = x.find_func(x.find_class(mtree, 'Machine'), '_wait')
    divs = [n for n in ast.walk(wait) if isinstance(n, ast.AugAssign) and isinstance(n.op, ast.Div)]
    if len(divs) != 1:
        raise x.ExtractError('Machine._wait: expected exactly one `/=`, found {}'.format(len(divs)))
    guarded = False
    for n in ast.walk(wait):
        if isinstance(n, ast.If) and divs[0] in n.body:
            src = ast.dump(n.test)
            guarded = 'unit_mode' in src and 'RAW' in src and any(
                isinstance(o, ast.Is) for o in getattr(n.test, 'ops', []))
    if not guarded:
        raise x.ExtractError('Machine._wait: the `/=` is not guarded by `unit_mode is UnitMode.RAW`')
    s.add('rawDivisor', _int_valued(x, x.const(divs[0].value), 'raw divisor'),
          comment='time /= N when unit_mode is RAW, in Machine._wait')
    cmps = [n for n in ast.walk(wait) if isinstance(n, ast.Compare) and len(n.ops) == 1
            and isinstance(n.left, ast.Name) and n.left.id == 'time'
            and isinstance(n.comparators[0], ast.Constant)]
    if len(cmps) != 1 or x.const(cmps[0].comparators[0]) != 0:
        raise x.ExtractError('Machine._wait: no single `time <op> 0` test')
    op = type(cmps[0].ops[0]).__name__
    if op not in ('Gt', 'GtE'):
        raise x.ExtractError('Machine._wait: unexpected comparison ' + op)
    s.add('waitTestStrict', op == 'Gt', comment='`elif time > 0` (true) or `>= 0` (false) in Machine._wait')
    calls = [n.func.attr for n in ast.walk(wait)
             if isinstance(n, ast.Call) and isinstance(n.func, ast.Attribute)
             and n.func.attr in ('pause_for', 'wait_until')]
    if sorted(calls) != ['pause_for', 'wait_until']:
        raise x.ExtractError('Machine._wait: expected one pause_for and one wait_until call')

    # units.time_raw: logical_time * 1000.0
    utree = x.parse('bardolph/controller/units.py')
    traw = x.find_func(utree, 'time_raw')
    muls = [n for n in ast.walk(traw) if isinstance(n, ast.BinOp) and isinstance(n.op, ast.Mult)
            and isinstance(n.right, ast.Constant)]
    if len(muls) != 1:
        raise x.ExtractError('units.time_raw: expected `logical_time * N`')
    s.add('timeRawFactor', _int_valued(x, x.const(muls[0].right), 'time_raw factor'),
          comment='units.time_raw(logical_time) = logical_time * N')

    # Clock.pause_for: `self._cue_time += delay` ; `while self.et() < self._cue_time:`
    ctree = x.parse('bardolph/lib/clock.py')
    clk = x.find_class(ctree, 'Clock')
    pf = x.find_func(clk, 'pause_for')
    adds = [n for n in ast.walk(pf) if isinstance(n, ast.AugAssign) and isinstance(n.op, ast.Add)
            and isinstance(n.target, ast.Attribute) and n.target.attr == '_cue_time'
            and isinstance(n.value, ast.Name)]
    if len(adds) != 1 or any(isinstance(n, ast.Assign) for n in ast.walk(pf)):
        raise x.ExtractError('Clock.pause_for: the cue is not accumulated with one `_cue_time += delay`')
    loops = [n for n in ast.walk(pf) if isinstance(n, ast.While)]
    if len(loops) != 1 or not isinstance(loops[0].test, ast.Compare) or len(loops[0].test.ops) != 1:
        raise x.ExtractError('Clock.pause_for: no single while-comparison')
    test = loops[0].test
    if 'et' not in ast.dump(test.left) or '_cue_time' not in ast.dump(test.comparators[0]):
        raise x.ExtractError('Clock.pause_for: loop test is not `et() <op> _cue_time`')
    op = type(test.ops[0]).__name__
    if op not in ('Lt', 'LtE'):
        raise x.ExtractError('Clock.pause_for: unexpected loop comparison ' + op)
    s.add('pauseLoopStrict', op == 'Lt',
          comment='`while self.et() < self._cue_time` (true) or `<=` (false) in Clock.pause_for')
    # Clock.reset: cue := 0.0 and origin := now()
    rs = x.find_func(clk, 'reset')
    zero = [n for n in ast.walk(rs) if isinstance(n, ast.Assign)
            and isinstance(n.targets[0], ast.Attribute) and n.targets[0].attr == '_cue_time']
    if len(zero) != 1 or x.const(zero[0].value) != 0:
        raise x.ExtractError('Clock.reset does not set _cue_time to 0')
    s.add('resetCue', 0, comment='Clock.reset: self._cue_time = N')
    # Clock.wait_until ends with reset()
    wu = x.find_func(clk, 'wait_until')
    has_reset = any(isinstance(n, ast.Call) and isinstance(n.func, ast.Attribute)
                    and n.func.attr == 'reset' for n in ast.walk(wu))
    s.add('untilResets', bool(has_reset), comment='Clock.wait_until calls self.reset()')

    def live(vals):
        import sys
        sys.path.insert(0, x.REPO)
        from bardolph.controller import units
        if units.time_raw(3) != 3 * vals['timeRawFactor']:
            raise x.ExtractError('live units.time_raw differs')
    return s, live
