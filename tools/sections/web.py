"""Literals and call shapes of web/web_app.py and web/front_end.py (property C20), and the
replacement list of the standard library's html.escape."""
import ast


def _attr_chain(node):
    """a.b.c -> ['a', 'b', 'c'] (None if not a plain attribute chain)"""
    out = []
    while isinstance(node, ast.Attribute):
        out.append(node.attr)
        node = node.value
    if isinstance(node, ast.Name):
        out.append(node.id)
        return list(reversed(out))
    return None


def _is_call_of(node, chain):
    return isinstance(node, ast.Call) and _attr_chain(node.func) == chain


def section(x):
    s = x.Section('Web', 'Literals and call shapes of web/web_app.py, web/front_end.py; html.escape')
    app = x.parse('web/web_app.py')
    fe = x.parse('web/front_end.py')

    # ---- ScriptControl.__init__: which attributes are escaped at construction
    ctor = x.find_func(x.find_class(app, 'ScriptControl'), '__init__')
    escaped, plain = [], []
    for node in ctor.body:
        if not (isinstance(node, ast.Assign) and len(node.targets) == 1):
            continue
        chain = _attr_chain(node.targets[0])
        if not chain or chain[0] != 'self' or len(chain) != 2:
            continue
        if (_is_call_of(node.value, ['html', 'escape']) and len(node.value.args) == 1
                and not node.value.keywords and isinstance(node.value.args[0], ast.Name)):
            escaped.append((chain[1], node.value.args[0].id))
        elif isinstance(node.value, ast.Name):
            plain.append((chain[1], node.value.id))
    s.add('escapedFields', escaped, comment='self.<a> = html.escape(<param>) in ScriptControl.__init__')
    s.add('plainFields', plain, comment='self.<a> = <param> in ScriptControl.__init__')
    s.add('ctorParams', [a.arg for a in ctor.args.args[1:]],
          comment='positional parameter order of ScriptControl.__init__')

    app_cls = x.find_class(app, 'WebApp')

    # ---- get_script_path: `if path[-N:] == S: path = path[:-M]`
    gp = x.find_func(app_cls, 'get_script_path')
    found = None
    for node in ast.walk(gp):
        if (isinstance(node, ast.If) and isinstance(node.test, ast.Compare)
                and len(node.test.ops) == 1 and isinstance(node.test.ops[0], ast.Eq)
                and isinstance(node.test.left, ast.Subscript)
                and isinstance(node.test.left.slice, ast.Slice)):
            sl = node.test.left.slice
            if sl.upper is not None or sl.step is not None or sl.lower is None:
                continue
            lower = x.const(sl.lower)
            suffix = x.const(node.test.comparators[0])
            cut = None
            for sub in node.body:
                if (isinstance(sub, ast.Assign) and isinstance(sub.value, ast.Subscript)
                        and isinstance(sub.value.slice, ast.Slice)
                        and sub.value.slice.lower is None and sub.value.slice.upper is not None):
                    cut = x.const(sub.value.slice.upper)
            if cut is None or len(node.body) != 1 or node.orelse:
                raise x.ExtractError('unexpected body of the suffix test in get_script_path')
            found = (suffix, -lower, -cut)
    if found is None:
        raise x.ExtractError('no `path[-N:] == ".ls"` test in get_script_path')
    s.add('lsSuffix', found[0], comment='path[-N:] == <this>')
    s.add('lsSliceLen', found[1], comment='N of path[-N:]')
    s.add('lsCutLen', found[2], comment='M of path = path[:-M]')
    s.add('pathKeys', sorted({x.const(n.args[0]) for n in ast.walk(gp)
                              if isinstance(n, ast.Call) and _attr_chain(n.func) == ['script_config', 'get']}
                             | {x.const(n.slice) for n in ast.walk(gp)
                                if isinstance(n, ast.Subscript) and _attr_chain(n.value) == ['script_config']}),
          comment='manifest keys read by get_script_path')

    # ---- get_script_title: name.replace(a, b).replace(c, d) ... then .title()
    gt = x.find_func(app_cls, 'get_script_title')
    repl, has_title = [], False
    for node in ast.walk(gt):
        if isinstance(node, ast.Call) and isinstance(node.func, ast.Attribute):
            if node.func.attr == 'replace':
                repl.append((node.lineno, node.col_offset, node.end_col_offset,
                             (x.const(node.args[0]), x.const(node.args[1]))))
            elif node.func.attr == 'title' and not node.args:
                has_title = True
    # inner-most call first = shortest source span first
    repl.sort(key=lambda t: (t[0], t[2]))
    s.add('titleReplacements', [r[3] for r in repl], comment='str.replace chain in get_script_title, in order of application')
    s.add('titleUsesStrTitle', has_title, comment='the result is passed through str.title()')

    # ---- queue_script: what is opened and how the job is named
    qs = x.find_func(app_cls, 'queue_script')
    opened = None
    names = []
    for node in ast.walk(qs):
        if isinstance(node, ast.Call) and getattr(node.func, 'id', None) == 'join' and len(node.args) == 2:
            arg = node.args[1]
            if _is_call_of(arg, ['html', 'unescape']) and len(arg.args) == 1:
                opened = 'unescape:' + '.'.join(_attr_chain(arg.args[0]) or ['?'])
            else:
                opened = 'raw:' + '.'.join(_attr_chain(arg) or ['?'])
        if isinstance(node, ast.Call) and isinstance(node.func, ast.Attribute) \
                and node.func.attr in ('spawn_job', 'add_job', 'insert_job'):
            names.append((node.func.attr, '.'.join(_attr_chain(node.args[1]) or ['?'])))
    if opened is None:
        raise x.ExtractError('no join(script_path, <file>) in queue_script')
    s.add('opened', opened, comment='second argument of join() in queue_script')
    s.add('jobNames', sorted(names), comment='(job-control call, name argument) in queue_script')

    # ---- stop_all: job-control calls in order
    sa = x.find_func(app_cls, 'stop_all')
    calls = []
    for node in ast.walk(sa):
        if isinstance(node, ast.Call):
            ch = _attr_chain(node.func)
            if ch and ch[:2] == ['self', '_jobs']:
                calls.append((node.lineno, ch[2]))
    s.add('stopAllCalls', [c for _, c in sorted(calls)], comment='self._jobs.<call>() in WebApp.stop_all, in order')

    # ---- front_end: routes (rule -> FrontEnd method), messages, special paths
    routes = []
    for node in fe.body:
        if isinstance(node, ast.FunctionDef):
            for dec in node.decorator_list:
                if _is_call_of(dec, ['blueprint', 'route']):
                    target = None
                    for sub in ast.walk(node):
                        if isinstance(sub, ast.Call):
                            ch = _attr_chain(sub.func)
                            if ch and ch[0] == 'fe':
                                target = ch[1]
                    routes.append((x.const(dec.args[0]), target or '?'))
    s.add('routes', routes, comment='@blueprint.route(rule) -> fe.<method>')
    fe_cls = x.find_class(fe, 'FrontEnd')
    msgs, specials = [], []
    for fn in fe_cls.body:
        if not isinstance(fn, ast.FunctionDef):
            continue
        for node in ast.walk(fn):
            if isinstance(node, ast.Call):
                ch = _attr_chain(node.func)
                if ch == ['self', 'render_action'] and len(node.args) == 2:
                    msgs.append((fn.name, x.const(node.args[1])))
                if ch == ['web_app', 'get_script_control'] and isinstance(node.args[0], ast.Constant):
                    specials.append((fn.name, x.const(node.args[0])))
    s.add('actionMessages', sorted(set(msgs)), comment='message handed to action.html by each FrontEnd method')
    s.add('specialPaths', sorted(set(specials)), comment='literal paths looked up by FrontEnd methods')

    # ---- the standard library's html.escape: s.replace(a, b) in order
    import html
    import inspect
    src = ast.parse(inspect.getsource(html.escape))
    rep = []
    for node in ast.walk(src):
        if isinstance(node, ast.Call) and isinstance(node.func, ast.Attribute) and node.func.attr == 'replace':
            rep.append((node.lineno, (x.const(node.args[0]), x.const(node.args[1]))))
    s.add('escapeReplacements', [r for _, r in sorted(rep)],
          comment='html.escape(s, quote=True): s.replace(a, b) in order of application')

    def live(vals):
        import sys
        if x.REPO not in sys.path:
            sys.path.insert(0, x.REPO)
        import html as h
        for cp in list(range(0, 0x300)) + [0x2028, 0xfeff, 0x1f600]:
            c = chr(cp)
            want = c
            for a, b in vals['escapeReplacements']:
                want = want.replace(a, b)
            if h.escape(c) != want:
                raise x.ExtractError('live html.escape({!r}) differs from the replacement list'.format(c))
        from web.web_app import ScriptControl
        probe = ScriptControl(*['<{}>'.format(p) if p != 'run_background' else False
                                for p in vals['ctorParams']])
        for attr, param in vals['escapedFields']:
            if getattr(probe, attr) != h.escape('<{}>'.format(param)):
                raise x.ExtractError('live ScriptControl.{} is not html.escape({})'.format(attr, param))
        for attr, param in vals['plainFields']:
            if param != 'run_background' and getattr(probe, attr) != '<{}>'.format(param):
                raise x.ExtractError('live ScriptControl.{} is not {}'.format(attr, param))
    return s, live
