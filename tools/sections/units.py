"""Constants and tables of bardolph/controller/units.py, bardolph/lib/param_helper.py and of
the unit handling in bardolph/vm/machine.py and the device wrappers (properties C07, C14).

Data only.  For every conversion function the *shape* of its body (the AST with every
numeric literal blanked) is compared with the shape the hand-written Lean model mirrors; the
numeric literals themselves are emitted, in source order, under role names.  So a changed
constant (65536 for 65535) flows into the Lean theorems, and a changed shape (a clamp
removed, a branch added) makes the translator refuse — which the checks treat as a broken
tie.  The tables say which function converts which pair of modes and which clamp/convert
helpers each VM handler and each device wrapper applies.
"""
import ast
import hashlib
from fractions import Fraction


def _ordered(node):
    """nodes in source order (depth first, fields in declaration order)"""
    yield node
    for child in ast.iter_child_nodes(node):
        for sub in _ordered(child):
            yield sub


def _is_num(n):
    return (isinstance(n, ast.Constant) and isinstance(n.value, (int, float))
            and not isinstance(n.value, bool))


def _consts(fn):
    return [n.value for n in _ordered(fn) if _is_num(n)]


class _Blank(ast.NodeTransformer):
    def visit_Constant(self, node):
        if _is_num(node):
            return ast.copy_location(ast.Name(id='NUM', ctx=ast.Load()), node)
        return node


def _shape(fn):
    import copy
    tree = _Blank().visit(copy.deepcopy(fn))
    # the decorator list and the body decide the behaviour; doc strings and comments do not
    body = [n for n in tree.body
            if not (isinstance(n, ast.Expr) and isinstance(getattr(n, 'value', None), ast.Constant)
                    and isinstance(n.value.value, str))]
    text = ast.dump(ast.Module(body=tree.decorator_list + [tree.args] + body, type_ignores=[]))
    return hashlib.sha1(text.encode()).hexdigest()[:12]


# shape of each function the Lean model mirrors (sha1 of the blanked AST dump)
SHAPES = {
    'units.time_raw': 'a583ca3484ac',
    'units.time_logical': '96bfc491ca8b',
    'units._pct_to_raw': 'a5d394932da4',
    'units.logical_to_raw': '1cc3da4a28d7',
    'units.raw_to_logical': 'ace14030ea20',
    'units.rgb_to_raw': '69ad200f5b61',
    'units.rgb_to_logical': '6ef092bc2384',
    'units.raw_to_rgb': '67c33253ec01',
    'units.logical_to_rgb': '8a86ad23f599',
    'param_helper.param_8': 'faa72890be07',
    'param_helper.param_16': 'faa72890be07',
    'param_helper.param_32': 'faa72890be07',
    'machine._as_raw_time': '268f5056409a',
    'machine._as_raw_color': '9ea58d74916f',
    'machine._assure_units': '8afe292e66e2',
    'machine._switch_unit_mode': '72d5d94abef6',
    'machine.Registers.get_color': 'baaf0130a402',
    'machine.Registers.store_color': '326f1c1eefa1',
    'machine.Registers.get_power': '4e5ba9a37294',
    'color_matrix._standardize_raw': '3bea1b53732a',
}

# role names of the numeric literals of each function, in source order
ROLES = {
    'units.time_raw': ['timeRawFactor'],
    'units.time_logical': ['timeLogicalZero', 'timeLogicalDivisor'],
    'units._pct_to_raw': ['pctZero', 'pctDivisor', 'pctScale'],
    'units.logical_to_raw': ['l2rHueIndex', 'l2rWrapLo', 'l2rWrapHi', 'l2rHueZero', 'l2rHueModulus',
                             'l2rHueDivisor', 'l2rHueScale', 'l2rSatIndex', 'l2rBriIndex',
                             'l2rKelvinIndex'],
    'units.raw_to_logical': ['r2lHueIndex', 'r2lHueDivisor', 'r2lHueScale',
                             'r2lSatIndex', 'r2lSatCap', 'r2lSatFull', 'r2lSatDivisor', 'r2lSatScale',
                             'r2lBriIndex', 'r2lBriCap', 'r2lBriFull', 'r2lBriDivisor', 'r2lBriScale',
                             'r2lHueFloor', 'r2lSatFloor', 'r2lBriFloor', 'r2lKelvinIndex',
                             'r2lKelvinFloor'],
    'units.rgb_to_raw': ['g2rFloor', 'g2rDivisor', 'g2rRangeLo', 'g2rRangeHi', 'g2rLo', 'g2rScale',
                         'g2rHi', 'g2rKelvinIndex'],
    'units.rgb_to_logical': ['g2lFloor', 'g2lDivisor', 'g2lRangeLo', 'g2lRangeHi', 'g2lHueScale', 'g2lSatScale',
                             'g2lBriScale', 'g2lKelvinIndex'],
    'units.raw_to_rgb': ['r2gDivisor', 'r2gRangeLo', 'r2gRangeHi', 'r2gRedScale', 'r2gGreenScale',
                         'r2gBlueScale', 'r2gKelvinIndex'],
    'units.logical_to_rgb': ['l2gHueIndex', 'l2gHueDivisor', 'l2gSatIndex', 'l2gSatDivisor',
                             'l2gBriIndex', 'l2gBriDivisor', 'l2gRedScale', 'l2gGreenScale',
                             'l2gBlueScale', 'l2gKelvinIndex'],
    'param_helper.param_8': ['param8Lo', 'param8Hi'],
    'param_helper.param_16': ['param16Lo', 'param16Hi'],
    'param_helper.param_32': ['param32Lo', 'param32Hi'],
    'color_matrix._standardize_raw': ['stdLoTest', 'stdLo', 'stdHiTest', 'stdHi'],
    'machine.Registers.get_power': ['powerOn', 'powerOff'],
}

MODES = ['LOGICAL', 'RAW', 'RGB']

# helpers whose application the handler / wrapper tables record
VM_HELPERS = ('_as_raw_color', '_as_raw_time', '_as_raw_matrix', 'get_power', 'get_color')
WRAP_HELPERS = ('param_color', 'param_8', 'param_16', 'param_32', 'param_bool', 'rounded_color')
VM_HANDLERS = ['_color_all', '_color_light', '_color_matrix_light', '_color_mz_light',
               '_color_multiple', '_color_default', '_power_all', '_power_light',
               '_power_multiple']
WRAPPERS = [('bardolph/controller/lifx_lan_light.py', 'Light', 'set_color'),
            ('bardolph/controller/lifx_lan_light.py', 'Light', 'set_power'),
            ('bardolph/controller/lifx_lan_light.py', 'MultizoneLight', 'set_zone_colors'),
            ('bardolph/controller/lifx_lan_light.py', 'MatrixLight', 'set_matrix'),
            ('bardolph/controller/light_set.py', 'LightSet', 'set_color_all_lights'),
            ('bardolph/controller/light_set.py', 'LightSet', 'set_power_all_lights'),
            ('bardolph/controller/lifx_lan_api.py', 'LifxLanApi', 'set_color_all_lights'),
            ('bardolph/controller/lifx_lan_api.py', 'LifxLanApi', 'set_power_all_lights')]


def _calls(fn, names):
    """names of the helper calls inside fn, in source order"""
    out = []
    for n in _ordered(fn):
        if isinstance(n, ast.Call):
            f = n.func
            name = f.attr if isinstance(f, ast.Attribute) else getattr(f, 'id', None)
            if name in names:
                out.append(name)
    return out


def _method(x, tree, cls, name):
    c = x.find_class(tree, cls)
    for node in c.body:
        if isinstance(node, ast.FunctionDef) and node.name == name:
            return node
    raise x.ExtractError('method {}.{} not found'.format(cls, name))


def _module_fn(x, tree, name):
    for node in tree.body:
        if isinstance(node, ast.FunctionDef) and node.name == name:
            return node
    raise x.ExtractError('function {} not found'.format(name))


def _as_nat(x, v, what):
    if isinstance(v, float):
        if not v.is_integer():
            raise x.ExtractError('{}: literal {!r} is not integral'.format(what, v))
        v = int(v)
    if v < 0:
        raise x.ExtractError('{}: negative literal {!r}'.format(what, v))
    return v


def _mode_table_from_dict(x, node):
    """{UnitMode.A: {UnitMode.B: fn | None …} …} -> [(A, B, fn-name | 'None')]"""
    if not isinstance(node, ast.Dict):
        raise x.ExtractError('convert_fn: not a dict literal')
    out = []
    for k, v in zip(node.keys, node.values):
        if not isinstance(v, ast.Dict):
            raise x.ExtractError('convert_fn: inner value is not a dict literal')
        for k2, v2 in zip(v.keys, v.values):
            if isinstance(v2, ast.Constant) and v2.value is None:
                name = 'None'
            elif isinstance(v2, ast.Name):
                name = v2.id
            else:
                raise x.ExtractError('convert_fn: unexpected entry ' + ast.dump(v2)[:60])
            out.append((k.attr, k2.attr, name))
    return out


def section(x):
    s = x.Section('Units', 'Constants and tables of units.py, param_helper.py and the unit handling '
                           'of machine.py and the device wrappers')
    units_tree = x.parse('bardolph/controller/units.py')
    ph_tree = x.parse('bardolph/lib/param_helper.py')
    m_tree = x.parse('bardolph/vm/machine.py')
    cm_tree = x.parse('bardolph/controller/color_matrix.py')

    fns = {}
    for name in ('time_raw', 'time_logical', '_pct_to_raw', 'logical_to_raw', 'raw_to_logical',
                 'rgb_to_raw', 'rgb_to_logical', 'raw_to_rgb', 'logical_to_rgb'):
        fns['units.' + name] = _module_fn(x, units_tree, name)
    for name in ('param_8', 'param_16', 'param_32'):
        fns['param_helper.' + name] = _module_fn(x, ph_tree, name)
    for name in ('_as_raw_time', '_as_raw_color', '_assure_units', '_switch_unit_mode'):
        fns['machine.' + name] = _method(x, m_tree, 'Machine', name)
    for name in ('get_color', 'store_color', 'get_power'):
        fns['machine.Registers.' + name] = _method(x, m_tree, 'Registers', name)
    fns['color_matrix._standardize_raw'] = _method(x, cm_tree, 'ColorMatrix', '_standardize_raw')

    shapes = {k: _shape(fn) for k, fn in fns.items()}
    s.shapes = shapes
    changed = [k for k in sorted(shapes) if SHAPES.get(k) != shapes[k]]
    if changed:
        raise x.ExtractError(
            'the body of {} no longer has the shape the Lean model mirrors (now {})'.format(
                ', '.join(changed), {k: shapes[k] for k in changed}))

    # _EPSILON as an exact rational
    eps = x.eval_const_expr(x.module_assign(units_tree, '_EPSILON'))
    fr = Fraction(eps)
    s.add('epsilonNum', fr.numerator, comment='_EPSILON as an exact fraction: numerator')
    s.add('epsilonDen', fr.denominator, comment='_EPSILON as an exact fraction: denominator')

    roles = ROLES
    for key in ['units.time_raw', 'units.time_logical', 'units._pct_to_raw', 'units.logical_to_raw',
                'units.raw_to_logical', 'units.rgb_to_raw', 'units.rgb_to_logical',
                'units.raw_to_rgb', 'units.logical_to_rgb', 'param_helper.param_8',
                'param_helper.param_16', 'param_helper.param_32', 'color_matrix._standardize_raw',
                'machine.Registers.get_power']:
        consts = _consts(fns[key])
        names = roles[key]
        if len(consts) != len(names):
            raise x.ExtractError('{}: {} numeric literals, the model expects {}: {}'.format(
                key, len(consts), len(names), consts))
        for nm, v in zip(names, consts):
            s.add(nm, _as_nat(x, v, key + '.' + nm), typ='Nat',
                  comment='{}: literal {!r}'.format(key, v))

    # convert_fn: which function converts which pair of modes
    cf = _module_fn(x, units_tree, 'convert_fn')
    table = None
    for n in _ordered(cf):
        if isinstance(n, ast.Dict):
            table = _mode_table_from_dict(x, n)
            break
    if table is None:
        raise x.ExtractError('convert_fn: no dict literal')
    s.add('convertFn', table, comment='units.convert_fn: (from, to, function)')

    # Machine._convert_units_fn: the tuple of (from, to, units.fn)
    mf = _method(x, m_tree, 'Machine', '_convert_units_fn')
    mtable = []
    for n in _ordered(mf):
        if isinstance(n, ast.Assign) and getattr(n.targets[0], 'id', None) == 'converters':
            for elt in n.value.elts:
                a, b, f = elt.elts
                mtable.append((a.attr, b.attr, f.attr))
    if not mtable:
        raise x.ExtractError('_convert_units_fn: converters tuple not found')
    s.add('machineConvertFn', mtable, comment='Machine._convert_units_fn: (from, to, function)')

    # which modes convert time in _as_raw_time / which branch in _as_raw_color, _assure_units:
    # covered by the shape hashes; the mode names in their tests are emitted as data
    def mode_names(fn):
        return [n.attr for n in _ordered(fn)
                if isinstance(n, ast.Attribute) and getattr(n.value, 'id', None) == 'UnitMode']
    s.add('asRawTimeModes', mode_names(fns['machine._as_raw_time']),
          comment='_as_raw_time: modes whose times are multiplied')
    s.add('asRawColorModes', mode_names(fns['machine._as_raw_color']),
          comment='_as_raw_color: RAW -> identity, RGB -> rgb_to_raw, else logical_to_raw')
    s.add('assureUnitsModes', mode_names(fns['machine._assure_units']),
          comment='_assure_units: RAW -> identity, LOGICAL -> raw_to_logical, else raw_to_rgb')
    s.add('switchModes', mode_names(fns['machine._switch_unit_mode']),
          comment='_switch_unit_mode: `to is RAW` -> time_raw, `from is RAW` -> time_logical')
    s.add('switchCalls', [n.attr for n in _ordered(fns['machine._switch_unit_mode'])
                          if isinstance(n, ast.Attribute) and getattr(n.value, 'id', None) == 'units'],
          comment='_switch_unit_mode: units.* functions used, in order')

    # helper calls of every transmitting VM handler and device wrapper
    handlers = []
    for name in VM_HANDLERS:
        handlers.append((name, ','.join(_calls(_method(x, m_tree, 'Machine', name), VM_HELPERS))))
    s.add('vmHandlerHelpers', handlers,
          comment='Machine handler -> conversion helpers it calls, in order')
    wrappers = []
    trees = {}
    for path, cls, name in WRAPPERS:
        tree = trees.setdefault(path, x.parse(path))
        wrappers.append(('{}.{}'.format(cls, name),
                         ','.join(_calls(_method(x, tree, cls, name), WRAP_HELPERS))))
    s.add('wrapperHelpers', wrappers, comment='device wrapper -> clamp helpers it calls, in order')
    pc = _module_fn(x, ph_tree, 'param_color')
    s.add('paramColorHelpers', ','.join(_calls(pc, WRAP_HELPERS)), comment='param_color applies')

    def live(vals):
        import sys
        if x.REPO not in sys.path:
            sys.path.insert(0, x.REPO)
        from bardolph.controller import units as U
        from bardolph.lib import param_helper as P
        from bardolph.vm.machine import Machine
        M = U.UnitMode
        if Fraction(U._EPSILON) != Fraction(vals['epsilonNum'], vals['epsilonDen']):
            raise x.ExtractError('live _EPSILON differs')
        for a, b, name in vals['convertFn']:
            f = U.convert_fn(M[a], M[b])
            got = 'None' if f is None else f.__name__
            if got != name:
                raise x.ExtractError('live convert_fn({}, {}) is {}'.format(a, b, got))
        for a, b, name in vals['machineConvertFn']:
            got = Machine._convert_units_fn(M[a], M[b]).__name__
            if got != name:
                raise x.ExtractError('live _convert_units_fn({}, {}) is {}'.format(a, b, got))
        if len(vals['convertFn']) != 9 or len(vals['machineConvertFn']) != 6:
            raise x.ExtractError('conversion tables have an unexpected size')
        for fn, lo, hi in ((P.param_8, 'param8Lo', 'param8Hi'), (P.param_16, 'param16Lo', 'param16Hi'),
                           (P.param_32, 'param32Lo', 'param32Hi')):
            lo, hi = vals[lo], vals[hi]
            for v, want in ((lo - 7, lo), (lo, lo), (lo + 1, lo + 1), (hi - 1, hi - 1), (hi, hi),
                            (hi + 9, hi), (lo + 0.5, lo), (lo + 1.5, lo + 2), (lo + 2.5, lo + 2),
                            (hi - 0.25, hi)):
                if fn(v) != want or not isinstance(fn(v), int):
                    raise x.ExtractError('live {}({}) = {!r}, expected {}'.format(
                        fn.__name__, v, fn(v), want))
        if U.time_raw(7.25) != 7.25 * vals['timeRawFactor']:
            raise x.ExtractError('live time_raw differs')
        if U.time_logical(7250) != 7250.0 / vals['timeLogicalDivisor'] or U.time_logical(0) != 0.0:
            raise x.ExtractError('live time_logical differs')
        got = U.logical_to_raw([90.5, 50.25, 25.0, 1234])
        want = [90.5 % vals['l2rHueModulus'] / vals['l2rHueDivisor'] * vals['l2rHueScale'],
                50.25 / vals['pctDivisor'] * vals['pctScale'],
                25.0 / vals['pctDivisor'] * vals['pctScale'], 1234]
        if got != want:
            raise x.ExtractError('live logical_to_raw differs: {} vs {}'.format(got, want))
        got = U.raw_to_logical([1000, 2000, 70000, 1234])
        want = [1000.0 / vals['r2lHueDivisor'] * vals['r2lHueScale'],
                2000.0 / vals['r2lSatDivisor'] * vals['r2lSatScale'],
                float(vals['r2lBriFull']), 1234]
        if got != want:
            raise x.ExtractError('live raw_to_logical differs: {} vs {}'.format(got, want))
    return s, live
