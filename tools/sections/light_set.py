"""What bardolph/lib/sorted_list.py and bardolph/controller/light_set.py say literally
(property C13): which `bisect` function each SortedList method calls, the comparison of the
age test in `_garbage_collect`, and the default expiry age."""
import ast


def _bisect_call(x, fn):
    """name of the single `bisect.<f>(…)` call in a method"""
    found = []
    for node in ast.walk(fn):
        if (isinstance(node, ast.Call) and isinstance(node.func, ast.Attribute)
                and isinstance(node.func.value, ast.Name) and node.func.value.id == 'bisect'):
            found.append(node.func.attr)
    if len(found) != 1:
        raise x.ExtractError('{}: expected one bisect.* call, found {}'.format(fn.name, found))
    return found[0]


def section(x):
    s = x.Section('LightSet', 'Literals of sorted_list.py and light_set.py')
    tree = x.parse('bardolph/lib/sorted_list.py')
    cls = x.find_class(tree, 'SortedList')
    s.add('indexBisect', _bisect_call(x, x.find_func(cls, '_index_of')),
          comment='bisect function used by SortedList._index_of')
    s.add('addInsert', _bisect_call(x, x.find_func(cls, 'add')),
          comment='bisect function used by SortedList.add')
    s.add('nextBisect', _bisect_call(x, x.find_func(cls, 'next')),
          comment='bisect function used by SortedList.next')
    s.add('prevBisect', _bisect_call(x, x.find_func(cls, 'prev')),
          comment='bisect function used by SortedList.prev')

    tree = x.parse('bardolph/controller/light_set.py')
    cls = x.find_class(tree, 'LightSet')
    gc = x.find_func(cls, '_garbage_collect')
    cmp_ops = []
    for node in ast.walk(gc):
        if isinstance(node, ast.Compare) and 'get_age' in ast.dump(node.left):
            if len(node.ops) != 1 or 'max_age' not in ast.dump(node.comparators[0]):
                raise x.ExtractError('unexpected age comparison in _garbage_collect')
            cmp_ops.append(type(node.ops[0]).__name__)
    if len(cmp_ops) != 1:
        raise x.ExtractError('expected one age comparison in _garbage_collect')
    s.add('gcCompare', cmp_ops[0], comment='light.get_age() <op> max_age in _garbage_collect')
    default = None
    for node in ast.walk(gc):
        if (isinstance(node, ast.Call) and isinstance(node.func, ast.Attribute)
                and node.func.attr == 'get_value' and node.args
                and isinstance(node.args[0], ast.Constant)
                and node.args[0].value == 'light_gc_time' and len(node.args) == 2):
            default = x.eval_const_expr(node.args[1])
    if default is None:
        raise x.ExtractError("settings.get_value('light_gc_time', <default>) not found")
    s.add('gcDefault', default, comment="default of the 'light_gc_time' setting, seconds")

    def live(vals):
        import bisect
        if bisect.bisect is not bisect.bisect_right or bisect.insort is not bisect.insort_right:
            raise x.ExtractError('bisect.bisect / bisect.insort are not the _right variants')
    return s, live
