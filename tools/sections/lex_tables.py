"""Tables of the lexer (bardolph/parser/lex.py, token.py): keyword list, register words,
abbreviations, punctuation, the regular-expression sources and their alternation order."""
import ast


def section(x):
    s = x.Section('LexTables', 'Lexer tables (bardolph/parser/lex.py, token.py)')
    ttree = x.parse('bardolph/parser/token.py')
    tt = x.find_class(ttree, 'TokenTypes')
    members = [n.targets[0].id for n in tt.body
               if isinstance(n, ast.Assign) and isinstance(n.targets[0], ast.Name)]
    s.add('tokenTypes', members, comment='TokenTypes members in order')
    ltree = x.parse('bardolph/parser/lex.py')
    lex = x.find_class(ltree, 'Lex')
    notkw = [e.attr for e in x.class_assign(lex, '_NOT_KEYWORDS').elts]
    s.add('notKeywords', notkw, comment='Lex._NOT_KEYWORDS')
    s.add('keywords', sorted(m.lower() for m in members if m not in notkw),
          comment='lower-case words that are keywords')
    reg_words = x.const(x.class_assign(lex, '_REG')).split()
    s.add('registerWords', reg_words, comment='Lex._REG.split()')
    for name in ('_CMP_SPEC', '_NAME_SPEC', '_NON_ALNUM_LIST', '_NON_ALNUM_SPEC', '_NUMBER_SPEC',
                 '_LITERAL_STRING_SPEC', '_DEFAULT_SPEC'):
        s.add(name.strip('_').lower().replace('_s', 'S').replace('_a', 'A').replace('_l', 'L'),
              x.const(x.class_assign(lex, name)), comment='Lex.' + name)
    order = [getattr(e, 'id', None) or (e.value.id + '.' + e.attr)
             for e in x.class_assign(lex, '_TOKEN_SPEC').args[0].elts]
    s.add('alternationOrder', order, comment="order of the alternatives in Lex._TOKEN_SPEC")
    abbr = None
    for node in ast.walk(x.find_func(lex, '_unabbreviate')):
        if isinstance(node, ast.Dict):
            abbr = sorted((x.const(k), x.const(v)) for k, v in zip(node.keys, node.values))
    s.add('abbreviations', abbr, comment='Lex._unabbreviate')
    pairs = None
    for node in ast.walk(x.find_func(lex, '_token_type')):
        if isinstance(node, ast.Assign) and getattr(node.targets[0], 'id', '') == 'pairs':
            pairs = [e.elts[1].attr for e in node.value.elts]
    s.add('classifyOrder', pairs, comment='order of the regex tests in Lex._token_type')
    has_string = [e.attr for e in ast.walk(x.find_func(tt, 'has_string'))
                  if isinstance(e, ast.Attribute) and isinstance(e.value, ast.Name)
                  and e.value.id == 'TokenTypes']
    s.add('hasString', has_string, comment='TokenTypes.has_string')

    def live(vals):
        import sys
        sys.path.insert(0, x.REPO)
        from bardolph.parser.lex import Lex
        from bardolph.parser.token import TokenTypes
        if [m.name for m in TokenTypes] != vals['tokenTypes']:
            raise x.ExtractError('live TokenTypes differ')
        lx = Lex('')
        for w in vals['keywords']:
            if lx._token_type(w).name != w.upper():
                raise x.ExtractError('live keyword {} differs'.format(w))
        for w in [m.lower() for m in vals['notKeywords']] + ['Set', 'IF', 'xyz']:
            if lx._token_type(w).name not in ('NAME', 'REGISTER'):
                raise x.ExtractError('live word {} is not a name'.format(w))
        if Lex._REG_LIST != vals['registerWords']:
            raise x.ExtractError('live register list differs')
    return s, live
