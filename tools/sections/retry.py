"""Retry decorators of the device wrappers (property C12).

Data only: `_MAX_TRIES` of bardolph/controller/lifx_lan_light.py and, for every method
decorated with `@tries(n, ex_type, fail_value)` in the wrapper classes `Light`,
`MultizoneLight`, `MatrixLight` (lifx_lan_light.py) and in `LifxLanApi` (lifx_lan_api.py),
the tuple (class, method, number of tries, fail value as a Python literal).

The shape of the loop in bardolph/lib/retry.py is verified statically (start at
`num_tries`, continue while `> 0`, one decrement per caught exception, `return fail_value`
after the loop) and the whole table is cross-checked against the live objects: every
decorated method is called on a wrapper whose device raises `WorkflowException` for ever and
must make exactly the extracted number of attempts and return the extracted fail value; a
different exception type must propagate after one attempt.
"""
import ast

CLASSES = (('bardolph/controller/lifx_lan_light.py', ('Light', 'MultizoneLight', 'MatrixLight')),
           ('bardolph/controller/lifx_lan_api.py', ('LifxLanApi',)))


def _literal(x, node):
    """fail-value expressions: literals, lists, unary minus and `list * int`"""
    for sub in ast.walk(node):
        if not isinstance(sub, (ast.Constant, ast.List, ast.Tuple, ast.BinOp, ast.UnaryOp,
                                ast.Mult, ast.USub, ast.Load)):
            raise x.ExtractError('fail value is not a literal expression: ' + ast.dump(node)[:80])
    return eval(compile(ast.Expression(node), '<retry>', 'eval'), {'__builtins__': {}})


def _ex_name(node):
    if isinstance(node, ast.Name):
        return node.id
    if isinstance(node, ast.Attribute):
        return node.attr
    return None


def _tries_decorators(x, cls, consts):
    out = []
    for fn in cls.body:
        if not isinstance(fn, ast.FunctionDef):
            continue
        for dec in fn.decorator_list:
            if not (isinstance(dec, ast.Call) and _ex_name(dec.func) == 'tries'):
                continue
            args = list(dec.args)
            kw = {k.arg: k.value for k in dec.keywords}
            n_node = args[0] if args else kw.get('num_tries')
            ex_node = args[1] if len(args) > 1 else kw.get('ex_type')
            fv_node = args[2] if len(args) > 2 else kw.get('fail_value')
            if n_node is None or ex_node is None:
                raise x.ExtractError('@tries of {}.{} lacks arguments'.format(cls.name, fn.name))
            if isinstance(n_node, ast.Constant):
                n = n_node.value
            elif _ex_name(n_node) in consts:
                n = consts[_ex_name(n_node)]
            else:
                raise x.ExtractError('@tries count of {}.{} is neither a literal nor _MAX_TRIES'
                                     .format(cls.name, fn.name))
            if not isinstance(n, int) or isinstance(n, bool) or n < 0:
                raise x.ExtractError('@tries count of {}.{} is not a natural number'.format(
                    cls.name, fn.name))
            if _ex_name(ex_node) != 'WorkflowException':
                raise x.ExtractError('@tries of {}.{} retries on {} (model: WorkflowException)'
                                     .format(cls.name, fn.name, _ex_name(ex_node)))
            fv = None if fv_node is None else _literal(x, fv_node)
            out.append((cls.name, fn.name, n, repr(fv)))
    return out


def _check_retry_loop(x):
    """retry.py: tries_remaining = num_tries; while tries_remaining > 0: try: return fn(..)
    except ex_type: … tries_remaining -= 1; …; return fail_value"""
    tree = x.parse('bardolph/lib/retry.py')
    wrapper = x.find_func(tree, 'param_wrapper')
    init = [n for n in wrapper.body if isinstance(n, ast.Assign)]
    if not (init and isinstance(init[0].value, ast.Name) and init[0].value.id == 'num_tries'
            and init[0].targets[0].id == 'tries_remaining'):
        raise x.ExtractError('retry.py: the counter does not start at num_tries')
    loops = [n for n in wrapper.body if isinstance(n, ast.While)]
    if len(loops) != 1:
        raise x.ExtractError('retry.py: expected exactly one while loop')
    test = loops[0].test
    if not (isinstance(test, ast.Compare) and len(test.ops) == 1 and isinstance(test.ops[0], ast.Gt)
            and isinstance(test.left, ast.Name) and test.left.id == 'tries_remaining'
            and isinstance(test.comparators[0], ast.Constant) and test.comparators[0].value == 0):
        raise x.ExtractError('retry.py: loop test is not `tries_remaining > 0`')
    trys = [n for n in loops[0].body if isinstance(n, ast.Try)]
    if len(trys) != 1 or len(loops[0].body) != 1:
        raise x.ExtractError('retry.py: loop body is not a single try statement')
    t = trys[0]
    if not (len(t.body) == 1 and isinstance(t.body[0], ast.Return)):
        raise x.ExtractError('retry.py: the try body does not return the call directly')
    if len(t.handlers) != 1 or _ex_name(t.handlers[0].type) != 'ex_type':
        raise x.ExtractError('retry.py: the handler does not catch exactly ex_type')
    decs = [n for n in t.handlers[0].body if isinstance(n, ast.AugAssign)]
    if not (len(decs) == 1 and isinstance(decs[0].op, ast.Sub) and decs[0].target.id == 'tries_remaining'
            and isinstance(decs[0].value, ast.Constant) and decs[0].value.value == 1):
        raise x.ExtractError('retry.py: the handler does not decrement the counter by one')
    for n in ast.walk(t.handlers[0]):
        if isinstance(n, (ast.Raise, ast.Return, ast.Break, ast.Continue)):
            raise x.ExtractError('retry.py: the handler leaves the loop')
    last = wrapper.body[-1]
    if not (isinstance(last, ast.Return) and isinstance(last.value, ast.Name)
            and last.value.id == 'fail_value'):
        raise x.ExtractError('retry.py: the wrapper does not end with `return fail_value`')


def _is_tries_wrapper(fn):
    while fn is not None:
        code = getattr(fn, '__code__', None)
        if (code is not None and code.co_name == 'param_wrapper'
                and code.co_filename.endswith('retry.py')):
            return True
        fn = getattr(fn, '__wrapped__', None)
    return False


def section(x):
    s = x.Section('Retry', 'Retry decorators of lifx_lan_light.py / lifx_lan_api.py and retry.py')
    _check_retry_loop(x)
    light_tree = x.parse('bardolph/controller/lifx_lan_light.py')
    max_tries = x.const(x.module_assign(light_tree, '_MAX_TRIES'))
    if not isinstance(max_tries, int) or isinstance(max_tries, bool) or max_tries < 0:
        raise x.ExtractError('_MAX_TRIES is not a natural number')
    s.add('maxTries', max_tries, comment='lifx_lan_light._MAX_TRIES')
    table = []
    for rel, names in CLASSES:
        tree = x.parse(rel)
        for name in names:
            table.extend(_tries_decorators(x, x.find_class(tree, name), {'_MAX_TRIES': max_tries}))
    s.add('decorated', table, typ='List (String × String × Nat × String)',
          comment='(class, method, tries, fail value) of every @tries(n, WorkflowException, fail) method')

    def live(vals):
        import logging
        import sys
        sys.path.insert(0, x.REPO)
        previous = logging.root.manager.disable
        logging.disable(logging.CRITICAL)
        try:
            _live(vals)
        finally:
            logging.disable(previous)

    def _live(vals):
        from lifxlan.errors import WorkflowException
        from bardolph.controller import lifx_lan_api, lifx_lan_light
        from bardolph.lib import retry
        if lifx_lan_light._MAX_TRIES != vals['maxTries']:
            raise x.ExtractError('live _MAX_TRIES differs')
        # the decorator itself, on a toy function, for several counts and fault prefixes
        for n in range(0, 6):
            for k in list(range(0, n + 2)) + [None]:
                calls = []

                def fn():
                    calls.append(1)
                    if k is None or len(calls) <= k:
                        raise WorkflowException('x')
                    return 'value'
                got = retry.tries(n, WorkflowException, 'fail')(fn)()
                fails = n if k is None else min(k, n)
                want = 'value' if (k is not None and k < n) else 'fail'
                want_calls = fails + (1 if want == 'value' else 0)
                if got != want or len(calls) != want_calls:
                    raise x.ExtractError(
                        'live tries({}) with {} failing attempts made {} attempts and returned {!r}'
                        .format(n, 'endless' if k is None else k, len(calls), got))
        calls = []

        def other():
            calls.append(1)
            raise KeyError('x')
        try:
            retry.tries(3, WorkflowException, 'fail')(other)()
            raise x.ExtractError('live tries swallowed a foreign exception type')
        except KeyError:
            if len(calls) != 1:
                raise x.ExtractError('live tries retried a foreign exception type')

        # every decorated wrapper method on a device that never answers
        class Silent:
            def __init__(self):
                self.attempts = 0

            def __getattr__(self, name):
                def call(*args, **kwargs):
                    self.attempts += 1
                    raise WorkflowException('silent')
                return call

        class Payload:
            def get_colors(self):
                return []

        samples = {'set_color': ([0, 0, 0, 0], 0), 'set_power': (0, 0),
                   'set_zone_colors': (0, 1, [0, 0, 0, 0], 0), 'set_matrix': (Payload(), 0),
                   'set_color_all_lights': ([0, 0, 0, 0], 0), 'set_power_all_lights': (0, 0)}
        seen = set()
        for cls_name, meth, n, fv in vals['decorated']:
            seen.add((cls_name, meth))
            silent = Silent()
            if cls_name == 'LifxLanApi':
                obj = lifx_lan_api.LifxLanApi.__new__(lifx_lan_api.LifxLanApi)
                obj._lifxlan = silent
            else:
                cls = getattr(lifx_lan_light, cls_name)
                obj = cls.__new__(cls)
                obj._impl = silent
                obj._width = obj._height = obj._num_zones = 1
            got = getattr(obj, meth)(*samples.get(meth, ()))
            if silent.attempts != n or repr(got) != fv:
                raise x.ExtractError('live {}.{} made {} attempts and returned {!r} (table: {}, {})'
                                     .format(cls_name, meth, silent.attempts, got, n, fv))
        # no decorated method may be missing from the table
        for mod, names in ((lifx_lan_light, CLASSES[0][1]), (lifx_lan_api, CLASSES[1][1])):
            for cls_name in names:
                for meth, fn in vars(getattr(mod, cls_name)).items():
                    if _is_tries_wrapper(fn) and (cls_name, meth) not in seen:
                        raise x.ExtractError('live {}.{} is wrapped but not in the table'.format(
                            cls_name, meth))
    return s, live
