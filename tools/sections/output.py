"""Literals of the output path (property C19): IoOp / Register members, the attributes of
`Registers`, the lexer's register words, the separator / line-end / escape strings of
`std_out_output.py` and `vm_io.py`."""
import ast


def _enum_members(x, tree, name):
    cls = x.find_class(tree, name)
    out = []
    for node in cls.body:
        if isinstance(node, ast.Assign) and len(node.targets) == 1 \
                and isinstance(node.targets[0], ast.Name):
            out.append(node.targets[0].id)
    if not out:
        raise x.ExtractError('no members in ' + name)
    return out


def _print_calls(fn):
    """(positional constant args, end keyword) of every builtin print(...) call, in order"""
    calls = []
    for node in ast.walk(fn):
        if isinstance(node, ast.Call) and isinstance(node.func, ast.Name) \
                and node.func.id == 'print':
            calls.append(node)
    calls.sort(key=lambda n: (n.lineno, n.col_offset))
    return calls


def _end_kw(x, call):
    for kw in call.keywords:
        if kw.arg == 'end':
            return x.const(kw.value)
    return '\n'


def section(x):
    s = x.Section('Output', 'Literals of vm_codes.IoOp/Register, machine.Registers, lex.Lex._REG, '
                            'std_out_output.StdOutOutput and vm_io.VmIo._printf')
    codes = x.parse('bardolph/vm/vm_codes.py')
    s.add('ioOps', _enum_members(x, codes, 'IoOp'), comment='members of vm_codes.IoOp')
    s.add('registerMembers', _enum_members(x, codes, 'Register'),
          comment='members of vm_codes.Register (Register.from_string upper-cases the name)')

    mach = x.parse('bardolph/vm/machine.py')
    regs = x.find_class(mach, 'Registers')
    init = x.find_func(regs, '__init__')
    attrs = []
    for node in ast.walk(init):
        if isinstance(node, ast.Assign):
            for tgt in node.targets:
                if isinstance(tgt, ast.Attribute) and getattr(tgt.value, 'id', None) == 'self':
                    attrs.append(tgt.attr)
    s.add('registerAttrs', sorted(attrs), comment='attributes set in machine.Registers.__init__')
    init_vals = []
    for node in init.body:
        if isinstance(node, ast.Assign) and len(node.targets) == 1 \
                and isinstance(node.targets[0], ast.Attribute):
            v = node.value
            if isinstance(v, ast.Constant):
                c = v.value
                if c is None:
                    kind, text = 'n', ''
                elif isinstance(c, bool):
                    kind, text = 'b', '1' if c else '0'
                elif isinstance(c, int):
                    kind, text = 'i', str(c)
                elif isinstance(c, float):
                    kind, text = 'f', repr(c)
                else:
                    raise x.ExtractError('unexpected register default ' + repr(c))
            else:
                kind, text = 'o', ast.unparse(v)
            init_vals.append((node.targets[0].attr, kind, text))
    s.add('registerInit', sorted(init_vals),
          comment='Registers.__init__: attribute, kind (n None, b bool, i int, f float, o other: '
                  'source text = str() of the enum member), text')

    lex = x.parse('bardolph/parser/lex.py')
    s.add('lexRegisters', x.const(x.class_assign(x.find_class(lex, 'Lex'), '_REG')).split(),
          comment='Lex._REG.split(): the words the lexer types as REGISTER')

    sink = x.parse('bardolph/lib/std_out_output.py')
    cls = x.find_class(sink, 'StdOutOutput')
    out_calls = _print_calls(x.find_func(cls, 'out'))
    if len(out_calls) != 2:
        raise x.ExtractError('StdOutOutput.out: expected two print calls')
    sep, val = out_calls
    if len(sep.args) != 1 or len(val.args) != 1 or not isinstance(val.args[0], ast.Name):
        raise x.ExtractError('StdOutOutput.out: unexpected print arguments')
    s.add('separator', x.const(sep.args[0]) + _end_kw(x, sep),
          comment="what `print(' ', end='')` in StdOutOutput.out writes")
    s.add('valueEnd', _end_kw(x, val), comment="the end= of `print(output, end='')`")
    nl_calls = _print_calls(x.find_func(cls, 'newline'))
    if len(nl_calls) != 1 or nl_calls[0].args:
        raise x.ExtractError('StdOutOutput.newline: expected one print() call')
    newline = _end_kw(x, nl_calls[0])
    s.add('lineEnd', newline, comment='what `print()` in StdOutOutput.newline writes')
    # flush: either calls self.newline() or writes a constant to sys.stdout
    flush = x.find_func(cls, 'flush')
    term = None
    for node in ast.walk(flush):
        if isinstance(node, ast.Call) and isinstance(node.func, ast.Attribute):
            if node.func.attr == 'newline':
                term = newline
            elif node.func.attr == 'write' and node.args:
                term = x.const(node.args[0])
    if term is None:
        raise x.ExtractError('StdOutOutput.flush does not end the pending line')
    s.add('flushLineEnd', term, comment='what StdOutOutput.flush writes when a line is pending')

    vmio = x.parse('bardolph/vm/vm_io.py')
    fn = x.find_func(x.find_class(vmio, 'VmIo'), '_printf')
    esc = None
    for node in ast.walk(fn):
        if isinstance(node, ast.Call) and isinstance(node.func, ast.Attribute) \
                and node.func.attr == 'replace' and len(node.args) == 2:
            esc = (x.const(node.args[0]), x.const(node.args[1]))
    if esc is None:
        raise x.ExtractError('no .replace(a, b) in VmIo._printf')
    s.add('escapeFrom', esc[0], comment="first argument of replace in VmIo._printf")
    s.add('escapeTo', esc[1], comment="second argument of replace in VmIo._printf")

    def live(vals):
        import sys
        sys.path.insert(0, x.REPO)
        from bardolph.vm.vm_codes import IoOp, Register
        from bardolph.vm.machine import Registers
        from bardolph.parser.lex import Lex
        if [m.name for m in IoOp] != vals['ioOps']:
            raise x.ExtractError('live IoOp members differ')
        if [m.name for m in Register] != vals['registerMembers']:
            raise x.ExtractError('live Register members differ')
        if sorted(vars(Registers())) != vals['registerAttrs']:
            raise x.ExtractError('live Registers attributes differ')
        live_regs = vars(Registers())
        for attr, kind, text in vals['registerInit']:
            got = live_regs[attr]
            want = {'n': lambda: None, 'b': lambda: text == '1', 'i': lambda: int(text),
                    'f': lambda: float(text), 'o': lambda: text}[kind]()
            if kind == 'o':
                got = str(got)
            if got != want or (kind != 'o' and type(got) is not type(want)):
                raise x.ExtractError('live default of register {} differs'.format(attr))
        if list(Lex._REG_LIST) != vals['lexRegisters']:
            raise x.ExtractError('live Lex._REG_LIST differs')
        for name in ['hue', 'Hue', 'pc', 'x', 'mat_body', 'from_string', 'result', '']:
            want = name.upper() in vals['registerMembers']
            if (Register.from_string(name) is not None) != want:
                raise x.ExtractError('live Register.from_string({!r}) differs'.format(name))
    return s, live
