"""Which attributes the stateful objects have and which of them their reset/clear methods
re-initialise (property C17): Machine.__init__/reset, Registers, VmIo, VmMath, CallStack,
Parser.__init__/parse, Context.__init__/clear, CodeGen."""
import ast


def self_attrs_assigned(fn):
    """names of `self.X = …` targets in a function"""
    out = []
    for node in ast.walk(fn):
        if isinstance(node, (ast.Assign, ast.AnnAssign, ast.AugAssign)):
            targets = node.targets if isinstance(node, ast.Assign) else [node.target]
            for t in targets:
                for sub in ast.walk(t):
                    if isinstance(sub, ast.Attribute) and isinstance(sub.value, ast.Name) \
                            and sub.value.id == 'self' and sub.attr not in out:
                        out.append(sub.attr)
    return out


def self_attrs_reset(fn):
    """attributes re-initialised by a reset method: assigned, or `.clear()`/`.reset()`ed"""
    out = self_attrs_assigned(fn)
    for node in ast.walk(fn):
        if isinstance(node, ast.Call) and isinstance(node.func, ast.Attribute) \
                and node.func.attr in ('clear', 'reset', '__init__'):
            tgt = node.func.value
            if isinstance(tgt, ast.Attribute) and isinstance(tgt.value, ast.Name) \
                    and tgt.value.id == 'self' and tgt.attr not in out:
                out.append(tgt.attr)
            if isinstance(tgt, ast.Name) and tgt.id == 'self' and node.func.attr == '__init__':
                out.append('*')      # self.__init__(): everything
    return out


def attrs_used(cls, skip):
    """attributes of self referenced in the methods of a class other than `skip`"""
    out = []
    for fn in cls.body:
        if isinstance(fn, ast.FunctionDef) and fn.name not in skip:
            for node in ast.walk(fn):
                if isinstance(node, ast.Attribute) and isinstance(node.value, ast.Name) \
                        and node.value.id == 'self' and node.attr.startswith('_') \
                        and not node.attr.startswith('__') and node.attr not in out:
                    out.append(node.attr)
    return out


def section(x):
    s = x.Section('ResetCoverage', 'attributes of the stateful compiler/VM objects and what '
                  'their reset methods re-initialise')
    m = x.parse('bardolph/vm/machine.py')
    machine = x.find_class(m, 'Machine')
    s.add('machineAttrs', sorted(self_attrs_assigned(x.find_func(machine, '__init__'))))
    s.add('machineReset', sorted(self_attrs_reset(x.find_func(machine, 'reset'))))
    s.add('machineRunSets', sorted(self_attrs_assigned(x.find_func(machine, 'run'))))
    regs = x.find_class(m, 'Registers')
    s.add('registersReset', sorted(self_attrs_reset(x.find_func(regs, 'reset'))))
    io = x.find_class(x.parse('bardolph/vm/vm_io.py'), 'VmIo')
    s.add('vmIoAttrs', sorted(self_attrs_assigned(x.find_func(io, '__init__'))))
    s.add('vmIoReset', sorted(self_attrs_reset(x.find_func(io, 'reset'))))
    vmath = x.find_class(x.parse('bardolph/vm/vm_math.py'), 'VmMath')
    s.add('vmMathAttrs', sorted(self_attrs_assigned(x.find_func(vmath, '__init__'))))
    s.add('vmMathReset', sorted(self_attrs_reset(x.find_func(vmath, 'reset'))))
    cs = x.find_class(x.parse('bardolph/vm/call_stack.py'), 'CallStack')
    s.add('callStackReset', sorted(self_attrs_reset(x.find_func(cs, 'reset'))))
    p = x.parse('bardolph/parser/parse.py')
    parser = x.find_class(p, 'Parser')
    s.add('parserAttrs', sorted(self_attrs_assigned(x.find_func(parser, '__init__'))))
    s.add('parserParseResets', sorted(self_attrs_reset(x.find_func(parser, 'parse'))))
    c = x.parse('bardolph/parser/context.py')
    ctx = x.find_class(c, 'Context')
    s.add('contextAttrs', sorted(self_attrs_assigned(x.find_func(ctx, '__init__'))))
    s.add('contextClear', sorted(self_attrs_reset(x.find_func(ctx, 'clear'))))
    s.add('contextUsed', sorted(a for a in attrs_used(ctx, ('__init__', 'clear'))
                                if a in self_attrs_assigned(x.find_func(ctx, '__init__'))))
    cg = x.find_class(x.parse('bardolph/parser/code_gen.py'), 'CodeGen')
    s.add('codeGenAttrs', sorted(self_attrs_assigned(x.find_func(cg, '__init__'))))
    s.add('codeGenClear', sorted(self_attrs_reset(x.find_func(cg, 'clear'))))

    def live(vals):
        import sys
        sys.path.insert(0, x.REPO)
        from bardolph.lib import injection, i_lib
        from bardolph.parser.context import Context
        from bardolph.parser.code_gen import CodeGen
        have = sorted(vars(Context()).keys())
        if have != vals['contextAttrs']:
            raise x.ExtractError('live Context attributes {} differ from {}'.format(
                have, vals['contextAttrs']))
        if sorted(vars(CodeGen()).keys()) != vals['codeGenAttrs']:
            raise x.ExtractError('live CodeGen attributes differ')
    return s, live
