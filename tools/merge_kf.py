#!/usr/bin/env python3
"""resolve a merge conflict in known_findings.json by taking the union of both sides"""
import json, subprocess
def side(n):
    return json.loads(subprocess.run(['git', 'show', ':{}:known_findings.json'.format(n)], capture_output=True, text=True, cwd='/verif').stdout)
ours, theirs = side(2), side(3)
out = dict(ours)
seen = {json.dumps(f, sort_keys=True) for f in ours['findings']}
for f in theirs['findings']:
    if json.dumps(f, sort_keys=True) not in seen:
        out['findings'].append(f)
for line in theirs['fixed']:
    if line not in out['fixed']:
        out['fixed'].append(line)
json.dump(out, open('/verif/known_findings.json', 'w'), indent=1, ensure_ascii=False)
open('/verif/known_findings.json', 'a').write('\n')
