#!/usr/bin/env python3
"""C08 — queued jobs run one at a time, in order, exactly once, and the queue drains.

The REAL `bardolph.lib.job_control.JobControl` runs on real threads under the deterministic
scheduler of `sched.py` (every source line of job_control.py is a switch point).

* oracle (written from the property text, uses only the instrumented job bodies and the public
  getters `get_queued/get_current/has_jobs/is_running`): exclusion, start order against a
  specification deque fed with the linearised enqueues, exactly-once, drained + `has_jobs()`
  false at the end, background `is_running(name)` tracking, no deadlock, no internal error
  escaping a controller call;
* correspondence: the same schedule, line by line, in the Lean transition system
  (`jc.replay`), compared after EVERY step: queue, active, background, running bodies, lock
  owner/count and the source line the stepped thread stands at.
"""
import json
import os
import sys

sys.path.insert(0, os.path.dirname(os.path.abspath(__file__)))
from core import Check, InfraError, run_check, ROOT  # noqa: E402
import env  # noqa: E402,F401  (puts the repository on sys.path, silences logging)
import sched  # noqa: E402

OPS_WITH_JOB = ('add', 'insert', 'spawn')


# ------------------------------------------------------------------------------ scenarios
# scenario = {'clients': [[(op, arg), ...], ...], 'jobs': {label: (kind, n)}}
#   op in add/insert/spawn (arg = job label), clear, stopjob/isrun (arg = a label), stopcur,
#   stopbg, has;  kind in fin / raise / block / stoppable;  n = internal yield points
def scenario_text(scn):
    def op_text(op, arg):
        return op if arg is None else '{}:{}'.format(op, arg)
    return '/'.join(','.join(op_text(o, a) for o, a in prog) for prog in scn['clients'])


def random_scenario(rng):
    n_clients = rng.choice([1, 2, 2, 2, 3, 3])
    n_jobs = rng.choice([1, 2, 2, 3, 3, 4, 4])
    labels = list(range(1, n_jobs + 1))
    clients = [[] for _ in range(n_clients)]
    jobs = {}
    for lbl in labels:
        op = rng.choice(['add', 'add', 'add', 'insert', 'insert', 'spawn'])
        kind = rng.choice(['fin', 'fin', 'raise', 'raise', 'block', 'stoppable'])
        jobs[lbl] = (kind, rng.choice([0, 0, 1, 1, 2]))
        clients[rng.randrange(n_clients)].append((op, lbl))
    n_extra = rng.choice([0, 0, 1, 1, 2, 3])
    for _ in range(n_extra):
        op = rng.choice(['clear', 'stopjob', 'stopcur', 'stopcur', 'stopbg', 'has', 'isrun'])
        arg = rng.choice(labels) if op in ('stopjob', 'isrun') else None
        prog = clients[rng.randrange(n_clients)]
        prog.insert(rng.randint(0, len(prog)), (op, arg))
    clients = [p for p in clients if p] or [[('has', None)]]
    return {'clients': clients, 'jobs': jobs}


# (scenario, pre-emption bound quick, bound thorough, cap thorough)
FIXED_SCENARIOS = [
    # stop_current racing with completion
    ({'clients': [[('add', 1)], [('stopcur', None)]], 'jobs': {1: ('fin', 0)}}, 2, 3, 25000),
    # clear racing with the start of a job
    ({'clients': [[('add', 1)], [('clear', None)]], 'jobs': {1: ('fin', 0)}}, 2, 3, 25000),
    # stop_job on a background job that waits to be stopped; has_jobs
    ({'clients': [[('spawn', 1), ('stopjob', 1)], [('has', None)]], 'jobs': {1: ('block', 0)}},
     2, 3, 25000),
    # is_running racing with a background job
    ({'clients': [[('spawn', 1)], [('isrun', 1)]], 'jobs': {1: ('fin', 0)}}, 2, 3, 25000),
    # completion racing with an add (the window after `_active_agent = None`); first job raises
    ({'clients': [[('add', 1)], [('add', 2)]], 'jobs': {1: ('raise', 0), 2: ('fin', 0)}}, 1, 2, None),
    # completion racing with a front insert
    ({'clients': [[('add', 1)], [('insert', 2)]], 'jobs': {1: ('fin', 0), 2: ('fin', 0)}}, 1, 2, None),
    # two adds racing with a front insert; the first job raises
    ({'clients': [[('add', 1), ('add', 2)], [('insert', 3)]],
     'jobs': {1: ('raise', 0), 2: ('fin', 0), 3: ('fin', 0)}}, 1, 2, 30000),
    # clear racing with the start of the next job
    ({'clients': [[('add', 1), ('add', 2)], [('clear', None)]],
     'jobs': {1: ('fin', 0), 2: ('fin', 0)}}, 1, 2, 30000),
    # background job alongside the queue
    ({'clients': [[('spawn', 1), ('isrun', 1)], [('add', 2)]],
     'jobs': {1: ('fin', 0), 2: ('fin', 0)}}, 1, 2, 30000),
]


# ------------------------------------------------------------------------------ one run
class Body:
    """instrumented job: the only thing the oracle trusts besides the public getters"""

    def __init__(self, run, label, kind, n):
        self.run, self.label, self.kind, self.n = run, label, kind, n
        self.stop = False
        self.running = False
        self.begun = 0
        self.ended = 0
        self.outcome = None

    def execute(self):
        run, s = self.run, self.run.sched
        self.running = True
        self.begun += 1
        run.body_begin(self)
        try:
            for i in range(self.n):
                s.yield_point(('body', self.label, i))
                if self.kind == 'stoppable' and self.stop:
                    break
            if self.kind == 'block':
                s.block(lambda: self.stop or run.clients_done(), 'body-wait',
                        label=('body', self.label, 'wait'))
            if self.kind == 'raise':
                raise JobError('job {} fails'.format(self.label))
        except JobError:
            self.outcome = 'raised'
            raise
        else:
            self.outcome = 'end'
        finally:
            self.running = False
            self.ended += 1
            run.body_end(self)

    def request_stop(self):
        self.stop = True
        self.run.events.append('stop:{}'.format(self.label))


class JobError(Exception):
    pass


class Run:
    """one execution of a scenario on the real JobControl under one schedule"""

    def __init__(self, jc_mod, scn, chooser, observe=True, watchdog_s=20.0):
        self.jc_mod = jc_mod
        self.scn = scn
        self.observe = observe
        self.events = []            # begin / end / raised / stop / ret, in order
        self.obs = []               # one observation string per step
        self.tokens = []            # schedule tokens for the Lean driver
        self.problems = []          # (signature, text)
        self.bodies = {}
        self.kind_of = {}           # label -> add / insert / spawn
        for prog in scn['clients']:
            for op, arg in prog:
                if op in OPS_WITH_JOB:
                    self.kind_of[arg] = op
        self.sched = sched.Scheduler(
            trace_files=[jc_mod.__file__], chooser=chooser, max_steps=4000,
            watchdog_s=watchdog_s, name_thread=lambda obj, target: 'J' + target.__self__._name)
        self.sched.on_pick = self.after_step
        # oracle state: the specification deque
        self.spec_q = []
        self.spec_cur = None
        self.cleared = set()
        self.enqueued = []
        self.started = []
        self.bg_seen_true = set()
        self.bg_seen_false_after = set()
        self.lock = None

    # -------------------------------------------------------- instrumentation callbacks
    def body_begin(self, body):
        self.events.append('begin:{}'.format(body.label))
        lbl = body.label
        if self.kind_of[lbl] != 'spawn':
            others = [b.label for b in self.bodies.values()
                      if b.running and b is not body and self.kind_of[b.label] != 'spawn']
            if others:
                self.problem('exclusion', 'queued job {} starts while queued job(s) {} execute'.format(
                    lbl, others))
        if body.begun > 1:
            self.problem('not-exactly-once', 'job {} executed {} times'.format(lbl, body.begun))

    def body_end(self, body):
        self.events.append('{}:{}'.format(body.outcome or 'end', body.label))

    def clients_done(self):
        return all(t.finished for tid, t in self.sched.threads.items() if tid.startswith('c'))

    def problem(self, sig, text):
        if not any(s == sig for s, _ in self.problems):
            self.problems.append((sig, text))

    # -------------------------------------------------------- the run
    def client(self, idx, prog):
        j = self.j
        tid = 'c{}'.format(idx)

        def ret(v):
            self.events.append('ret:{}:{}'.format(tid, 1 if v else 0))

        def go():
            for k, (op, arg) in enumerate(prog):
                if k:
                    self.sched.yield_point(('idle',))
                if op in OPS_WITH_JOB:
                    body = self.bodies[arg]
                    name = str(arg)
                    if op == 'add':
                        j.add_job(body, name)
                    elif op == 'insert':
                        j.insert_job(body, name)
                    else:
                        j.spawn_job(body, name)
                elif op == 'clear':
                    j.clear_queue()
                elif op == 'stopjob':
                    ret(j.stop_job(str(arg)))
                elif op == 'stopcur':
                    ret(j.stop_current())
                elif op == 'stopbg':
                    ret(j.stop_background())
                elif op == 'has':
                    ret(j.has_jobs())
                elif op == 'isrun':
                    ret(j.is_running(str(arg)))
        return go

    def execute(self):
        jc = self.jc_mod
        s = self.sched
        with s.patched(jc):
            self.j = jc.JobControl()
            self.lock = self.j._lock
            for lbl, (kind, n) in self.scn['jobs'].items():
                self.bodies[lbl] = Body(self, lbl, kind, n)
            for i, prog in enumerate(self.scn['clients']):
                s.add_thread('c{}'.format(i), self.client(i, prog))
            self.result = s.run()
            res = self.result
            # an internal error escaping a controller call (or a thread of the controller)
            for tid, ex in res.exceptions.items():
                if isinstance(ex, JobError) and tid.startswith('J'):
                    continue
                self.problem('controller-call-raises',
                             '{} escaped from thread {}: {}'.format(type(ex).__name__, tid, ex))
            if res.deadlock:
                self.problem('deadlock', 'no thread can run: {}'.format(res.blocked))
            elif res.aborted:
                raise InfraError('run cut off after {} steps'.format(len(res.steps)))
            elif not any(t.startswith('c') for t in res.exceptions):
                # (a client that died did not issue its remaining calls: nothing more to check)
                self.final_checks()
        return self

    # -------------------------------------------------------- after every step
    def label_of(self, t):
        if t.finished:
            return 'dead' if t.tid.startswith('J') else 'idle'
        lab = t.label
        if lab[0] == 'line':
            return '{}:{}'.format(lab[1], lab[2])
        if lab[0] == 'body':
            return 'body'
        if lab[0] == 'thread-start':
            return 'boot' if t.tid.startswith('J') else 'idle'
        return 'idle'

    def after_step(self, prev):
        """called by the scheduler when the previous step is complete (state is stable)"""
        steps = self.sched.result.steps
        if not steps or len(self.obs) >= len(steps):
            return
        st = steps[-1]
        t = self.sched.threads[st.tid]
        j = self.j
        queue = [a.name for a in j.get_queued()]
        cur = j.get_current()
        cur = cur.name if cur is not None else None
        # token for the model: thread + what the body did in this step
        before = st.label
        tok = st.tid
        if st.tid.startswith('J') and (before[0] == 'body' or (
                before[0] == 'line' and before[1] == 'Agent._execute_and_call' and before[2] == 2)):
            body = self.bodies[int(st.tid[1:])]
            if body.running:
                tok += '+'
            else:
                tok += '!' if body.outcome == 'raised' else '.'
        self.tokens.append(tok)
        if self.observe:
            bg = sorted(int(k) for k in j._background.keys())
            running = sorted(b.label for b in self.bodies.values() if b.running)
            lock = self.lock
            owner = '-' if lock.owner is None else '{}:{}'.format(lock.owner.tid, lock.count)
            self.obs.append('{}|{}|{}|{}|{}|{}'.format(
                ','.join(queue), cur if cur is not None else '-', ','.join(map(str, bg)),
                ','.join(map(str, running)), owner, self.label_of(t)))
        else:
            self.obs.append('')
        self.monitor(queue, cur)

    def monitor(self, queue, cur):
        """the specification deque follows the observed queue/current; anything it cannot
        explain by ONE deque operation is a violation"""
        q, c = self.spec_q, self.spec_cur
        if queue != q or cur != c:
            if cur == c and len(queue) == len(q) + 1 and queue[:-1] == q and \
                    self.new_job(queue[-1], 'add', bool(q)):
                self.enqueued.append(queue[-1])
            elif cur == c and len(queue) == len(q) + 1 and queue[1:] == q and \
                    self.new_job(queue[0], 'insert', bool(q)):
                self.enqueued.append(queue[0])
            elif cur == c and queue == [] and q:
                self.cleared.update(q)
            elif c is None and cur is not None and q and q[0] == cur and queue == q[1:]:
                if cur in self.started:
                    self.problem('not-exactly-once', 'job {} started twice'.format(cur))
                self.started.append(cur)
            elif c is not None and cur is None and queue == q:
                pass
            elif c is not None and cur is not None and cur != c:
                self.problem('exclusion', 'job {} made current while {} is current'.format(cur, c))
            elif cur is not None and cur != c and cur in q:
                self.problem('start-order', 'job {} started but the head of the queue {} is {}'.format(
                    cur, q, q[0]))
            elif len(queue) == len(q) + 1:
                self.problem('start-order', 'queue {} became {}: job entered at the wrong end'.format(
                    q, queue))
            else:
                self.problem('start-order', 'queue/current went from {}/{} to {}/{}'.format(
                    q, c, queue, cur))
            self.spec_q, self.spec_cur = list(queue), cur
        # a queued job's body executes only while it is the current one
        for b in self.bodies.values():
            kind = self.kind_of[b.label]
            name = str(b.label)
            if b.running and kind != 'spawn' and cur != name:
                self.problem('exclusion', 'body of queued job {} executes while current is {}'.format(
                    name, cur))
        # background jobs: reported under their name exactly while they execute
        if True:
            for b in self.bodies.values():
                if self.kind_of[b.label] != 'spawn':
                    continue
                name = str(b.label)
                r = self.j.is_running(name)
                if b.running and not r:
                    self.problem('background-tracking',
                                 'background job {} executes but is_running is False'.format(name))
                if r and b.ended:
                    pass    # until the completion callback has run; checked at the end
                if r:
                    if name in self.bg_seen_false_after:
                        self.problem('background-tracking',
                                     'background job {} reported running again after it ended'.format(name))
                    self.bg_seen_true.add(name)
                elif name in self.bg_seen_true:
                    self.bg_seen_false_after.add(name)
                    if not b.ended:
                        self.problem('background-tracking',
                                     'background job {} forgotten before it ended'.format(name))

    def new_job(self, name, want_kind, decisive):
        kind = self.kind_of.get(int(name)) if name.isdigit() else None
        if kind is None or name in self.enqueued:
            return False
        return kind == want_kind or not decisive and kind in ('add', 'insert')

    def final_checks(self):
        j = self.j
        if j.get_queued() or j.get_current() is not None:
            self.problem('queue-not-drained',
                         'all threads ended; queued {} current {}'.format(
                             [a.name for a in j.get_queued()],
                             j.get_current().name if j.get_current() else None))
        for lbl, body in self.bodies.items():
            name, kind = str(lbl), self.kind_of[lbl]
            if kind == 'spawn':
                if body.begun != 1 or body.ended != 1:
                    self.problem('not-exactly-once', 'background job {} executed {} times'.format(
                        name, body.begun))
                if j.is_running(name):
                    self.problem('background-tracking',
                                 'background job {} still reported running after it ended'.format(name))
            elif name in self.cleared and name not in self.started:
                if body.begun:
                    self.problem('not-exactly-once', 'cleared job {} was executed'.format(name))
            elif name in self.enqueued:
                if body.begun != 1 or body.ended != 1:
                    self.problem('not-exactly-once',
                                 'job {} was queued, not cleared, and executed {} times'.format(
                                     name, body.begun))
            else:
                self.problem('not-exactly-once', 'job {} never reached the queue'.format(name))
        if not self.problems and j.has_jobs():
            self.problem('has-jobs-after-drain', 'everything has finished but has_jobs() is True')


MODEL_EVENT_KINDS = ('begin:', 'end:', 'raised:', 'stop:', 'ret:')


# ------------------------------------------------------------------ entry points
def entry_point_run(chooser, n_clients, per_client):
    """The property is about the queue the program's entry points share: `ls_module.queue_script`
    (the scripting interface) owns a controller of its own.  Fresh module (as at program start),
    `n_clients` threads each queueing `per_client` scripts through the entry point, every line of
    job_control.py AND ls_module.py a switch point.  Oracle: queued scripts execute one at a time,
    each exactly once, per client in the order that client queued them."""
    import importlib
    from bardolph.lib import job_control as jc
    from bardolph.controller import ls_module
    problems = []
    events = []
    running = []
    s = sched.Scheduler(trace_files=[jc.__file__, ls_module.__file__], chooser=chooser, max_steps=6000,
                        watchdog_s=20.0)

    class EpJob(jc.Job):
        def __init__(self, label):
            self.label = label

        def execute(self):
            if running:
                problems.append(('exclusion', 'script {} starts while script(s) {} execute '
                                 '(queued through ls_module.queue_script)'.format(self.label, list(running))))
            running.append(self.label)
            events.append(('begin', self.label))
            s.yield_point(('body',))
            s.yield_point(('body',))
            events.append(('end', self.label))
            running.remove(self.label)

    class FakeScriptJob:
        @staticmethod
        def from_string(text):
            return EpJob(text)

    with s.patched(jc):
        importlib.reload(ls_module)         # program start: the module's controller is created now
        with s.patched(ls_module, threading=False, extra={'ScriptJob': FakeScriptJob}):
            def client(i):
                def go():
                    for k in range(per_client):
                        if k:
                            s.yield_point(('idle',))
                        ls_module.queue_script('{}.{}'.format(i, k))
                return go
            for i in range(n_clients):
                s.add_thread('c{}'.format(i), client(i))
            res = s.run()
    importlib.reload(ls_module)
    for tid, ex in res.exceptions.items():
        problems.append(('controller-call-raises', '{} escaped from thread {}: {}'.format(
            type(ex).__name__, tid, ex)))
    if res.deadlock:
        problems.append(('deadlock', 'no thread can run: {}'.format(res.blocked)))
    elif res.aborted:
        raise InfraError('entry-point run cut off after {} steps'.format(len(res.steps)))
    elif not res.exceptions:
        want = {'{}.{}'.format(i, k) for i in range(n_clients) for k in range(per_client)}
        begun = [l for e, l in events if e == 'begin']
        if sorted(begun) != sorted(want):
            problems.append(('not-exactly-once', 'scripts executed {} instead of each of {} once'.format(
                sorted(begun), sorted(want))))
        for i in range(n_clients):
            mine = [l for l in begun if l.startswith('{}.'.format(i))]
            if mine != sorted(mine):
                problems.append(('order', 'client {} queued its scripts in order, they started as {}'.format(i, mine)))
    return res, problems


def entry_points(chk, rng, dist):
    runs = [0]
    found = []

    def one(chooser, shape):
        res, problems = entry_point_run(chooser, *shape)
        runs[0] += 1
        chk.count()
        if problems and not found:
            sig, text = problems[0]
            found.append(sig)
            chk.violation(sig, text + ' [entry point ls_module.queue_script, {} clients x {} scripts]'.format(*shape),
                          {'entry_point': 'bardolph.controller.ls_module.queue_script', 'clients': shape[0],
                           'scripts_per_client': shape[1], 'schedule': res.schedule})
        elif not problems:
            chk.nontrivial_case(('ep', shape, tuple(res.schedule)))
        return res
    # every schedule with at most 2 pre-emptions for two clients with one script each …
    sched.explore_bounded(lambda ch: one(ch, (2, 1)), 2, max_runs=4000 if chk.thorough else 600,
                          on_result=lambda r: bool(found))
    # … and random schedules for larger shapes
    for _ in range(400 if chk.thorough else 60):
        if found:
            break
        shape = rng.choice([(2, 1), (2, 2), (3, 1), (3, 2)])
        one(sched.RandomChooser(rng, stay=rng.choice([0.0, 0.5, 0.8])), shape)
    dist['entry_point_runs'] = runs[0]


def main_thread_run(chooser, n_files):
    """`bardolph.controller.run.main()` under the scheduler: every line of run.py and
    job_control.py a switch point, `time.sleep` virtual.  main() queues the files named on the
    command line and then has to stay until the queue has drained — when the main thread ends no
    further thread can be started (Python 3.12), so a script that has not BEGUN by then never
    runs.  Oracle: when main() returns every file's script has begun; each runs exactly once, in
    the order given."""
    from bardolph.lib import job_control as jc
    from bardolph.controller import run as run_mod
    problems = []
    events = []
    s = sched.Scheduler(trace_files=[jc.__file__, run_mod.__file__], chooser=chooser, max_steps=8000,
                        watchdog_s=20.0)

    class FileJob(jc.Job):
        def __init__(self, label):
            self.label = label

        def execute(self):
            events.append(('begin', self.label))
            s.yield_point(('body',))
            s.yield_point(('body',))
            events.append(('end', self.label))

    class FakeScriptJob:
        @staticmethod
        def from_file(name):
            return FileJob(name)

        @staticmethod
        def from_string(text):
            return FileJob(text)

    class Args:
        file = ['f{}'.format(i) for i in range(n_files)]
        script = None
        config_file = None
        fakes = True
        verbose = False

    class Nothing:
        @staticmethod
        def configure():
            pass

    state = {}
    with s.patched(jc):
        with s.patched(run_mod, threading=False, time=True,
                       extra={'ScriptJob': FakeScriptJob, 'init_args': lambda: Args,
                              'init_settings': lambda args: None, 'light_module': Nothing,
                              'runtime_module': Nothing}):
            def main_thread():
                run_mod.main()
                state['begun_at_return'] = [l for e, l in events if e == 'begin']
            s.add_thread('main', main_thread)
            res = s.run()
    for tid, ex in res.exceptions.items():
        problems.append(('entry-point-raises:command-line', '{} escaped from thread {}: {}'.format(
            type(ex).__name__, tid, ex)))
    if res.deadlock:
        problems.append(('deadlock', 'no thread can run: {}'.format(res.blocked)))
    elif res.aborted:
        problems.append(('queue-not-drained:command-line', 'run.main() had not returned after {} steps'.format(
            len(res.steps))))
    elif not res.exceptions:
        want = Args.file
        begun = [l for e, l in events if e == 'begin']
        if state.get('begun_at_return') != want:
            problems.append(('main-returns-before-queue-drained',
                             'when run.main() returned only {} of the scripts {} had begun; no thread can be '
                             'started after the main thread has ended, so the others never run'.format(
                                 state.get('begun_at_return'), want)))
        elif begun != want:
            problems.append(('not-in-order-exactly-once:command-line',
                             'scripts began as {} instead of {}'.format(begun, want)))
    return res, problems


def main_thread_runs(chk, rng, dist):
    found = []
    runs = [0]

    def one(chooser, n_files):
        res, problems = main_thread_run(chooser, n_files)
        runs[0] += 1
        chk.count()
        if problems and not found:
            sig, text = problems[0]
            found.append(sig)
            chk.violation(sig, text + ' [bardolph.controller.run.main, {} files]'.format(n_files),
                          {'entry_point': 'bardolph.controller.run.main', 'files': n_files,
                           'schedule': res.schedule})
        elif not problems:
            chk.nontrivial_case(('main', n_files, tuple(res.schedule)))
        return res
    sched.explore_bounded(lambda ch: one(ch, 2), 2, max_runs=3000 if chk.thorough else 400,
                          on_result=lambda r: bool(found))
    for _ in range(300 if chk.thorough else 50):
        if found:
            break
        one(sched.RandomChooser(rng, stay=rng.choice([0.0, 0.5, 0.8])), rng.choice([1, 2, 3]))
    dist['main_thread_runs'] = runs[0]


def unnamed_background_run(chooser, names):
    """Background jobs started WITHOUT a name (`spawn_job(job, None)` / `''` — what
    `WebApp.queue_file(…, run_background=True)` does): the controller gives each a name of its
    own, reports it as running under that name exactly while it executes, forgets it when it ends,
    and reports no jobs when everything has finished."""
    from bardolph.lib import job_control as jc
    problems = []
    s = sched.Scheduler(trace_files=[jc.__file__], chooser=chooser, max_steps=6000, watchdog_s=20.0)
    agents = {}
    state = {}

    class BgJob(jc.Job):
        def __init__(self, key):
            self.key = key

        def execute(self):
            state[self.key] = 'running'
            s.yield_point(('body',))
            ag = agents.get(self.key)
            if ag is not None and not j.is_running(ag.name):
                problems.append(('background-tracking', 'background job started with name {!r} is not reported '
                                 'as running under its name {!r} while it executes'.format(names[self.key], ag.name)))
            s.yield_point(('body',))
            state[self.key] = 'ended'

    with s.patched(jc):
        j = jc.JobControl()

        def client(k):
            def go():
                agents[k] = j.spawn_job(BgJob(k), names[k])
            return go
        for k in range(len(names)):
            s.add_thread('c{}'.format(k), client(k))
        res = s.run()
        for tid, ex in res.exceptions.items():
            problems.append(('controller-call-raises', '{} escaped from thread {}: {}'.format(
                type(ex).__name__, tid, ex)))
        if res.deadlock:
            problems.append(('deadlock', 'no thread can run: {}'.format(res.blocked)))
        elif res.aborted:
            raise InfraError('unnamed-background run cut off after {} steps'.format(len(res.steps)))
        elif not res.exceptions:
            seen = [a.name for a in agents.values() if a is not None]
            if len(set(seen)) != len(names):
                problems.append(('background-tracking', 'the jobs got the names {}: not distinct'.format(seen)))
            for k, a in agents.items():
                if a is not None and j.is_running(a.name):
                    problems.append(('background-tracking', 'background job {!r} still reported running after '
                                     'it ended'.format(a.name)))
            if j.has_jobs():
                problems.append(('has-jobs-after-drain', 'everything has finished but has_jobs() is True'))
    return res, problems


def unnamed_background(chk, rng, dist):
    found = []
    runs = [0]

    def one(chooser, names):
        res, problems = unnamed_background_run(chooser, names)
        runs[0] += 1
        chk.count()
        if problems and not found:
            sig, text = problems[0]
            found.append(sig)
            chk.violation(sig, text + ' [spawn_job with names {}]'.format(names),
                          {'spawn_names': names, 'schedule': res.schedule})
        elif not problems:
            chk.nontrivial_case(('bg', tuple(map(str, names)), tuple(res.schedule)))
        return res
    for names in ([None], [''], [None, None], ['', None], ['x', None], [None, '', 'x']):
        sched.explore_bounded(lambda ch, names=names: one(ch, names), 1, max_runs=300 if chk.thorough else 60,
                              on_result=lambda r: bool(found))
        for _ in range(40 if chk.thorough else 8):
            if not found:
                one(sched.RandomChooser(rng, stay=rng.choice([0.0, 0.6])), names)
    dist['unnamed_background_runs'] = runs[0]


def command_line(chk, dist):
    """the command-line entry point `bardolph.controller.run.main()` (lsrun): the files named on
    the command line — or the text after -s — run one at a time, in the order given, each exactly
    once (a file named twice runs twice), also when one of them does not compile or does not
    exist.  Real process, real threads and clock, fake lights (-f); what is observed is the
    sequence of values the scripts print."""
    import shutil
    import subprocess
    import tempfile
    from core import REPO
    scratch = tempfile.mkdtemp(prefix='c08_cli_')
    files = {'a.ls': 'print "a1" time 0.3 wait print "a2"', 'b.ls': 'print "b1" on all print "b2"',
             'c.ls': 'print "c1" time 0.15 wait print "c2"', 'd.ls': 'print "d1"',
             'bad.ls': 'print "x1" nosuch print "x2"', 'empty.ls': ''}
    cases = [(['a.ls'], 'a1 a2'), (['a.ls', 'b.ls'], 'a1 a2 b1 b2'),
             (['b.ls', 'a.ls', 'd.ls'], 'b1 b2 a1 a2 d1'),
             (['a.ls', 'c.ls', 'b.ls', 'd.ls'], 'a1 a2 c1 c2 b1 b2 d1'),
             (['c.ls', 'c.ls'], 'c1 c2 c1 c2'), (['d.ls', 'a.ls', 'd.ls', 'a.ls'], 'd1 a1 a2 d1 a1 a2'),
             (['a.ls', 'bad.ls', 'd.ls'], 'a1 a2 d1'), (['missing.ls', 'c.ls', 'd.ls'], 'c1 c2 d1'),
             (['empty.ls', 'd.ls', 'b.ls'], 'd1 b1 b2'),
             (['-s', 'print "s1" time 0.2 wait print "s2"'], 's1 s2'),
             (['-s', 'print "s1"', 'a.ls'], 's1'),      # with -s the files are not run
             ([], '')]
    try:
        for name, text in files.items():
            with open(os.path.join(scratch, name), 'w') as f:
                f.write(text + '\n')
        for args, want in cases:
            code = ('import sys; sys.argv = ["lsrun", "-f"] + {!r}; '
                    'from bardolph.controller import run; run.main()').format(args)
            try:
                r = subprocess.run([sys.executable, '-W', 'ignore', '-c', code], cwd=scratch,
                                   capture_output=True, text=True, timeout=60,
                                   env=dict(os.environ, PYTHONPATH=REPO))
                got, err, timed_out = r.stdout.split(), r.stderr, False
            except subprocess.TimeoutExpired as ex:
                got, err, timed_out = (ex.stdout or b'').decode().split(), '', True
            chk.count()
            dist.setdefault('command_line_runs', 0)
            dist['command_line_runs'] += 1
            replay = {'kind': 'command-line', 'arguments': ['-f'] + args, 'files': files,
                      'printed': got, 'expected': want.split(),
                      'how': 'harness/c08.py command_line: python -c "... run.main()" in a scratch directory'}
            if timed_out:
                chk.violation('queue-not-drained:command-line',
                              'lsrun {} did not end within 60 s (printed {})'.format(' '.join(args), got), replay)
            elif 'Traceback' in err:
                chk.violation('entry-point-raises:command-line',
                              'lsrun {}: {}'.format(' '.join(args), err.strip().splitlines()[-1][:150]), replay)
            elif got != want.split():
                chk.violation('not-in-order-exactly-once:command-line',
                              'lsrun {} printed {} ; the scripts in the order given print {}'.format(
                                  ' '.join(args), got, want.split()), replay)
            else:
                chk.nontrivial_case(('cli', tuple(args)))
    finally:
        shutil.rmtree(scratch, ignore_errors=True)


def run_case(jc_mod, scn, chooser, observe=True):
    run = Run(jc_mod, scn, chooser, observe)
    try:
        run.execute()
    except sched.SchedulerHang as ex:
        raise InfraError('scheduler watchdog: {}'.format(ex))
    return run


def replay_obj(scn, run, sig, text):
    return {'scenario': {'clients': scn['clients'], 'jobs': {str(k): v for k, v in scn['jobs'].items()}},
            'scenario_text': scenario_text(scn), 'schedule': run.result.schedule,
            'model_schedule': run.tokens, 'signature': sig, 'what': text,
            'how': 'harness/c08.py --replay <this file>: the schedule is the list of thread '
                   'choices, one per executed source line of job_control.py'}


def scn_from_json(obj):
    return {'clients': [[(o, a) for o, a in prog] for prog in obj['clients']],
            'jobs': {int(k): tuple(v) for k, v in obj['jobs'].items()}}


def main():
    argv = sys.argv[1:]
    from bardolph.lib import job_control as jc_mod
    if '--replay' in argv:
        path = argv[argv.index('--replay') + 1]
        with open(path) as f:
            data = json.load(f)
        rep = data.get('replay', data)
        if 'scenario' not in rep:
            problems = []
            if rep.get('entry_point') == 'bardolph.controller.run.main':
                _res, problems = main_thread_run(sched.ReplayChooser(rep['schedule'], strict=False), rep['files'])
            elif rep.get('entry_point') == 'bardolph.controller.ls_module.queue_script':
                _res, problems = entry_point_run(sched.ReplayChooser(rep['schedule'], strict=False),
                                                 rep['clients'], rep['scripts_per_client'])
            elif rep.get('kind') == 'command-line':
                import shutil
                import subprocess
                import tempfile
                from core import REPO
                scratch = tempfile.mkdtemp(prefix='c08_cli_')
                try:
                    for name, text in rep['files'].items():
                        with open(os.path.join(scratch, name), 'w') as f:
                            f.write(text + '\n')
                    code = ('import sys; sys.argv = ["lsrun"] + {!r}; '
                            'from bardolph.controller import run; run.main()').format(rep['arguments'])
                    r = subprocess.run([sys.executable, '-W', 'ignore', '-c', code], cwd=scratch,
                                       capture_output=True, text=True, timeout=60,
                                       env=dict(os.environ, PYTHONPATH=REPO))
                    if r.stdout.split() != rep['expected'] or 'Traceback' in r.stderr:
                        problems.append(('not-in-order-exactly-once:command-line',
                                         'printed {} ; expected {} ; stderr ends {!r}'.format(
                                             r.stdout.split(), rep['expected'], r.stderr.strip()[-120:])))
                finally:
                    shutil.rmtree(scratch, ignore_errors=True)
            else:
                print('this replay is re-run by the full check')
                sys.exit(2)
            for sig, text in problems:
                print('VIOLATION property=C08 replay={} [{}] {}'.format(path, sig, text))
            print('replayed: {} problem(s)'.format(len(problems)))
            sys.exit(1 if problems else 0)
        scn = scn_from_json(rep['scenario'])
        run = run_case(jc_mod, scn, sched.ReplayChooser(rep['schedule'], strict=False))
        for sig, text in run.problems:
            print('VIOLATION property=C08 replay={} [{}] {}'.format(path, sig, text))
        print('replayed {} steps, {} problem(s)'.format(len(run.tokens), len(run.problems)))
        sys.exit(1 if run.problems else 0)

    chk = Check('C08')
    chk.lean_phase(sections=set())
    rng = chk.rng
    dist = {'clients': {}, 'jobs': {}, 'ops': {}, 'steps': {}, 'switches': {}, 'preemptions': {},
            'job_kinds': {}, 'op_kinds': {}}

    def bump(table, key):
        dist[table][key] = dist[table].get(key, 0) + 1

    def bucket(n, size):
        lo = (n // size) * size
        return '{}-{}'.format(lo, lo + size - 1)

    requests = []          # (args, expected answer, case)
    seen_schedules = set()

    def record(scn, run, want_model):
        res = run.result
        chk.count()
        bump('clients', len(scn['clients']))
        bump('jobs', len(scn['jobs']))
        bump('ops', sum(len(p) for p in scn['clients']))
        bump('steps', bucket(len(res.steps), 25))
        bump('switches', bucket(res.switches, 5))
        bump('preemptions', bucket(res.preemptions, 5) if res.preemptions > 4 else res.preemptions)
        key = (scenario_text(scn), tuple(run.tokens))
        if key not in seen_schedules:
            seen_schedules.add(key)
            if res.switches > 0 and len(scn['jobs']) > 0:
                chk.nontrivial_case(hash(key))
        for sig, text in run.problems:
            chk.violation(sig, text, replay_obj(scn, run, sig, text))
        if want_model and not run.problems:
            events = [e for e in run.events]
            requests.append((['fixed', scenario_text(scn), ','.join(run.tokens)],
                             ';'.join(run.obs) + '#' + ','.join(events),
                             {'scenario': scenario_text(scn), 'schedule': run.tokens}))

    # ---- 1. random scenarios x random schedules
    n_random = int(os.environ.get('C08_RANDOM', 100000 if chk.thorough else 2000))
    per_scn = 10
    model_every = 10 if chk.thorough else 1
    n_done = 0
    while n_done < n_random:
        scn = random_scenario(rng)
        for prog in scn['clients']:
            for op, _ in prog:
                bump('op_kinds', op)
        for kind, _ in scn['jobs'].values():
            bump('job_kinds', kind)
        for _ in range(per_scn):
            stay = rng.choice([0.0, 0.3, 0.6, 0.85, 0.95])
            run = run_case(jc_mod, scn, sched.RandomChooser(rng, stay))
            record(scn, run, n_done % model_every == 0)
            if n_done < 3:
                chk.sample({'scenario': scenario_text(scn), 'steps': len(run.tokens),
                            'schedule_head': run.tokens[:40], 'events': run.events})
            n_done += 1
    dist['random_schedules'] = n_done

    # ---- 2. every schedule with a bounded number of pre-emptions, fixed scenarios
    n_sys = 0
    per_scn_counts = []
    for scn, b_quick, b_thorough, cap_thorough in FIXED_SCENARIOS:
        bound = b_thorough if chk.thorough else b_quick
        cap = cap_thorough if chk.thorough else None
        if 'C08_SYS_CAP' in os.environ:
            cap = int(os.environ['C08_SYS_CAP'])
        count = [0]

        def run_one(chooser, scn=scn):
            run = run_case(jc_mod, scn, chooser)
            count[0] += 1
            record(scn, run, count[0] % (25 if chk.thorough else 5) == 0)
            return run.result
        n = sched.explore_bounded(run_one, bound, max_runs=cap)
        per_scn_counts.append({'scenario': scenario_text(scn), 'preemption_bound': bound,
                               'schedules': n, 'complete': cap is None or n < cap})
        n_sys += n
    dist['systematic'] = {'schedules': n_sys, 'per_scenario': per_scn_counts}

    # ---- 2b. the entry point that owns a controller of its own
    entry_points(chk, rng, dist)
    unnamed_background(chk, rng, dist)
    main_thread_runs(chk, rng, dist)
    command_line(chk, dist)

    # ---- 3. correspondence with the Lean transition system, step by step
    answers = chk.driver.ask_many([('jc.replay', a) for a, _, _ in requests]) if requests else []
    n_dis = 0
    n_steps = 0
    for (args, expect, case), answer in zip(requests, answers):
        obs, _, evs = answer.partition('#')
        evs = ','.join(e for e in evs.split(',') if e.startswith(MODEL_EVENT_KINDS))
        got = obs + '#' + evs
        n_steps += obs.count(';') + 1
        if got != expect:
            n_dis += 1
            a, b = expect.split(';'), got.split(';')
            k = next((i for i in range(min(len(a), len(b))) if a[i] != b[i]), min(len(a), len(b)))
            chk.disagreement('jc.replay', dict(case, first_difference_at_step=k),
                             a[k] if k < len(a) else '<end>', b[k] if k < len(b) else '<end>')
    dist['model_replays'] = len(requests)
    dist['model_steps_compared'] = n_steps
    dist['model_disagreements'] = n_dis
    chk.coverage['distribution'] = dist
    chk.coverage['rule'] = (
        'one evaluation = one schedule (list of thread choices, one per executed source line of '
        'job_control.py) of one scenario (1-3 client threads, 1-4 jobs, add/insert/spawn/clear/'
        'stop_*/has_jobs/is_running calls, bodies that finish/raise/wait for a stop) run on the '
        'real JobControl; non-trivial = distinct (scenario, schedule) with at least one thread '
        'switch; systematic part = every schedule with at most 1-3 pre-emptions (see '
        'distribution.systematic) of {} fixed scenarios; plus the entry point '
        'ls_module.queue_script on a freshly loaded module: every schedule with at most 2 '
        'pre-emptions of two clients (lines of ls_module.py are switch points too) and random '
        'schedules of up to 3 clients x 2 scripts'.format(len(FIXED_SCENARIOS)))
    chk.coverage['rule'] += ' Added late, as TESTS over fixed lists (not proofs): run.main() under the deterministic scheduler (every queued script has begun when main returns), and twelve lsrun invocations in a child process (files in order, exactly once).'
    chk.assumptions += [
        'thread switches are explored at source-line granularity (sys.settrace line events); '
        'switches inside a line (e.g. between the two reads of _active_agent in is_running) are not',
        'the 1 s time-out of _acquire_lock never fires (a held lock is always eventually acquired)',
        'background jobs are spawned under distinct names; every job object is queued once',
        'threading.Thread / RLock are replaced by cooperative versions (harness/sched.py); the '
        'CPython primitives themselves are trusted',
        'a job waiting to be stopped gives up when every client thread has ended',
    ]
    if chk.thorough:
        chk.leanchecker()
    chk.finish()


if __name__ == '__main__':
    run_check(main)
