"""Deterministic scheduler for REAL `threading.Thread`s (used by C08; reusable for other modules).

Idea
----
Exactly one managed thread runs at any time (baton passing; every managed thread parks on its
own semaphore).  A thread gives the baton back at *yield points*:

  * every source LINE of the files named in `trace_files` (a `sys.settrace` line hook installed
    in every managed thread) -- so every line of e.g. `job_control.py` is a switch point;
  * explicit `sched.yield_point(label)` calls (instrumented job bodies);
  * blocking operations of the cooperative replacements of `threading.RLock/Lock/Event/
    Thread.join` and `time.sleep` (virtual time).

At a yield point the scheduler asks its *chooser* which runnable thread continues.  The list of
choices (thread ids) is the **schedule**; feeding the same list to `ReplayChooser` reproduces the
run exactly.  A step = "the chosen thread runs from its yield point to its next yield point (or
blocks, or ends)".  The yield happens BEFORE the line is executed, so the label of a step is the
line the thread is about to execute.

How to use it for a module `m` that does `import threading` (and maybe `import time`):

    s = Scheduler(trace_files=[m.__file__], chooser=RandomChooser(rng))
    with s.patched(m, threading=True, time=False):      # m.threading -> s.threading_shim
        s.add_thread('c0', lambda: obj.method())       # root ("client") threads
        s.add_thread('c1', ...)
        result = s.run()                                # Result(schedule, steps, deadlock, ...)

`threading_shim` exposes `Thread` (start / is_alive / join), `RLock`, `Lock`, `Event`,
`current_thread`, `get_ident` (anything else falls through to the real module); `time_shim` exposes `sleep`, `time`, `monotonic` on a virtual clock
that advances only when nothing else can run (or, with `time_choices=True`, whenever the chooser
picks the pseudo thread `'@time'`).  Threads created by the code under test through the shim get
ids from `name_thread(thread_obj, target)` (default `t1, t2, …` in creation order).

Blocked threads carry a predicate that is re-evaluated at every pick.  A lock acquire with a
time-out is modelled as "always eventually acquired" unless `lock_timeouts=True`.  A thread that
is chosen while it stands at a blocking call whose condition does not hold simply parks (the
step is recorded; in a model this is a stutter step) and is not runnable again until it does.

Observation: `sched.on_pick = f` is called as `f(previous_thread)` whenever a step is complete
(all threads parked, state stable); while it runs, tracing is suspended (`sched.quiet`), so it
may call into the traced module (getters) freely.  `result.steps[i].label` is the position of the
chosen thread BEFORE step i: `('line', qualname, line - first line of the function, line)`,
`('thread-start',)`, or whatever was passed to `yield_point` / `block(label=…)`.

Exploration helpers: `RandomChooser` (seeded, with a stay-probability), `ReplayChooser`,
`explore_bounded(run_one, max_preemptions, …)` = systematic depth-first enumeration of all
schedules with at most N pre-emptions (a switch away from a thread that could have continued).

A hang of the harness itself (a managed thread that neither yields nor ends within
`watchdog_s` wall-clock seconds) raises `SchedulerHang`; checks map it to exit code 2.
"""
import _thread
import contextlib
import os
import sys
import threading as _real_threading
import time as _real_time


class SchedulerHang(Exception):
    """infrastructure failure: the harness lost control of a thread"""


class ReplayDivergence(Exception):
    """a replayed schedule names a thread that is not runnable at that step"""


class _Killed(BaseException):
    """raised inside managed threads to unwind them when a run is abandoned"""


class Step:
    __slots__ = ('tid', 'label', 'runnable', 'current')

    def __init__(self, tid, label, runnable, current):
        self.tid = tid            # thread chosen
        self.label = label        # where it stood (the line it is about to execute)
        self.runnable = runnable  # tuple of runnable ids at the decision
        self.current = current    # thread that held the baton before (None at start / after end)

    def __repr__(self):
        return 'Step({}, {})'.format(self.tid, self.label)


class Result:
    def __init__(self):
        self.steps = []          # list of Step
        self.deadlock = False    # unfinished threads, none runnable, no timer pending
        self.blocked = []        # (tid, reason) at deadlock
        self.exceptions = {}     # tid -> exception that escaped the thread's target
        self.aborted = None      # 'max_steps' when cut off
        self.preemptions = 0
        self.switches = 0

    @property
    def schedule(self):
        return [s.tid for s in self.steps]


# ------------------------------------------------------------------------------------ choosers
class ReplayChooser:
    """follow a recorded schedule; afterwards (if the run is longer) use `then`, default:
    keep the current thread if it can run, else the first runnable"""

    def __init__(self, schedule, then=None, strict=True):
        self.schedule = list(schedule)
        self.then = then
        self.strict = strict

    def choose(self, runnable, current, index):
        if index < len(self.schedule):
            want = self.schedule[index]
            if want in runnable:
                return want
            if self.strict:
                raise ReplayDivergence('step {}: {} not runnable (runnable: {})'.format(
                    index, want, runnable))
        if self.then is not None:
            return self.then.choose(runnable, current, index)
        return current if current in runnable else runnable[0]


class RandomChooser:
    """seeded random schedules; with probability `stay` the running thread simply continues
    (long uninterrupted stretches with a few pre-emptions find different bugs than uniform noise)"""

    def __init__(self, rng, stay=0.0):
        self.rng = rng
        self.stay = stay

    def choose(self, runnable, current, index):
        if current in runnable and self.stay > 0 and self.rng.random() < self.stay:
            return current
        return runnable[self.rng.randrange(len(runnable))]


class FirstChooser:
    """non-pre-emptive default: continue the current thread, else the first runnable"""

    def choose(self, runnable, current, index):
        return current if current in runnable else runnable[0]


# ------------------------------------------------------------------------------------ scheduler
class _T:
    """book-keeping for one managed thread"""
    __slots__ = ('tid', 'sem', 'state', 'pred', 'reason', 'wake_at', 'timed_out', 'label',
                 'real', 'target', 'finished', 'started', 'exc', 'order')

    def __init__(self, tid, target, order):
        self.tid = tid
        self.sem = _thread.allocate_lock()
        self.sem.acquire()
        self.state = 'new'        # new | ready | blocked | done
        self.pred = None
        self.reason = None
        self.wake_at = None
        self.timed_out = False
        self.label = ('thread-start',)
        self.real = None
        self.target = target
        self.finished = False
        self.started = False
        self.exc = None
        self.order = order


TIME = '@time'


class Scheduler:
    def __init__(self, trace_files=(), chooser=None, max_steps=20000, watchdog_s=20.0,
                 name_thread=None, lock_timeouts=False, time_choices=False,
                 line_filter=None):
        self.trace_files = {os.path.abspath(f) for f in trace_files}
        self.chooser = chooser or FirstChooser()
        self.max_steps = max_steps
        self.watchdog_s = watchdog_s
        self.name_thread = name_thread
        self.lock_timeouts = lock_timeouts
        self.time_choices = time_choices
        self.line_filter = line_filter      # optional f(code, lineno) -> bool
        self.threads = {}                   # tid -> _T (insertion ordered)
        self.by_ident = {}
        self.current = None                 # _T holding the baton
        self.result = Result()
        self.now = 0.0                      # virtual time
        self.killed = False
        self.on_step = None                 # optional callback(step_index, Step) at each decision
        self.on_pick = None                 # optional callback(previous _T or None): called when the
                                            # previous step is complete and the state is stable
        self.quiet = False                  # True while on_pick runs: no yield points
        self._done = _thread.allocate_lock()
        self._done.acquire()
        self._failure = None
        self._created = 0
        self._fn_cache = {}
        self.threading_shim = _ThreadingShim(self)
        self.time_shim = _TimeShim(self)

    # ------------------------------------------------------------ set-up
    def add_thread(self, tid, target):
        t = _T(tid, target, len(self.threads))
        self.threads[tid] = t
        return t

    @contextlib.contextmanager
    def patched(self, module, threading=True, time=False, extra=None):
        """replace `module.threading` / `module.time` (and any `extra` attributes) for the run"""
        saved = {}
        repl = dict(extra or {})
        if threading:
            repl['threading'] = self.threading_shim
        if time:
            repl['time'] = self.time_shim
        for k, v in repl.items():
            saved[k] = getattr(module, k, None)
            setattr(module, k, v)
        try:
            yield self
        finally:
            for k, v in saved.items():
                setattr(module, k, v)

    # ------------------------------------------------------------ running
    def run(self):
        """start all root threads under the scheduler, return when every managed thread has
        ended, on deadlock, or after max_steps"""
        for t in list(self.threads.values()):
            self._launch(t)
        self._pick(None)
        deadline = _real_time.time() + self.watchdog_s
        while not self._done.acquire(True, 0.25):
            if _real_time.time() > deadline:
                self._abandon()
                raise SchedulerHang('no progress within {} s; last steps: {}'.format(
                    self.watchdog_s, self.result.steps[-5:]))
        if self.result.deadlock or self.result.aborted:
            self._abandon()
        if self._failure is not None:
            raise self._failure
        return self.result

    def _launch(self, t):
        if t.started:
            return
        t.started = True
        t.state = 'ready'
        t.real = _real_threading.Thread(target=self._bootstrap, args=(t,), daemon=True)
        t.real.start()

    def _bootstrap(self, t):
        t.sem.acquire()                      # wait for the first turn
        self.by_ident[_thread.get_ident()] = t
        try:
            if self.killed:
                return
            sys.settrace(self._global_trace)
            try:
                t.target()
            except _Killed:
                return
            except BaseException as ex:      # noqa: the code under test may raise anything
                t.exc = ex
                self.result.exceptions[t.tid] = ex
            finally:
                sys.settrace(None)
        finally:
            if not self.killed:
                t.state = 'done'
                t.finished = True
                try:
                    self._pick(t, ended=True)
                except BaseException as ex:  # noqa
                    self._fail(ex)

    # ------------------------------------------------------------ tracing
    def _global_trace(self, frame, event, arg):
        if event != 'call':
            return None
        code = frame.f_code
        hit = self._fn_cache.get(code)
        if hit is None:
            hit = os.path.abspath(code.co_filename) in self.trace_files
            self._fn_cache[code] = hit
        return self._local_trace if hit else None

    def _local_trace(self, frame, event, arg):
        if event == 'line':
            code = frame.f_code
            if self.line_filter is None or self.line_filter(code, frame.f_lineno):
                self.yield_point(('line', code.co_qualname, frame.f_lineno - code.co_firstlineno,
                                  frame.f_lineno))
        return self._local_trace

    # ------------------------------------------------------------ yield / block / pick
    def me(self):
        return self.by_ident.get(_thread.get_ident())

    def yield_point(self, label=None):
        if self.quiet:
            return
        t = self.me()
        if t is None or t is not self.current:
            return                            # not a managed thread (or not under a run)
        t.label = label
        t.state = 'ready'
        self._switch(t)

    def block(self, pred, reason, timeout=None, label=None):
        """park the calling thread until pred() holds (re-evaluated at every pick); returns
        False when it was woken by its (virtual) time-out instead.  `label` (optional) replaces
        the thread's position label while it waits."""
        t = self.me()
        if t is None or t is not self.current:
            raise SchedulerHang('blocking call {} outside a managed thread'.format(reason))
        if pred():
            return True
        if label is not None:
            t.label = label
        t.state = 'blocked'
        t.pred = pred
        t.reason = reason
        t.timed_out = False
        t.wake_at = None if timeout is None else self.now + timeout
        self._switch(t)
        t.pred = None
        t.wake_at = None
        return not t.timed_out

    def _switch(self, t):
        nxt = self._pick(t)
        if nxt is not t:
            t.sem.acquire()
            if self.killed:
                raise _Killed()

    def _runnable(self):
        out = []
        for t in self.threads.values():
            if t.state == 'ready' and t.started:
                out.append(t.tid)
            elif t.state == 'blocked' and t.pred():
                out.append(t.tid)
        return out

    def _timers(self):
        return [t for t in self.threads.values() if t.state == 'blocked' and t.wake_at is not None]

    def _pick(self, cur, ended=False):
        """choose the next thread and hand it the baton; returns the chosen _T (or None)"""
        res = self.result
        if self.on_pick is not None:
            self.quiet = True
            try:
                self.on_pick(cur)
            except BaseException as ex:       # noqa
                self.quiet = False
                self._fail(ex)
                return None
            self.quiet = False
        while True:
            runnable = self._runnable()
            timers = self._timers()
            options = list(runnable)
            if timers and (self.time_choices or not runnable):
                options.append(TIME)
            if not options:
                unfinished = [t for t in self.threads.values() if t.state != 'done']
                if unfinished:
                    res.deadlock = True
                    res.blocked = [(t.tid, t.reason) for t in unfinished]
                self.current = None
                self._done.release()
                return None
            if len(res.steps) >= self.max_steps:
                res.aborted = 'max_steps'
                self.current = None
                self._done.release()
                return None
            cur_id = cur.tid if (cur is not None and not ended) else None
            if options == [TIME]:
                choice = TIME
            else:
                try:
                    choice = self.chooser.choose(options, cur_id, len(res.steps))
                except BaseException as ex:   # noqa
                    self._fail(ex)
                    return None
            if choice == TIME:
                first = min(timers, key=lambda t: (t.wake_at, t.order))
                self.now = max(self.now, first.wake_at)
                for t in timers:
                    if t.wake_at <= self.now and not t.pred():
                        t.timed_out = True
                        t.pred = _true
                res.steps.append(Step(TIME, ('time', self.now), tuple(options), cur_id))
                continue
            nxt = self.threads[choice]
            res.steps.append(Step(choice, nxt.label, tuple(options), cur_id))
            if cur_id is not None and choice != cur_id:
                res.switches += 1
                if cur_id in runnable:
                    res.preemptions += 1
            if self.on_step is not None:
                self.on_step(len(res.steps) - 1, res.steps[-1])
            nxt.state = 'running'
            self.current = nxt
            if nxt is not cur or ended:
                nxt.sem.release()
            return nxt

    def _fail(self, ex):
        self._failure = ex
        self.current = None
        try:
            self._done.release()
        except RuntimeError:
            pass

    def _abandon(self):
        """unwind every parked thread (deadlock, cut-off or hang)"""
        self.killed = True
        for t in self.threads.values():
            if t.state != 'done':
                try:
                    t.sem.release()
                except RuntimeError:
                    pass

    # ------------------------------------------------------------ threads made by the code
    def _new_thread_id(self, obj, target):
        self._created += 1
        if self.name_thread is not None:
            tid = self.name_thread(obj, target)
            if tid is not None:
                return tid
        return 't{}'.format(self._created)


def _true():
    return True


# ------------------------------------------------------------------------------------ shims
class _ThreadingShim:
    """what a module under test sees as `threading`"""

    def __init__(self, sched):
        s = sched
        self._sched = s

        class Thread:
            def __init__(self, group=None, target=None, name=None, args=(), kwargs=None,
                         daemon=None):
                self._target = target
                self._args = args
                self._kwargs = kwargs or {}
                self.name = name
                self.daemon = daemon
                self._t = None

            def run(self):
                if self._target is not None:
                    self._target(*self._args, **self._kwargs)

            def start(self):
                if self._t is not None:
                    raise RuntimeError('threads can only be started once')
                tid = s._new_thread_id(self, self._target)
                self._t = s.add_thread(tid, self.run)
                self.ident = tid
                s._launch(self._t)

            def is_alive(self):
                return self._t is not None and not self._t.finished

            def join(self, timeout=None):
                if self._t is None:
                    raise RuntimeError('cannot join thread before it is started')
                t = self._t
                s.block(lambda: t.finished, 'join ' + str(t.tid), timeout)

        class RLock:
            def __init__(self):
                self.owner = None
                self.count = 0

            def acquire(self, blocking=True, timeout=-1):
                me = s.me()
                if self.owner is me and me is not None:
                    self.count += 1
                    return True
                if self.owner is None:
                    self.owner, self.count = me, 1
                    return True
                if not blocking:
                    return False
                to = timeout if (s.lock_timeouts and timeout is not None and timeout >= 0) else None
                ok = s.block(lambda: self.owner is None, 'lock held by ' + str(
                    self.owner.tid if self.owner else None), to)
                if not ok:
                    return False
                self.owner, self.count = me, 1
                return True

            def release(self):
                if self.owner is not s.me() or self.count == 0:
                    raise RuntimeError('cannot release un-acquired lock')
                self.count -= 1
                if self.count == 0:
                    self.owner = None

            __enter__ = acquire

            def __exit__(self, *a):
                self.release()

        class Lock:
            def __init__(self):
                self.held = False

            def acquire(self, blocking=True, timeout=-1):
                if not self.held:
                    self.held = True
                    return True
                if not blocking:
                    return False
                to = timeout if (s.lock_timeouts and timeout is not None and timeout >= 0) else None
                if not s.block(lambda: not self.held, 'lock', to):
                    return False
                self.held = True
                return True

            def release(self):
                if not self.held:
                    raise RuntimeError('release unlocked lock')
                self.held = False

            def locked(self):
                return self.held

            __enter__ = acquire

            def __exit__(self, *a):
                self.release()

        class Event:
            def __init__(self):
                self._flag = False

            def is_set(self):
                return self._flag

            def set(self):
                self._flag = True

            def clear(self):
                self._flag = False

            def wait(self, timeout=None):
                if self._flag:
                    return True
                s.block(lambda: self._flag, 'event', timeout)
                return self._flag

        self.Thread = Thread
        self.RLock = RLock
        self.Lock = Lock
        self.Event = Event

    def current_thread(self):
        return self._sched.me()

    def get_ident(self):
        t = self._sched.me()
        return t.tid if t is not None else _thread.get_ident()

    def __getattr__(self, name):              # anything else: the real module
        return getattr(_real_threading, name)


class _TimeShim:
    """virtual clock: `sleep(d)` blocks until the scheduler advances `now` by d"""

    def __init__(self, sched):
        self._sched = sched

    def time(self):
        return self._sched.now

    monotonic = time
    perf_counter = time

    def sleep(self, d):
        s = self._sched
        if d <= 0:
            s.yield_point(('sleep', 0))
            return
        s.block(lambda: False, 'sleep', d)

    def __getattr__(self, name):
        return getattr(_real_time, name)


# ------------------------------------------------------------------------------------ exploration
def explore_bounded(run_one, max_preemptions, max_runs=None, on_result=None):
    """Systematic enumeration (stateless depth-first search) of every schedule with at most
    `max_preemptions` pre-emptions.  `run_one(chooser) -> Result` must build a FRESH instance of
    the system under test and run it under `Scheduler(..., chooser=chooser)`.

    The default continuation is non-pre-emptive (keep the running thread; when it blocks or ends,
    every runnable thread is tried -- those forced switches are free).  Returns the number of
    runs; `on_result(result)` is called for each (return True from it to stop early)."""
    runs = 0
    stack = [[]]                               # prefixes still to run
    while stack:
        prefix = stack.pop()
        res = run_one(ReplayChooser(prefix, then=FirstChooser()))
        runs += 1
        if on_result is not None and on_result(res):
            break
        if max_runs is not None and runs >= max_runs:
            break
        # count pre-emptions along the run, branch at every step beyond the prefix
        pre = 0
        budget_at = []
        for st in res.steps:
            budget_at.append(pre)
            if st.current is not None and st.tid != st.current and st.current in st.runnable:
                pre += 1
        for i in range(len(res.steps) - 1, len(prefix) - 1, -1):
            st = res.steps[i]
            if st.tid == TIME:
                continue
            for alt in st.runnable:
                if alt == st.tid or alt == TIME:
                    continue
                cost = 1 if (st.current is not None and alt != st.current and
                             st.current in st.runnable) else 0
                if budget_at[i] + cost <= max_preemptions:
                    stack.append([s.tid for s in res.steps[:i]] + [alt])
    return runs
