#!/usr/bin/env python3
"""C09 — a stop request ends a running script promptly in every state and is never lost.

The real `JobControl` / `ScriptJob` / `Machine` / `Clock` (and `WebApp.stop_all`) run as real
threads under the deterministic virtual-time scheduler of vthreads.py; device commands are
recorded by the simulated network (simnet.py).  A requester thread R issues the stop; the
schedule decides where R's statements land relative to the job thread M and the clock thread
K: systematically at every line boundary (R atomic, and R split between its two flag writes),
then at random.
"""
import linecache
import os
import re
import sys

sys.path.insert(0, os.path.dirname(os.path.abspath(__file__)))
from core import Check, run_check, REPO, InfraError  # noqa: E402
import env  # noqa: E402
import simnet  # noqa: E402
import vthreads as vt  # noqa: E402

TRACE = {'clock.py': None, 'machine.py': {'run', 'stop', '_wait'},
         'script_job.py': {'execute', 'request_stop'}}
TRACE_JC = dict(TRACE, **{'job_control.py': None})
TRACE_WEB = dict(TRACE_JC, **{'web_app.py': {'stop_all'}})
POP = [{"label": "A", "group": "G", "location": "L", "kind": "plain",
        "color": [0, 0, 0, 3500], "power": 0},
       {"label": "B", "group": "G", "location": "L", "kind": "plain",
        "color": [0, 0, 0, 3500], "power": 0},
       {"label": "C", "group": "G", "location": "L", "kind": "plain",
        "color": [0, 0, 0, 3500], "power": 0}]
DAY0 = 1036800.0
CMD_METHODS = ('set_power_all_lights', 'set_color_all_lights', 'set_power', 'set_color')

SHAPES = {
    # name: (script, tick, start-of-run time of day, commands if run to the end or None)
    'straight': ('on all off all on all off all on all off all', 0.25, 9 * 3600, 6),
    'repeat': ('repeat begin on all off all end', 0.25, 9 * 3600, None),
    'timed': ('time 2 on all off all on all', 0.5, 9 * 3600, 3),
    'timeofday': ('time at 10:0* on all time 30 off all', 15.0, 9 * 3600 + 57 * 60 + 30, 2),
    # one command, several operands: one WAIT, then one device command per light — a stop between
    # two of them ends the script after the one in progress
    'multi': ('on "A" and "B" and "C" off "A" and "B" and "C" on "B" and "A" and "C" off "C" and "A"', 0.25, 9 * 3600, 11),
}
NEXT_JOB = 'hue 120 saturation 100 brightness 50 kelvin 2700 set all set all'   # 2 set_color commands
NEXT_CMDS = 2


class Watch:
    """writes to Machine._keep_running and Clock._keep_going, by thread, in global order"""
    log = None
    sched = None


def install_flag_watch(Machine, Clock):
    def make(name):
        slot = '_w' + name

        def get(self):
            return self.__dict__.get(slot, True)

        def set_(self, v):
            self.__dict__[slot] = v
            if Watch.log is not None and Watch.sched is not None:
                cur = Watch.sched.current
                Watch.log.append((len(Watch.sched.decisions), cur.name if cur else '?', name, bool(v),
                                  id(self)))
        return property(get, set_)
    Machine._keep_running = make('_keep_running')
    Clock._keep_going = make('_keep_going')


def namer(target):
    q = getattr(target, '__qualname__', '') or ''
    if q.endswith('Clock.run') or q.endswith('param_wrapper'):
        return 'K'
    if q.endswith('_execute_and_call'):
        return 'M'
    return None


class Scenario:
    def __init__(self, shape, stop, policy, trace=TRACE, max_steps=6000, second=True, rerun=False):
        self.shape = shape          # key of SHAPES
        self.stop = stop            # 'stop_current' | 'stop_job' | 'request_stop' | 'stop_all' | None
        self.policy = policy
        self.trace = trace
        self.max_steps = max_steps
        self.second = second        # queue a second job behind the first
        self.rerun = rerun          # afterwards run the stopped job object again


class Result:
    pass


def run_scenario(sc, mods):
    clock_mod, jc_mod, settings_mod, ScriptJob, WebApp, net = mods
    text, tick, tod, _ = SHAPES[sc.shape]
    settings_mod.Settings._the_config['sleep_time'] = tick
    settings_mod.Settings._the_config['manifest_file_name'] = None
    sched = vt.Sched(policy=sc.policy, t0=DAY0 + tod, trace=sc.trace, namer=namer,
                     max_steps=sc.max_steps, watchdog_s=60.0)
    sched.repo_root = REPO
    sched.lock_timeouts = False     # JobControl's 1 s lock time-out never expires (C08's concern)
    res = Result()
    res.cmds = []          # (decision index, thread, method)
    res.flags = []
    res.marks = {}
    res.in_wait = {}       # thread -> inside pause_for/wait_until
    res.exec_labels = []
    Watch.log, Watch.sched = res.flags, sched
    tie = Tie(res)
    res.tie = tie
    sched.on_exec = tie.on_exec
    undo = vt.install(sched, clock_mod, jc_mod)
    real_log = net.log

    def log(label, method, args, outcome):
        real_log(label, method, args, outcome)
        if method in CMD_METHODS:
            res.cmds.append((len(sched.decisions), sched.current.name, method))
            tie.device_command(sched.current.name)
    net.log = log

    def wrap_clock(job):
        clk = job._machine._clock
        for name in ('pause_for', 'wait_until'):
            real = getattr(clk, name)

            def wrapper(arg, real=real):
                t = sched.current.name
                res.in_wait[t] = True
                try:
                    return real(arg)
                finally:
                    if not sched._aborting:
                        res.in_wait[t] = False
            setattr(clk, name, wrapper)

    def root():
        web = WebApp()
        jc = web._jobs
        res.jc = jc
        job_a = ScriptJob.from_string(text)
        tie.add(job_a, 'A')
        wrap_clock(job_a)
        res.job_a = job_a
        agent_a = jc.add_job(job_a, 'A')          # starts thread M1
        res.agent_a = agent_a
        if sc.second:
            job_b = ScriptJob.from_string(NEXT_JOB)
            tie.add(job_b, 'B')
            wrap_clock(job_b)
            jc.add_job(job_b, 'B')
            res.job_b = job_b

        def requester():
            res.marks['stop_begin'] = len(sched.decisions)
            res.marks['m_in_wait_at_request'] = res.in_wait.get('M1', False)
            try:
                if sc.stop == 'stop_current':
                    res.stop_result = jc.stop_current()
                elif sc.stop == 'stop_job':
                    res.stop_result = jc.stop_job('A')
                elif sc.stop == 'request_stop':
                    res.stop_result = agent_a.request_stop()
                elif sc.stop == 'stop_all':
                    res.stop_result = web.stop_all()
            finally:
                res.marks['stop_end'] = len(sched.decisions)
                res.marks['t_stop_end'] = sched.now
                res.marks['cmds_at_stop_end'] = len(res.cmds)
                res.marks['m_in_wait_at_stop_end'] = res.in_wait.get('M1', False)
                res.marks['threads_at_stop_end'] = [t.name for t in sched.threads]
                res.marks['m1_alive_at_stop_end'] = (sched.thread('M1') is not None
                                                     and sched.thread('M1').is_alive())
                res.marks['active_at_stop_end'] = (jc.get_current().name
                                                   if jc.get_current() is not None else None)
        if sc.stop is not None:
            sched.spawn(requester, 'R')
        sched.block(lambda: all(t.state == 'done' for t in sched.threads if t.name != 'main'))
        res.marks['first_phase_end'] = len(sched.decisions)
        res.queue_after = [a.name for a in jc.get_queued()]
        res.has_jobs_after = jc.has_jobs()
        if sc.rerun:
            res.marks['cmds_before_rerun'] = len(res.cmds)
            jc.add_job(job_a, 'A-again')
            sched.block(lambda: all(t.state == 'done' for t in sched.threads if t.name != 'main'))
    try:
        res.outcome = sched.run(root)
    finally:
        undo()
        net.__dict__.pop('log', None)
        Watch.log = Watch.sched = None
    for inst in tie.instances:
        inst.final = inst.flags()
    res.sched = None
    res.decisions = sched.decisions
    res.leftover = [n for n in sched.leftover if n != 'main']
    res.ended_at = {t.name: t.ended_at for t in sched.threads}
    res.tick = tick
    res.deadlocked = sched.deadlocked
    res.exceptions = {t.name: repr(t.exc) for t in sched.threads if t.exc is not None}
    return res



# ---------------------------------------------------------------- tie to the Lean model
def line_text(frame):
    return linecache.getline(frame.f_code.co_filename, frame.f_lineno).strip()


class Instance:
    """one ScriptJob/Machine/Clock triple = one instance of the model's transition system"""

    def __init__(self, job, name):
        self.name = name
        self.machine = job._machine
        self.clock = job._machine._clock
        self.labels = []
        self.before = []
        self.pending = {}      # thread -> (index, kind, device commands seen so far)
        self.k_index = {}
        self.ran = False
        self.unmapped = []
        self.threads = set()
        self.cmds = 0          # device commands in the current run
        self.cmds_after_stop = None

    def flags(self):
        return str((4 if self.machine._keep_running else 0) + (2 if self.clock._keep_going else 0)
                   + (1 if self.clock._event.flag else 0))

    def emit(self, label):
        self.labels.append(label)
        self.before.append(self.flags())
        return len(self.labels) - 1


class Tie:
    def __init__(self, res):
        self.res = res
        self.by_obj = {}
        self.instances = []

    def add(self, job, name):
        inst = Instance(job, name)
        self.instances.append(inst)
        for o in (job, job._machine, job._machine._clock):
            self.by_obj[id(o)] = inst
        return inst

    def device_command(self, thread_name):
        for inst in self.instances:
            if thread_name in inst.threads:
                inst.cmds += 1
                if inst.cmds_after_stop is not None:
                    inst.cmds_after_stop += 1

    def on_exec(self, thread, label, frame):
        fname, fn = label[0], label[1]
        if fname not in ('clock.py', 'machine.py', 'script_job.py'):
            return
        inst = self.by_obj.get(id(frame.f_locals.get('self')))
        if inst is None:
            return
        txt = line_text(frame)
        name = thread.name
        role = name[0]
        if role == 'M':
            inst.threads.add(name)
            self.m_line(inst, name, fname, fn, txt)
        elif role == 'K':
            self.k_line(inst, name, fn, txt)
        elif role == 'R':
            if fn == 'stop' and txt == 'self._keep_running = False':
                inst.emit('r0')
                inst.cmds_after_stop = 0
            elif fn == 'stop' and txt == 'self._keep_going = False':
                inst.emit('r1')
            elif fn in ('stop', 'request_stop'):
                pass
            else:
                inst.unmapped.append((name, fn, txt))

    def k_line(self, inst, name, fn, txt):
        i = inst.k_index.setdefault(name, len(inst.k_index))
        if fn == 'run':
            if txt == 'while self._keep_going:':
                inst.emit('k1:%d' % i)
            elif txt == 'time.sleep(sleep_time)':
                inst.emit('k2:%d' % i)
            elif txt == 'self._event.set()':
                inst.emit('k9:%d' % i)
            elif txt == 'self._keep_going = True':
                inst.emit('ka:%d' % i)
            elif txt.startswith('sleep_time = ') or txt == 'if sleep_time > 0.0:' or txt == 'self.fire()':
                pass
            else:
                inst.unmapped.append((name, fn, txt))
        elif fn == 'fire':
            if txt == 'self._event.set()':
                inst.emit('k3:%d' % i)
            elif txt == 'self._event.clear()':
                inst.emit('k4:%d' % i)
            else:
                inst.unmapped.append((name, fn, txt))
        else:
            inst.unmapped.append((name, fn, txt))

    def m_line(self, inst, name, fname, fn, txt):
        pend = inst.pending.get(name)
        if pend is not None:
            idx, kind, seen = pend
            done = True
            if kind == 'm4':
                if fn == 'run' and txt.startswith('inst = '):
                    inst.labels[idx] = 'm4+'
                elif fn == 'run' and txt == 'self._clock.stop()':
                    inst.labels[idx] = 'm4-'
                else:
                    inst.unmapped.append((name, fn, txt, 'after while'))
            elif kind == 'x':
                if fn == 'pause_for' and txt == 'self._cue_time += delay':
                    inst.labels[idx] = 'x:d'
                elif fn == 'wait_until' and txt.startswith('hour, minute ='):
                    inst.labels[idx] = 'x:u'
                elif fn == 'run' and txt.startswith('if inst.op_code not in'):
                    inst.labels[idx] = 'x:c' if len(self.res.cmds) > seen else 'x:o'
                elif fn == '_wait':
                    done = False
                else:
                    inst.labels[idx] = 'x:o'
                    inst.unmapped.append((name, fn, txt, 'inside fn()'))
            elif kind == 'p1':
                if fn == 'et':
                    done = False
                elif fn == 'pause_for' and txt == 'if not self.wait():':
                    inst.labels[idx] = 'p1+'
                else:
                    inst.labels[idx] = 'p1-'
            elif kind == 'u1':
                if fn == 'wait_until' and txt == 'if not self.wait():':
                    inst.labels[idx] = 'u1+'
                elif fn == 'wait_until' and txt == 'self.reset()':
                    inst.labels[idx] = 'u1-'
                else:
                    inst.unmapped.append((name, fn, txt, 'after until test'))
            if done:
                del inst.pending[name]
        if fname == 'script_job.py':
            if fn == 'execute':
                if txt == 'if self._program is not None:':
                    if inst.ran:
                        if 'r0' not in inst.labels:
                            inst.emit('rn')
                        inst.emit('re')
                        inst.cmds = 0
                        inst.cmds_after_stop = None
                    inst.ran = True
                elif txt == 'self._machine.reset()':
                    inst.emit('e0')
                elif txt != 'self._machine.run(self._program)':
                    inst.unmapped.append((name, fn, txt))
        elif fname == 'machine.py':
            if fn == 'run':
                if txt == 'self._keep_running = True':
                    inst.emit('m2')
                elif txt.startswith('while self._keep_running and'):
                    inst.pending[name] = (inst.emit(None), 'm4', 0)
                elif txt == 'fn()':
                    inst.pending[name] = (inst.emit(None), 'x', len(self.res.cmds))
                elif txt.startswith('if inst.op_code not in'):
                    inst.emit('m6')
                elif txt == 'self._vm_io.flush()':
                    inst.emit('m10')
                elif txt.startswith('logging.error') or txt.startswith('except ') or txt == 'break':
                    inst.unmapped.append((name, fn, txt))
            elif fn == 'stop':
                # a `stop` instruction of the script itself: not part of the generated shapes
                inst.unmapped.append((name, fn, txt))
        elif fname == 'clock.py':
            if fn == 'start':
                if txt == 'self.reset()':
                    inst.emit('s0')
                elif txt == 'self._keep_going = True':
                    inst.emit('s1')
                elif txt == 'self._event.clear()':
                    inst.emit('s2')
                elif txt.startswith('threading.Thread('):
                    inst.emit('s3')
                else:
                    inst.unmapped.append((name, fn, txt))
            elif fn == 'stop':
                if txt == 'self._keep_going = False':
                    inst.emit('m9')
            elif fn == 'wait':
                if txt == 'if self._keep_going:':
                    inst.emit('w2')
                elif txt.startswith('self._event.wait('):
                    inst.emit('w3')
                elif txt == 'return self._keep_going':
                    inst.emit('w4')
                else:
                    inst.unmapped.append((name, fn, txt))
            elif fn == 'pause_for':
                if txt.startswith('while self.et()'):
                    inst.pending[name] = (inst.emit(None), 'p1', 0)
            elif fn == 'wait_until':
                if txt.startswith('while not time_pattern.match'):
                    inst.pending[name] = (inst.emit(None), 'u1', 0)
                elif txt == 'self.reset()':
                    inst.emit('u5')


def model_request(inst, variant):
    """None if the run was cut off in the middle of a statement"""
    if inst.pending or None in inst.labels:
        return None
    return ('sp.run', [variant] + inst.labels)


def compare_with_model(inst, answer, threads_done):
    """returns None or a description of the difference"""
    head, _, fl = answer.partition(' | ')
    parts = head.split()
    if parts[0] != 'ok':
        i = int(parts[1]) if len(parts) > 1 and parts[1].isdigit() else -1
        return 'model rejects label {} ({}) in state {}'.format(
            i, inst.labels[i] if 0 <= i < len(inst.labels) else '?', ' '.join(parts[2:6]))
    (mpc, k0, k1, rpc, kr, kg, flag, cmds, exit_stopped, cut_short, run2, stopped, armed, inprog,
     after) = parts[1:16]
    want = ''.join(inst.before[1:]) + inst.final
    if fl != want:
        k = next((j for j in range(min(len(fl), len(want))) if fl[j] != want[j]), min(len(fl), len(want)))
        return 'flags (4kr+2kg+event) differ after label {} ({}): impl {} model {}'.format(
            k, inst.labels[k] if k < len(inst.labels) else '?', want[k:k + 1], fl[k:k + 1])
    if threads_done and (mpc != 'done' or k0 not in ('done', 'none') or k1 not in ('done', 'none')):
        return 'all threads ended but the model is at {} {} {}'.format(mpc, k0, k1)
    if int(cmds) != inst.cmds:
        return 'device commands in the last run: impl {} model {}'.format(inst.cmds, cmds)
    if stopped == '1' and inst.cmds_after_stop is not None and int(after) != inst.cmds_after_stop:
        return 'device commands after the stop: impl {} model {}'.format(inst.cmds_after_stop, after)
    return None


# ---------------------------------------------------------------- oracle
def judge(sc, res):
    """the property on one run: list of (signature, text)"""
    bad = []
    text, tick, tod, full = SHAPES[sc.shape]
    m = res.marks
    for name, exc in res.exceptions.items():
        bad.append(('exception-in-' + ('requester' if name == 'R' else 'thread'),
                    '{} died with {}'.format(name, exc)))
    stopped = sc.stop is not None and 'stop_end' in m
    # flag history: did the job thread re-arm _keep_running after the requester cleared it?
    rearmed = False
    if stopped:
        cleared = [f for f in res.flags if f[2] == '_keep_running' and not f[3] and f[1] == 'R']
        if cleared:
            first = cleared[0]
            rearmed = any(f[2] == '_keep_running' and f[3] and f[4] == first[4] and f[0] >= first[0]
                          and f[1].startswith('M') for f in res.flags)
    first_phase = res.cmds[:m['cmds_before_rerun']] if 'cmds_before_rerun' in m else res.cmds
    a_cmds = [c for c in first_phase if c[2] in ('set_power_all_lights', 'set_power')]   # job A switches power
    b_cmds = [c for c in first_phase if c[2] in ('set_color_all_lights', 'set_color')]   # job B sets colours
    took_effect = stopped and (m.get('m1_alive_at_stop_end') or len(a_cmds) < (full or 10 ** 9))
    if res.outcome == 'deadlock':
        who = [n for n, _ in res.deadlocked if n != 'main']
        bad.append(('lost-wakeup' if stopped else 'deadlock',
                    'every thread is blocked for ever: {}'.format(res.deadlocked)))
        return bad
    if res.outcome == 'step-limit':
        live = res.leftover
        if 'M1' in live and stopped:
            if rearmed:
                bad.append(('stop-before-arm', 'the stop landed before Machine.run/reset re-armed '
                            '_keep_running; the script goes on ({} commands after the stop)'.format(
                                len(res.cmds) - m.get('cmds_at_stop_end', 0))))
            elif sc.shape == 'timeofday' and res.in_wait.get('M1'):
                bad.append(('stop-ignored-in-time-at', 'the job thread spins in wait_until after '
                            'the stop and never ends'))
            else:
                bad.append(('stop-ignored', 'the job thread does not end after the stop'))
        elif any(n.startswith('K') for n in live) and not any(n.startswith('M') for n in live):
            bad.append(('clock-thread-never-stops', 'clock thread(s) {} keep ticking after their '
                        'script ended'.format([n for n in live if n.startswith('K')])))
        else:
            bad.append(('does-not-terminate', 'threads {} still running'.format(live)))
        return bad
    if res.outcome != 'done' or res.leftover:
        bad.append(('run-fails', 'outcome {} leftover {}'.format(res.outcome, res.leftover)))
        return bad
    if stopped:
        after = [c for c in a_cmds if c[0] >= m['stop_end']]
        allowed = 0 if (m['m_in_wait_at_stop_end'] or not m['m1_alive_at_stop_end']) else 1
        if len(after) > allowed:
            if rearmed:
                bad.append(('stop-before-arm', 'the stop landed before Machine.run/reset re-armed '
                            '_keep_running; {} commands were sent after it'.format(len(after))))
            else:
                bad.append(('commands-after-stop', '{} device commands after the stop request had '
                            'been carried out (at most {} allowed: the instruction in progress)'
                            .format(len(after), allowed)))
        # from the moment the stop STARTS to take effect (the requester's first write to one of
        # the run flags) the job may finish the instruction in progress, nothing more — also
        # when the requester is held up in the middle of the stop
        effect = [f for f in res.flags if f[1] == 'R' and not f[3]
                  and f[2] in ('_keep_running', '_keep_going')]
        if effect and not rearmed:
            during = [c for c in a_cmds if c[0] >= effect[0][0]]
            if len(during) > 1:
                bad.append(('commands-while-stop-in-progress',
                            '{} device commands after the stop had begun to take effect ({} := '
                            'False by the requester); at most the instruction in progress is '
                            'allowed'.format(len(during), effect[0][2])))
        # promptly: a delay or time-of-day wait in progress is given up, not sat out — the job
        # thread ends within one tick of the stop having been carried out
        hit_a = any(f[1] == 'R' and f[2] == '_keep_running' and f[4] == id(res.job_a._machine)
                    for f in res.flags)
        if hit_a and m['m1_alive_at_stop_end'] and not rearmed and res.ended_at.get('M1') is not None:
            late = res.ended_at['M1'] - m['t_stop_end']
            if late > res.tick:
                bad.append(('wait-outlasts-stop', 'the job thread ended {} s after the stop had been '
                            'carried out (tick {} s): the {} in progress was sat out'.format(
                                late, res.tick, 'time-of-day wait' if sc.shape == 'timeofday' else 'delay')))
    # the next queued job
    if sc.second:
        if sc.stop == 'stop_all' and stopped:
            started_after = [c for c in b_cmds if c[0] >= m['stop_end']]
            b_started_before = 'M2' in m.get('threads_at_stop_end', [])
            if not b_started_before and b_cmds:
                bad.append(('stop-all-queue-not-empty', 'after stop-all the queued job still ran '
                            '({} commands)'.format(len(b_cmds))))
            elif b_started_before and len(started_after) > 1:
                bad.append(('stop-before-arm' if rearmed else 'commands-after-stop',
                            'stop-all: the then current job sent {} commands afterwards{}'.format(
                                len(started_after), ' (the stop landed before its Machine.run re-armed '
                                '_keep_running)' if rearmed else '')))
            if res.queue_after or res.has_jobs_after:
                bad.append(('stop-all-queue-not-empty', 'after stop-all: queue {} has_jobs {}'.format(
                    res.queue_after, res.has_jobs_after)))
        else:
            # stop_current issued when A had already finished hits B (then current): tolerated
            hit_b = stopped and sc.stop == 'stop_current' and m.get('active_at_stop_end') == 'B'
            if len(b_cmds) != NEXT_CMDS and not hit_b and not (
                    stopped and sc.stop == 'stop_current' and not m.get('m1_alive_at_stop_end')):
                bad.append(('next-job-does-not-run', 'the job queued behind sent {} of its {} commands'
                            .format(len(b_cmds), NEXT_CMDS)))
            if res.has_jobs_after:
                bad.append(('queue-not-drained', 'has_jobs() is still true at the end'))
    if not stopped and full is not None and len(a_cmds) != full:
        bad.append(('run-incomplete', 'without a stop the script sent {} of {} commands'.format(
            len(a_cmds), full)))
    if sc.rerun and full is not None:
        again = [c for c in res.cmds[m.get('cmds_before_rerun', 0):]]
        if len(again) != full:
            bad.append(('stop-not-local', 'the same job started again after the stopped run sent {} '
                        'of its {} commands'.format(len(again), full)))
    return bad


def replay_of(sc, res):
    return {'shape': sc.shape, 'script': SHAPES[sc.shape][0], 'stop': sc.stop, 'second_job': sc.second,
            'rerun': sc.rerun, 'traced': sorted(sc.trace), 'schedule': res.decisions[:3000],
            'flag_writes': res.flags[:40], 'marks': {k: v for k, v in res.marks.items()}}


# ---------------------------------------------------------------- bystanders (real threads, real time)
def bystander_runs(chk, stats, net, clock_mod, jc_mod, settings_mod, ScriptJob):
    """"A stop affects only the run it was aimed at": a background script sits in its timed
    delays while a queued script is stopped (or simply ends).  Production bindings
    (`clock.configure()`), real threads, real `Clock` with a 10 ms tick; the bystander's k-th
    command must not come earlier than the sum of its first k delays (minus one tick), whatever
    happens to the other script."""
    import time as _time
    from bardolph.lib import injection, i_lib
    clock_mod.configure()
    settings_mod.Settings._the_config['sleep_time'] = 0.01
    delay = 0.25
    bystander = 'units logical time {} hue 10 set all hue 20 set all hue 30 set all'.format(delay)
    cases = [('stop_current', 'repeat begin on all end'), ('stop_job', 'repeat begin on all end'),
             ('ends-by-itself', 'on all off all'), ('stop-in-delay', 'time 5 on all off all'),
             ('stop-in-time-at', 'time at 23:59 on all')]
    real_log = net.log
    for kind, other in cases:
        t0 = [None]
        sent = []

        def log(label, method, args, outcome):
            real_log(label, method, args, outcome)
            if method == 'set_color_all_lights' or method == 'set_color':
                sent.append(_time.monotonic() - t0[0])
        net.log = log
        try:
            jc = jc_mod.JobControl()
            job_b = ScriptJob.from_string(bystander)
            job_a = ScriptJob.from_string(other)
            t0[0] = _time.monotonic()
            jc.spawn_job(job_b, 'bystander')
            jc.add_job(job_a, 'A')
            _time.sleep(0.08)
            if kind == 'stop_job':
                jc.stop_job('A')
            elif kind != 'ends-by-itself':
                jc.stop_current()
            deadline = _time.monotonic() + 5
            while (jc.is_running('bystander') or jc.has_jobs()) and _time.monotonic() < deadline:
                _time.sleep(0.02)
            hung = jc.is_running('bystander') or jc.has_jobs()
            jc.stop_background()
            jc.stop_current()
        finally:
            net.__dict__.pop('log', None)
        chk.count()
        stats['bystander_runs'] = stats.get('bystander_runs', 0) + 1
        early = [(k + 1, round(t, 3)) for k, t in enumerate(sent) if t < (k + 1) * delay - 0.02]
        if early or len(sent) != 3 or hung:
            chk.violation('stop-disturbs-another-run',
                          'while script A ({}) was handled by `{}`, the background script (three commands, {} s '
                          'apart) sent its commands at {} s{}'.format(
                              other, kind, delay, [round(t, 3) for t in sent],
                              ' and did not finish' if hung else ''),
                          {'kind': kind, 'other_script': other, 'bystander_script': bystander,
                           'sent_at': sent, 'how': 'real threads and clock; see harness/c09.py bystander_runs'})
        else:
            chk.nontrivial_case(('bystander', kind))
    injection.bind(clock_mod.Clock).to(i_lib.Clock)


def named_stops(chk, stats, net, clock_mod, jc_mod, settings_mod, ScriptJob):
    """`stop_job(name)` reaches the job of that name wherever it runs — in the queue or in the
    background — whatever else is running meanwhile, and only that job.  Real threads and clock."""
    import time as _time
    from bardolph.lib import injection, i_lib
    clock_mod.configure()
    settings_mod.Settings._the_config['sleep_time'] = 0.01
    endless = 'repeat begin on all time 0.02 wait end'
    # (jobs started as (name, how)), the name stopped, the names that must keep running
    cases = [([('bg', 'spawn'), ('A', 'add')], 'bg', ['A']),
             ([('bg', 'spawn'), ('A', 'add')], 'A', ['bg']),
             ([('bg1', 'spawn'), ('bg2', 'spawn')], 'bg2', ['bg1']),
             ([('bg1', 'spawn'), ('bg2', 'spawn'), ('A', 'add')], 'bg1', ['bg2', 'A']),
             ([('A', 'add'), ('B', 'add'), ('bg', 'spawn')], 'bg', ['A']),
             ([('bg', 'spawn')], 'bg', [])]
    for jobs, target, others in cases:
        jc = jc_mod.JobControl()
        made = []
        for name, how in jobs:
            job = ScriptJob.from_string(endless)
            made.append(job)
            (jc.spawn_job if how == 'spawn' else jc.add_job)(job, name)
        _time.sleep(0.1)
        started = {name: jc.is_running(name) for name, _h in jobs}
        result = jc.stop_job(target)
        deadline = _time.monotonic() + 2
        while jc.is_running(target) and _time.monotonic() < deadline:
            _time.sleep(0.01)
        lost = jc.is_running(target)
        _time.sleep(0.05)
        hit = [n for n in others if not jc.is_running(n)]
        jc.clear_queue()
        jc.stop_current()
        jc.stop_background()
        deadline = _time.monotonic() + 3
        while (jc.has_jobs() or any(jc.is_running(n) for n, _h in jobs)) and _time.monotonic() < deadline:
            _time.sleep(0.01)
        for job in made:          # whatever the job control did: no thread may outlive the case
            job.request_stop()
        chk.count()
        stats['named_stops'] = stats.get('named_stops', 0) + 1
        replay = {'jobs': jobs, 'stopped': target, 'script': endless, 'running_before': started,
                  'how': 'real threads and clock; see harness/c09.py named_stops'}
        if lost or not result:
            chk.violation('stop-by-name-lost',
                          'stop_job({!r}) returned {!r} and the job {} while {} ran'.format(
                              target, result, 'kept running' if lost else 'ended', [n for n, _h in jobs]), replay)
        elif hit:
            chk.violation('stop-disturbs-another-run',
                          'stop_job({!r}) also ended {}'.format(target, hit), replay)
        else:
            chk.nontrivial_case(('named-stop', str(jobs), target))
    injection.bind(clock_mod.Clock).to(i_lib.Clock)


# ---------------------------------------------------------------- main
def main():
    chk = Check('C09')
    chk.lean_phase(sections={'Clock'})
    rng = chk.rng
    net, ls, trace = simnet.install(POP, settings_overrides={'sleep_time': 0.25})
    from bardolph.lib import clock as clock_mod, job_control as jc_mod, settings as settings_mod
    from bardolph.lib import injection, i_lib
    from bardolph.controller.script_job import ScriptJob
    from bardolph.vm.machine import Machine
    from web.web_app import WebApp
    injection.bind(clock_mod.Clock).to(i_lib.Clock)
    install_flag_watch(Machine, clock_mod.Clock)
    mods = (clock_mod, jc_mod, settings_mod, ScriptJob, WebApp, net)
    stats = {'runs': 0, 'systematic': 0, 'split': 0, 'split-stop-all': 0, 'random': 0, 'steps': 0, 'by_shape': {},
             'by_stop': {}, 'outcomes': {}, 'stopped_in_wait': 0, 'stopped_running': 0,
             'stopped_after_end': 0}

    def do(sc, kind):
        res = run_scenario(sc, mods)
        chk.count()
        stats['runs'] += 1
        stats[kind] += 1
        stats['steps'] += len(res.decisions)
        stats['by_shape'][sc.shape] = stats['by_shape'].get(sc.shape, 0) + 1
        stats['by_stop'][str(sc.stop)] = stats['by_stop'].get(str(sc.stop), 0) + 1
        stats['outcomes'][res.outcome] = stats['outcomes'].get(res.outcome, 0) + 1
        if sc.stop is not None and 'stop_end' in res.marks:
            if not res.marks['m1_alive_at_stop_end']:
                stats['stopped_after_end'] += 1
            elif res.marks['m_in_wait_at_stop_end']:
                stats['stopped_in_wait'] += 1
            else:
                stats['stopped_running'] += 1
        bad = judge(sc, res)
        for sig, text_ in bad:
            chk.violation(sig, '[{} / {}] {}'.format(sc.shape, sc.stop, text_), replay_of(sc, res))
        chk.nontrivial_case((sc.shape, sc.stop, tuple(res.decisions[:400])))
        tie_up(sc, res, bad)
        return res, bad

    def tie_up(sc, res, bad):
        for inst in res.tie.instances:
            if inst.unmapped:
                stats['unmapped_lines'] = stats.get('unmapped_lines', 0) + 1
                chk.disagreement('sp.lines', {'shape': sc.shape, 'stop': sc.stop}, inst.unmapped[:3],
                                 'source line without a label in the model')
                continue
            if not inst.labels:
                continue
            req = model_request(inst, 'fixed')
            if req is None or res.outcome != 'done':
                stats['model_skipped_cut_off'] = stats.get('model_skipped_cut_off', 0) + 1
                continue
            requests.append((req, inst, sc, res.decisions[:3000]))

    # ---- baselines without a stop: every shape that ends runs to completion, twice
    base_len = {}
    requests = []
    for shape in SHAPES:
        sc = Scenario(shape, None, vt.RunToBlock(max_run=150), max_steps=1500 if shape == 'repeat' else 6000,
                      rerun=SHAPES[shape][3] is not None)
        res = run_scenario(sc, mods)
        chk.count()
        base_len[shape] = len(res.decisions)
        if shape != 'repeat':
            bad = judge(sc, res)
            for sig, text_ in bad:
                chk.violation(sig, '[{} / no stop] {}'.format(shape, text_), replay_of(sc, res))
            tie_up(sc, res, bad)

    # ---- systematic: the stop injected at every decision of the baseline schedule
    stops = ['stop_current', 'stop_job', 'request_stop', 'stop_all']
    for shape in SHAPES:
        n = min(base_len[shape], 320 if not chk.thorough else 1500)
        stride = 1
        for i in range(0, n, stride):
            kind = stops[i % 4] if not chk.thorough else None
            for stop in ([kind] if kind else stops):
                pol = vt.Inject(vt.RunToBlock(max_run=150), 'R', i)
                do(Scenario(shape, stop, pol, rerun=(i % 5 == 0 and SHAPES[shape][3] is not None)),
                   'systematic')
        # the requester split between its two flag writes (and before the first)
        for i in range(0, n, 3 if not chk.thorough else 1):
            for burst, gap in (((3, 2), (3, 9), (2, 5)) if not chk.thorough else ((3, 2), (3, 9), (2, 5), (4, 4))):
                pol = vt.Inject2(vt.RunToBlock(max_run=150), 'R', [(i, burst), (i + burst + gap, None)])
                do(Scenario(shape, 'request_stop' if (i // 3) % 2 else 'stop_current', pol), 'split')

    # ---- stop-all split at every one of its own lines (and every line of the controller calls it
    # makes): the other threads run until they block, then the requester finishes
    for shape in SHAPES:
        n = min(base_len[shape], 320)
        points = sorted({0, 1, n // 5, n // 3, n // 2, (2 * n) // 3, n - 2} if not chk.thorough
                        else set(range(0, n, 4)))
        for i in points:
            if i < 0:
                continue
            for burst in range(1, 30):
                pol = vt.Inject2(vt.RunToBlock(max_run=150), 'R', [(i, burst), (i + burst + 200, None)])
                do(Scenario(shape, 'stop_all', pol, trace=TRACE_WEB), 'split-stop-all')

    # ---- a stop request cut in two by a clock tick: the requester runs part of its way (into
    # Machine.stop / Clock.stop), time passes, the clock thread runs until it sleeps again or
    # ends, the requester finishes, and only then the script thread moves on — for the shapes
    # that wait, at every (second) decision of the baseline
    stats['three-way'] = 0
    for shape in ('timed', 'timeofday'):
        n = min(base_len[shape], 320)
        for i in range(0, n, 1 if chk.thorough else 2):
            for burst in range(3, 13 if chk.thorough else 11):
                pol = vt.ThreeWay(vt.RunToBlock(max_run=150), 'R', i, burst, 'K')
                do(Scenario(shape, 'request_stop' if (i // 2 + burst) % 2 else 'stop_current', pol), 'three-way')

    # ---- random schedules (job_control.py traced as well)
    n_rand = 400 if not chk.thorough else 8000
    import random
    for k in range(n_rand):
        shape = rng.choice(list(SHAPES))
        stop = rng.choice(stops)
        seed = rng.randrange(1 << 30)
        base = vt.Random(random.Random(seed), stick=rng.choice([0.5, 0.75, 0.9]), p_adv=0.0)
        at = rng.randrange(0, max(2, base_len[shape] if shape != 'repeat' else 300))
        pol = vt.Inject2(base, 'R', [(at, rng.choice([1, 2, 3, 4, None])),
                                     (at + rng.randrange(1, 40), None)])
        do(Scenario(shape, stop, pol, trace=TRACE_JC if k % 2 else TRACE,
                    rerun=(k % 4 == 0 and SHAPES[shape][3] is not None)), 'random')

    # ---- correspondence: every completed run, label by label, through the Lean transition system
    answers = chk.driver.ask_many([r[0] for r in requests]) if requests else []
    n_dis = 0
    for (req, inst, sc, decisions), ans in zip(requests, answers):
        diff = compare_with_model(inst, ans, True)
        if diff is None and len(chk.coverage['samples']) < 3 and 'r0' in inst.labels:
            chk.sample({'shape': sc.shape, 'stop': sc.stop, 'instance': inst.name,
                        'labels': ' '.join(inst.labels)[:400], 'model': ans[:160]})
        if diff is not None:
            n_dis += 1
            chk.disagreement('sp.run', {'shape': sc.shape, 'stop': sc.stop, 'instance': inst.name,
                                        'labels': ' '.join(inst.labels)[:1500],
                                        'schedule': decisions[:600]},
                             diff, ans[:200])
    stats['model_runs'] = len(requests)
    stats['model_labels'] = sum(len(r[0][1]) - 1 for r in requests)
    stats['model_disagreements'] = n_dis

    bystander_runs(chk, stats, net, clock_mod, jc_mod, settings_mod, ScriptJob)
    named_stops(chk, stats, net, clock_mod, jc_mod, settings_mod, ScriptJob)
    chk.coverage['distribution'] = stats
    chk.coverage['rule'] = (
        'one run = one script shape x one kind of stop request x one schedule through the real '
        'JobControl/ScriptJob/Machine/Clock; systematic runs inject the requester at every decision '
        'of the baseline schedule (atomic, and split between its flag writes); non-trivial = every '
        'run with a stop; distinct by (shape, stop, schedule prefix)')
    chk.coverage['rule'] += ' Added late, as TESTS in real time with real threads (not proofs): bystander runs, stop_job(name) in six constellations (`named_stops`).'
    chk.assumptions += [
        'thread switches only at source-line boundaries of clock.py, Machine.run/stop/_wait, '
        'script_job.py (and job_control.py in half of the random runs)',
        'one simulated light: every command instruction sends exactly one device request',
    ]
    if chk.thorough:
        chk.leanchecker()
    chk.finish()


def replay_main(path):
    """./check C09 --replay FILE: run the recorded schedule again on the real code"""
    import json
    with open(path) as f:
        rec = json.load(f)
    r = rec['replay']
    net, ls, trace = simnet.install(POP, settings_overrides={'sleep_time': 0.25})
    from bardolph.lib import clock as clock_mod, job_control as jc_mod, settings as settings_mod
    from bardolph.lib import injection, i_lib
    from bardolph.controller.script_job import ScriptJob
    from bardolph.vm.machine import Machine
    from web.web_app import WebApp
    injection.bind(clock_mod.Clock).to(i_lib.Clock)
    install_flag_watch(Machine, clock_mod.Clock)
    mods = (clock_mod, jc_mod, settings_mod, ScriptJob, WebApp, net)
    sc = Scenario(r['shape'], r['stop'], vt.Replay(r['schedule'], then=vt.RunToBlock(max_run=150),
                                                   lenient=True),
                  trace=TRACE_JC if 'job_control.py' in r.get('traced', []) else TRACE,
                  second=r.get('second_job', True), rerun=r.get('rerun', False))
    res = run_scenario(sc, mods)
    bad = judge(sc, res)
    print('replay of {}: outcome={} decisions={}'.format(path, res.outcome, len(res.decisions)))
    for sig, text_ in bad:
        print('  {}: {}'.format(sig, text_))
    if any(sig == rec.get('signature') for sig, _ in bad):
        print('VIOLATION property=C09 replay={} (reproduced)'.format(path))
        sys.exit(1)
    print('not reproduced')
    sys.exit(0)


def guarded():
    try:
        if '--replay' in sys.argv:
            replay_main(sys.argv[sys.argv.index('--replay') + 1])
        main()
    except (InfraError, SystemExit):
        raise
    except vt.Hang as ex:
        raise InfraError('scheduler watchdog: {}'.format(ex))


if __name__ == '__main__':
    run_check(guarded)
