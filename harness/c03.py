#!/usr/bin/env python3
"""C03 — parameters are by-value locals hiding globals; return works from any depth."""
import os
import sys

sys.path.insert(0, os.path.dirname(os.path.abspath(__file__)))
from core import Check, run_check  # noqa: E402
import progcheck  # noqa: E402
import progs  # noqa: E402

FEATURES = {'weights': {'define': 6, 'call': 6, 'assign': 5, 'print': 5, 'action': 1, 'setreg': 1,
                        'repeat': 3, 'if': 3, 'wait': 0, 'units': 0, 'timeat': 0, 'macro': 0, 'get': 0},
            'recursion': True, 'shadow': 0.8, 'zones': False, 'matrix': False, 'default': False,
            'none_values': True, 'shared_names': True, 'printf_calls': True}


def num(v):
    return ('num', v)


def corpus():
    pop = [{'label': 'Top', 'group': 'Pole', 'location': 'Home', 'kind': 'plain'},
           {'label': 'Candle', 'group': 'Pole', 'location': 'Home', 'kind': 'matrix',
            'height': 2, 'width': 2}]
    P = lambda e: ('print', e)  # noqa
    v = lambda n: ('var', n)  # noqa
    out = []
    # return from inside nested repeats delivers the value and leaves the caller's loop intact
    out.append([('define', 'f', [], [('repeat', ('count', num(3)),
                                      [('repeat', ('count', num(2)), [('return', num(7))])])]),
                ('repeat', ('range', 'i', num(1), num(3)), [P(('call', 'f', [])), P(v('i'))])])
    # a parameter assigned inside a loop / conditional stays private and hides the global
    out.append([('assign', 'x', num(50)),
                ('define', 'g', ['x'], [('repeat', ('count', num(2)),
                                         [('assign', 'x', ('expr', ('bin', '+', v('x'), num(1))))]),
                                        ('if', ('expr', ('bin', '>', v('x'), num(0))),
                                         [('assign', 'x', ('expr', ('bin', '*', v('x'), num(2))))], None),
                                        P(v('x'))]),
                ('call', 'g', [num(5)], False), P(v('x'))])
    # arguments are evaluated in the caller's scope although the callee's parameters have the
    # same names
    out.append([('assign', 'g', num(5)), ('assign', 'a', num(9)),
                ('define', 'callee', ['g', 'a'], [P(v('g')), P(v('a'))]),
                ('define', 'caller', [], [('call', 'callee', [num(1), v('g')], False),
                                          ('call', 'callee', [v('a'), v('g')], False)]),
                ('call', 'caller', [], False), ('call', 'callee', [v('a'), v('g')], False)])
    # assigning to a global from inside a routine; any other name is local and gone afterwards
    out.append([('assign', 'total', num(0)),
                ('define', 'add', ['n'], [('assign', 'total', ('expr', ('bin', '+', v('total'), v('n')))),
                                          ('assign', 'tmp', v('n'))]),
                ('call', 'add', [num(3)], False), ('call', 'add', [num(4)], False),
                P(v('total')), ('assign', 'tmp', num(1)), P(v('tmp'))])
    # nested calls as arguments, each with its own parameters
    out.append([('define', 'sq', ['x'], [('return', ('expr', ('bin', '*', v('x'), v('x'))))]),
                ('define', 'add2', ['x', 'y'], [('return', ('expr', ('bin', '+', v('x'), v('y'))))]),
                P(('call', 'add2', [('call', 'sq', [num(3)]), ('call', 'add2', [('call', 'sq', [num(2)]), num(1)])])),
                P(('expr', ('bin', '-', ('call', 'sq', [num(5)]), ('call', 'sq', [('call', 'add2', [num(1), num(1)])]))))])
    # a parameter holding "nothing" (the result of a bare return) still hides the global
    out.append([('assign', 'x', num(100)), ('define', 'nothing', [], [('return', None)]),
                ('define', 'g', ['x'], [P(v('x')), ('return', v('x'))]),
                ('println', ('call', 'g', [('call', 'nothing', [])])),
                ('define', 'h', ['x'], [('assign', 'x', ('call', 'nothing', [])), P(v('x'))]),
                ('call', 'h', [num(1)], False), P(v('x'))])
    # a matrix block inside a routine must not make the parameters unknown
    out.append([('define', 'm', ['p'], [('action', 'set', [('matrix_block', ('str', 'Candle'),
                                                          [('stage', (num(0), None), None, False)])]),
                                       P(v('p'))]),
                ('call', 'm', [num(4)], False)])
    # each call has its own locals: a parameterless helper assigning the same names as its caller's
    # parameter and local must not change them (from a loop, from an if, and as an argument)
    out.append([('define', 'helper', [], [('assign', 'a', num(99)), ('assign', 't', num(100)), ('return', num(1))]),
                ('define', 'f', ['a', 'b'], [('assign', 't', v('b')), ('call', 'helper', [], False),
                                             P(v('a')), P(v('t')),
                                             ('repeat', ('count', num(2)), [('call', 'helper', [], False), P(v('a'))]),
                                             ('if', ('expr', ('bin', '>', v('a'), num(0))),
                                              [('call', 'helper', [], False)], None),
                                             P(('expr', ('bin', '+', v('a'), ('call', 'helper', [])))),
                                             P(v('t'))]),
                ('call', 'f', [num(1), num(2)], False)])
    # a local of a parameterless routine called from the top level is gone afterwards and does
    # not become a variable shared by the activations of a recursive routine
    out.append([('define', 'init', [], [('assign', 'acc', num(1))]),
                ('call', 'init', [], False),
                ('define', 'fact', ['n'], [('assign', 'acc', v('n')),
                                           ('if', ('expr', ('bin', '>', v('n'), num(1))),
                                            [('assign', 'r', ('call', 'fact', [('expr', ('bin', '-', v('n'), num(1)))])),
                                             ('return', ('expr', ('bin', '*', v('acc'), v('r'))))], None),
                                           ('return', num(1))]),
                P(('call', 'fact', [num(4)]))])
    # return from the inner of two nested loops, the outer one over lights (names still to be
    # visited are on the evaluation stack), called from a loop over lights and inside an expression
    out.append([('define', 'pick', ['k'],
                 [('repeat', ('all', 'M', None),
                   [('repeat', ('count', num(3)),
                     [('if', ('expr', ('bin', '>', v('k'), num(0))), [('return', v('k'))], None)])]),
                  ('return', num(0))]),
                ('repeat', ('all', 'L', None), [P(('call', 'pick', [num(2)])), P(v('L'))]),
                ('assign', 'y', ('expr', ('bin', '+', num(100), ('call', 'pick', [num(3)])))), P(v('y')),
                ('repeat', ('in', [('light', ('str', 'Top')), ('light', ('str', 'Candle'))], 'L', None),
                 [('call', 'pick', [num(1)], False), P(v('L'))])])
    # a macro defined AFTER a routine whose parameter / local has the same name: inside the routine
    # the name stays the routine's own
    out.append([('define', 'f', ['x'], [('assign', 'y', ('expr', ('bin', '+', v('x'), num(1)))), P(v('x')), P(v('y')),
                                        ('return', ('expr', ('bin', '*', v('x'), num(2))))]),
                P(('call', 'f', [num(7)])),
                ('define_macro', 'x', num(5)), ('define_macro', 'y', num(6)),
                P(('call', 'f', [num(7)])),
                ('repeat', ('count', num(2)), [P(('call', 'f', [num(3)]))])])
    # deep recursion with a pending operand at every level (the call is the SECOND operand of the
    # sum, so each activation leaves a value on the evaluation stack until its callee returns)
    for depth in (40, 300, 700):
        out.append([('define', 'sum_to', ['n'],
                     [('if', ('expr', ('bin', '<=', v('n'), num(0))), [('return', num(0))], None),
                      ('return', ('expr', ('bin', '+', v('n'),
                                           ('call', 'sum_to', [('expr', ('bin', '-', v('n'), num(1)))]))))]),
                    P(('call', 'sum_to', [num(depth)])), P(num(1))])
    # … and a macro defined BEFORE the routine: a parameter (or a local) of the same name hides it
    # for the whole body — value positions, loop bounds, command operands and arguments alike
    out.append([('define_macro', 'x', num(5)), ('define_macro', 'lamp', ('str', 'nolight')),
                ('define', 'g', ['q'], [('return', ('expr', ('bin', '+', v('q'), num(100))))]),
                ('define', 'f', ['x', 'lamp'],
                 [P(v('x')), ('setreg', 'hue', v('x')), P(('reg', 'hue')),
                  ('repeat', ('count', v('x')), [P(num(0))]),
                  P(('call', 'g', [v('x')])), P(v('lamp')),
                  ('return', ('expr', ('bin', '*', v('x'), num(2))))]),
                P(('call', 'f', [num(2), ('str', 'a')])), P(('macro', 'x')), P(('macro', 'lamp'))])
    # parameters named like internal registers that are no words of the language: read through a
    # printf named field they are the parameters, in every activation
    out.append([('action', 'on', 'all'),
                ('define', 'report', ['power', 'result', 'operand'],
                 [P(v('power')), ('printf', '{power} {result} {operand}', []),
                  ('if', ('expr', ('bin', '>', v('power'), num(0))),
                   [('call', 'report', [('expr', ('bin', '-', v('power'), num(1))), v('result'), v('operand')], False)],
                   None)]),
                ('call', 'report', [num(2), num(100), ('str', 'outer')], False)])
    # … also when the parameter is WRITTEN: assigned (at any depth), used as a loop's index variable
    out.append([('define_macro', 'top', num(5)), ('define_macro', 'idx', num(9)),
                ('define', 'clamp', ['v', 'top'],
                 [('if', ('expr', ('bin', '>', v('v'), v('top'))), [('assign', 'top', ('expr', ('bin', '+', v('top'), num(100))))], None),
                  ('repeat', ('count', num(2)), [('assign', 'top', ('expr', ('bin', '+', v('top'), num(1))))]),
                  ('return', v('top'))]),
                ('define', 'walk', ['idx'],
                 [('repeat', ('range', 'idx', num(1), num(3)), [P(v('idx'))]), ('return', v('idx'))]),
                P(('call', 'clamp', [num(7), num(3)])), P(('call', 'clamp', [num(1), num(3)])),
                P(('call', 'walk', [num(40)])), P(('macro', 'top')), P(('macro', 'idx'))])
    return [(prog, pop) for prog in out]


def main():
    chk = Check('C03', extra_modules=['Bardolph.Proofs.VmSteps', 'Bardolph.Props.C03Parse', 'Bardolph.Proofs.ParseTokBase'])
    chk.lean_phase(sections=set())
    rng = chk.rng
    n = 2500 if chk.thorough else 300
    stats = {}
    cases = [progcheck.Case(p, pop, label='corpus') for p, pop in corpus()]
    for i in range(n):
        prog, pop = progs.generate(rng, size=14, max_depth=4 if i % 3 == 0 else 3, features=FEATURES)
        cases.append(progcheck.Case(prog, pop))
    infos = progcheck.run_cases(chk, cases, stats=stats,
                                oracle_sig='routine-semantics-differs')
    calls = shadows = returns_in_loops = recs = 0
    for c in cases:
        t = c.text
        calls += t.count('[') + t.count('\nfn')
        recs += t.count('define rec')
    stats['bracketed_calls'] = calls
    stats['recursive_routines'] = recs
    for info in infos[:3]:
        chk.sample({'script': info['case'].text[:500]})
    chk.coverage['distribution'] = stats
    chk.coverage['rule'] = (
        'routine-heavy generated scripts (parameters shadowing globals with probability 0.8, '
        'assignments to parameters inside loops and conditionals, returns at any loop depth, '
        'recursive routines, calls as arguments and expression operands) plus a fixed corpus of '
        'the situations the property names; printed values and commands of the real execution '
        'compared with the source-level semantics; non-trivial = distinct script with matching trace')
    if chk.thorough:
        chk.leanchecker()
    chk.finish()


if __name__ == '__main__':
    run_check(main)
