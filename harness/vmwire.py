"""Wire format between the Python harness and the Lean VM/loader model, and capture of the
implementation's own trace in the same canonical form.

Canonical events (tuples):
  ('C', light, [h,s,b,k], duration)        set_color delivered to a device
  ('P', light, power, duration)            set_power
  ('Z', light, first, last, color, dur)    set_zone_color(first, last(exclusive), …)
  ('T', light, cells, duration, w, h)      SetTileState64
  ('AC', color, duration) ('AP', power, duration)   LAN-wide calls
  ('G', light)                             get_color answered
  ('W', seconds)                           Clock.pause_for
  ('U', matrix)                            Clock.wait_until (1440-bit match matrix as int)
  ('O', value) ('F', text) ('NL',) ('FL',) Output sink calls (F = a printf result)
  ('S', text)                              text written to stdout directly
"""
import fractions
import sys

from core import REPO

if REPO not in sys.path:
    sys.path.insert(0, REPO)


def _esc(s):
    return s.replace('\\', '\\\\').replace('|', '\\p')


def enc_param(p):
    from bardolph.vm.vm_codes import (IoOp, JumpCondition, LoopVar, Operand, Operator, Register,
                                      SetOp)
    from bardolph.controller.units import UnitMode
    from bardolph.lib.time_pattern import TimePattern
    if p is None:
        return 'n'
    if isinstance(p, Register):
        return 'R:' + p.name
    if isinstance(p, LoopVar):
        return 'L:' + p.name
    if isinstance(p, Operand):
        return 'O:' + p.name
    if isinstance(p, UnitMode):
        return 'U:' + p.name
    if isinstance(p, Operator):
        return 'P:' + p.name
    if isinstance(p, JumpCondition):
        return 'J:' + p.name
    if isinstance(p, IoOp):
        return 'I:' + p.name
    if isinstance(p, SetOp):
        return 'S:' + p.name
    if isinstance(p, bool):
        return 'b:1' if p else 'b:0'
    if isinstance(p, int):
        return 'i:{}'.format(p)
    if isinstance(p, float):
        if p != p or p in (float('inf'), float('-inf')):
            return '?:' + repr(p)
        n, d = p.as_integer_ratio()
        return 'f:{}/{}'.format(n, d)
    if isinstance(p, str):
        return 's:' + _esc(p)
    if isinstance(p, TimePattern):
        return 't:' + pattern_alts(p)
    return '?:' + _esc(repr(p))


def pattern_alts(p):
    """alternatives of a TimePattern as `h.h.h,m.m;…` (from its match matrix when the object
    does not expose alternatives)"""
    alts = getattr(p, '_alternatives', None)
    if alts is None:
        alts = [(getattr(p, '_hour_set', set()), getattr(p, '_minute_set', set()))]
    return '+'.join('.'.join(str(h) for h in sorted(hs)) + ',' + '.'.join(str(m) for m in sorted(ms))
                    for hs, ms in alts)


def enc_instr(inst):
    return '{}|{}|{}'.format(inst.op_code.name, enc_param(inst.param0), enc_param(inst.param1)) \
        if True else ''


def enc_instr_fixed(inst):
    p0 = enc_param(inst.param0) if inst.param0 is not None else ''
    p1 = enc_param(inst.param1) if inst.param1 is not None else ''
    return '{}|{}|{}'.format(inst.op_code.name, p0, p1)


def enc_program(program):
    return [enc_instr_fixed(i) for i in program]


def enc_light(spec):
    kind = spec.get('kind', 'plain')
    if kind == 'multizone':
        k = 'multizone.{}'.format(len(spec.get('zones', [])))
    elif kind == 'matrix':
        k = 'matrix.{}.{}'.format(spec['height'], spec['width'])
    else:
        k = 'plain'
    color = '.'.join(str(int(c)) for c in spec.get('color', [0, 0, 0, 0]))
    return '|'.join([_esc(spec['label']), _esc(spec.get('group', 'g')),
                     _esc(spec.get('location', 'l')), k, color, str(spec.get('power', 0))])


def run_request(program, population, fuel=20000):
    """(cmd, args) for the driver: run the (pre-load) program on the population"""
    return ('vm.run', [fuel, len(population)] + [enc_light(s) for s in population]
            + enc_program(program))


# ------------------------------------------------------------------ decoding model output
def _unesc_out(s):
    out = []
    i = 0
    while i < len(s):
        if s[i] == '%':
            if s[i + 1:i + 3] == 'u{':
                j = s.index('}', i)
                out.append(chr(int(s[i + 3:j], 16)))
                i = j + 1
            else:
                out.append(chr(int(s[i + 1:i + 3], 16)))
                i += 3
        else:
            out.append(s[i])
            i += 1
    return ''.join(out)


class Uninterpretable:
    def __init__(self, what):
        self.what = what

    def __repr__(self):
        return 'Uninterpretable({})'.format(self.what)


def dec_val(t):
    from bardolph.vm.vm_codes import Operand
    from bardolph.controller.units import UnitMode
    if t == 'n':
        return None
    tag, body = t[:2], t[2:]
    if tag == 'i:':
        return int(body)
    if tag == 'f:':
        return fractions.Fraction(body)
    if tag == 'b:':
        return body == '1'
    if tag == 's:':
        return _unesc_out(body)
    if tag == 'O:':
        return Operand[body]
    if tag == 'U:':
        return UnitMode[body]
    if tag == 't:':
        return ('pattern', pattern_matrix_from_alts(body))
    return Uninterpretable(t)


def pattern_matrix_from_alts(body):
    v = 0
    alts = []
    for alt in body.split('+'):
        if ',' not in alt:
            continue
        hs, ms = alt.split(',')
        alts.append(({int(x) for x in hs.split('.') if x}, {int(x) for x in ms.split('.') if x}))
    for h in range(24):
        for m in range(60):
            bit = any(h in hs and m in ms for hs, ms in alts)
            v = (v << 1) | (1 if bit else 0)
    return v


def pattern_matrix(p):
    v = 0
    for h in range(24):
        for m in range(60):
            v = (v << 1) | (1 if p.match(h, m) else 0)
    return v


def _ints(s):
    return [int(x) for x in s.split('.')] if s else []


def _pyval(v):
    """model value -> the Python object the implementation would hold"""
    if isinstance(v, fractions.Fraction):
        return float(v)
    return v


def dec_event(text):
    parts = text.split(':')
    k = parts[0]
    if k == 'C':
        return ('C', _unesc_out(parts[1]), _ints(parts[2]), int(parts[3]))
    if k == 'P':
        return ('P', _unesc_out(parts[1]), int(parts[2]), int(parts[3]))
    if k == 'Z':
        return ('Z', _unesc_out(parts[1]), int(parts[2]), int(parts[3]), _ints(parts[4]),
                int(parts[5]))
    if k == 'T':
        cells = [_ints(c) for c in parts[2].split(',')] if parts[2] else []
        return ('T', _unesc_out(parts[1]), cells, int(parts[3]), int(parts[4]), int(parts[5]))
    if k == 'AC':
        return ('AC', _ints(parts[1]), int(parts[2]))
    if k == 'AP':
        return ('AP', int(parts[1]), int(parts[2]))
    if k == 'G':
        return ('G', _unesc_out(parts[1]))
    if k == 'W':
        return ('W', dec_val(':'.join(parts[1:])))
    if k == 'U':
        return ('U', dec_val(':'.join(parts[1:]))[1])
    if k == 'O':
        return ('O', dec_val(':'.join(parts[1:])))
    if k == 'F':
        fmt = _unesc_out(parts[1]).replace('\\n', '\n')
        rest = ':'.join(parts[2:])
        # positional values then named, separated by the LAST top-level ':' — values never
        # contain an unescaped ':' except after their one-letter tag, so split on ',' first
        pos_text, named_text = _split_fmt_args(rest)
        pos = [_pyval(dec_val(x)) for x in pos_text.split(',')] if pos_text else []
        named = {}
        if named_text:
            for item in named_text.split(','):
                n, v = item.split('=', 1)
                named[_unesc_out(n)] = _pyval(dec_val(v))
        try:
            return ('F', fmt.format(*pos, **named))
        except Exception as ex:  # the implementation raises too; compared as a fault
            return ('F!', type(ex).__name__)
    if k == 'NL':
        return ('NL',)
    if k == 'FL':
        return ('FL',)
    if k == 'S':
        return ('S', _unesc_out(parts[1]))
    return ('?', text)


def _split_fmt_args(rest):
    """`pos:named` where each value is `<tag>:<body>` — find the separator: the ':' that is
    not directly after a one-letter tag at the start of a comma-separated item"""
    depth_items = rest.split(',')
    # rebuild scanning for an item containing a ':' beyond its tag colon
    pos_items = []
    for idx, item in enumerate(depth_items):
        body = item
        # a value is `n` or `X:...`; the named part starts with `name=value`
        if '=' in body and not (len(body) > 1 and body[1] == ':' and '=' not in body.split(':', 2)[0]):
            pass
        pos_items.append(item)
    # simple approach: the separator is the first ':' that is followed by text containing '='
    # or that ends the string
    # try every ':' position
    for i, ch in enumerate(rest):
        if ch != ':':
            continue
        left, right = rest[:i], rest[i + 1:]
        if _all_values(left) and _all_named(right):
            return left, right
    return rest, ''


def _is_value(t):
    return t == 'n' or (len(t) >= 2 and t[1] == ':' and t[0] in 'ifbsOUt')


def _all_values(text):
    return text == '' or all(_is_value(x) for x in text.split(','))


def _all_named(text):
    if text == '':
        return True
    for item in text.split(','):
        if '=' not in item:
            return False
        if not _is_value(item.split('=', 1)[1]):
            return False
    return True


def dec_run(answer):
    """-> (status, pc, [events])"""
    head, _, tail = answer.partition(' ;')
    status, _, pc = head.partition(' pc=')
    events = [dec_event(t) for t in tail.split(';')] if tail else []
    return status, pc, events


# ------------------------------------------------------------------ implementation trace
def impl_events(trace):
    """canonicalise the shared timeline written by simnet (device requests) and env.py
    (clock, output)"""
    out = []
    for e in trace:
        k = e[0]
        if k == 'dev':
            _, label, method, args, outcome = e
            if outcome != 'ok':
                continue
            if method == 'set_color':
                out.append(('C', label, list(args[0]), args[1]))
            elif method == 'set_power':
                out.append(('P', label, args[0], args[1]))
            elif method == 'set_zone_color':
                out.append(('Z', label, args[0], args[1], list(args[2]), args[3]))
            elif method == 'set_tile_state':
                out.append(('T', label, [list(c) if c is not None else None for c in args[0]],
                            args[1], args[2], args[3]))
            elif method == 'set_color_all_lights':
                out.append(('AC', list(args[0]), args[1]))
            elif method == 'set_power_all_lights':
                out.append(('AP', args[0], args[1]))
            elif method == 'get_color':
                out.append(('G', label))
        elif k == 'pause':
            out.append(('W', e[1]))
        elif k == 'wait_until':
            out.append(('U', pattern_matrix(e[1])))
        elif k == 'out':
            out.append(('O', e[1]))
        elif k == 'newline':
            out.append(('NL',))
        elif k == 'flush':
            out.append(('FL',))
        elif k == 'stdout':
            out.append(('S', e[1]))
    return out


def close(a, b, tol=1e-9):
    """numeric comparison impl (float/int) vs model (Fraction/int); exact on type class"""
    if isinstance(b, Uninterpretable):
        return False
    if isinstance(a, bool) or isinstance(b, bool):
        return type(a) is type(b) and a == b
    if isinstance(a, (int, float)) and isinstance(b, (int, fractions.Fraction)):
        if isinstance(a, int) != isinstance(b, int):
            return False
        fa, fb = float(a), float(b)
        return abs(fa - fb) <= tol * max(1.0, abs(fa), abs(fb))
    return type(a) is type(b) and a == b


_NUM = None


def text_close(a, b, tol=1e-9):
    """two rendered texts are equal up to the last digits of floating-point numbers in them"""
    global _NUM
    if a == b:
        return True
    if not isinstance(a, str) or not isinstance(b, str):
        return False
    import re
    if _NUM is None:
        _NUM = re.compile(r'-?\d+\.\d+(?:[eE][-+]?\d+)?')
    pa, pb = _NUM.split(a), _NUM.split(b)
    na, nb = _NUM.findall(a), _NUM.findall(b)
    if pa != pb or len(na) != len(nb):
        return False
    for x, y in zip(na, nb):
        fx, fy = float(x), float(y)
        if abs(fx - fy) > tol * max(1.0, abs(fx), abs(fy)):
            return False
    return True


def events_match(impl, model, wire_slack=0):
    """compare two canonical event lists; returns (ok, index, reason)"""
    for i, (x, y) in enumerate(zip(impl, model)):
        if x[0] == 'O' and y[0] == 'O':
            if not close(x[1], y[1]):
                return False, i, 'output value'
            continue
        if x[0] == 'O' and y[0] == 'F':
            # printf: the implementation hands the formatted string to the sink
            if not text_close(x[1], y[1]):
                return False, i, 'printf text'
            continue
        if x[0] != y[0]:
            return False, i, 'event kind'
        if x[0] == 'W':
            if not close(x[1], y[1]):
                return False, i, 'pause value'
            continue
        if x[0] in ('C', 'P', 'Z', 'T', 'AC', 'AP') and wire_slack:
            if not _wire_close(x, y, wire_slack):
                return False, i, 'wire value'
            continue
        if list(x) != list(y):
            return False, i, 'event differs'
    if len(impl) != len(model):
        return False, min(len(impl), len(model)), 'trace length {} vs {}'.format(
            len(impl), len(model))
    return True, -1, ''


def _wire_close(x, y, slack):
    """device events equal, except that colour components may differ by `slack` raw units
    (ties of the float rounding; exactness of the conversion is property C07's business);
    names, powers, zone indices, sizes and durations must be identical"""
    if len(x) != len(y) or x[0] != y[0]:
        return False
    for a, b in zip(x[1:], y[1:]):
        if isinstance(a, list) and isinstance(b, list):
            if len(a) != len(b):
                return False
            for p, q in zip(a, b):
                if isinstance(p, list) and isinstance(q, list):
                    if len(p) != len(q) or any(abs(u - v) > slack for u, v in zip(p, q)):
                        return False
                elif p is None or q is None or isinstance(p, list) or isinstance(q, list):
                    if p != q:
                        return False
                elif abs(p - q) > slack:
                    return False
        elif a != b:
            return False
    return True


def drop_self_moves(code):
    """remove `MOVE x x` of a variable onto itself and re-express the relative jump offsets.
    `Parser._rvalue` omits the instruction when source and destination are THE SAME OBJECT
    (`value is not dest`), which for variable names holds exactly when CPython hands out a cached
    string (one-character names); the instruction is a no-op in the VM either way, so the tie
    compares programs modulo it."""
    keep = []
    new_index = {}
    for i, ins in enumerate(code):
        new_index[i] = len(keep)
        parts = ins.split('|')
        if parts[0] == 'MOVE' and len(parts) == 3 and parts[1] == parts[2] and parts[1].startswith('s:'):
            continue
        keep.append((ins, i))
    new_index[len(code)] = len(keep)
    out = []
    for k, (ins, old) in enumerate(keep):
        parts = ins.split('|')
        if parts[0] == 'JUMP' and len(parts) == 3 and parts[2].startswith('i:'):
            try:
                target = old + int(parts[2][2:])
            except ValueError:
                target = None
            if target in new_index:
                parts[2] = 'i:{}'.format(new_index[target] - k)
                ins = '|'.join(parts)
        out.append(ins)
    return out
