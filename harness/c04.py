#!/usr/bin/env python3
"""C04 — every repeat form runs the documented number of times with the documented values."""
import os
import sys

sys.path.insert(0, os.path.dirname(os.path.abspath(__file__)))
from core import Check, run_check  # noqa: E402
import progcheck  # noqa: E402
import progs  # noqa: E402

FEATURES = {'weights': {'repeat': 8, 'print': 5, 'assign': 3, 'if': 3, 'action': 3, 'setreg': 2,
                        'define': 2, 'call': 2, 'wait': 0, 'timeat': 0, 'macro': 1, 'get': 0,
                        'units': 1},
            'zones': False, 'matrix': False, 'default': False}


def num(v):
    return ('num', v)


def v(n):
    return ('var', n)


def populations():
    def light(n, g, loc, kind='plain'):
        d = {'label': n, 'group': g, 'location': loc, 'kind': kind}
        if kind == 'multizone':
            d['zones'] = [[0, 0, 0, 3500]] * 4
        return d
    return [
        [],
        [light('Only', 'G', 'L')],
        [light('a', 'G1', 'L1'), light('b', 'G1', 'L2'), light('c', 'G2', 'L1'),
         light('d', 'G2', 'L2'), light('e', 'G3', 'L1', 'multizone')],
        [light(n, 'Same', 'Here') for n in ['Top', 'Middle', 'Bottom', 'Lamp', 'Desk lamp', 'Z', 'a']],
    ]


def direct_cases():
    """every loop form with the counts and bounds the property names, printing the loop
    variable so that the sequence of values is observable"""
    out = []
    P = lambda e: ('print', e)  # noqa
    for pop in populations():
        for n in (0, 1, 2, 5):
            out.append(([('repeat', ('count', num(n)), [P(num(1))]), ('println', num(0))], pop))
            out.append(([('assign', 'k', num(n)),
                         ('repeat', ('count', ('expr', ('bin', '+', v('k'), num(0)))),
                          [('assign', 'k', num(100)), P(v('k'))]), ('println', v('k'))], pop))
            for a, b in ((0, 100), (100, 0), (7.5, 7.5), (-10, 10.25)):
                out.append(([('repeat', ('interp', num(n), 'x', num(a), num(b)), [P(v('x'))])], pop))
            if n > 0:
                for s in (None, 0, 90, 359.5):
                    for mode in ('logical', 'raw', 'rgb'):
                        out.append(([('units', mode),
                                     ('repeat', ('cycle', num(n), 'h', None if s is None else num(s)),
                                      [P(v('h'))])], pop))
            else:
                out.append(([('repeat', ('cycle', num(0), 'h', None), [P(v('h'))]), P(num(9))], pop))
        for a, b in ((1, 5), (5, 1), (3, 3), (-2, 2), (0, 0)):
            out.append(([('repeat', ('range', 'i', num(a), num(b)), [P(v('i'))])], pop))
            out.append(([('assign', 'lo', num(a)),
                         ('repeat', ('range', 'i', ('expr', ('bin', '*', v('lo'), num(1))), num(b)),
                          [P(v('i'))])], pop))
        for w in (None, ('from', 'x', num(0), num(100)), ('from', 'x', num(10), num(-10)),
                  ('cycle', 'x', None), ('cycle', 'x', num(180))):
            body = [P(v('L'))] + ([P(v('x'))] if w else [])
            out.append(([('repeat', ('all', 'L', w), body)], pop))
            out.append(([('repeat', ('groups', 'L', w), body)], pop))
            out.append(([('repeat', ('locations', 'L', w), body)], pop))
            names = [s['label'] for s in pop] or ['ghost']
            groups = sorted({s['group'] for s in pop}) or ['nogroup']
            locs = sorted({s['location'] for s in pop}) or ['nowhere']
            items = [('light', ('str', names[-1])), ('group', ('str', groups[0])),
                     ('location', ('str', locs[-1])), ('light', ('str', names[0]))]
            out.append(([('repeat', ('in', items, 'L', w), body)], pop))
            out.append(([('repeat', ('in', items[1:2], 'L', w), body)], pop))
            # break in an inner loop over lights leaves the outer iteration intact
            out.append(([('repeat', ('in', items, 'L', w),
                          [('repeat', ('all', 'M', None),
                            [P(v('M')), ('if', ('expr', ('bin', '>', num(1), num(0))), [('break',)], None)]),
                           P(v('L'))])], pop))
            # return from inside a loop over lights, called from a loop over lights
            out.append(([('define', 'f', [], [('repeat', ('all', 'M', None), [('return', num(5))]),
                                              ('return', num(6))]),
                         ('repeat', ('in', items, 'L', w), [P(('call', 'f', [])), P(v('L'))])], pop))
        # return from inside two nested loops, the outer one over lights with names left, called
        # from a loop over other names and from inside an expression
        for w in (None, ('from', 'x', num(0), num(100))):
            names = [s['label'] for s in pop] or ['ghost']
            items = [('light', ('str', names[0])), ('light', ('str', names[-1])), ('light', ('str', 'zz'))]
            out.append(([('define', 'deep', ['k'],
                          [('repeat', ('all', 'M', None),
                            [('repeat', ('count', num(3)),
                              [('if', ('expr', ('bin', '>', v('k'), num(0))), [('return', v('k'))], None)])]),
                           ('return', num(0))]),
                         ('repeat', ('in', items, 'L', w), [P(('call', 'deep', [num(2)])), P(v('L'))]),
                         P(('expr', ('bin', '+', num(100), ('call', 'deep', [num(2)]))))], pop))
        # bounds given as variables and expressions that mention the loop's own index variable (an
        # existing variable re-used as index): both bounds are evaluated before the index is set
        out.append(([('assign', 'i', num(5)), ('repeat', ('range', 'i', num(1), v('i')), [P(v('i'))])], pop))
        out.append(([('assign', 'i', num(3)),
                     ('repeat', ('range', 'i', v('i'), ('expr', ('bin', '+', v('i'), num(2)))), [P(v('i'))])], pop))
        out.append(([('assign', 'i', num(2)),
                     ('repeat', ('range', 'i', ('expr', ('bin', '*', v('i'), num(3))), v('i')), [P(v('i'))])], pop))
        out.append(([('assign', 'x', num(100)),
                     ('repeat', ('interp', num(3), 'x', num(0), v('x')), [P(v('x'))])], pop))
        out.append(([('assign', 'x', num(8)),
                     ('repeat', ('interp', v('x'), 'x', v('x'), ('expr', ('bin', '-', v('x'), num(7)))),
                      [P(v('x'))])], pop))
        out.append(([('assign', 'h', num(45)), ('repeat', ('cycle', num(4), 'h', v('h')), [P(v('h'))])], pop))
        out.append(([('assign', 'h', num(90)),
                     ('repeat', ('all', 'L', ('from', 'h', num(0), v('h'))), [P(v('L')), P(v('h'))])], pop))
        out.append(([('define', 'f', ['n'], [('repeat', ('range', 'n', num(1), v('n')), [P(v('n'))])]),
                     ('call', 'f', [num(4)], False)], pop))
        # the index variable is an ordinary variable: it is given its first value after the
        # operands have been evaluated, whatever the count (0, negative: no pass at all), and the
        # increment is added to it after every pass that runs to its end — READ it after the loop
        gt = lambda a, b: ('expr', ('bin', '>', a, b))  # noqa
        plus = lambda a, b: ('expr', ('bin', '+', a, b))  # noqa
        cnt = lambda n: num(n) if n >= 0 else ('expr', ('un', '-', num(-n)))  # noqa
        for n in (0, -1, -2.5, 1, 3):
            for a, b in ((10, 20), (20, 10), (7.5, 7.5)):
                out.append(([('assign', 'x', num(77)),
                             ('repeat', ('interp', cnt(n), 'x', num(a), num(b)), [P(v('x'))]),
                             P(v('x'))], pop))
            for s in (None, 45):
                for mode in ('logical', 'raw'):
                    out.append(([('units', mode), ('assign', 'h', num(77)),
                                 ('repeat', ('cycle', cnt(n), 'h', None if s is None else num(s)),
                                  [P(v('h'))]), P(v('h'))], pop))
            # the count from an expression, the variable new (never assigned before)
            out.append(([('assign', 'k', cnt(n)),
                         ('repeat', ('interp', plus(v('k'), num(0)), 'y', num(1), plus(v('k'), num(5))),
                          [P(v('y'))]), P(v('y'))], pop))
            out.append(([('assign', 'k', cnt(n)),
                         ('repeat', ('cycle', plus(v('k'), num(0)), 'z', v('k')), [P(v('z'))]),
                         P(v('z'))], pop))
        for a, b in ((1, 3), (3, 1), (2, 2), (-1.5, 1)):
            out.append(([('repeat', ('range', 'i', num(a), num(b)), [P(v('i'))]), P(v('i'))], pop))
            # break leaves the variable as it is; a pass that ends normally adds the increment
            out.append(([('repeat', ('range', 'i', num(a), num(b)),
                          [('if', gt(v('i'), num(1)), [('break',)], None), P(v('i'))]), P(v('i'))], pop))
            # the body may assign the index variable: the increment is added to what it then holds,
            # the number of passes is not affected
            out.append(([('repeat', ('range', 'i', num(a), num(b)),
                          [P(v('i')), ('assign', 'i', plus(v('i'), num(10)))]), P(v('i'))], pop))
        out.append(([('repeat', ('interp', num(3), 'x', num(0), num(10)),
                      [P(v('x')), ('assign', 'x', num(100))]), P(v('x'))], pop))
        # the `with` clause of a loop over names (zero names in the empty population / an unknown
        # group): operands evaluated, variable assigned, nothing else
        for w in (('from', 'x', num(10), num(30)), ('from', 'x', plus(num(1), num(2)), num(-3)),
                  ('cycle', 'x', None), ('cycle', 'x', num(90))):
            groups = sorted({s['group'] for s in pop}) or ['nogroup']
            for hdr in (('all', 'L', w), ('groups', 'L', w), ('locations', 'L', w),
                        ('in', [('group', ('str', 'no such group'))], 'L', w),
                        ('in', [('location', ('str', 'no such place'))], 'L', w),
                        ('in', [('group', ('str', groups[0]))], 'L', w)):
                out.append(([('assign', 'x', num(77)),
                             ('repeat', hdr, [P(v('L')), P(v('x'))]), P(v('x'))], pop))
                out.append(([('repeat', hdr, [P(v('x')), ('assign', 'x', plus(v('x'), num(1)))]),
                             P(v('x'))], pop))
        # a name that is also a macro (`define step 10`) re-used as a routine's parameter, and the
        # parameter as a loop's count, bound and body operand: inside the routine the name is the
        # parameter (as a loop's own variable the name is rejected: a macro is a constant)
        out.append(([('define_macro', 'step', num(10)),
                     ('define', 'f', ['step'],
                      [('repeat', ('range', 'i', num(1), v('step')), [P(v('i')), P(v('step'))])]),
                     ('call', 'f', [num(3)], False), P(('macro', 'step'))], pop))
        out.append(([('define_macro', 'n', num(2)),
                     ('define', 'f', ['n'],
                      [('repeat', ('interp', v('n'), 'k', num(5), num(6)), [P(v('k')), P(v('n'))])]),
                     ('call', 'f', [num(3)], False), P(('macro', 'n'))], pop))
        out.append(([('define', 'f', ['angle'],
                      [('repeat', ('cycle', num(3), 'a', v('angle')), [P(v('a'))]), P(v('angle'))]),
                     ('define_macro', 'angle', num(7)),
                     ('call', 'f', [num(30)], False), P(('macro', 'angle'))], pop))
        # while re-tests before every pass; break ends only the innermost loop
        out.append(([('assign', 'y', num(0)),
                     ('repeat', ('while', ('expr', ('bin', '<', v('y'), num(4))), 'y'),
                      [P(v('y')), ('assign', 'y', ('expr', ('bin', '+', v('y'), num(1))))]),
                     ('repeat', ('while', ('expr', ('bin', '<', v('y'), num(0))), 'y'), [P(num(99))])], pop))
        out.append(([('repeat', ('range', 'i', num(1), num(3)),
                      [('repeat', ('count', num(5)),
                        [('repeat', ('forever',), [('break',)]), P(v('i')), ('break',)]),
                       ('println', v('i'))])], pop))
    # loops inside a routine whose parameter hides a global of the same name (here: the index
    # variable of the caller's loop): the parameter counts down / advances, the global is untouched
    P0 = lambda e: ('print', e)  # noqa
    gtz = lambda a: ('expr', ('bin', '>', a, num(0)))  # noqa
    add = lambda a, b: ('expr', ('bin', '+', a, b))  # noqa
    out.append(([('assign', 'n', num(100)),
                 ('define', 'down', ['n'],
                  [('assign', 'guard', num(0)),
                   ('repeat', ('while', gtz(v('n')), 'n'),
                    [P0(v('n')), ('assign', 'n', add(v('n'), num(-1))),
                     ('assign', 'guard', add(v('guard'), num(1))),
                     ('if', ('expr', ('bin', '>', v('guard'), num(12))), [('break',)], None)]),
                   ('return', v('n'))]),
                 P0(('call', 'down', [num(3)])), P0(v('n'))], []))
    out.append(([('define', 'ramp', ['brt'],
                  [('repeat', ('count', num(3)), [P0(v('brt')), ('assign', 'brt', add(v('brt'), num(10)))]),
                   ('repeat', ('range', 'k', num(1), num(2)), [('assign', 'brt', add(v('brt'), v('k')))]),
                   ('return', v('brt'))]),
                 ('repeat', ('range', 'brt', num(1), num(3)),
                  [P0(v('brt')), P0(('call', 'ramp', [num(50)])), P0(v('brt'))]),
                 P0(v('brt'))], []))
    # lights that were never given a label, a group or a location report the empty string: a blank
    # name is a name like any other (it sorts first) — bound once, counted for the range
    blank = [{'label': '', 'group': '', 'location': 'Home', 'kind': 'plain'},
             {'label': 'b', 'group': 'Pole', 'location': '', 'kind': 'plain'},
             {'label': 'c', 'group': '', 'location': '', 'kind': 'plain'},
             {'label': 'd', 'group': 'Pole', 'location': 'Home', 'kind': 'plain'}]
    P = lambda e: ('print', e)  # noqa
    for w in (None, ('from', 'x', num(0), num(99)), ('cycle', 'x', None)):
        for hdr in (('all', 'L', w), ('groups', 'L', w), ('locations', 'L', w),
                    ('in', [('group', ('str', ''))], 'L', w), ('in', [('location', ('str', ''))], 'L', w),
                    ('in', [('light', ('str', '')), ('light', ('str', 'd'))], 'L', w)):
            body = [P(v('L'))] + ([P(v('x'))] if w else [])
            out.append(([('repeat', hdr, body), P(num(1))], blank))
    return out


def main():
    chk = Check('C04', extra_modules=['Bardolph.Proofs.Loops'])
    chk.lean_phase(sections=set())
    rng = chk.rng
    stats = {}
    cases = [progcheck.Case(p, pop, label='direct') for p, pop in direct_cases()]
    stats['direct_cases'] = len(cases)
    n = 1800 if chk.thorough else 200
    pops = populations()
    for i in range(n):
        pop = rng.choice(pops) if i % 2 else None
        prog, pop = progs.generate(rng, pop=pop, size=8, max_depth=4, features=FEATURES)
        cases.append(progcheck.Case(prog, pop))
    infos = progcheck.run_cases(chk, cases, stats=stats, oracle_sig='loop-semantics-differs')
    forms = {}
    for c in cases:
        def walk(stmts):
            for st in stmts:
                if st[0] == 'repeat':
                    forms[st[1][0]] = forms.get(st[1][0], 0) + 1
                    walk(st[2])
                elif st[0] == 'if':
                    walk(st[2])
                    if st[3]:
                        walk(st[3])
                elif st[0] == 'define':
                    walk(st[3])
        walk(c.prog)
    stats['loop_forms'] = forms
    stats['population_sizes'] = sorted({len(c.pop) for c in cases})
    for info in infos[:2] + infos[-1:]:
        chk.sample({'script': info['case'].text[:400], 'lights': len(info['case'].pop)})
    chk.coverage['distribution'] = stats
    chk.coverage['rule'] = (
        'every repeat form with counts 0/1/2/5, ascending/descending/equal/negative bounds, literal '
        'and expression bounds, cycle with and without start in the three unit modes, all / group / '
        'location / in-lists over populations of 0, 1, 5 and 7 lights (shared and unshared groups), '
        'breaks and returns inside loops over lights; plus loop-heavy random scripts; the printed '
        'loop-variable sequences and commands of the real execution are compared with the '
        'source-level semantics; non-trivial = distinct script with matching trace')
    if chk.thorough:
        chk.leanchecker()
    chk.finish()


if __name__ == '__main__':
    run_check(main)
