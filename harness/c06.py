#!/usr/bin/env python3
"""C06 — the compiler always ends in accept or a line-numbered rejection, never a crash."""
import os
import re
import sys
import threading

sys.path.insert(0, os.path.dirname(os.path.abspath(__file__)))
from core import Check, run_check, PY  # noqa: E402
import env  # noqa: E402
import progs  # noqa: E402
import runimpl  # noqa: E402
import simnet  # noqa: E402
import vmwire  # noqa: E402

POP = [{'label': 'Top', 'group': 'Pole', 'location': 'Home', 'kind': 'plain'},
       {'label': 'Strip', 'group': 'Pole', 'location': 'Home', 'kind': 'multizone',
        'zones': [[0, 0, 0, 3500]] * 4},
       {'label': 'Candle', 'group': 'Den', 'location': 'Home', 'kind': 'matrix', 'height': 3,
        'width': 2}]

WORDS = ['all', 'and', 'as', 'assign', 'at', 'begin', 'break', 'breakpoint', 'column', 'cycle',
         'default', 'define', 'else', 'end', 'from', 'get', 'group', 'if', 'in', 'location', 'logical',
         'not', 'off', 'on', 'or', 'print', 'printf', 'println', 'raw', 'row', 'repeat', 'return',
         'rgb', 'set', 'stage', 'to', 'units', 'while', 'with', 'wait', 'zone',
         'hue', 'saturation', 'brightness', 'kelvin', 'red', 'green', 'blue', 'duration', 'time',
         'H', 'S', 'B', 'K']
NAMES = ['x', 'y', 'f', 'g', 'm', 'Top', 'round', 'floor', 'random', 'cycle', 'i', 'n', 'result']
PUNCT = ['{', '}', '[', ']', '(', ')', '+', '-', '*', '/', '%', '^', '<', '<=', '>', '>=', '==', '!=',
         '#', ':', '!', '=', ',', '.', ';', '@', '&', '|', '"']
LITS = ['0', '1', '2', '5', '100', '2.5', '.5', '007', '1e3', '1.2.3', '"Top"', '"Strip"', '"Candle"',
        '"x"', '""', '"{} {}"', '"{"', '"{x}"', '"{0} {1}"', '"{:>{}}"', '"{x.real}"', '"{0.real}{s[0]}"',
        '"{:{w}.{}f}"', '"{99999999999999999999}"', '"{:{!}}"', '"a b"', '"-"', '"["', '8:00', '*:15',
        '25:00', '1*:3*', '12:61', '*:*', '*']


def internal_words():
    try:
        from bardolph.parser.token import TokenTypes
        out = []
        for m in TokenTypes:
            out += [m.name.lower(), m.name, m.name.capitalize()]
        return out
    except Exception:  # noqa
        return []


INTERNAL_EXC = ('AttributeError', 'KeyError', 'AssertionError', 'IndexError', 'NameError',
                'UnboundLocalError', 'RecursionError', 'StopIteration')


def classify_fault(message):
    """is a VM abort an INTERNAL fault (what the property forbids for accepted scripts) or a
    run-time error of the script's own data (division by zero, arithmetic on a string …)?"""
    m = message
    internal_markers = [
        "object has no attribute", "pushing None", "eval stack underflow", "KeyError",
        "Operand.", "OpCode.", "Register.", "NoneType' object", "is not subscriptable",
        "list index out of range", "pop from an empty deque", "unexpected keyword",
        "takes", "missing", "not callable", "'NoneType'", "must be str", "unhashable",
        "incorrect operand", "invalid format",
    ]
    data_markers = ["division by zero", "unsupported operand type", "not supported between",
                    "can't multiply sequence", "can only concatenate", "bad operand type",
                    "must be real number", "complex", "math domain error", "Unknown format code",
                    "Invalid format specifier", "cannot convert", "integer argument expected",
                    "Replacement index", "out of range", "empty range", "non-integer arg",
                    "Result too large", "Precision not allowed", "Sign not allowed",
                    "Cannot specify", "object cannot be interpreted as an integer", "doesn't define __",
                    "float modulo", "modulo by zero", "argument must be a string or a",
                    "Invalid conversion", "expected '}'", "Single '}'", "Single '{'", "unmatched",
                    "too many", "positional argument", "attribute name",
                    # a string as the left operand of `%` is Python's string formatting
                    "not all arguments converted during string formatting", "not enough arguments for format string",
                    "format requires a mapping", "unsupported format character", "incomplete format",
                    "real number is required", "a number is required"]
    for k in data_markers:
        if k in m:
            return 'data'
    for k in internal_markers:
        if k in m:
            return 'internal'
    return 'unknown'


def compile_text(text, in_thread=True):
    """-> (outcome, detail, job) with outcome accept | reject | raised | silent-reject | bad-message"""
    from bardolph.controller.script_job import ScriptJob
    job = ScriptJob()
    box = {}

    def work():
        try:
            box['program'] = job.load_string(text)
        except BaseException as ex:  # noqa
            box['ex'] = ex
    if in_thread:
        t = threading.Thread(target=work, daemon=True)
        t.start()
        t.join(5.0)
        if t.is_alive():
            return 'hang', 'the compiler did not finish within 5 s', job
    else:
        work()
    if 'ex' in box:
        ex = box['ex']
        return 'raised', '{}: {}'.format(type(ex).__name__, str(ex)[:100]), job
    errors = job.compile_errors
    if job.program is not None:
        if errors.strip():
            return 'accept-with-errors', errors.strip()[:120], job
        return 'accept', '', job
    if not errors.strip():
        return 'silent-reject', '', job
    lines = [ln for ln in errors.split('\n') if ln.strip()]
    if not any(re.match(r'Line \d+: ', ln) for ln in lines):
        return 'bad-message', errors.strip()[:120], job
    return 'reject', errors, job


PUMPS = ['\\a', '\\"', '\\\\', 'a', '1', '.', '1.', ':', '0:', '"', ' ', '-', '- ', '*:', '{', '[', '(', '#', '_',
         'é', '( ', '[round ', 'not ', 'if {1>0} ', 'repeat begin ', 'begin ', '{1 + ', '1 + ', '"a" and ',
         'define f ', '{(', '<=', '==', '!', '\t', 'x1 ']
PUMP_PREFIX = ['', '"', 'define p "', 'time at ', 'hue {', 'print ', 'set ']
PUMP_SUFFIX = ['', '"', '\\', '!', '1', ' end', '}', '\n on all']
PUMP_COUNTS = [24, 48, 400, 3000]
PUMP_LIMIT = 10.0


def pump_inputs(rng, thorough):
    """long repetitions of one short unit between a prefix and a suffix: the inputs on which a
    backtracking regular expression, a recursive-descent routine or a quadratic loop stops
    finishing.  All (prefix, unit, count) triples in the thorough tier, a seeded third of them in
    the quick tier; every unit with every count in both."""
    out = []
    for unit in PUMPS:
        for k in PUMP_COUNTS:
            for prefix in PUMP_PREFIX:
                if not thorough and rng.random() > 0.34 and prefix not in ('', '"'):
                    continue
                out.append(prefix + unit * k + rng.choice(PUMP_SUFFIX))
    return out


EXPR_ALPHABET = ['1', 'x', '+', '*', '^', 'and', 'not', '-', '(', ')', '==', '%', '")"', '"("']


def parens_unbalanced(text):
    """the documented rule, independent of the compiler: outside string literals and comments, the
    round, curly and square brackets of a text must pair up"""
    bare = re.sub(r'"[^"\n]*"', ' ', re.sub(r'#[^\n]*', ' ', text))
    stack = []
    for ch in bare:
        if ch in '({[':
            stack.append(ch)
        elif ch in ')}]':
            if not stack or stack.pop() != {')': '(', '}': '{', ']': '['}[ch]:
                return True
    return bool(stack)


def expr_inputs(rng, thorough):
    """every sequence of up to 3 (thorough: 4) tokens over the operator alphabet between braces,
    plus seeded longer ones: the expression parser must finish on each (accept, or reject with a
    message) — compiled in the child process because an endless loop cannot be interrupted"""
    import itertools
    out = []
    for k in range(1, (4 if thorough else 3) + 1):
        for seq in itertools.product(EXPR_ALPHABET, repeat=k):
            out.append('assign x 1 assign y {' + ' '.join(seq) + '}')
    for _ in range(20000 if thorough else 3500):
        seq = [rng.choice(EXPR_ALPHABET) for _ in range(rng.randint(4, 7))]
        pre = rng.choice(['assign y {', 'if {', 'repeat while {', 'print {', 'hue {'])
        out.append('assign x 1 ' + pre + ' '.join(seq) + '}' + (' print 1' if pre.startswith(('if', 'repeat')) else ''))
    return out


def run_pumps(chk, texts, stats):
    """compile the pump inputs in a child process, one result line per text, under a deadline"""
    import json
    import select
    import subprocess
    import tempfile
    stats['pump_inputs'] = len(texts)
    stats['pump_outcomes'] = {}
    with tempfile.NamedTemporaryFile('w', suffix='.json', delete=False) as f:
        json.dump(texts, f)
        path = f.name
    start = 0
    try:
        while start < len(texts):
            proc = subprocess.Popen([PY, '-W', 'ignore', os.path.join(os.path.dirname(os.path.abspath(__file__)),
                                                                       'c06_worker.py'), path, str(start)],
                                    stdout=subprocess.PIPE, stderr=subprocess.DEVNULL, text=True)
            first = True
            while start < len(texts):
                # the first answer of a fresh child includes its start-up
                ready, _, _ = select.select([proc.stdout], [], [], PUMP_LIMIT + (20 if first else 0))
                first = False
                line = proc.stdout.readline() if ready else ''
                if not line:
                    proc.kill()
                    proc.wait()
                    text = texts[start]
                    chk.count()
                    if ready:
                        chk.violation('compiler-dies', 'the compiling process ended without an answer',
                                      {'text': text[:300], 'length': len(text)})
                    else:
                        chk.violation('compiler-hangs', 'the compiler did not finish within {} s on a text of '
                                      '{} characters'.format(PUMP_LIMIT, len(text)),
                                      {'text': text[:300], 'length': len(text)})
                    stats['pump_outcomes']['hang'] = stats['pump_outcomes'].get('hang', 0) + 1
                    start += 1
                    break
                res = json.loads(line)
                text = texts[res['i']]
                start = res['i'] + 1
                chk.count()
                o = res['outcome']
                stats['pump_outcomes'][o] = stats['pump_outcomes'].get(o, 0) + 1
                if o in ('raised', 'silent-reject', 'bad-message', 'accept-with-errors'):
                    chk.violation({'raised': 'compiler-raises:' + res['detail'].split(':')[0],
                                   'silent-reject': 'rejection-without-line-numbered-message',
                                   'bad-message': 'rejection-without-line-numbered-message',
                                   'accept-with-errors': 'accepted-although-errors-were-reported'}[o],
                                  '{} on a text of {} characters: {}'.format(o, len(text), res['detail']),
                                  {'text': text[:300], 'length': len(text)})
                elif o == 'reject' and res['program_left']:
                    chk.violation('rejected-text-leaves-a-program', 'program left after rejection',
                                  {'text': text[:300], 'length': len(text)})
                elif o == 'accept' and len(text) < 400 and parens_unbalanced(text):
                    chk.violation('documented-rule-not-enforced:unbalanced',
                                  'a text whose brackets do not pair up is accepted', {'text': text[:300]})
                else:
                    chk.nontrivial_case(('p', text))
            else:
                proc.wait()
    finally:
        os.unlink(path)


def execute(job, pop):
    from bardolph.vm import machine as machine_mod
    trace = []
    net, ls, trace = simnet.install([dict(s) for s in pop], trace=trace)
    runimpl.stub_random()
    shim = runimpl.LogShim()
    machine_mod.logging = shim
    job._machine._clock = __import__('bardolph.lib.injection', fromlist=['x']).provide(
        __import__('bardolph.lib.i_lib', fromlist=['x']).Clock)
    timer = threading.Timer(0.5, job.request_stop)
    timer.daemon = True
    timer.start()
    # `pause` reads the keyboard: answer "run without stopping again" and swallow its prompt
    machine_mod.getch = lambda: '!'
    import contextlib
    import io
    try:
        with contextlib.redirect_stdout(io.StringIO()):
            job.execute()
    except BaseException as ex:  # noqa
        return 'escaped', '{}: {}'.format(type(ex).__name__, str(ex)[:100])
    finally:
        timer.cancel()
    stopped = [m for m in shim.errors if m.startswith('Machine stopped due to')]
    if stopped:
        return 'aborted', stopped[0]
    return 'ok', ''


def token_soup(rng, internal):
    n = rng.randint(1, 14)
    out = []
    for _ in range(n):
        k = rng.random()
        if k < 0.45:
            out.append(rng.choice(WORDS))
        elif k < 0.6:
            out.append(rng.choice(NAMES))
        elif k < 0.78:
            out.append(rng.choice(LITS))
        elif k < 0.93:
            out.append(rng.choice(PUNCT))
        else:
            out.append(rng.choice(internal or ['x']))
    sep = rng.choice([' ', ' ', ' ', '\n', '  '])
    return sep.join(out)


def mutate(rng, text):
    toks = text.split()
    if not toks:
        return text
    k = rng.random()
    i = rng.randrange(len(toks))
    if k < 0.3:
        del toks[i]
    elif k < 0.5:
        toks.insert(i, toks[i])
    elif k < 0.7:
        j = rng.randrange(len(toks))
        toks[i], toks[j] = toks[j], toks[i]
    elif k < 0.85:
        toks = toks[:i]
    else:
        toks[i] = rng.choice(WORDS + PUNCT + LITS)
    return ' '.join(toks)


def noise(rng):
    n = rng.randint(0, 30)
    pool = [chr(c) for c in range(0, 128)] + ['é', 'Ω', ' ', '\x85', '퟿', '٣']
    return ''.join(rng.choice(pool) for _ in range(n))


RULES = [
    ('break-outside-loop', 'hue 5 break set all'),
    ('break-outside-loop', 'if {1 > 0} break'),
    ('break-outside-loop', 'define f begin break end'),
    ('break-outside-loop', 'repeat begin define f begin break end end'),
    ('break-outside-loop', 'repeat 2 begin set "Candle" begin break end end'),
    ('assign-to-macro', 'define m 5 assign m 6'),
    ('redefine-routine', 'define f begin print 1 end define f begin print 2 end'),
    ('redefine-macro', 'define m 5 define m 6'),
    ('redefine-macro', 'define m 5 define m 5'),
    ('redefine-macro', 'define m 5 define k m define m k'),
    ('redefine-macro', 'define m 5 hue m define m 6 hue m'),
    ('redefine-macro', 'define m "a" define m "b"'),
    ('redefine-macro', 'define m 8:00 define m 9:00'),
    ('redefine-macro', 'define f begin define m 1 end define m 2'),
    ('redefine-macro', 'define m 2 define f begin define m 1 end'),
    ('redefine-macro', 'define m 5 define m begin print 1 end'),
    ('redefine-macro', 'define m 5 define m with a begin print a end'),
    ('redefine-routine', 'define r begin print 1 end r define r 5'),
    ('redefine-routine', 'define r begin print 1 end r define r 5 define r begin print 2 end r'),
    ('redefine-routine', 'define round 5'),
    # … also after a variable (an assignment, a loop's index or light variable) has taken the name
    ('redefine-routine', 'define r begin print 1 end r assign r 5 define r begin print 2 end'),
    ('redefine-routine', 'define r begin print 1 end r repeat with r from 1 to 2 begin print 0 end '
                         'define r begin print 2 end r'),
    ('redefine-routine', 'define r begin print 1 end r repeat all as r begin print 0 end define r begin print 2 end r'),
    ('redefine-routine', 'repeat with round from 1 to 2 print round define round with x begin return 7 end '
                         'print [round 2.5]'),
    ('redefine-routine', 'assign sqrt 5 define sqrt with x begin return 1 end'),
    # a macro is a constant: a loop may not make a variable of its name either
    ('assign-to-macro', 'define m 5 repeat with m from 1 to 2 begin print m end'),
    ('assign-to-macro', 'define m 5 repeat 3 with m cycle begin print m end'),
    ('assign-to-macro', 'define m 5 repeat all as m begin print m end'),
    ('assign-to-macro', 'define m 5 repeat in "a" as lamp with m from 1 to 2 begin print m end'),
    ('assign-to-macro', 'define m 5 repeat group as m begin print m end'),
    ('assign-to-macro', 'define m 5 define f begin repeat with m from 1 to 2 begin print m end end'),
    ('redefine-macro', 'define m 5 repeat with m from 1 to 2 begin print m end define m 6 print m'),
    # … a built-in routine is a routine: its name cannot be defined again either
    ('redefine-routine', 'define round with x begin return {x * 100} end'),
    ('redefine-routine', 'print [round 2.6] define round with x begin return {x * 100} end print [round 2.6]'),
    ('redefine-routine', 'define random with low high begin return low end'),
    ('redefine-routine', 'define f begin print 1 end print 2 define f with a begin print a end'),
    ('malformed-time', 'time at 24:00'), ('malformed-time', 'time at 23:59 or 24:00'),
    ('malformed-time', 'define midnight 24:00'), ('malformed-time', 'time at 2*:60'),
    ('undefined-name', 'hue xyz'),
    ('undefined-name', 'set lamp'),
    ('undefined-name', 'assign a {b + 1}'),
    ('undefined-name', 'nosuch 1 2'),
    ('undefined-name', 'print [nosuch 1]'),
    ('malformed-loop', 'repeat with i in "Top" hue 5'),
    ('malformed-loop', 'repeat with i in "Top" and "Candle" begin hue 5 end'),
    ('number-too-long', 'hue ' + '1' * 4301),
    ('number-too-long', 'print {3 + ' + '9' * 5000 + '}'),
    # a name that exists only inside a routine (parameter, local, the routine's loop variables) is
    # undefined outside it
    ('undefined-name', 'define show with level print level show 10 assign next {level + 1}'),
    ('undefined-name', 'define show with level rate begin print level end show 1 2 hue rate'),
    ('undefined-name', 'define f begin assign loc 1 print loc end f print loc'),
    ('undefined-name', 'define f begin repeat with idx from 1 to 2 print idx end f print idx'),
    ('undefined-name', 'define f begin repeat all as lamp print lamp end f set lamp'),
    ('undefined-name', 'define f with p begin print p end define g begin print p end f 1 g'),
    ('undefined-name', 'assign y y'),
    ('undefined-name', 'repeat with i from 1 to i begin print i end'),
    ('undefined-name', 'repeat 3 with i from i to 5 begin print i end'),
    ('undefined-name', 'repeat 4 with i cycle i begin print i end'),
    ('undefined-name', 'repeat all as L with i from 1 to i begin print i end'),
    ('nested-define', 'define f begin define g begin print 1 end end'),
    ('missing-end', 'repeat 2 begin hue 5'),
    ('missing-end', 'define f begin hue 5'),
    ('missing-end', 'if {1 > 0} begin hue 5'),
    ('missing-end', 'set "Candle" begin stage row 0'),
    ('unbalanced', 'hue {1 + 2'),
    ('unbalanced', 'hue {(1 + 2}'),
    ('unbalanced', 'hue {1 + 2)}'),
    ('unbalanced', 'hue [round 2'),
    ('unbalanced', 'hue 1 }'),
    ('unbalanced', 'print ]'),
    ('malformed-time', 'time at 25:00'),
    ('malformed-time', 'time at 12:60'),
    ('malformed-time', 'time at 8:0'),
    ('malformed-time', 'time at 8:00 or'),
    ('malformed-time', 'time at'),
    ('malformed-time', 'define t 3*:00'),
    ('return-outside-routine', 'return 5'),
    ('return-outside-routine', 'if {1 > 0} return'),
]


def _nests():
    """every nesting of loop / if / routine definition / matrix block, three levels deep"""
    parts = {
        'loop': ('repeat 2 begin {} end', True),
        'if': ('if {{1 > 0}} begin {} end', True),
        'define': ('define fn{n} begin {} end', False),
        'matrix': ('set "Candle" begin stage row 0 {} end', False),
    }
    out = []
    import itertools
    for combo in itertools.product(parts, repeat=3):
        if combo.count('define') > 1:
            continue        # nested definitions are rejected by rule
        if any(combo[i] == 'matrix' and 'matrix' in combo[i + 1:] for i in range(3)):
            continue        # nested matrix blocks are rejected by rule
        text = 'hue 5'
        for n, kind in enumerate(reversed(combo)):
            text = parts[kind][0].format(text, n=n)
        out.append(text)
    return out


NESTS = _nests()

# accepted scripts that must be executable: commands to other lights inside a matrix block (they
# load the NAME register; the block's result goes to the light named in the `set`).  The second
# and third were aborted with AttributeError in Machine._color_matrix_light before 9355d2b.
MATRIX_NAME = [
    'hue 10 set "Candle" begin on "Top" stage row 0 end',
    'set "light_1" begin set "Candle" zone 4 4 stage column 1 row 1 1 end',
    'brightness 8 set "Top" begin set "Candle" zone 4 4 assign x1 61.25 stage column 1 row 1 1 end '
    'assign x2 81 print x2',
    'assign who "Top" set who begin assign who "Candle" stage row 0 end',
    'define f begin set "Top" begin stage row 0 end end set "Candle" begin stage row 1 f end',
]


def _scope_cases(max_depth=4):
    """`break` at every position of every nesting (up to four levels) of loop / if / routine
    definition / matrix block.  The documented rule, stated independently of the compiler:
    `break` is allowed iff, going outwards from it, a `repeat` is met before any routine
    definition or matrix block (a routine body and a matrix block start with no loop around
    them).  A position is `inside the innermost body` or `after the k innermost constructs have
    been closed`."""
    import itertools
    parts = {'loop': 'repeat 2 begin print {n} {body} end',
             'if': 'if {{1 > 0}} begin print {n} {body} end',
             'define': 'define fn{n} begin print {n} {body} end',
             'matrix': 'set "Candle" begin stage row 0 {body} end'}
    out = []
    for depth in range(1, max_depth + 1):
        for combo in itertools.product(parts, repeat=depth):
            if combo.count('define') > 1 or combo.count('matrix') > 1:
                continue
            for closed in range(0, depth):        # how many innermost constructs are closed
                open_path = combo[:depth - closed]
                text = 'print 0' if closed else 'break'
                for level in range(depth - 1, -1, -1):
                    text = parts[combo[level]].format(n=level + 1, body=text)
                    if closed and level == depth - closed:
                        text = text + ' break'
                legal = False
                for kind in reversed(open_path):
                    if kind == 'loop':
                        legal = True
                        break
                    if kind in ('define', 'matrix'):
                        break
                out.append((text, 'accept' if legal else 'reject', '/'.join(combo) + '@' + str(closed)))
    return out


SCOPES = _scope_cases()


def _form_cases():
    """every statement form, in its smallest and its degenerate shapes (empty blocks, optional
    parts left out, a block where an operand is expected), in every kind of body: top level, loop,
    if/else, routine (called from the top level, from a loop, from inside a matrix block), matrix
    block, loop inside a matrix block.  The compiler may accept or reject each; what it accepts
    must run without an internal fault."""
    leaves = [
        'stage', 'stage row 0', 'stage column 1 2', 'stage row 0 1 column 1', 'stage begin end',
        'stage begin stage row 0 end', 'stage begin hue 5 end', 'stage all', 'stage default',
        'get', 'get row 0', 'get column 1', 'get all', 'get "Top"', 'get "Candle"', 'get "Strip"',
        'get begin end', 'get default',
        'set "Candle" begin end', 'set "Candle" begin begin end end', 'set "Candle" row 0',
        'set "Candle" column 9', 'set "Top" begin end', 'set "Top" row 0', 'set "Strip" zone 1',
        'set "Strip" zone 1 begin end', 'set "Strip" begin end', 'set default', 'set all',
        'set group "Pole" begin end', 'set "Candle" and "Top" begin end', 'set "Candle" begin end and "Top"',
        'set "nosuch" begin stage end', 'set "Candle" begin get end', 'set "Candle" begin get all end',
        'on all', 'off all', 'on "Candle"', 'on "Candle" row 0', 'on "Candle" begin end', 'off default',
        'on "Strip" zone 1', 'on group "Pole"', 'off location "Home"',
        'begin end', 'begin begin end end', 'repeat begin break end', 'repeat 0 begin end',
        'repeat 2 begin end', 'if {1} begin end', 'if {0} begin end else begin end',
        'repeat all as L begin end', 'repeat group as G begin end', 'repeat location as G begin end',
        'repeat in "Top" as L begin end', 'repeat in "Top" and group "Pole" as L with i from 1 to 2 begin end',
        'repeat in group "nosuch" as L begin set L end', 'repeat 3 with i cycle begin end',
        'repeat with i from 1 to 0 begin end', 'repeat while {0} begin end',
        'define g begin end g', 'define g with a begin end g 1', 'define g begin return end print [g]',
        'define g return 5 hue [g]', 'return', 'return 5', 'break',
        'wait', 'units raw', 'units rgb', 'units logical', 'print', 'println', 'printf ""', 'printf "{}"',
        'print 1', 'println "x"', 'printf "{}" 1', 'assign v', 'assign v 1', 'define m', 'define m 1',
        'hue', 'hue 5', 'time 0', 'duration 0', 'time at 8:00', 'breakpoint',
    ]
    contexts = [
        '{S}',
        'repeat 2 begin {S} end',
        'if {{1 > 0}} begin {S} end else begin {S} end',
        'define f begin {S} end f',
        'define f begin {S} end repeat 2 begin f end',
        'define f begin {S} end set "Candle" begin f end',
        'define f begin {S} end set "Candle" begin stage row 1 f f end',
        'set "Candle" begin {S} end',
        'set "Candle" begin repeat 2 begin {S} end end',
        'set "Candle" begin if {{0}} begin {S} end else begin {S} end end',
        'define f with a begin {S} end f 1 [f 2]',
    ]
    return [c.format(S=leaf) for c in contexts for leaf in leaves]


FORMS = _form_cases()


# the token-level parser model (Model/ParseTok.lean): its theorems belong to C06
PARSETOK_MODULES = ['Bardolph.Props.C06Parse', 'Bardolph.Proofs.ParseTokBase',
                    'Bardolph.Proofs.ParseTokPrim', 'Bardolph.Proofs.ParseTokRv',
                    'Bardolph.Proofs.ParseTokStmt', 'Bardolph.Proofs.ParseTokTerm',
                    'Bardolph.Proofs.ParseTokTop', 'Bardolph.Proofs.ParseTokLex',
                    'Bardolph.Proofs.ParseTokNum']


def parse_text_tie(chk, inputs, stats):
    """the tie between the real parser and the model `ParseTok` (driver command `parse.text`):
    every fixed text (rules, nestings, scope cases) and a seeded sample of the generated inputs
    go to both; outcome class, line and text of every message and — for an accepted text — the
    whole instruction list must agree.  Texts with white space / digits outside the lexer
    model's domain are skipped and counted."""
    import parsetok_check as ptc
    from bardolph.parser.parse import Parser
    fixed = [(s, t) for s, t in inputs if s.startswith('rule:') or s == 'nest' or s == 'scope']
    rest = [(s, t) for s, t in inputs if not (s.startswith('rule:') or s in ('nest', 'scope'))]
    k = min(len(rest), 20000 if chk.thorough else 3000)
    sample = fixed + chk.rng.sample(rest, k)
    tie = {'requested': len(sample), 'outside_lexer_model': 0, 'compared': 0, 'differences': 0,
           'by_outcome': {}}
    cases = []
    seen = set()
    for stream, text in sample:
        if text in seen:
            continue
        seen.add(text)
        if ptc.outside_lexer_model(text):
            tie['outside_lexer_model'] += 1
            continue
        cases.append((stream, text))
    impl = [ptc.impl_outcome(Parser, t) for _, t in cases]
    answers = ptc.ask_parallel([('parse.text', [t]) for _, t in cases])
    chk.driver.lines += len(cases)
    for (stream, text), im, ans in zip(cases, impl, answers):
        mo = ptc.model_outcome(ans)
        tie['compared'] += 1
        tie['by_outcome'][im[0]] = tie['by_outcome'].get(im[0], 0) + 1
        if not ptc.same(im, mo):
            tie['differences'] += 1
            chk.disagreement('parse.text', {'stream': stream, 'text': text[:300]},
                             ptc.show(im)[:400], ptc.show(mo)[:400])
    stats['parse_text_tie'] = tie


def main():
    chk = Check('C06', extra_modules=['Bardolph.Proofs.Closed', 'Bardolph.Proofs.ClosedGen', 'Bardolph.Proofs.ClosedSplit', 'Bardolph.Proofs.ClosedLoad'] + PARSETOK_MODULES)
    chk.lean_phase(sections=set())
    env.configure_basic()
    rng = chk.rng
    internal = internal_words()
    stats = {'inputs': 0, 'by_stream': {}, 'outcomes': {}, 'executed': 0, 'exec_outcomes': {},
             'data_faults': {}, 'rules': 0}
    n = 120000 if chk.thorough else 15000
    inputs = []
    for i in range(n):
        k = i % 10
        if k < 5:
            inputs.append(('soup', token_soup(rng, internal)))
        elif k < 9:
            deep = rng.random() < 0.5
            prog, _pop = progs.generate(rng, size=rng.choice([2, 4, 8]), max_depth=4 if deep else 3,
                                        features={'nested_define': deep})
            text = progs.render(prog)
            if k == 8:
                # valid scripts, deeply nested (definitions inside if/repeat bodies, matrix blocks
                # inside routines inside loops …): must be accepted and executable
                inputs.append(('valid', text))
                continue
            for _ in range(rng.choice([1, 1, 2, 3])):
                text = mutate(rng, text)
            inputs.append(('mutant', text))
        else:
            inputs.append(('noise', noise(rng)))
    for name, text in RULES:
        inputs.append(('rule:' + name, text))
    for text in NESTS + MATRIX_NAME:
        inputs.append(('valid', text))
    for text, expect, _label in SCOPES:
        inputs.append(('valid' if expect == 'accept' else 'rule:break-outside-loop', text))
    for text in FORMS:
        inputs.append(('form', text))
    stats['form_cases'] = len(FORMS)
    fixed_texts = [('rule:' + n, t) for n, t in RULES] + [('nest', t) for t in NESTS] + \
        [('scope', t) for t, _e, _l in SCOPES]
    stats['scope_cases'] = len(SCOPES)
    stats['rules'] = len(RULES)
    for stream, text in inputs:
        stats['inputs'] += 1
        stats['by_stream'][stream.split(':')[0]] = stats['by_stream'].get(stream.split(':')[0], 0) + 1
        outcome, detail, job = compile_text(text)
        chk.count()
        stats['outcomes'][outcome] = stats['outcomes'].get(outcome, 0) + 1
        if outcome == 'raised':
            chk.violation('compiler-raises:' + detail.split(':')[0],
                          'the compiler raised ' + detail, {'text': text})
            continue
        if outcome == 'hang':
            chk.violation('compiler-hangs', detail, {'text': text})
            continue
        if outcome in ('silent-reject', 'bad-message'):
            chk.violation('rejection-without-line-numbered-message',
                          'rejected with messages {!r}'.format(detail), {'text': text})
            continue
        if outcome == 'accept-with-errors':
            chk.violation('accepted-although-errors-were-reported',
                          'accepted, yet the compiler reported: ' + detail, {'text': text})
            continue
        if stream.startswith('rule:') and outcome != 'reject':
            chk.violation('documented-rule-not-enforced:' + stream[5:],
                          'text breaking the rule "{}" is accepted'.format(stream[5:]), {'text': text})
            continue
        if stream == 'valid' and outcome == 'reject':
            chk.violation('valid-script-rejected', 'a well-formed script is rejected: ' + detail.strip()[:100],
                          {'text': text})
            continue
        if outcome == 'reject':
            if job.program is not None:
                chk.violation('rejected-text-leaves-a-program', 'program left after rejection',
                              {'text': text})
            else:
                chk.nontrivial_case(('r', text))
            continue
        # accepted: it must be executable without an internal fault
        stats['executed'] += 1
        ex_outcome, ex_detail = execute(job, POP)
        stats['exec_outcomes'][ex_outcome] = stats['exec_outcomes'].get(ex_outcome, 0) + 1
        if ex_outcome == 'escaped':
            chk.violation('exception-escapes-the-vm', ex_detail, {'text': text})
        elif ex_outcome == 'aborted':
            kind = classify_fault(ex_detail)
            if 'pushing None' in ex_detail:
                # reading a variable (or a loop variable) that was never assigned at run time is
                # the script's own error; pushing None for any other operand is an internal fault
                m = re.search(r'at instruction (\d+)', ex_detail)
                try:
                    inst = job._machine._program[int(m.group(1))]
                    from bardolph.vm.vm_codes import OpCode, Register
                    # … a variable that was never assigned, or the result of a routine that
                    # returned nothing (`return` without a value) used as an operand
                    if inst.op_code is OpCode.PUSH and (isinstance(inst.param0, str) or
                                                         inst.param0 is Register.RESULT):
                        kind = 'data'
                        ex_detail = ex_detail.replace('pushing None onto eval stack',
                                                      'read of an unassigned variable or of "nothing"')
                except Exception:  # noqa
                    pass
            if kind == 'data':
                key = re.sub(r'at instruction \d+', '', ex_detail)[24:70]
                stats['data_faults'][key] = stats['data_faults'].get(key, 0) + 1
                chk.nontrivial_case(('a', text))
            else:
                chk.violation('accepted-script-hits-internal-fault:' +
                              re.sub(r'[^A-Za-z_ \']', '', re.sub(r'at instruction \d+', '', ex_detail)[24:64]).strip(),
                              'accepted, then: ' + ex_detail, {'text': text, 'classification': kind})
        else:
            chk.nontrivial_case(('a', text))
    # a job object that already holds an accepted program is given a text that is rejected (from a
    # string and from a file): nothing may be left to run
    import tempfile
    from bardolph.controller.script_job import ScriptJob
    rejected_texts = [t for _n, t in RULES] + ['on all hue', 'on all set all break', 'on all assign 5 5',
                                                'on all define m 1 assign m 2', 'on all hue {1 +', 'on all repeat 2 begin off all']
    # the other way round: a job whose previous text was REJECTED in the middle of a loop, a
    # routine, a matrix block or an expression is given each rule-breaking text; the rule must be
    # enforced as on a new job
    poisons = ['repeat 2 begin nosuch end', 'define f begin repeat 3 begin hue nosuch end end',
               'set "Candle" begin stage row 0 nosuch', 'repeat all as x begin repeat 2 begin print {x +',
               'define g with a begin if {a > 0} begin return nosuch end end', 'define m 5 define r begin nosuch']
    stats['rules_after_failed_compile'] = 0
    for name, rule_text in RULES:
        if len(rule_text) > 400:
            continue
        for poison in poisons:
            job = ScriptJob()
            job.load_string(poison)
            job.load_string(rule_text)
            stats['rules_after_failed_compile'] += 1
            chk.count()
            if job.program is not None:
                chk.violation('documented-rule-not-enforced:' + name + ':after-failed-compile',
                              'text breaking the rule "{}" is accepted by a job whose previous text '
                              '{!r} was rejected'.format(name, poison),
                              {'first': poison, 'text': rule_text})
    stats['reused_jobs'] = 0
    for k, bad_text in enumerate(rejected_texts):
        for via in ('string', 'file'):
            job = ScriptJob()
            job.load_string('on all set all print 1')
            if via == 'string':
                job.load_string(bad_text)
            else:
                with tempfile.NamedTemporaryFile('w', suffix='.ls', delete=False) as f:
                    f.write(bad_text)
                try:
                    job.load_file(f.name)
                finally:
                    os.unlink(f.name)
            stats['reused_jobs'] += 1
            chk.count()
            outcome, _detail = execute(job, POP)
            sent = simnet.device_calls(simnet.SimLan.net)
            if job.program or sent:
                chk.violation('rejected-text-leaves-a-program',
                              'a job that held an accepted program was given the rejected text {!r} (from a {}): '
                              'it keeps {} instruction(s) and running it sends {} device command(s)'.format(
                                  bad_text[:50], via, len(job.program or []), len(sent)),
                              {'first': 'on all set all print 1', 'second': bad_text, 'via': via})
            else:
                chk.nontrivial_case(('reuse', via, bad_text))
    run_pumps(chk, pump_inputs(rng, chk.thorough) + expr_inputs(rng, chk.thorough), stats)
    # ---- tie: real parser vs the model ParseTok on the fixed texts and a seeded sample
    parse_text_tie(chk, fixed_texts + [(s, t) for s, t in inputs if not s.startswith('rule:')],
                   stats)
    chk.sample({'stream': 'soup', 'text': inputs[0][1]})
    chk.sample({'stream': 'mutant', 'text': inputs[5][1][:200]})
    chk.sample({'stream': 'noise', 'text': repr(inputs[9][1])})
    chk.coverage['distribution'] = stats
    chk.coverage['rule'] = (
        'three input streams through ScriptJob.load_string: token soup over the vocabulary '
        '(keywords, register words, names, literals, punctuation, internal token-class names in '
        'three case variants), mutations of valid generated scripts (token deletion, duplication, '
        'swap, truncation, substitution) and character noise; fixed texts for each documented '
        'rule; and pump inputs (prefix + one short unit repeated 24 to 3000 times + suffix: deep '
        'nesting, long runs of escapes, digits, colons, operators) compiled in a child process '
        'under a 10 s deadline each.  Violation: an exception, a hang, a rejection without a `Line n:` message, an accepted '
        'text that left error messages, a rule-breaking text that is accepted, a rejected text '
        'that left a program, or an accepted text whose execution on three simulated lights ends in '
        'an internal VM fault (data errors such as division by zero are allowed and counted); '
        'non-trivial = distinct input with a proper outcome.  Tie: all rule / nesting / scope texts '
        'and a seeded sample of the generated inputs are parsed by the real parser AND by the Lean '
        'model ParseTok (driver `parse.text`); outcome class, line and text of every message and the '
        'instruction list of an accepted text must be identical (a difference breaks the '
        'correspondence, it is not a violation of the property)')
    chk.assumptions += ['the keyboard read of `pause` is answered by a stub',
                        'run-time errors of the script\'s own data (division by zero, arithmetic on '
                        'a string, a format spec the value does not support) are not internal faults',
                        'accepted scripts are executed for at most 0.5 s (then stopped)',
                        'the parser model does not model Python\'s recursion limit (a text nested '
                        'some hundred levels deep is rejected by the real parser with "Too many '
                        'nested levels.", accepted by the model); no generated input is that deep',
                        'texts with non-ASCII white space or digits are outside the lexer model and '
                        'are not compared with the parser model (counted in parse_text_tie)']
    if chk.thorough:
        chk.leanchecker()
    chk.finish()


if __name__ == '__main__':
    run_check(main)
