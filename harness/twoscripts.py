"""Two scripts running at the same time in one process (a background job next to the queued one —
what the web front end does for `run_background` scripts) must each behave as when run alone:
every Machine has its own evaluation stack, pending print values, registers, call stack and clock.

Real threads, the production clock binding (`clock.configure()`, 10 ms tick), simulated lights.
Each script computes expressions whose operands stay pending across delays (a routine that waits
is called in the middle of `{100 - [slow 1]}`, of a `printf` value list, of a loop header), so the
other script runs while they are pending.  Oracle: the values each script prints when both run
together are the values it prints when run alone.  Used by C02 (expression values), C19 (printf
values) and C17 (independence of jobs)."""
import threading
import time


def script(tag, d1, d2, k):
    """tag: 11111 / 22222 (first thing printed: identifies the thread); d1, d2: delays"""
    return '''
define slow with x begin time {d1} wait time 0 return x end
define slower with x begin time {d2} wait time 0 return x end
print {tag}
assign a {{ {k}00 - [slow 1] }}
print a
printf "P {{}} {{}} {{}}" {k} [slower 2] {{ 3 + [slow 4] }}
assign n 0
repeat with i from 1 to [slow 3] begin assign n {{ n + i * [slower 1] }} end
print n
assign b {{ [slow 5] * {k} + [slower 6] }}
print b
printf "P {{}} {{a}} {{}}" [slow 7] {{ {k} - [slower 8] }}
if {{ [slow {k}] > 0 and [slower 1] > 0 }} print 77 else print 88
on all
print {{ a + b }}
'''.format(tag=tag, d1=d1, d2=d2, k=k)


class TaggedOutput:
    """stands in for the injected Output: records (thread ident, kind, text)"""

    def __init__(self):
        self.rows = []
        self.lock = threading.Lock()

    def out(self, text):
        with self.lock:
            self.rows.append((threading.get_ident(), 'out', str(text)))

    def newline(self):
        with self.lock:
            self.rows.append((threading.get_ident(), 'nl', ''))

    def flush(self):
        pass


def _setup():
    import simnet
    from bardolph.lib import clock as clock_mod, i_lib, injection, job_control, settings
    from bardolph.controller.script_job import ScriptJob
    from bardolph.vm import machine as machine_mod
    import runimpl
    net, ls, trace = simnet.install([{'label': 'A1', 'kind': 'plain'}, {'label': 'B1', 'kind': 'plain'}])
    clock_mod.configure()
    settings.Settings._the_config['sleep_time'] = 0.01
    out = TaggedOutput()
    injection.bind_instance(out).to(i_lib.Output)
    shim = runimpl.LogShim()
    machine_mod.logging = shim
    return out, shim, job_control, ScriptJob


def _project(rows, tag):
    """the texts written by the thread that printed `tag` first"""
    ident = next((r[0] for r in rows if r[1] == 'out' and r[2] == str(tag)), None)
    return [r[2] for r in rows if r[0] == ident and r[1] == 'out']


def _run(texts, together):
    out, shim, jc_mod, ScriptJob = _setup()
    jc = jc_mod.JobControl()
    jobs = [ScriptJob.from_string(t) for t in texts]
    if any(j.program is None for j in jobs):
        raise RuntimeError('concurrent: template rejected: ' + str([j.compile_errors for j in jobs]))
    if together:
        jc.spawn_job(jobs[0], 'bg')
        jc.add_job(jobs[1], 'fg')
        deadline = time.monotonic() + 20
        while (jc.is_running('bg') or jc.has_jobs()) and time.monotonic() < deadline:
            time.sleep(0.01)
        hung = jc.is_running('bg') or jc.has_jobs()
        jc.stop_background()
        jc.stop_current()
    else:
        hung = False
        for j in jobs:
            j.execute()
    faults = [m for m in shim.errors if m.startswith('Machine stopped')]
    return out.rows, faults, hung


def _alone(text):
    rows, faults, _ = _run([text], together=False)
    return [r[2] for r in rows if r[1] == 'out'], faults


def isolation_cases(rng, n):
    """-> list of problems: dict(kind='expr'|'printf'|'fault', what, replay)"""
    problems = []
    checked = 0
    for _ in range(n):
        d = [rng.choice([0.02, 0.03, 0.05]) for _ in range(4)]
        ka, kb = rng.choice([2, 3, 5]), rng.choice([4, 7, 9])
        texts = [script(11111, d[0], d[1], ka), script(22222, d[2], d[3], kb)]
        solo = {11111: _alone(texts[0])[0], 22222: _alone(texts[1])[0]}
        both_rows, faults, hung = _run(texts, together=True)
        checked += 1
        for tag, text in ((11111, texts[0]), (22222, texts[1])):
            alone, both = solo[tag], _project(both_rows, tag)
            if alone != both or faults or hung:
                k = next((i for i, (x, y) in enumerate(zip(alone, both)) if x != y), min(len(alone), len(both)))
                bad = (both[k] if k < len(both) else '<nothing>')
                want = (alone[k] if k < len(alone) else '<nothing>')
                kind = 'printf' if str(want).startswith('P ') or str(bad).startswith('P ') else 'expr'
                problems.append({
                    'kind': 'fault' if faults and alone[:k] == both[:k] and k >= len(both) else kind,
                    'what': 'run next to another script, a script writes {!r} where it writes {!r} when run alone '
                            '(output #{}){}{}'.format(bad, want, k, '; the machine stopped: ' + faults[0] if faults else '',
                                                      '; did not finish' if hung else ''),
                    'replay': {'scripts': texts, 'alone': alone, 'together': both, 'faults': faults,
                               'how': 'harness/twoscripts.py: background job + queued job, real threads and clock'}})
                break
    return problems, checked
