#!/usr/bin/env python3
"""C11 — time-of-day patterns match exactly the times they denote; alternatives mean OR."""
import itertools
import sys
import os

sys.path.insert(0, os.path.dirname(os.path.abspath(__file__)))
from core import Check, run_check  # noqa: E402
import env  # noqa: E402

ALPHA = '0123456789*:'
DIG = '0123456789'


# ---------------------------------------------------------------- specification (independent)
def spec_fields(s):
    """declarative syntax: H ':' M followed by end or white space"""
    i = s.find(':')
    if i not in (1, 2):
        return None
    H, after = s[:i], s[i + 1:]
    if len(H) == 1:
        if not (H == '*' or H in DIG):
            return None
    else:
        a, b = H
        ok = ((a == '*' and b in DIG) or (a in DIG and b == '*') or (a in DIG and b in DIG))
        if not ok:
            return None

    def rest_ok(r):
        return r == '' or r[0].isspace()
    if len(after) >= 2:
        a, b = after[0], after[1]
        two = ((a in DIG and b in DIG) or (a in DIG and b == '*') or (a == '*' and b in DIG))
        if two and rest_ok(after[2:]):
            return H, after[:2]
    if len(after) >= 1 and after[0] == '*' and rest_ok(after[1:]):
        return H, '*'
    return None


def pos_agrees(c, digit):
    return c == '*' or int(c) == digit


def hour_agrees(H, h):
    if H == '*':
        return True
    if len(H) == 1:
        return int(H) == h
    return pos_agrees(H[0], h // 10) and pos_agrees(H[1], h % 10)


def min_agrees(M, m):
    if M == '*':
        return True
    return pos_agrees(M[0], m // 10) and pos_agrees(M[1], m % 10)


def spec_bits(s):
    """None if the text must be rejected, else (hour bitstring, minute bitstring)"""
    f = spec_fields(s)
    if f is None:
        return None
    H, M = f
    hb = [hour_agrees(H, h) for h in range(24)]
    mb = [min_agrees(M, m) for m in range(60)]
    if not any(hb) or not any(mb):
        return None
    return hb, mb


def to_hex(bits):
    bits = list(bits)
    while len(bits) % 4:
        bits.append(False)
    out = []
    for i in range(0, len(bits), 4):
        v = (8 if bits[i] else 0) + (4 if bits[i + 1] else 0) + (2 if bits[i + 2] else 0) + \
            (1 if bits[i + 3] else 0)
        out.append('0123456789abcdef'[v])
    return ''.join(out)


def well_formed_patterns():
    hours = ['*'] + ['*' + d for d in DIG] + [d + '*' for d in DIG] + \
        [a + b for a in DIG for b in DIG] + list(DIG)
    minutes = [a + b for a in DIG for b in DIG] + [d + '*' for d in DIG] + \
        ['*' + d for d in DIG] + ['*']
    return [h + ':' + m for h in hours for m in minutes]


# ---------------------------------------------------------------- implementation access
def impl_bits(TP, s):
    try:
        p = TP.from_string(s)
    except Exception as ex:  # noqa
        return 'raised:' + type(ex).__name__
    if p is None:
        return None
    hb = [any(p.match(h, m) for m in range(60)) for h in range(24)]
    mb = [any(p.match(h, m) for h in range(24)) for m in range(60)]
    return p, hb, mb


def impl_matrix(p):
    return [p.match(h, m) for h in range(24) for m in range(60)]


def compile_accepts(Parser, text):
    parser = Parser()
    try:
        return bool(parser.parse(text)), parser
    except Exception as ex:  # noqa
        return 'raised:' + type(ex).__name__, parser


def other_script_ends(chk, stats, simnet, clock_mod, settings_mod, ScriptJob):
    """a script waits for a time of day that is half a day away while another script runs and
    ENDS (or is stopped): the wait goes on — a `time at` wait ends at a minute its patterns match
    and at no other event.  Production clock binding (`clock.configure()`), real threads."""
    import datetime
    import time as _time
    from bardolph.lib import injection, i_lib, job_control
    net, ls, trace = simnet.install([{'label': 'A', 'kind': 'plain'}, {'label': 'B', 'kind': 'plain'}])
    clock_mod.configure()
    settings_mod.Settings._the_config['sleep_time'] = 0.01
    now = datetime.datetime.now()
    far = now + datetime.timedelta(hours=11, minutes=17)
    far2 = now + datetime.timedelta(hours=7, minutes=41)
    waits = ['time at {}:{:02d} on "A"'.format(far.hour, far.minute),
             'time at {}:{:02d} or {}:{:02d} on "A"'.format(far.hour, far.minute, far2.hour, far2.minute),
             'define t {}:{:02d} time at t wait on "A"'.format(far2.hour, far2.minute)]
    others = [('ends', 'on "B" off "B"'), ('ends-after-delay', 'time 0.05 on "B" off "B"'),
              ('stopped', 'repeat begin on "B" time 0.02 wait end')]
    stats['waits_with_another_script'] = 0
    for wait_text in waits:
        for how, other in others:
            jc = job_control.JobControl()
            net.clear_log()
            waiting = ScriptJob.from_string(wait_text)
            jc.spawn_job(waiting, 'waiting')
            _time.sleep(0.05)
            jc.add_job(ScriptJob.from_string(other), 'other')
            _time.sleep(0.15)
            if how == 'stopped':
                jc.stop_current()
            deadline = _time.monotonic() + 3
            while jc.get_current() is not None and jc.is_running('other') and _time.monotonic() < deadline:
                _time.sleep(0.01)
            _time.sleep(0.2)
            fired = [e for e in net.events if e[0] == 'A']
            still_waiting = jc.is_running('waiting')
            jc.stop_background()
            jc.stop_current()
            waiting.request_stop()
            deadline = _time.monotonic() + 3
            while jc.is_running('waiting') and _time.monotonic() < deadline:
                _time.sleep(0.01)
            chk.count()
            stats['waits_with_another_script'] += 1
            if fired or not still_waiting:
                chk.violation('time-at-wait-ended-by-another-script',
                              '`{}` (half a day away) while another script ({}) {}: the waiting script {}'.format(
                                  wait_text, other, how,
                                  'sent {}'.format(fired[:2]) if fired else 'ended'),
                              {'waiting_script': wait_text, 'other_script': other, 'other': how,
                               'how': 'harness/c11.py other_script_ends: production clock binding, real threads'})
            else:
                chk.nontrivial_case(('other-script', wait_text.split(' on ')[0][:8], how, len(wait_text)))
    injection.bind(clock_mod.Clock).to(i_lib.Clock)


def main():
    chk = Check('C11')
    chk.lean_phase(sections={'TimePattern'})
    env.configure_basic()
    from bardolph.lib.time_pattern import TimePattern as TP
    from bardolph.parser.parse import Parser
    from bardolph.vm.machine import Machine
    from bardolph.vm.instruction import Instruction
    from bardolph.vm.vm_codes import OpCode, SetOp
    from bardolph.lib import i_lib, injection
    rng = chk.rng
    stats = {}
    requests = []      # (cmd, args, impl_answer, case description)

    # ---- 1. every well-formed pattern x every time of day: impl vs spec, impl vs model
    wf = well_formed_patterns()
    assert len(wf) == 15851
    full_product = set(rng.sample(range(len(wf)), 1500 if not chk.thorough else len(wf)))
    n_acc = 0
    for idx, s in enumerate(wf):
        spec = spec_bits(s)
        impl = impl_bits(TP, s)
        chk.count()
        if isinstance(impl, str):
            chk.violation('from_string-raises', 'TimePattern.from_string raises', {'text': s, 'impl': impl})
            continue
        if (spec is None) != (impl is None):
            chk.violation(
                'accepts-unmatchable' if spec is None else 'rejects-valid',
                'from_string({!r}) {} but the pattern {}'.format(
                    s, 'accepted' if impl is not None else 'rejected',
                    'can match no time of day' if spec is None else 'denotes some time of day'),
                {'text': s, 'expected_accept': spec is not None})
            answer = 'none' if impl is None else 'some ?'
        elif spec is None:
            answer = 'none'
        else:
            n_acc += 1
            p, hb, mb = impl
            answer = 'some {} {}'.format(to_hex(hb), to_hex(mb))
            chk.nontrivial_case(('wf', s))
            if hb != spec[0] or mb != spec[1]:
                bad_h = [h for h in range(24) if hb[h] != spec[0][h]]
                bad_m = [m for m in range(60) if mb[m] != spec[1][m]]
                chk.violation(
                    'match-differs-from-positions',
                    'pattern {!r}: hours {} / minutes {} are matched wrongly'.format(s, bad_h, bad_m),
                    {'text': s, 'wrong_hours': bad_h, 'wrong_minutes': bad_m})
            elif idx in full_product:
                mat = impl_matrix(p)
                want = [spec[0][h] and spec[1][m] for h in range(24) for m in range(60)]
                chk.count(1440)
                if mat != want:
                    k = next(i for i in range(1440) if mat[i] != want[i])
                    chk.violation('match-not-a-product',
                                  'pattern {!r} at {}:{:02d}'.format(s, k // 60, k % 60),
                                  {'text': s, 'hour': k // 60, 'minute': k % 60})
        requests.append(('tp.from', [s], answer, s))
    stats['well_formed'] = len(wf)
    stats['well_formed_accepted'] = n_acc
    stats['full_product_checked'] = len(full_product)
    chk.sample({'pattern': '1*:*5', 'impl': requests[0][2]})

    # ---- 2. all strings over the alphabet up to length L: accepted iff spec says so
    L = 6 if chk.thorough else 5
    n_str = n_str_acc = 0
    model_sample = []
    for n in range(0, L + 1):
        for tup in itertools.product(ALPHA, repeat=n):
            s = ''.join(tup)
            n_str += 1
            spec = spec_bits(s)
            try:
                p = TP.from_string(s)
            except Exception as ex:  # noqa
                chk.violation('from_string-raises', 'from_string raises', {'text': s, 'ex': repr(ex)})
                continue
            if (spec is None) != (p is None):
                chk.violation(
                    'accepts-malformed' if spec is None else 'rejects-valid',
                    'from_string({!r}) = {!r}'.format(s, p), {'text': s})
            if p is not None:
                n_str_acc += 1
            elif n <= 4 or rng.random() < (0.02 if not chk.thorough else 0.005):
                model_sample.append(s)
    chk.count(n_str)
    stats['strings_enumerated'] = n_str
    stats['strings_max_len'] = L
    stats['strings_accepted'] = n_str_acc
    for s in model_sample:
        requests.append(('tp.from', [s], 'none', s))
    # strings with trailing white space / junk after the pattern
    for s in ['8:00 ', '8:00\t', '8:00x', ' 8:00', '8:0', '8:000', '*:* ', '23:59\n', '1:23*', '8:00:', '']:
        spec = spec_bits(s)
        impl = impl_bits(TP, s)
        if (spec is None) != (impl is None):
            chk.violation('accepts-malformed' if spec is None else 'rejects-valid',
                          'from_string({!r})'.format(s), {'text': s})
        requests.append(('tp.from', [s], 'none' if impl is None else
                         'some {} {}'.format(to_hex(impl[1]), to_hex(impl[2])), s))

    # ---- 3. compile-time acceptance of `time at <text>` through the real lexer and parser
    Lc = 5 if chk.thorough else 4
    comp = []
    for n in range(1, Lc + 1):
        for tup in itertools.product(ALPHA, repeat=n):
            comp.append(''.join(tup))
    extra = 20000 if not chk.thorough else 100000
    for _ in range(extra):
        n = rng.choice([5, 6])
        comp.append(''.join(rng.choice(ALPHA) for _ in range(n)))
    comp.extend(rng.sample(wf, 3000 if not chk.thorough else len(wf)))
    n_comp_acc = 0
    for s in comp:
        spec = spec_bits(s)
        got, parser = compile_accepts(Parser, 'time at ' + s)
        chk.count()
        if isinstance(got, str):
            chk.violation('compile-raises', 'compiling `time at {}` raises'.format(s),
                          {'script': 'time at ' + s, 'impl': got})
            continue
        if got:
            n_comp_acc += 1
        if got != (spec is not None):
            chk.violation(
                'compile-accepts-invalid' if got else 'compile-rejects-valid',
                '`time at {}` is {} by the compiler'.format(s, 'accepted' if got else 'rejected'),
                {'script': 'time at ' + s, 'errors': parser.get_errors()})
        elif not got and 'Line ' not in parser.get_errors():
            chk.violation('compile-reject-without-line',
                          '`time at {}` rejected without a line-numbered message'.format(s),
                          {'script': 'time at ' + s, 'errors': parser.get_errors()})
    # the same rule wherever else a pattern can be written: as a macro's value, as a later
    # alternative of an or-list, through a macro inside an or-list
    n_pos = 0
    for s in rng.sample(wf, 1500 if not chk.thorough else len(wf)):
        spec = spec_bits(s)
        for form in ('define t {}\ntime at t wait', 'time at 8:00 or {} wait',
                     'define t {}\ntime at 9:00 or t wait', 'define t {}\ndefine u t\ntime at u'):
            text = form.format(s)
            got, parser = compile_accepts(Parser, text)
            chk.count()
            n_pos += 1
            if isinstance(got, str):
                chk.violation('compile-raises', 'compiling `{}` raises'.format(text), {'script': text, 'impl': got})
            elif got != (spec is not None):
                chk.violation('compile-accepts-invalid' if got else 'compile-rejects-valid',
                              '`{}` is {} by the compiler although the pattern {} {}'.format(
                                  text.replace('\n', ' / '), 'accepted' if got else 'rejected', s,
                                  'can match no time of day' if spec is None else 'is valid'),
                              {'script': text, 'errors': parser.get_errors()})
    stats['compiled_in_other_positions'] = n_pos
    stats['compiled'] = len(comp)
    stats['compiled_accepted'] = n_comp_acc
    # `or` lists at compile time, including non-pattern operands
    for text, want in [('time at 8:00 or 9:30', True), ('time at 8:00 or', False),
                       ('time at 8:00 or 25:00', False), ('time at 24:00 or 9:30', False),
                       ('time at 8:00 or 9:30 or *:15', True), ('time at 5', False),
                       ('time at "8:00"', False), ('time at', False),
                       ('define t 8:00 time at t', True), ('define t 8:00 time at t or t', True),
                       ('define n 5 time at n', False), ('define s "x" time at s', False),
                       ('define t 8:00 time at 9:00 or s', False)] + \
            [('time at ' + ' or '.join(['12:00', '13:30', '*:15'][:k] + [bad] + ['14:00', '2*:0*', '7:07'][:n - k - 1]),
              False)
             for bad in ('25:00', '12:60', '3*:00', '24:00', '1:6*', '99:99', '5', '"8:00"', 'nosuch')
             for n in (2, 3, 4) for k in range(n)] + \
            [('time at 12:00 or 13:30 or *:15 or 2*:0*', True), ('define n 5 time at 12:00 or n or 13:00', False),
             ('define t 8:00 time at 12:00 or t or 13:00', True)]:
        got, parser = compile_accepts(Parser, text)
        chk.count()
        if got is not want:
            chk.violation('compile-or-list-' + ('accepts-invalid' if got else 'rejects-valid'),
                          '`{}` -> {}'.format(text, got), {'script': text, 'errors': parser.get_errors()})

    # ---- 4. alternatives: INIT/UNION through the real VM instruction, matrix vs spec OR
    accepted = [s for s in wf if spec_bits(s) is not None]
    reduced = [s for s in accepted if all(c in '0259*:' for c in s)]
    stats['reduced_alphabet_patterns'] = len(reduced)
    spec_mat = {}

    def smat(s):
        if s not in spec_mat:
            hb, mb = spec_bits(s)
            v = 0
            for h in range(24):
                for m in range(60):
                    v = (v << 1) | (1 if (hb[h] and mb[m]) else 0)
            spec_mat[s] = v
        return spec_mat[s]

    def imat(p):
        v = 0
        for h in range(24):
            for m in range(60):
                v = (v << 1) | (1 if p.match(h, m) else 0)
        return v

    def hexmat(v):
        return '{:0360x}'.format(v)

    lists = []
    if chk.thorough:
        pairs = list(itertools.product(reduced, repeat=2))
        lists.extend(rng.sample(pairs, 20000))
    else:
        for _ in range(1500):
            lists.append((rng.choice(reduced), rng.choice(reduced)))
    for _ in range(600 if not chk.thorough else 6000):
        k = rng.choice([2, 3, 3, 4])
        lists.append(tuple(rng.choice(accepted) for _ in range(k)))
    lists.append(('8:00', '9:30'))
    trace = []
    env.configure_basic(trace)
    n_or = 0
    for lst in lists:
        pats = [TP.from_string(s) for s in lst]
        if any(p is None for p in pats):
            continue
        before = [imat(p) for p in pats]
        machine = Machine()
        machine.reset()
        prog = [Instruction(OpCode.TIME_PATTERN, SetOp.INIT, pats[0])] + \
            [Instruction(OpCode.TIME_PATTERN, SetOp.UNION, p) for p in pats[1:]] + \
            [Instruction(OpCode.WAIT)]
        # the unit mode in force is no part of what a pattern means: `units raw` / `units rgb`
        # before the `time at`, or between it and the wait
        from bardolph.controller.units import UnitMode
        from bardolph.vm.vm_codes import Register
        variant = n_or % 5
        if variant in (1, 2):
            prog.insert(0, Instruction(OpCode.MOVEQ, UnitMode.RAW if variant == 1 else UnitMode.RGB,
                                       Register.UNIT_MODE))
        elif variant in (3, 4):
            prog.insert(len(prog) - 1, Instruction(OpCode.MOVEQ, UnitMode.RAW if variant == 3 else UnitMode.RGB,
                                                   Register.UNIT_MODE))
        stats.setdefault('or_list_unit_variants', {}).setdefault(variant, 0)
        stats['or_list_unit_variants'][variant] += 1
        del trace[:]
        machine.run(prog)
        n_or += 1
        chk.count(1440)
        waits = [t for t in trace if t[0] == 'wait_until']
        if len(waits) != 1:
            chk.violation('or-list-no-wait', 'WAIT after TIME_PATTERN did not wait for a pattern '
                          '(unit-mode variant {})'.format(variant),
                          {'patterns': lst, 'trace': repr(trace), 'unit_variant': variant})
            continue
        got = imat(waits[0][1])
        want = 0
        for s in lst:
            want |= smat(s)
        chk.nontrivial_case(('or', lst))
        if got != want:
            diff = got ^ want
            k = 1439 - (diff.bit_length() - 1)
            chk.violation(
                'or-is-not-or',
                '`time at {}` {} {}:{:02d}'.format(
                    ' or '.join(lst), 'fires at' if (got >> (1439 - k)) & 1 else 'misses',
                    k // 60, k % 60),
                {'patterns': lst, 'hour': k // 60, 'minute': k % 60})
        after = [imat(p) for p in pats]
        if after != before:
            i = next(i for i in range(len(pats)) if after[i] != before[i])
            chk.violation('pattern-mutated-by-use',
                          'executing `time at {}` changed what operand {} ({}) matches'.format(
                              ' or '.join(lst), i, lst[i]),
                          {'patterns': lst, 'operand': i})
        requests.append(('tp.or', list(lst), hexmat(got), lst))
    stats['or_lists'] = n_or
    chk.sample({'or_list': ['8:00', '9:30'], 'fires_at_8_30': bool((smat('8:00') | smat('9:30')) >> (1439 - 510) & 1)})

    # ---- 5. purity across arbitrary instruction sequences and across runs (heap model)
    n_vm = 0
    for _ in range(300 if not chk.thorough else 3000):
        k = rng.randint(1, 4)
        texts = [rng.choice(accepted) for _ in range(k)]
        pats = [TP.from_string(s) for s in texts]
        instrs = [('i', rng.randrange(k))]
        for _ in range(rng.randint(0, 6)):
            instrs.append((rng.choice('iuu'), rng.randrange(k)))
        machine = Machine()
        machine.reset()
        prog = [Instruction(OpCode.TIME_PATTERN, SetOp.INIT if c == 'i' else SetOp.UNION, pats[a])
                for c, a in instrs] + [Instruction(OpCode.WAIT)]
        before = [imat(p) for p in pats]
        del trace[:]
        runs = rng.choice([1, 2, 3])
        for _ in range(runs):
            machine.reset()
            machine.run(prog)
        n_vm += 1
        chk.count()
        after = [imat(p) for p in pats]
        waits = [t for t in trace if t[0] == 'wait_until']
        final = hexmat(imat(waits[-1][1])) if waits else 'unset'
        if after != before:
            i = next(i for i in range(k) if after[i] != before[i])
            chk.violation('pattern-mutated-by-use',
                          'running {} changed pattern {} ({})'.format(instrs, i, texts[i]),
                          {'patterns': texts, 'instrs': instrs, 'runs': runs})
        answer = ' '.join([hexmat(v) for v in after] + [final])
        requests.append(('tp.vm', [k] + texts + ['{}:{}'.format(c, a) for c, a in instrs], answer,
                         (texts, instrs)))
        chk.nontrivial_case(('vm', tuple(texts), tuple(instrs)))
    # a macro pattern reused in a loop and after an `or`, through the compiler
    script = 'define m 8:00\nrepeat 3 begin time at m or 9:30 wait end\ntime at m wait\n'
    from bardolph.controller.script_job import ScriptJob
    del trace[:]
    job = ScriptJob.from_string(script)
    if job.program is None:
        chk.violation('compile-rejects-valid', 'macro time pattern script rejected',
                      {'script': script, 'errors': job.compile_errors})
    else:
        job.execute()
        waits = [imat(t[1]) for t in trace if t[0] == 'wait_until']
        want = [smat('8:00') | smat('9:30')] * 3 + [smat('8:00')]
        chk.count()
        if waits != want:
            chk.violation('pattern-mutated-by-use',
                          'macro pattern changes across uses in a loop',
                          {'script': script,
                           'waits_fire_at_9_30': [bool(w >> (1439 - 570) & 1) for w in waits]})
    stats['vm_sequences'] = n_vm

    # ---- 6. the real Clock.wait_until returns at the first matching minute
    from bardolph.lib import clock as clock_mod
    n_wait = 0
    for _ in range(300 if not chk.thorough else 3000):
        lst = [rng.choice(accepted) for _ in range(rng.choice([1, 1, 2, 3]))]
        pat = TP.from_string(lst[0])
        for s in lst[1:]:
            pat.union(TP.from_string(s))
        start = rng.randrange(1440)
        want_mat = 0
        for s in lst:
            want_mat |= smat(s)
        # what the wall clock reads at each successive tick: minute after minute; or several
        # ticks within a minute; or a clock that is stepped between two ticks (an hour or two later
        # in the same minute — daylight saving, a resume from suspend —, set back, half a day on)
        mode = ('steady', 'ticks', 'stepped', 'stepped')[n_wait % 4]
        if mode == 'steady':
            steps = [1] * 1500
        elif mode == 'ticks':
            steps = [rng.choice([0, 0, 1]) for _ in range(4500)]
        else:
            steps = [rng.choice([1, 1, 1, 0, 60, 60, 120, 61, 59, 720, 1380, 1439, 180])
                     for _ in range(1500)]
        readings = [start]
        for st_ in steps:
            readings.append((readings[-1] + st_) % 1440)
        hit = next((i for i, r in enumerate(readings) if (want_mat >> (1439 - r)) & 1), None)
        expect = None if hit is None else (readings[hit], hit)
        state = {'now': start, 'steps': 0}
        clk = clock_mod.Clock()

        def fake_hm():
            return (state['now'] // 60, state['now'] % 60)

        def fake_wait():
            if state['steps'] >= len(steps):
                raise RuntimeError('never fires')
            state['now'] = (state['now'] + steps[state['steps']]) % 1440
            state['steps'] += 1
            return True
        orig = clock_mod.Clock._hour_minute
        clock_mod.Clock._hour_minute = staticmethod(fake_hm)
        clk.wait = fake_wait
        try:
            clk.wait_until(pat)
            got = (state['now'], state['steps'])
        except RuntimeError:
            got = None
        finally:
            clock_mod.Clock._hour_minute = orig
        n_wait += 1
        chk.count()
        # tie: the model's `waitUntil` (theorem C11_wait_ends_at_first_match) on the same readings
        upto = (hit + 2) if hit is not None else min(len(readings), 200)
        requests.append(('tp.wait', [str(len(lst))] + list(lst) +
                         ['{},{}'.format(r // 60, r % 60) for r in readings[:upto]],
                         'never' if hit is None else str(hit),
                         {'patterns': lst, 'readings': readings[:upto]}))
        if got != expect:
            chk.violation('wait-returns-at-wrong-minute',
                          '`time at {}` from {}:{:02d}, clock {}: returned at (minute of day, tick) {} instead '
                          'of {}'.format(' or '.join(lst), start // 60, start % 60, mode, got, expect),
                          {'patterns': lst, 'start': start, 'got': got, 'expect': expect, 'clock': mode,
                           'readings': readings[:(hit or 0) + 3] if mode != 'steady' else None})
    stats['virtual_waits'] = n_wait

    # ---- correspondence: the Lean model on the same requests
    answers = chk.driver.ask_many([(c, a) for c, a, _, _ in requests])
    n_dis = 0
    for (cmd, args, impl_answer, case), model_answer in zip(requests, answers):
        if impl_answer.endswith('?'):
            continue
        if impl_answer != model_answer:
            n_dis += 1
            chk.disagreement(cmd, case, impl_answer[:80], model_answer[:80])
    stats['model_requests'] = len(requests)
    stats['model_disagreements'] = n_dis
    # "…and by no other combination of their fields": the REAL Clock.wait_until on a wall clock
    # that moves between any two readings of it, started a few readings before a minute or an
    # hour ends (shared with C10: harness/c10.py drift_cases)
    import c10
    import simnet
    from bardolph.lib import clock as clock_mod, settings as settings_mod
    from bardolph.controller.script_job import ScriptJob
    simnet.install(c10.POP, settings_overrides={'sleep_time': 0.25})
    c10.drift_cases(chk, (clock_mod, settings_mod, TP, ScriptJob), stats)
    other_script_ends(chk, stats, simnet, clock_mod, settings_mod, ScriptJob)
    chk.coverage['distribution'] = stats
    chk.coverage['rule'] = (
        'all 15851 syntactically well-formed patterns (each against its 24 hour and 60 minute '
        'positions; the full 24x60 product for a subset, all in the thorough tier); every string '
        'over 0-9*: up to length {} through from_string and up to length {} (+ random longer) '
        'through the real lexer/parser; or-lists through the real TIME_PATTERN/WAIT instructions; '
        'the real Clock.wait_until under virtual time that advances 1/1024 s per reading of the clock, '
        'started 1-3 readings before a minute / an hour ends; '
        'non-trivial = accepted pattern or or-list, distinct by text'.format(L, Lc))
    chk.coverage['rule'] += " Added late: wait_until over generated sequences of clock readings (steady, several ticks per minute, stepped) against the model's waitUntil (theorem C11_wait_ends_at_first_match); and, as a TEST in real time (not a proof), a `time at` wait half a day away while another script ends."
    chk.coverage['exhaustive'] = True
    chk.assumptions += [
        'ASCII digits and ASCII white space only (Python \\d and \\s also accept other Unicode digits/spaces)',
        'the clock thread is replaced by a virtual minute counter for the wait_until check',
    ]
    if chk.thorough:
        chk.leanchecker()
    chk.finish()


if __name__ == '__main__':
    run_check(main)
