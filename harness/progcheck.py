"""Shared engine of the program-level checks (C01–C05, C15, C17 …).

For a batch of generated (AST, population) cases it
  * compiles and runs the script text through the REAL stack on the simulated network,
  * asks the Lean model for: `gen.prog` (model code generator on the AST), `vm.run` (model
    loader + VM on the implementation's own compiled program), `sem.run` (source-level
    semantics of the AST), `vm.wfimage` (proved checker on the implementation's loaded image),
  * reports
      - violation  : the implementation's trace differs from the source-level semantics
                     (the property's oracle), or its image is rejected by the proved checker;
      - disagreement: model code generator / model VM differ from the implementation
                     (the tie), which by itself is not a violation.
"""
import sys

import progs
import runimpl
import vmwire
from core import REPO, percent_encode

if REPO not in sys.path:
    sys.path.insert(0, REPO)

FUEL_VM = 60000
FUEL_SEM = 4000


class Case:
    def __init__(self, prog, pop, text=None, label=''):
        self.prog = prog
        self.pop = pop
        self.text = text if text is not None else progs.render(prog)
        self.label = label
        self.res = None


def loaded_image(program):
    from bardolph.vm.loader import Loader
    from bardolph.controller.routine import RuntimeRoutine
    ld = Loader()
    ld.load(program)
    code = ld.get_code()
    rts = {n: r for n, r in ld.get_routines().items() if not isinstance(r, RuntimeRoutine)}
    return code, rts


def image_request(code, rts):
    return ('vm.wfimage', [len(rts)] + ['{}={}'.format(vmwire._esc(n), r.get_address())
                                         for n, r in rts.items()] + vmwire.enc_program(code))


def shrink(case, still_fails, budget=60):
    """delete top-level statements (then nested ones) while the failure persists"""
    prog = list(case.prog)
    changed = True
    while changed and budget > 0:
        changed = False
        for i in range(len(prog)):
            cand = prog[:i] + prog[i + 1:]
            budget -= 1
            if budget <= 0:
                break
            try:
                if cand and still_fails(Case(cand, case.pop)):
                    prog = cand
                    changed = True
                    break
            except Exception:  # noqa: a candidate that no longer compiles is just skipped
                continue
    return Case(prog, case.pop)


def run_cases(chk, cases, oracle_sig='trace-differs-from-source-semantics', do_gen=True,
              do_vm=True, do_sem=True, do_wf=False, stats=None, slack=1, sem_filter=None):
    """returns per-case dicts; fills chk with violations / disagreements / counts"""
    stats = stats if stats is not None else {}
    for k in ('cases', 'rejected_by_compiler', 'timeouts', 'impl_faults', 'uninterpreted',
              'float_sensitive_skipped', 'float_range_skipped',
              'sem_mismatch', 'vm_mismatch', 'gen_mismatch', 'not_wf', 'events'):
        stats.setdefault(k, 0)
    runnable = []
    for c in cases:
        stats['cases'] += 1
        c.res = runimpl.run_script(c.text, c.pop)
        chk.count()
        if not c.res.compiled:
            stats['rejected_by_compiler'] += 1
            chk.violation('generated-script-rejected',
                          'a well-formed generated script is rejected: ' + c.res.errors.strip()[:120],
                          {'script': c.text, 'errors': c.res.errors, 'population': c.pop})
            continue
        if c.res.timeout:
            stats['timeouts'] += 1
            continue
        if c.res.float_range:
            # Python's float overflowed (OverflowError): the model's numbers are unbounded
            # rationals, so the run is outside the model
            stats['float_range_skipped'] += 1
            continue
        stats['events'] += len(c.res.events)
        runnable.append(c)
    reqs = []
    idx = []
    for c in runnable:
        lights = [vmwire.enc_light(s) for s in c.pop]
        mine = {}
        if do_gen:
            mine['gen'] = len(reqs)
            reqs.append(('gen.prog', [progs.to_sexp(c.prog)]))
        if do_vm:
            mine['vm'] = len(reqs)
            reqs.append(('vm.run', [FUEL_VM, len(c.pop)] + lights + vmwire.enc_program(c.res.program)))
        if do_sem:
            mine['sem'] = len(reqs)
            reqs.append(('sem.run', [FUEL_SEM, len(c.pop)] + lights + [progs.to_sexp(c.prog)]))
        if do_wf:
            code, rts = loaded_image(c.res.program)
            mine['wf'] = len(reqs)
            reqs.append(image_request(code, rts))
        idx.append(mine)
    answers = chk.driver.ask_many(reqs) if reqs else []
    out = []
    for c, mine in zip(runnable, idx):
        info = {'case': c}
        impl_fault = c.res.fault is not None
        if impl_fault:
            stats['impl_faults'] += 1
        if 'gen' in mine:
            model = answers[mine['gen']].split('\x1f') if answers[mine['gen']] else []
            impl = [percent_encode(x) for x in vmwire.enc_program(c.res.program)]
            if model != impl and vmwire.drop_self_moves(model) == vmwire.drop_self_moves(impl):
                stats['gen_equal_modulo_self_moves'] = stats.get('gen_equal_modulo_self_moves', 0) + 1
            elif model != impl:
                stats['gen_mismatch'] += 1
                k = next((i for i, (a, b) in enumerate(zip(impl, model)) if a != b),
                         min(len(impl), len(model)))
                chk.disagreement('gen.prog', {'script': c.text, 'index': k},
                                 impl[k] if k < len(impl) else '<end>',
                                 model[k] if k < len(model) else '<end>')
        if 'vm' in mine:
            status, pc, events = vmwire.dec_run(answers[mine['vm']])
            if status.startswith('uninterpreted') or status == 'running':
                stats['uninterpreted'] += 1
            else:
                ok, i, why = vmwire.events_match(c.res.events, events, slack)
                if (impl_fault != status.startswith('fault') or not ok) and c.res.float_sensitive:
                    pass    # counted below (float_sensitive_skipped)
                elif impl_fault != status.startswith('fault') or not ok:
                    stats['vm_mismatch'] += 1
                    chk.disagreement('vm.run', {'script': c.text, 'population': c.pop, 'why': why,
                                                'index': i, 'impl_fault': c.res.fault},
                                     repr(c.res.events[max(0, i - 1):i + 2]),
                                     status + ' ' + repr(events[max(0, i - 1):i + 2]))
        if 'sem' in mine:
            status, pc, events = vmwire.dec_run(answers[mine['sem']])
            info['sem_status'] = status
            if status.startswith('uninterpreted') or status == 'running':
                if 'vm' not in mine:
                    stats['uninterpreted'] += 1
            elif sem_filter is None or sem_filter(c, status, events):
                if impl_fault and status.startswith('fault'):
                    # both stop with a run-time error: the source semantics drops what the
                    # faulting statement had already emitted, so compare the common prefix
                    spec = [e for e in events if e[0] != 'FL']
                    ok, i, why = vmwire.events_match(c.res.events[:len(spec)], spec, slack)
                else:
                    ok, i, why = vmwire.events_match(c.res.events, events, slack)
                # a script the source semantics runs to the end must not fault in the VM, and
                # must produce the same commands, waits and output
                differs = (impl_fault and not status.startswith('fault')) or \
                    (not impl_fault and status.startswith('fault')) or not ok
                if differs and c.res.float_sensitive:
                    # the real run took a decision within floating-point rounding noise (see
                    # runimpl.install_float_watch); exact rationals decide it differently
                    stats['float_sensitive_skipped'] += 1
                    info['float_sensitive'] = c.res.float_sensitive[:3]
                elif differs:
                    stats['sem_mismatch'] += 1
                    info['violation'] = True
                    what = ('the VM aborts the script ({})'.format(c.res.fault) if impl_fault and
                            not status.startswith('fault') else
                            '{} at event {}: implementation {} / source semantics {}'.format(
                                why, i, c.res.events[i:i + 1], events[i:i + 1]))
                    chk.violation(oracle_sig + (':vm-abort' if impl_fault else ''), what,
                                  {'script': c.text, 'population': c.pop,
                                   'impl_events': repr(c.res.events[max(0, i - 2):i + 3]),
                                   'spec_events': repr(events[max(0, i - 2):i + 3]),
                                   'impl_fault': c.res.fault, 'spec_status': status})
                else:
                    chk.nontrivial_case(c.text)
        if 'wf' in mine:
            if answers[mine['wf']] != 'wf':
                stats['not_wf'] += 1
                info['not_wf'] = True
        out.append(info)
    return out
