#!/usr/bin/env python3
"""C01 — running a script issues exactly the commands, waits and output its source says."""
import os
import sys

sys.path.insert(0, os.path.dirname(os.path.abspath(__file__)))
from core import Check, run_check  # noqa: E402
import progcheck  # noqa: E402
import progs  # noqa: E402


def main():
    chk = Check('C01', extra_modules=['Bardolph.Props.C01Sim', 'Bardolph.Proofs.Sim', 'Bardolph.Proofs.SimX', 'Bardolph.Proofs.SimVals', 'Bardolph.Proofs.SimStmts', 'Bardolph.Proofs.SimFrame', 'Bardolph.Proofs.SimIter', 'Bardolph.Proofs.SimLoops', 'Bardolph.Proofs.SimLoad', 'Bardolph.Proofs.SimCalls', 'Bardolph.Proofs.SimTop', 'Bardolph.Proofs.SimReloc', 'Bardolph.Proofs.SimDefs'])
    chk.lean_phase(sections=set())
    rng = chk.rng
    n = 2500 if chk.thorough else 260
    stats = {}
    cases = []
    for i in range(n):
        deep = chk.thorough and i % 5 == 0
        if i % 4 == 3:
            # matrix blocks with rich bodies: a population with a matrix light, half of the `set`
            # commands matrix commands, definitions allowed inside blocks
            pop = progs.population(rng)
            if not any(s['kind'] == 'matrix' for s in pop):
                pop = [s for s in pop if s['label'] != 'Candle']
                pop.append({'label': 'Candle', 'group': 'Den', 'location': 'Office', 'kind': 'matrix',
                            'height': 3, 'width': 2, 'power': 0, 'color': [0, 0, 0, 3500],
                            'cells': [[0, 0, 0, 3500]] * 6})
            prog, pop = progs.generate(rng, pop=pop, size=12, max_depth=3,
                                       features={'matrix_p': 0.5, 'nested_define': True,
                                                 'weights': {'action': 8}})
            stats['matrix_heavy'] = stats.get('matrix_heavy', 0) + 1
        else:
            # every third of these: routines that write output themselves, called as later values
            # of a printf whose earlier values are pending meanwhile
            feats = {'printf_calls': True, 'shared_names': True, 'shadow': 0.7,
                     'weights': {'print': 7, 'define': 4, 'call': 4}} if i % 3 == 1 else None
            prog, pop = progs.generate(rng, size=20 if deep else 12, max_depth=4 if deep else 3,
                                       features=feats)
            if feats:
                stats['printf_with_printing_calls'] = stats.get('printf_with_printing_calls', 0) + 1
        cases.append(progcheck.Case(prog, pop))
    # fixed corpus: constructs the property names explicitly
    for text_prog in CORPUS:
        cases.append(progcheck.Case(text_prog[0], text_prog[1]))
    infos = progcheck.run_cases(chk, cases, stats=stats, do_wf=False)
    gen_vs_parsetok(chk, [i['case'] for i in infos], stats)
    for info in infos[:3]:
        c = info['case']
        chk.sample({'script': c.text[:400], 'lights': [s['label'] for s in c.pop],
                    'events': len(c.res.events)})
    kinds = {}
    for c in cases:
        for st in c.prog:
            kinds[st[0]] = kinds.get(st[0], 0) + 1
    stats['top_level_statement_kinds'] = kinds
    chk.coverage['distribution'] = stats
    chk.coverage['rule'] = (
        'scripts generated from the documented statement forms (harness/progs.py) on generated '
        'populations; each is compiled and run by the real stack on the simulated network and its '
        'trace (device commands, delays, output) compared with the source-level semantics (Lean '
        'Sem) = oracle, with the model VM on the real compiled program and with the model code '
        'generator = tie; a quarter of the scripts are matrix-heavy (matrix-block bodies with '
        'commands to other lights, wait, assignments, prints, get, if, loops, calls, definitions; '
        'stage inside routine bodies); Gen.genProgram is also compared with ParseTok.parse of the '
        'rendered text (gen-vs-parsetok); non-trivial = distinct script that ran to the end with '
        'matching trace')
    chk.assumptions += [
        'keyboard statements (pause/breakpoint) are not generated',
        'floats are modelled by exact rationals; printed floats compared up to 1e-9 relative',
        'transcendental built-ins and non-integer powers are uninterpreted (cases skipped, counted)',
    ]
    if chk.thorough:
        chk.leanchecker()
    chk.finish()


def gen_vs_parsetok(chk, cases, stats):
    """the two Lean models of the compiler against each other: `Gen.genProgram` on the AST
    (driver `gen.prog`, what the simulation theorem is about) and `ParseTok.parse` on the
    rendered text (driver `parse.text`, the model of the real parser, tied to it in C06/C16);
    instruction lists compared modulo `MOVE x x` as in the tie with the real program"""
    import parsetok_check as ptc
    import vmwire
    from core import percent_encode
    todo = [c for c in cases if not ptc.outside_lexer_model(c.text)]
    reqs = []
    for c in todo:
        reqs.append(('gen.prog', [progs.to_sexp(c.prog)]))
        reqs.append(('parse.text', [c.text]))
    answers = chk.driver.ask_many(reqs) if reqs else []
    tie = {'compared': 0, 'differences': 0, 'not_accepted_by_parsetok': 0}
    for k, c in enumerate(todo):
        gen = answers[2 * k].split('\x1f') if answers[2 * k] else []
        po = ptc.model_outcome(answers[2 * k + 1])
        tie['compared'] += 1
        if po[0] != 'accept':
            tie['not_accepted_by_parsetok'] += 1
            tie['differences'] += 1
            chk.disagreement('gen-vs-parsetok', {'script': c.text[:400]}, ptc.show(po)[:300],
                             '{} instructions'.format(len(gen)))
            continue
        par = [percent_encode(ptc.canon_instr(w)) for w in po[1]]
        if gen != par and vmwire.drop_self_moves(gen) != vmwire.drop_self_moves(par):
            tie['differences'] += 1
            j = next((i for i, (a, b) in enumerate(zip(par, gen)) if a != b), min(len(par), len(gen)))
            chk.disagreement('gen-vs-parsetok', {'script': c.text[:400], 'index': j},
                             par[j] if j < len(par) else '<end>', gen[j] if j < len(gen) else '<end>')
    stats['gen_vs_parsetok'] = tie


def _corpus():
    pop = [{'label': 'Top', 'group': 'Pole', 'location': 'Home', 'kind': 'plain'},
           {'label': 'Middle', 'group': 'Pole', 'location': 'Home', 'kind': 'plain'},
           {'label': 'Lamp', 'group': 'Den', 'location': 'Home', 'kind': 'plain'},
           {'label': 'Strip', 'group': 'Den', 'location': 'Office', 'kind': 'multizone',
            'zones': [[0, 0, 0, 3500]] * 8},
           {'label': 'Candle', 'group': 'Den', 'location': 'Office', 'kind': 'matrix',
            'height': 3, 'width': 2}]
    num = lambda v: ('num', v)  # noqa
    out = []
    # group / location fan-out with a duration, `and` sharing one delay
    out.append(([('setreg', 'duration', num(2)), ('setreg', 'time', num(1.5)),
                 ('setreg', 'hue', num(120)), ('setreg', 'saturation', num(50)),
                 ('setreg', 'brightness', num(25)), ('setreg', 'kelvin', num(2700)),
                 ('action', 'on', [('group', ('str', 'Pole'))]),
                 ('action', 'set', [('light', ('str', 'Top')), ('light', ('str', 'Lamp')),
                                    ('location', ('str', 'Office'))]),
                 ('action', 'off', [('location', ('str', 'Home')), ('group', ('str', 'Den'))]),
                 ('action', 'set', 'all'), ('action', 'off', 'all')], pop))
    # routine defined after use sites' definitions, inside an if body, called from a loop
    out.append(([('assign', 'x', num(1)),
                 ('if', ('expr', ('bin', '==', ('var', 'x'), num(1))),
                  [('define', 'f', ['a'], [('print', ('var', 'a')), ('return', ('expr', ('bin', '*', ('var', 'a'), num(2))))]),
                   ('print', num(1))], None),
                 ('print', num(2)),
                 ('repeat', ('count', num(3)), [('assign', 'x', ('call', 'f', [('var', 'x')]))]),
                 ('println', ('var', 'x'))], pop))
    # break leaves only the innermost loop
    out.append(([('repeat', ('range', 'i', num(1), num(3)),
                  [('repeat', ('range', 'j', num(1), num(3)),
                    [('if', ('expr', ('bin', '==', ('var', 'j'), num(2))), [('break',)], None),
                     ('print', ('expr', ('bin', '+', ('bin', '*', ('var', 'i'), num(10)), ('var', 'j'))))]),
                   ('println', ('var', 'i'))])], pop))
    # a routine that returns from inside two nested loops (the outer one over lights), called
    # from a loop over other lights and from inside an expression: resumes right after the call
    v = lambda n: ('var', n)  # noqa
    out.append(([('define', 'deep', ['k'],
                  [('repeat', ('all', 'M', None),
                    [('repeat', ('count', num(3)),
                      [('if', ('expr', ('bin', '>', v('k'), num(0))), [('return', v('k'))], None)])]),
                   ('return', num(0))]),
                 ('repeat', ('in', [('light', ('str', 'Top')), ('light', ('str', 'Lamp')),
                                    ('light', ('str', 'Strip'))], 'L', None),
                  [('print', ('call', 'deep', [num(2)])), ('action', 'on', [('light', v('L'))])]),
                 ('print', ('expr', ('bin', '+', num(100), ('call', 'deep', [num(2)]))))], pop))
    # routine definitions nested in an `if` branch with `else` and in a loop body whose `break`
    # jumps over one of them (the loader shortens three jumps of the main code): the eighth example
    # of Props/C01Sim.lean, and a variant whose `else` branch runs
    for first in (1, 0):
        out.append(([('if', ('expr', ('bin', '>', num(first), num(0))),
                      [('define', 'sq', ['x'], [('return', ('expr', ('bin', '*', v('x'), v('x'))))]),
                       ('print', num(1))],
                      [('print', num(2))]),
                     ('repeat', ('count', num(2)),
                      [('print', ('call', 'sq', [num(3)])),
                       ('define', 'fact', ['n'],
                        [('if', ('expr', ('bin', '<=', v('n'), num(1))), [('return', num(1))], None),
                         ('return', ('expr', ('bin', '*', v('n'),
                                              ('call', 'fact', [('expr', ('bin', '-', v('n'), num(1)))]))))]),
                       ('if', ('expr', ('bin', '>', ('call', 'fact', [num(3)]), num(5 if first else 50))),
                        [('break',)], None),
                       ('print', num(99))]),
                     ('println', ('call', 'fact', [num(4)]))], pop))
    # a routine defined inside the body of a matrix block, called after it
    out.append(([('setreg', 'hue', num(10)),
                 ('action', 'set', [('matrix_block', ('str', 'Candle'),
                                     [('define', 'f', [], [('print', num(7))]),
                                      ('stage', (num(0), None), None, False)])]),
                 ('call', 'f', []), ('print', num(3))], pop))
    # commands to other lights inside a matrix block load the NAME register; the block's matrix
    # still reaches the light named in the `set` (repository fix 9355d2b); a block on a light
    # without a matrix, with a command to a matrix light inside, sends nothing and does not abort
    stage0 = ('stage', (num(0), None), None, False)
    out.append(([('setreg', 'hue', num(10)),
                 ('action', 'set', [('matrix_block', ('str', 'Candle'),
                                     [('action', 'on', [('light', ('str', 'Top'))]), stage0,
                                      ('action', 'set', [('light', ('str', 'Lamp'))])])]),
                 ('print', num(3))], pop))
    out.append(([('action', 'set', [('matrix_block', ('str', 'Top'),
                                     [('action', 'set', [('zone', ('str', 'Candle'), num(4), num(4))]),
                                      ('stage', (num(1), num(1)), (num(1), None), True)])]),
                 ('print', num(1))], pop))
    # every edge between unit modes with a duration and a delay pending: the commands and waits
    # before and after the switch carry the durations the source says
    import itertools
    for a, b, c in itertools.permutations(['logical', 'raw', 'rgb'], 3):
        dur, tm = (1500, 2000) if a == 'raw' else (1.5, 2)
        out.append(([('units', a), ('setreg', 'duration', num(dur)), ('setreg', 'time', num(tm)),
                     ('action', 'set', [('light', ('str', 'Top'))]),
                     ('units', b), ('action', 'set', [('light', ('str', 'Lamp'))]),
                     ('action', 'on', [('group', ('str', 'Pole'))]), ('wait',),
                     ('units', c), ('action', 'set', [('light', ('str', 'Middle'))]),
                     ('action', 'off', 'all'), ('wait',),
                     ('units', a), ('action', 'set', 'all'), ('print', ('reg', 'duration')),
                     ('print', ('reg', 'time'))], pop))
    # "a routine call runs the routine's body with the given arguments": the arguments are the
    # caller's values, also when a later argument names a caller variable called like one of
    # the routine's EARLIER parameters (statement call, bracketed call, a self-call swapping them)
    v = lambda n: ('var', n)  # noqa
    out.append(([('assign', 'a', num(1)), ('assign', 'b', num(2)),
                 ('define', 'show', ['a', 'b'], [('print', v('a')), ('print', v('b'))]),
                 ('define', 'diff', ['a', 'b'], [('return', ('expr', ('bin', '-', v('a'), v('b'))))]),
                 ('define', 'flip', ['a', 'b', 'n'],
                  [('print', v('a')), ('print', v('b')),
                   ('if', ('expr', ('bin', '>', v('n'), num(0))),
                    [('call', 'flip', [v('b'), v('a'), ('expr', ('bin', '-', v('n'), num(1)))], False)], None)]),
                 ('call', 'show', [v('b'), v('a')], False),
                 ('print', ('call', 'diff', [v('b'), ('expr', ('bin', '+', v('a'), num(0)))])),
                 ('call', 'flip', [v('a'), v('b'), num(2)], False),
                 ('print', v('a')), ('print', v('b'))], pop))
    return out


CORPUS = _corpus()

if __name__ == '__main__':
    run_check(main)
